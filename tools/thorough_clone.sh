#!/bin/sh
# Development aid (not a registered command): every THOROUGH check once, in a clone of /verif against a copy of /repo.
set -e
rm -rf /tmp/vthor /tmp/vthor_repo
mkdir -p /tmp/vthor_repo
git -C /repo archive HEAD | tar -x -C /tmp/vthor_repo; cp /repo/go.sum /tmp/vthor_repo/go.sum
rsync -a --exclude build --exclude replays /verif/ /tmp/vthor/
sed -i 's#=> /repo#=> /tmp/vthor_repo#' /tmp/vthor/harness/go.mod
cd /tmp/vthor
mkdir -p build
: > build/thorough_result.log
for p in "$@"; do
  t0=$(date +%s)
  VERIF_REPO=/tmp/vthor_repo bin/vcheck $p --tier thorough > build/th_$p.log 2>&1 || true
  echo "$p $(( $(date +%s) - t0 ))s: $(tail -n 1 build/th_$p.log | cut -c1-200)" >> build/thorough_result.log
  grep -A2 '^VIOLATION' build/th_$p.log | head -6 >> build/thorough_result.log || true
done
echo finished >> build/thorough_result.log
