"""C01 — expressions evaluate per the DSL's arithmetic, comparison and logic semantics."""
import itertools
from langgen import *  # noqa

PID = "C01"
BINOPS = ["+", "-", "*", "/", "==", "!=", "<", ">", "<=", ">=", "&&", "||"]
KINDS = INT_T + UINT_T + FLOAT_T + ["s", "b"]


def ret_case(cid, e, inject, **kw):
    return make_case(cid, block([], ("expr", e)), inject, **kw)


def operand_for(op_left, op_right, rng):
    """An operand literal that keeps `x op y` well-typed as far as possible: numbers for arithmetic and
    ordering, booleans next to && ||."""
    if (op_left in ("&&", "||") or op_left is None) and (op_right in ("&&", "||") or op_right is None):
        return const(kbool(rng.random() < 0.5))
    return const(kint(rng.choice([1, 2, 3, 5, 7, 11, 13, -2, 0])))


def make_cases(rng, tier):
    cases = []
    cid = 0
    # (a) operator-pair and operator-triple matrix: precedence and associativity of the real parser
    for ops in itertools.product(BINOPS, repeat=2):
        operands = [operand_for(None, ops[0], rng), operand_for(ops[0], ops[1], rng), operand_for(ops[1], None, rng)]
        cases.append(ret_case(cid, flat_to_tree(operands, list(ops)), [])); cid += 1
    triples = list(itertools.product(BINOPS, repeat=3))
    for ops in (rng.sample(triples, 150) if tier == "quick" else triples):
        operands = [operand_for(None, ops[0], rng)] + [operand_for(ops[i], ops[i + 1], rng) for i in range(2)] + [operand_for(ops[2], None, rng)]
        cases.append(ret_case(cid, flat_to_tree(operands, list(ops)), [])); cid += 1
    # (b) kind-pair matrix x operators, boundary operands
    pairs = list(itertools.product(KINDS, repeat=2))
    for (ka, kb) in pairs:
        for op in (["+", "-", "*", "/", "==", "<", ">="] if tier == "quick" else ["+", "-", "*", "/"] + list(COP)):
            a, b = rand_scalar(rng, ka), rand_scalar(rng, kb)
            e = flat_to_tree([var("a"), var("b")], [op])
            cases.append(ret_case(cid, e, [inj_val("a", a), inj_val("b", b)])); cid += 1
    # (c) exact integer comparison / wrap-around / truncating division at the boundaries
    specials = [("i64", 2 ** 53 + 1, "i64", 2 ** 53), ("u64", 2 ** 64 - 1, "i64", -1), ("u64", 2 ** 64 - 1, "u64", 2 ** 64 - 2),
                ("i64", 2 ** 63 - 1, "u64", 2 ** 63), ("i64", -2 ** 63, "i64", -1), ("i64", 2 ** 63 - 1, "i64", 1), ("i64", -7, "i64", 2),
                ("u64", 2 ** 63, "i64", 2), ("i8", -128, "u8", 255), ("u64", 9007199254740993, "f64", None), ("i64", 7, "i64", 0), ("u8", 7, "u8", 0)]
    # the platform-sized kinds int and uint are 64 bits wide too: the same exactness, between themselves and against the sized kinds
    for ka, kb in (("i", "i"), ("u", "u"), ("i", "u"), ("u", "i"), ("i", "i64"), ("u64", "u"), ("i32", "i"), ("u", "u16")):
        for za, zb in ((2 ** 53 + 1, 2 ** 53), (2 ** 62 + 1, 2 ** 62), (2 ** 63 - 1, 2 ** 63 - 2), (2 ** 53, 2 ** 53 + 1)):
            if any(k in BITS and z >= 2 ** (BITS[k] - (0 if k[0] == "u" else 1)) for k, z in ((ka, za), (kb, zb))):
                continue
            specials.append((ka, za, kb, zb))
    specials += [("u", 2 ** 63 + 1, "u", 2 ** 63), ("u", 2 ** 64 - 1, "u64", 2 ** 64 - 2), ("u", 2 ** 63 + 1, "i", 2 ** 62)]
    for (ka, za, kb, zb) in specials:
        for op in ["+", "-", "*", "/"] + list(COP):
            a = tv_int(ka, za)
            b = tv_int(kb, zb) if zb is not None else tv_float("f64", 9007199254740992.0)
            cases.append(ret_case(cid, flat_to_tree([var("a"), var("b")], [op]), [inj_val("a", a), inj_val("b", b)])); cid += 1
    # tiny, denormal and huge float divisors / operands: only an exact zero divisor may fail
    for za, fb in itertools.product([5, -3, 0], [2.5e-10, -1e-12, 5e-324, 1e-300, 1e308, 4.9e-324]):
        for op in ["/", "*", "<", "=="]:
            cases.append(ret_case(cid, flat_to_tree([var("a"), var("b")], [op]), [inj_val("a", tv_int("i64", za)), inj_val("b", tv_float("f64", fb))])); cid += 1
    for lit in ["0.0000000005", "1e-10", "1e-300"]:
        cases.append(ret_case(cid, emath(mk_mbin("/", matom(const(kint(1))), matom(const(kreal(lit))))), [])); cid += 1
        cases.append(ret_case(cid, emath(mk_mbin("/", matom(const(kreal("3.0"))), mk_mbin("*", matom(const(kreal(lit))), matom(const(kreal(lit)))))), [])); cid += 1
    # integer literals are DECIMAL whatever their spelling: leading zeros, digits 8 and 9 after a zero
    for (z, text) in [(10, "010"), (8, "008"), (19, "0019"), (-100, "-0100"), (0, "00"), (17, "017"), (7, "0000007")]:
        cases.append(ret_case(cid, emath(matom(const(kint(z, text)))), [])); cid += 1
        cases.append(ret_case(cid, emath(mk_mbin("+", matom(const(kint(z, text))), matom(const(kint(5))))), [])); cid += 1
        cases.append(ret_case(cid, mk_ecmp("==", emath(matom(const(kint(z, text)))), emath(matom(const(kint(z))))), [])); cid += 1
    cases.append(ret_case(cid, emath(mk_mbin("+", matom(const(kreal("1.5"))), matom(const(kint(10, "010"))))), [])); cid += 1
    for bf in ["+0", "-0"]:
        cases.append(ret_case(cid, flat_to_tree([var("a"), var("b")], ["/"]), [inj_val("a", tv_int("i64", 5)), inj_val("b", {"t": "f64", "c": bf})])); cid += 1
    # (d) metadata constants
    for name in ["17", " 42 ", "-5", "+8", "x9", "9223372036854775807", "9223372036854775808", "1_0", "rule a", "0"]:
        for k in ["atname", "atid", "atdesc", "atsal"]:
            cases.append(ret_case(cid, emath(matom(const((k,)))), [], name=name, desc="some desc", sal=rng.choice([-4, 0, 12]))); cid += 1
    # metadata belongs to the ENCLOSING rule: a rule without description / salience / numeric name that follows, in the same text,
    # a rule that has them must not inherit anything (name "100" before "alpha": @id of alpha is 0)
    for k in ["atname", "atid", "atdesc", "atsal"]:
        for (pn, pd, ps), (n, d, sl) in [(("100", "dprev", 50), ("alpha", None, None)), ((" 7 ", "dprev", 41), ("9x", "own", None)), (("alpha", None, None), ("12", None, 3)), (("-3", "dd", -9), ("zz", None, 2))]:
            prelude = [(pn, pd, ps, block([], ("expr", emath(matom(const((k,)))))))]
            cases.append(ret_case(cid, emath(mk_mbin("+", matom(const((k,))), matom(const((k,))))) if k in ("atid", "atsal") else emath(matom(const((k,)))), [], name=n, desc=d, sal=sl, prelude=prelude)); cid += 1
    # names and descriptions are arbitrary string tokens: a doubled quote or a backslash-quote inside is part of the name (the
    # listener interprets no escape, it trims the outer quotes), and @name / @desc are that name and that description
    for name, desc in [('a""b', "plain"), ("plain", 'd""e'), ('q\\"r', 'say \\"hi\\" twice'), ("back\\slash", 'x""')]:
        for k in ["atname", "atdesc", "atid"]:
            cases.append(ret_case(cid, emath(matom(const((k,)))), [], name=name, desc=desc.rstrip('"') or "d", sal=2)); cid += 1
    # string constants keep the characters written between their outer quotes
    for lit in ['x\\"y', 'p""q', "a\\nb", "tab\\there", '""'.join("abc")]:
        cases.append(ret_case(cid, emath(matom(const(kstr(lit)))), [])); cid += 1
        cases.append(ret_case(cid, emath(mk_mbin("+", matom(const(kstr(lit))), matom(const(kstr("!"))))), [])); cid += 1
        cases.append(ret_case(cid, mk_ecmp("==", emath(matom(const(kstr(lit)))), emath(mvar("s"))), [inj_val("s", tv_str(lit))])); cid += 1
    cases.append(ret_case(cid, emath(mk_mbin("+", matom(const(("atid",))), matom(const(("atsal",))))), [], name="30", desc=None, sal=None)); cid += 1
    # (e) random trees
    n_rand, depth = (350, 4) if tier == "quick" else (12000, 7)
    for _ in range(n_rand):
        g = ExprGen(rng)
        e = g.any(rng.randint(1, depth))
        cases.append(ret_case(cid, e, g.inject(), rng=rng, fancy=rng.random() < 0.3)); cid += 1
    return cases


def count_ops(node):
    if isinstance(node, dict):
        return (1 if node.get("t") in ("mbin", "ecmp", "elogic") else 0) + sum(count_ops(v) for v in node.values())
    if isinstance(node, (list, tuple)):
        return sum(count_ops(v) for v in node)
    return 0


def nontrivial(c, o):
    if count_ops(c["body"]) < 2:
        return None
    kinds = tuple(sorted(d["v"]["t"] for d in c["inject"] if d["kind"] == "val"))
    return (tree_shape_key(c["body"]), kinds)


RULE = ("systematic: all 144 ordered pairs and 150 (thorough: all 1728) triples of the 12 binary operators printed WITHOUT parentheses (the tree the grammar reads is built by flat_to_tree and compared with the listener's tree); "
        "all 14x14 operand kind pairs (10 integer kinds, 2 float kinds, string, bool) x 7 (thorough 10) operators with boundary operands; 12 special operand pairs (2^53+1 vs 2^53, 2^64-1 vs -1, minint / -1, division by 0 and -0.0 ...) x 10 operators; "
        "@name/@id/@desc/@sal over 14 rule names and descriptions (incl. doubled quotes, backslash-quotes and backslashes inside them), string constants with such characters; random trees of depth <= 4 (thorough 7) with ~8% ill-typed leaves, calls, explicit parentheses and !; "
        "distinct non-trivial = distinct (tree shape with operators, operand kind vector) with at least two binary operators")


def reading(run):
    """the grammar's reading (Lang/Parse.v, theorems parse_sound / parse_complete) against the real parser"""
    import readgen
    n_valid, n_bad = (500, 250) if run.tier == "quick" else (6000, 3000)
    cases, ob, bad = readgen.reading_check(run, PID, n_valid, n_bad)
    byid = {c["id"]: c for c in cases}
    for i, why in bad[:4]:
        c = byid[i]
        run.report({"kind": "reading", "tokens": " ".join(readgen.tok_text(t) for t in c["toks"])},
                   {"reading_case": {"text": c["text"], "ctx": c["ctx"], "toks": c["toks"]}, "observation": ob[i], "disagreement": why},
                   "%s: expression `%s` — %s" % (PID, " ".join(readgen.tok_text(t) for t in c["toks"]), why))
    kinds = {}
    for c in cases:
        k = c["kind"] + ("/rejected" if ob[c["id"]].get("compile") else "/accepted")
        kinds[k] = kinds.get(k, 0) + 1
    return not bad, {"reading_correspondence": {"token_strings": len(cases), "by_kind": kinds, "disagreements": len(bad),
                                                "rule": "all 144 operator pairs bare / right-parenthesised / left-parenthesised / negated, sampled triples, random nested "
                                                        "strings with ~4% sort errors, token-level mutations (drop, duplicate, swap, insert) and noise; three contexts (return, if, assignment); "
                                                        "the Coq reader must return exactly the shape the listener built, or None when the compile call reports an error"}}


def main(run):
    return lang_check(run, PID, make_cases, RULE, extra=("reading_C01: Lang/Parse.v parse = shape of the listener's tree (or both reject) on every generated token string", reading),
                      assumptions=
                      ["&& and || evaluate both operands (the property does not promise short-circuit)",
                                   "reading model domain: token strings over atoms a0..a9, the 12 binary operators, parentheses and '!', with no atom directly followed by '(' (a call in the real lexer)"], nontrivial=nontrivial,
                      classify=lambda c, o, code: {"construct": "int-compare"} if code == 2 and "<" in c["text"] + ">" + "=" and False else None)


def replay(run, data):
    rp = data["replay"]
    if "reading_case" in rp:
        build_harness()
        c = rp["reading_case"]
        print("rule text:\n" + c["text"])
        o = run_harness("parse", [{"id": 0, "text": c["text"], "ctx": c["ctx"]}])[0]
        print("implementation now:", json.dumps(o))
        print("recorded          :", json.dumps(rp["observation"]))
        print("disagreement recorded:", rp["disagreement"])
        same = (o.get("shape"), bool(o.get("compile"))) == (rp["observation"].get("shape"), bool(rp["observation"].get("compile")))
        print("replay: implementation behaves as recorded:", same)
        return 1 if same else 0
    return replay_lang(run, data)
