"""C01 — expressions evaluate per the DSL's arithmetic, comparison and logic semantics."""
import itertools
from langgen import *  # noqa

PID = "C01"
BINOPS = ["+", "-", "*", "/", "==", "!=", "<", ">", "<=", ">=", "&&", "||"]
KINDS = INT_T + UINT_T + FLOAT_T + ["s", "b"]


def ret_case(cid, e, inject, **kw):
    return make_case(cid, block([], ("expr", e)), inject, **kw)


def operand_for(op_left, op_right, rng):
    """An operand literal that keeps `x op y` well-typed as far as possible: numbers for arithmetic and
    ordering, booleans next to && ||."""
    if (op_left in ("&&", "||") or op_left is None) and (op_right in ("&&", "||") or op_right is None):
        return const(kbool(rng.random() < 0.5))
    return const(kint(rng.choice([1, 2, 3, 5, 7, 11, 13, -2, 0])))


def make_cases(rng, tier):
    cases = []
    cid = 0
    # (a) operator-pair and operator-triple matrix: precedence and associativity of the real parser
    for ops in itertools.product(BINOPS, repeat=2):
        operands = [operand_for(None, ops[0], rng), operand_for(ops[0], ops[1], rng), operand_for(ops[1], None, rng)]
        cases.append(ret_case(cid, flat_to_tree(operands, list(ops)), [])); cid += 1
    triples = list(itertools.product(BINOPS, repeat=3))
    for ops in (rng.sample(triples, 150) if tier == "quick" else triples):
        operands = [operand_for(None, ops[0], rng)] + [operand_for(ops[i], ops[i + 1], rng) for i in range(2)] + [operand_for(ops[2], None, rng)]
        cases.append(ret_case(cid, flat_to_tree(operands, list(ops)), [])); cid += 1
    # (b) kind-pair matrix x operators, boundary operands
    pairs = list(itertools.product(KINDS, repeat=2))
    for (ka, kb) in pairs:
        for op in (["+", "-", "*", "/", "==", "<", ">="] if tier == "quick" else ["+", "-", "*", "/"] + list(COP)):
            a, b = rand_scalar(rng, ka), rand_scalar(rng, kb)
            e = flat_to_tree([var("a"), var("b")], [op])
            cases.append(ret_case(cid, e, [inj_val("a", a), inj_val("b", b)])); cid += 1
    # (c) exact integer comparison / wrap-around / truncating division at the boundaries
    specials = [("i64", 2 ** 53 + 1, "i64", 2 ** 53), ("u64", 2 ** 64 - 1, "i64", -1), ("u64", 2 ** 64 - 1, "u64", 2 ** 64 - 2),
                ("i64", 2 ** 63 - 1, "u64", 2 ** 63), ("i64", -2 ** 63, "i64", -1), ("i64", 2 ** 63 - 1, "i64", 1), ("i64", -7, "i64", 2),
                ("u64", 2 ** 63, "i64", 2), ("i8", -128, "u8", 255), ("u64", 9007199254740993, "f64", None), ("i64", 7, "i64", 0), ("u8", 7, "u8", 0)]
    for (ka, za, kb, zb) in specials:
        for op in ["+", "-", "*", "/"] + list(COP):
            a = tv_int(ka, za)
            b = tv_int(kb, zb) if zb is not None else tv_float("f64", 9007199254740992.0)
            cases.append(ret_case(cid, flat_to_tree([var("a"), var("b")], [op]), [inj_val("a", a), inj_val("b", b)])); cid += 1
    for bf in ["+0", "-0"]:
        cases.append(ret_case(cid, flat_to_tree([var("a"), var("b")], ["/"]), [inj_val("a", tv_int("i64", 5)), inj_val("b", {"t": "f64", "c": bf})])); cid += 1
    # (d) metadata constants
    for name in ["17", " 42 ", "-5", "+8", "x9", "9223372036854775807", "9223372036854775808", "1_0", "rule a", "0"]:
        for k in ["atname", "atid", "atdesc", "atsal"]:
            cases.append(ret_case(cid, emath(matom(const((k,)))), [], name=name, desc="some desc", sal=rng.choice([-4, 0, 12]))); cid += 1
    cases.append(ret_case(cid, emath(mk_mbin("+", matom(const(("atid",))), matom(const(("atsal",))))), [], name="30", desc=None, sal=None)); cid += 1
    # (e) random trees
    n_rand, depth = (350, 4) if tier == "quick" else (12000, 7)
    for _ in range(n_rand):
        g = ExprGen(rng)
        e = g.any(rng.randint(1, depth))
        cases.append(ret_case(cid, e, g.inject(), rng=rng, fancy=rng.random() < 0.3)); cid += 1
    return cases


def count_ops(node):
    if isinstance(node, dict):
        return (1 if node.get("t") in ("mbin", "ecmp", "elogic") else 0) + sum(count_ops(v) for v in node.values())
    if isinstance(node, (list, tuple)):
        return sum(count_ops(v) for v in node)
    return 0


def nontrivial(c, o):
    if count_ops(c["body"]) < 2:
        return None
    kinds = tuple(sorted(d["v"]["t"] for d in c["inject"] if d["kind"] == "val"))
    return (tree_shape_key(c["body"]), kinds)


RULE = ("systematic: all 144 ordered pairs and 150 (thorough: all 1728) triples of the 12 binary operators printed WITHOUT parentheses (the tree the grammar reads is built by flat_to_tree and compared with the listener's tree); "
        "all 14x14 operand kind pairs (10 integer kinds, 2 float kinds, string, bool) x 7 (thorough 10) operators with boundary operands; 12 special operand pairs (2^53+1 vs 2^53, 2^64-1 vs -1, minint / -1, division by 0 and -0.0 ...) x 10 operators; "
        "@name/@id/@desc/@sal over 10 rule names; random trees of depth <= 4 (thorough 7) with ~8% ill-typed leaves, calls, explicit parentheses and !; "
        "distinct non-trivial = distinct (tree shape with operators, operand kind vector) with at least two binary operators")


def main(run):
    return lang_check(run, PID, make_cases, RULE,
                      ["&& and || evaluate both operands (the property does not promise short-circuit)"], nontrivial,
                      classify=lambda c, o, code: {"construct": "int-compare"} if code == 2 and "<" in c["text"] + ">" + "=" and False else None)


def replay(run, data):
    return replay_lang(run, data)
