"""C02 — statements follow the reference control-flow and assignment semantics."""
from langgen import *  # noqa

PID = "C02"


def single_key_map():
    return inj_map("mp1", "s", "i64", [(tv_str("only"), tv_int("i64", 9))])


def rename_var(node, old, new):
    """replace the variable atom `old` by `new` throughout an AST"""
    if isinstance(node, dict):
        return {k: rename_var(v, old, new) for k, v in node.items()}
    if isinstance(node, tuple):
        if len(node) == 2 and node[0] == "var" and node[1] == old:
            return ("var", new)
        return tuple(rename_var(v, old, new) for v in node)
    if isinstance(node, list):
        return [rename_var(v, old, new) for v in node]
    return node


def templates(g):
    """Systematic part: every jump kind at every nesting position of every loop/branch kind."""
    out = []
    jumps = {"break": sbreak, "continue": scontinue, "ret": None, "none": None}
    for loop in ("for", "for-injected", "forrange", "forrange-injected"):
        for jump in ("break", "continue", "ret", "none"):
            for where in ("body", "if", "else", "elif", "nested-loop"):
                for at in (0, 1, 2):
                    g.mark = 0
                    js = [jumps[jump]()] if jump in ("break", "continue") else []
                    jret = ("expr", emath(mint(77))) if jump == "ret" else None
                    guard = mk_ecmp("==", emath(mvar("i")), emath(mint(at)))
                    inner = block([g.mk()] + js, jret)
                    if where == "body":
                        core = [sif(guard, inner)]
                    elif where == "if":
                        core = [sif(guard, block([sif(emath(matom(const(kbool(True)))), inner)]))]
                    elif where == "else":
                        core = [sif(mk_ecmp("!=", emath(mvar("i")), emath(mint(at))), block([g.mk()]), [], inner)]
                    elif where == "elif":
                        core = [sif(emath(matom(const(kbool(False)))), block([g.mk()]), [(guard, inner)], block([g.mk()]))]
                    else:
                        core = [sfor(assign(("var", "j"), "=", ("math", mint(0))), mk_ecmp("<", emath(mvar("j")), emath(mint(2))),
                                     assign(("var", "j"), "+=", ("math", mint(1))), block([sif(guard, inner), g.mk()]))]
                    body = block(core + [g.mk()])
                    if loop == "for":
                        lp = sfor(assign(("var", "i"), "=", ("math", mint(0))), mk_ecmp("<", emath(mvar("i")), emath(mint(3))),
                                  assign(("var", "i"), "+=", ("math", mint(1))), body)
                    elif loop == "for-injected":
                        # the loop variable lives in an injected struct field: every evaluation of the step is observable afterwards
                        body = rename_var(body, "i", "h.I64")
                        lp = sfor(assign(("var", "h.I64"), "=", ("math", mint(0))), mk_ecmp("<", emath(mvar("h.I64")), emath(mint(3))),
                                  assign(("var", "h.I64"), "+=", ("math", mint(1))), body)
                        out.append(block([g.mk(), lp, g.mk()], ("expr", emath(mvar("h.I64")))))
                        continue
                    elif loop == "forrange-injected":
                        # the loop KEY is an assignment target like any other: here a field of an injected struct — the body reads
                        # it through the struct, and the host sees the last index afterwards
                        body = rename_var(body, "i", "h.I64")
                        lp = sforrange("h.I64", "sq", body)
                        out.append(block([g.mk(), lp, g.mk()], ("expr", emath(mvar("h.I64")))))
                        continue
                    else:
                        lp = sforrange("i", "sq", body)
                    out.append(block([g.mk(), lp, g.mk()], ("expr", emath(mvar("i")))))
    # else-if chains with each truth vector
    for n in (0, 1, 2, 3):
        for bits in range(2 ** (n + 1)):
            g.mark = 0
            conds = [emath(matom(const(kbool(bool((bits >> i) & 1))))) for i in range(n + 1)]
            for has_else in (True, False):
                s = sif(conds[0], block([g.mk()]), [(c, block([g.mk()])) for c in conds[1:]], block([g.mk()]) if has_else else None)
                out.append(block([s, g.mk()]))
    # else-if chains in which ONE condition FAILS to evaluate (division by zero, an undefined name, a number where a truth value
    # is needed): when the conditions before it are false the statement fails there — no later condition is evaluated, no branch
    # (not the else either) runs, nothing after the statement runs; when an earlier condition is true it is never evaluated
    def bad_cond(k):
        if k == 0:
            return mk_ecmp(">", emath(mk_mbin("/", mint(10), mvar("h.U8"))), emath(mint(1)))     # h.U8 = 0 in the generator's host
        if k == 1:
            return mk_ecmp("==", emath(mvar("undefined_name_c")), emath(mint(1)))
        return emath(mint(5))
    for n in (1, 2, 3):
        for at in range(n + 1):
            for earlier_true in (False, True):
                for kind in (0, 1, 2):
                    if earlier_true and at == 0:
                        continue
                    g.mark = 0
                    conds = []
                    for i in range(n + 1):
                        if i == at:
                            conds.append(bad_cond(kind))
                        else:
                            conds.append(emath(matom(const(kbool((earlier_true and i == at - 1) or (i > at))))))
                    for has_else in (True, False):
                        s = sif(conds[0], block([g.mk()]), [(c, block([g.mk()])) for c in conds[1:]], block([g.mk()]) if has_else else None)
                        out.append(block([assign(("var", "h.U8"), "=", ("math", mint(0))), s, g.mk()]))
    # the iteration cap
    g.mark = 0
    out.append(block([sfor(assign(("var", "i"), "=", ("math", mint(0))), emath(matom(const(kbool(True)))),
                           assign(("var", "i"), "+=", ("math", mint(1))), block([])), g.mk()]))
    out.append(block([sfor(assign(("var", "i"), "=", ("math", mint(0))), mk_ecmp("<", emath(mvar("i")), emath(mint(10000))),
                           assign(("var", "i"), "+=", ("math", mint(1))), block([])), g.mk()], ("expr", emath(mvar("i")))))
    out.append(block([sfor(assign(("var", "i"), "=", ("math", mint(0))), mk_ecmp("<", emath(mvar("i")), emath(mint(10001))),
                           assign(("var", "i"), "+=", ("math", mint(1))), block([])), g.mk()]))
    # the cap also cuts off loops whose every iteration ends in continue / whose body is a nested loop
    out.append(block([sfor(assign(("var", "i"), "=", ("math", mint(0))), emath(matom(const(kbool(True)))),
                           assign(("var", "i"), "+=", ("math", mint(1))), block([scontinue()])), g.mk()]))
    out.append(block([sfor(assign(("var", "i"), "=", ("math", mint(0))), mk_ecmp(">=", emath(mvar("i")), emath(mint(0))),
                           assign(("var", "i"), "+=", ("math", mint(1))), block([sif(mk_ecmp(">=", emath(mvar("i")), emath(mint(0))), block([scontinue()])), g.mk()])), g.mk()]))
    # compound assignment on every target kind
    for tg in [("var", "x"), ("var", "h.I64"), ("var", "h.Sub.N"), ("var", "h.PSub.N"), ("map", mapvar("mp", ("str", "a"))),
               ("map", mapvar("h.M", ("str", "k"))), ("map", mapvar("sq", ("int", 1))), ("map", mapvar("h.SL", ("int", 2)))]:
        for op in ("+=", "-=", "*=", "/="):
            g.mark = 0
            pre = [assign(("var", "x"), "=", ("math", mint(6)))] if tg == ("var", "x") else []
            tg2 = (tg[0], dict(tg[1], pos=None)) if tg[0] == "map" else tg
            rd = amap(dict(tg[1], pos=None)) if tg[0] == "map" else var(tg[1])
            out.append(block(pre + [assign(tg2, op, ("math", mint(3))), g.mk()], ("expr", emath(matom(rd)))))
    # locals: visible after the block that assigned them, regardless of nesting
    g.mark = 0
    out.append(block([sif(emath(matom(const(kbool(True)))), block([sif(emath(matom(const(kbool(True)))), block([assign(("var", "deep"), "=", ("math", mint(4)))]))])),
                      g.mk()], ("expr", emath(mvar("deep")))))
    return out


def make_cases(rng, tier):
    cases = []
    cid = 0
    g = StmtGen(rng)
    base_inj = g.inject() + [single_key_map()]
    # the same compiled loop executed again with OTHER data: a first execution that runs into the iteration cap (or leaves the
    # loop by return / by a failing statement) must leave nothing behind in the rule for the second one
    def bounded(limit_field, body, ret=None):
        return block([sfor(assign(("var", "i"), "=", ("math", mint(0))), mk_ecmp("<", emath(mvar("i")), emath(mvar(limit_field))),
                           assign(("var", "i"), "+=", ("math", mint(1))), block(body))], ret if ret is not None else ("expr", emath(mvar("i"))))
    # forRange over collections of length 0, 1 and 2 (slice, array, map), the body jumping on the first key, at top level and
    # nested in an outer loop whose body goes on after it: a jump acts on the innermost loop whatever that loop's length
    def short_coll(kind, n):
        if kind == "map":
            return inj_map("cc", "s", "i64", [(tv_str("k%d" % i), tv_int("i64", 10 + i)) for i in range(n)])
        return inj_seq("cc", "i64", [tv_int("i64", 10 + i) for i in range(n)], array=(kind == "array"))
    mk_ = lambda n: scall(call("func", "Mark", [("const", kint(n))]))
    for kind in ("slice", "array", "map"):
        for n in (0, 1, 2):
            if kind == "array" and n == 0:
                continue
            for jump in ("continue", "break", "ret", "none"):
                js = lambda: [scontinue()] if jump == "continue" else ([sbreak()] if jump == "break" else [])
                jret = lambda: ("expr", emath(mint(77))) if jump == "ret" else None
                inner = lambda: sforrange("k", "cc", block([mk_(1), sif(emath(matom(const(kbool(True)))), block([mk_(2)] + js(), jret())), mk_(3)]))
                cases.append(make_case(cid, block([mk_(0), inner(), mk_(4)], ("expr", emath(mint(5)))), [inj_func("Mark"), short_coll(kind, n)])); cid += 1
                outer = sfor(assign(("var", "i"), "=", ("math", mint(0))), mk_ecmp("<", emath(mvar("i")), emath(mint(2))), assign(("var", "i"), "+=", ("math", mint(1))),
                             block([inner(), mk_(6)]))
                cases.append(make_case(cid, block([mk_(0), outer, mk_(4)], ("expr", emath(mvar("i")))), [inj_func("Mark"), short_coll(kind, n)])); cid += 1
    hs = lambda n: inj_struct("hq", fields={"I64": tv_int("i64", n)})
    for (first, second) in ((20000, 3), (10001, 9999), (9999, 10001), (3, 20000)):
        c = make_case(cid, bounded("hq.I64", []), [hs(first)]); cid += 1
        c["reinject"], c["inject2"] = True, [hs(second)]
        cases.append(c)
    for (first, second) in ((8, 8), (50, 2)):      # leaving by return / by a failing statement after a few passes, then again
        c = make_case(cid, bounded("hq.I64", [sif(mk_ecmp(">=", emath(mvar("i")), emath(mint(5))), block([], ("expr", emath(mvar("i")))))]), [hs(first)]); cid += 1
        c["reinject"], c["inject2"] = True, [hs(second)]
        cases.append(c)
        c = make_case(cid, bounded("hq.I64", [sif(mk_ecmp(">=", emath(mvar("i")), emath(mint(5))), block([assign(("var", "zz"), "=", ("math", mvar("nope")))]))]), [hs(first)]); cid += 1
        c["reinject"], c["inject2"] = True, [hs(second)]
        cases.append(c)
    for body in templates(g):
        cases.append(make_case(cid, body, base_inj)); cid += 1
    n_rand, depth = (300, 3) if tier == "quick" else (10000, 5)
    for _ in range(n_rand):
        g = StmtGen(rng)
        body = g.blk(rng.randint(1, depth), False, top=True)
        cases.append(make_case(cid, body, g.inject() + [single_key_map()], rng=rng, fancy=rng.random() < 0.3)); cid += 1
    return cases


def kinds_in(node, acc):
    if isinstance(node, dict):
        if node.get("s"):
            acc.append(node["s"])
        for v in node.values():
            kinds_in(v, acc)
    elif isinstance(node, (list, tuple)):
        for v in node:
            kinds_in(v, acc)
    return acc


def nontrivial(c, o):
    ks = kinds_in(c["body"], [])
    if not any(k in ("if", "for", "forrange") for k in ks):
        return None
    return tree_shape_key(c["body"])


RULE = ("systematic: {for over a local, for over an injected struct field (every step evaluation observable in the host store), forRange with a local key, forRange whose key is an injected struct field} x {break, continue, return, none} x 5 nesting positions (loop body, inside if, else, else-if, nested loop) x 3 iteration indexes, with Mark calls making the executed path observable; "
        "forRange over slices, arrays and maps of length 0, 1 and 2 with continue / break / return / nothing on the first key, at top level and inside an outer for loop; else-if chains of length 0-3 with every truth vector, with and without else; chains of length 1-3 in which one condition (each position) fails to evaluate — division by zero, undefined name, a number as condition — behind false conditions or behind a true one; the 10,000-iteration cap (9,999 / 10,000 / unbounded); the four compound assignments on 8 target kinds (local, struct field, nested field by value and by pointer, map entries, slice elements); "
        "a local assigned two blocks deep read at top level; random statement trees of depth <= 3 (thorough 5) with ~5% wild constructs (non-boolean conditions, break outside loops, undefined locals); "
        "five driver-stated scenarios (forRange over a slice field that the body shrinks / grows through a host method: the indexes present at the start are visited once each; compound assignments whose right-hand side changes the target through a host method: the right-hand side is evaluated before the target is read); compared: outcome class, returned value, cited positions, the full sequence of calls with argument values and dynamic types, and the host objects afterwards; distinct non-trivial = distinct statement-tree shapes containing a loop or branch")


def shrink_scenarios():
    """forRange visits each index of the collection AS IT WAS when the loop started, exactly once — also when the body shortens
    (h.ShrinkSL) or lengthens (h.PushSL) the slice field it ranges over.  The expectation is stated here: the Coq host model has
    no method that changes a collection's length."""
    h4 = lambda: inj_struct("h", sl=[4, 5, 6, 7])
    mark = lambda x: scall(call("func", "Mark", [x]))
    seq = lambda n: [["Mark", str(i)] for i in range(n)]
    out = []
    b1 = block([sforrange("k", "h.SL", block([mark(("var", "k")), sif(mk_ecmp("==", emath(mvar("k")), emath(mint(1))), block([scall(call("method", "h.ShrinkSL", []))]))])), mark(("const", kint(99)))])
    out.append(("forrange-over-a-field-that-shrinks", b1, [h4(), inj_func("Mark")], {"class": "ok", "Mark": 5, "ShrinkSL": 1, "seq": [["Mark", "0"], ["Mark", "1"], ["ShrinkSL"], ["Mark", "2"], ["Mark", "3"], ["Mark", "99"]]}))
    b2 = block([sforrange("k", "h.SL", block([scall(call("method", "h.ShrinkSL", [])), mark(("var", "k"))])), mark(("const", kint(99)))])
    out.append(("forrange-over-a-field-shrunk-at-once", b2, [h4(), inj_func("Mark")], {"class": "ok", "Mark": 5, "ShrinkSL": 4}))
    b3 = block([sforrange("k", "h.SL", block([mark(("var", "k")), scall(call("method", "h.PushSL", [("const", kint(1))]))])), mark(("const", kint(99)))])
    out.append(("forrange-over-a-field-that-grows", b3, [h4(), inj_func("Mark")], {"class": "ok", "Mark": 5, "PushSL": 4}))
    # `t op= e`: e is evaluated first, then t is read, updated and written — visible when e itself changes t (a host method does)
    hm = lambda: inj_struct("h", fields={"I64": tv_int("i64", 5)}, m={"k": 2})
    b4 = block([assign(("map", mapvar("h.M", ("str", "k"))), "*=", ("math", matom(acall(call("method", "h.BumpM", [])))))], ("expr", emath(matom(amap(mapvar("h.M", ("str", "k")))))))
    out.append(("compound-assignment-whose-right-hand-side-changes-the-map-entry", b4, [hm()], {"class": "ok", "BumpM": 1, "ret": 30}))
    b5 = block([assign(("var", "h.I64"), "+=", ("math", matom(acall(call("method", "h.BumpI", [])))))], ("expr", emath(mvar("h.I64"))))
    out.append(("compound-assignment-whose-right-hand-side-changes-the-field", b5, [hm()], {"class": "ok", "BumpI": 1, "ret": 101}))
    return out


def stated(run):
    bad = stated_scenarios(run, PID, shrink_scenarios(), "forRange visits each index present when the loop started exactly once, whatever the body does to the collection's length")
    return bad == 0, {"stated_scenarios": len(shrink_scenarios())}


def main(run):
    return lang_check(run, PID, make_cases, RULE,
                      ["forRange over a map is compared on single-key maps or order-independent bodies (Go map iteration order is arbitrary; the theorems quantify over the key order)"], nontrivial,
                      extra=("stated_C02: forRange over a slice field whose length the body changes visits the initial indexes (driver-stated expectation on the recorded calls)", stated))


def replay(run, data):
    return replay_lang(run, data)
