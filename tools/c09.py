"""C09 — rule faults are contained: execute calls never panic, crash or hang.

Two campaigns: (A) rule level — every fault class at every construct position, run through the
sort model; the model predicts value / error and the observation must agree (a panic escaping
the call or a crash is a disagreement by construction since the contained model never predicts
one); (B) engine level — rule sets containing panicking / looping / failing rules through all
21 entry points, each batch in a child process, checked against the specification of the
execution model (failing rules are handled per the error policy, other rules still run).
"""
import itertools
import engfam
from langgen import *  # noqa

PID = "C09"


def num_faults():
    """(name, numeric-typed mexpr builder, needed injections)"""
    return [
        ("str-plus-int", lambda: mk_mbin("+", mint(1), matom(const(kstr("s")))), []),
        ("bool-times", lambda: mk_mbin("*", matom(const(kbool(True))), mint(2)), []),
        ("missing-name", lambda: mvar("nope"), []),
        ("missing-dotted", lambda: mvar("nope.x"), []),
        ("missing-func", lambda: matom(acall(call("func", "Nope", []))), []),
        ("nil-pointer-field", lambda: mvar("NilP.I64"), [{"name": "NilP", "kind": "nilptr"}]),
        ("nil-pointer-method", lambda: matom(acall(call("method", "NilP.Id64", [("const", kint(1))]))), [{"name": "NilP", "kind": "nilptr"}]),
        ("empty-slice-index", lambda: matom(amap(mapvar("emp", ("int", 0)))), [inj_seq("emp", "i64", [])]),
        ("index-out-of-range", lambda: matom(amap(mapvar("sq", ("int", 7)))), [inj_seq("sq", "i64", [tv_int("i64", 1)])]),
        ("negative-index", lambda: matom(amap(mapvar("sq", ("int", -1)))), [inj_seq("sq", "i64", [tv_int("i64", 1)])]),
        ("string-index-on-slice", lambda: matom(amap(mapvar("sq", ("str", "a")))), [inj_seq("sq", "i64", [tv_int("i64", 1)])]),
        ("index-a-scalar", lambda: matom(amap(mapvar("c5", ("int", 0)))), [inj_val("c5", tv_int("i64", 5))]),
        ("wrong-key-kind", lambda: matom(amap(mapvar("mu", ("int", 3)))), [inj_map("mu", "u8", "i64", [])]),
        ("panicking-function", lambda: matom(acall(call("func", "Boom", []))), [inj_func("Boom")]),
        ("panicking-function-error-value", lambda: matom(acall(call("func", "BoomErr", []))), [inj_func("BoomErr")]),
        ("panicking-function-runtime-error", lambda: matom(acall(call("func", "BoomRT", []))), [inj_func("BoomRT")]),
        ("panicking-method", lambda: matom(acall(call("method", "h.Boom", []))), [inj_struct("h")]),
        ("too-few-args", lambda: matom(acall(call("func", "Two", [("const", kint(1))]))), [inj_func("Two")]),
        ("too-many-args", lambda: matom(acall(call("func", "IdI64", [("const", kint(1)), ("const", kint(2))]))), [inj_func("IdI64")]),
        ("string-arg-for-int", lambda: matom(acall(call("func", "IdI64", [("const", kstr("x"))]))), [inj_func("IdI64")]),
        ("int-arg-for-string", lambda: matom(acall(call("func", "IdS", [("const", kint(3))]))), [inj_func("IdS")]),
        ("call-a-non-function", lambda: matom(acall(call("func", "c5", []))), [inj_val("c5", tv_int("i64", 5))]),
        ("division-by-zero", lambda: mk_mbin("/", mint(5), mint(0)), []),
        ("no-result-call-as-value", lambda: mk_mbin("+", matom(acall(call("func", "NoRet", []))), mint(1)), [inj_func("NoRet")]),
        ("field-of-scalar-local", lambda: mvar("loc.x"), []),
    ]


def bool_faults():
    return [
        ("non-boolean-condition", lambda: emath(mint(5)), []),
        ("not-on-int", lambda: eatom(True, const(kint(5))), []),
        ("not-on-string-paren", lambda: paren_e(emath(matom(const(kstr("s")))), neg=True), []),
        ("and-on-ints", lambda: mk_elogic("&&", emath(mint(1)), emath(mint(2))), []),
        ("compare-string-int", lambda: mk_ecmp(">", emath(matom(const(kstr("a")))), emath(mint(1))), []),
        ("order-on-bools", lambda: mk_ecmp("<", emath(matom(const(kbool(True)))), emath(matom(const(kbool(False))))), []),
        ("nil-value-condition", lambda: emath(matom(acall(call("func", "NoRet", [])))), [inj_func("NoRet")]),
        ("string-condition", lambda: emath(matom(const(kstr("x")))), []),
    ]


POSITIONS = ["assign-rhs", "compound-rhs", "call-arg", "if-cond", "elif-cond", "for-cond", "for-init", "for-step", "return", "conc-child", "map-key-assign", "nested-if-in-for",
             "method-arg", "three-level-arg", "conc-call-arg", "conc-method-arg", "conc-three-level-arg",
             "conc-in-for", "conc-in-if-in-for", "conc-in-if", "conc-in-else", "conc-only-three-level", "conc-only-methods", "conc-only-functions"]
NEEDS_H = ("method-arg", "three-level-arg", "conc-method-arg", "conc-three-level-arg", "conc-only-three-level", "conc-only-methods")


def place(pos, nf, bf):
    """Put a numeric fault (mexpr) or boolean fault (expr) at a construct position; returns a rule body."""
    class _M:
        def __init__(self, n): self.n = n
    def fresh(n): return scall(call("func", "Mark", [("const", kint(n))]))
    def rhs_of(e): return ("math", e["m"]) if e["t"] == "emath" else ("expr", e)
    as_b = bf if bf is not None else mk_ecmp("==", emath(nf), emath(mint(1)))
    as_n = nf if nf is not None else None
    loc = assign(("var", "loc"), "=", ("math", mint(3)))
    if pos == "assign-rhs":
        a = assign(("var", "x"), "=", ("math", as_n) if as_n is not None else rhs_of(as_b))
        return block([loc, fresh(1), a, fresh(2)])
    if pos == "compound-rhs":
        if as_n is None:
            return None
        return block([loc, assign(("var", "loc"), "+=", ("math", as_n)), fresh(2)])
    if pos == "call-arg":
        return block([loc, scall(call("func", "IdI64", [as_arg(emath(as_n))] if as_n is not None else [as_arg(as_b)])), fresh(2)])
    if pos == "if-cond":
        return block([loc, sif(as_b, block([fresh(1)])), fresh(2)])
    if pos == "elif-cond":
        return block([loc, sif(emath(matom(const(kbool(False)))), block([fresh(1)]), [(as_b, block([fresh(1)]))]), fresh(2)])
    if pos == "for-cond":
        return block([loc, sfor(assign(("var", "i"), "=", ("math", mint(0))), as_b, assign(("var", "i"), "+=", ("math", mint(1))), block([fresh(1), sbreak()])), fresh(2)])
    if pos == "for-init":
        if as_n is None:
            return None
        return block([loc, sfor(assign(("var", "i"), "=", ("math", as_n)), mk_ecmp("<", emath(mvar("i")), emath(mint(1))), assign(("var", "i"), "+=", ("math", mint(1))), block([fresh(1)])), fresh(2)])
    if pos == "for-step":
        if as_n is None:
            return None
        return block([loc, sfor(assign(("var", "i"), "=", ("math", mint(0))), mk_ecmp("<", emath(mvar("i")), emath(mint(2))), assign(("var", "i"), "+=", ("math", as_n)), block([fresh(1)])), fresh(2)])
    if pos == "return":
        return block([loc, fresh(1)], ("expr", emath(as_n) if as_n is not None else as_b))
    if pos == "conc-child":
        if as_n is None:
            return None
        return block([loc, sconc([("asg", assign(("var", "cx"), "=", ("math", as_n))), ("asg", assign(("var", "cy"), "=", ("math", mint(1))))]), fresh(2)])
    if pos in ("method-arg", "three-level-arg", "conc-call-arg", "conc-method-arg", "conc-three-level-arg"):
        # the fault is evaluated as an ARGUMENT of a call statement; inside a conc block the call runs on its own goroutine,
        # which the rule-level recover does not reach
        arg = as_arg(emath(as_n)) if as_n is not None else as_arg(as_b)
        c = {"method-arg": call("method", "h.Id64", [arg]), "conc-method-arg": call("method", "h.Id64", [arg]),
             "three-level-arg": call("three", "h.PSub.GetN", [arg]), "conc-three-level-arg": call("three", "h.PSub.GetN", [arg]),
             "conc-call-arg": call("func", "IdI64", [arg])}[pos]
        if pos.startswith("conc-"):
            return block([loc, sconc([("asg", assign(("var", "cy"), "=", ("math", mint(1)))), ("call", c)]), fresh(2)])
        return block([loc, scall(c), fresh(2)])
    if pos in ("conc-in-for", "conc-in-if-in-for", "conc-in-if", "conc-in-else"):
        # the faulty child's block sits inside another construct, whose own error handling the block's joined error passes through
        if as_n is None:
            return None
        cb = sconc([("asg", assign(("var", "cy"), "=", ("math", mint(1)))), ("asg", assign(("var", "cx"), "=", ("math", as_n)))])
        true_, false_ = emath(matom(const(kbool(True)))), emath(matom(const(kbool(False))))
        loop = lambda inner: sfor(assign(("var", "i"), "=", ("math", mint(0))), mk_ecmp("<", emath(mvar("i")), emath(mint(2))), assign(("var", "i"), "+=", ("math", mint(1))), block([fresh(1), inner]))
        inner = {"conc-in-for": lambda: loop(cb), "conc-in-if-in-for": lambda: loop(sif(true_, block([cb]))), "conc-in-if": lambda: sif(true_, block([cb])),
                 "conc-in-else": lambda: sif(false_, block([fresh(1)]), [], block([cb]))}[pos]()
        return block([loc, inner, fresh(2)])
    if pos in ("conc-only-three-level", "conc-only-methods", "conc-only-functions"):
        # a block made of calls of ONE kind only, one of them failing (one: the order of several errors is the scheduler's): however the
        # block collects its children's errors, it must join
        if as_n is None:
            return None
        arg = as_arg(emath(as_n))
        import copy
        mk = {"conc-only-three-level": lambda a: call("three", "h.PSub.GetN", [a]), "conc-only-methods": lambda a: call("method", "h.Id64", [a]),
              "conc-only-functions": lambda a: call("func", "IdI64", [a])}[pos]
        if "'call'" in repr(arg) or "'k':" in repr(arg):
            return None      # the faulty argument itself records calls: their order relative to the siblings' is the scheduler's
        # the two sound siblings record the SAME call, so that the recorded sequence does not depend on the schedule
        return block([loc, sconc([("call", mk(("const", kint(3)))), ("call", mk(copy.deepcopy(arg))), ("call", mk(("const", kint(3))))]), fresh(2)])
    if pos == "map-key-assign":
        if as_n is None:
            return None
        return block([loc, assign(("map", mapvar("gm", ("str", "k"))), "=", ("math", as_n)), fresh(2)])
    if pos == "nested-if-in-for":
        return block([loc, sfor(assign(("var", "i"), "=", ("math", mint(0))), mk_ecmp("<", emath(mvar("i")), emath(mint(2))), assign(("var", "i"), "+=", ("math", mint(1))),
                                block([sif(as_b, block([fresh(1)]))])), fresh(2)])
    return None


def make_cases(rng, tier):
    cases = []
    cid = 0
    base = [inj_func("Mark"), inj_func("IdI64"), inj_map("gm", "s", "i64", [])]
    for pos in POSITIONS:
        for (name, mkf, inj) in num_faults():
            body = place(pos, mkf(), None)
            if body is None:
                continue
            names = {d["name"] for d in inj}
            hx = [inj_struct("h")] if pos in NEEDS_H and "h" not in names else []
            c = make_case(cid, body, [d for d in base if d["name"] not in names] + hx + inj)
            c["fault"], c["position"] = name, pos
            cases.append(c); cid += 1
        for (name, mkf, inj) in bool_faults():
            body = place(pos, None, mkf())
            if body is None:
                continue
            c = make_case(cid, body, base + ([inj_struct("h")] if pos in NEEDS_H else []) + inj)
            c["fault"], c["position"] = name, pos
            cases.append(c); cid += 1
    # other fault shapes: forRange operands, unbounded loops, break/continue outside loops
    extra = [
        ("forrange-non-iterable", block([sforrange("k", "c5", block([]))]), [inj_val("c5", tv_int("i64", 5))]),
        ("forrange-missing", block([sforrange("k", "nope", block([]))]), []),
        ("forrange-pointer-map", block([sforrange("k", "pm", block([]))]), [inj_map("pm", "s", "i64", [], byptr=True)]),
        ("forrange-key-is-injected", block([sforrange("c5", "sq", block([]))]), [inj_val("c5", tv_int("i64", 5)), inj_seq("sq", "i64", [tv_int("i64", 1)])]),
        ("unbounded-for", block([sfor(assign(("var", "i"), "=", ("math", mint(0))), emath(matom(const(kbool(True)))), assign(("var", "i"), "+=", ("math", mint(1))), block([]))]), []),
        ("nested-unbounded-for", block([sfor(assign(("var", "i"), "=", ("math", mint(0))), mk_ecmp("<", emath(mvar("i")), emath(mint(3))), assign(("var", "i"), "+=", ("math", mint(1))),
                                             block([sfor(assign(("var", "j"), "=", ("math", mint(0))), emath(matom(const(kbool(True)))), assign(("var", "j"), "+=", ("math", mint(0))), block([]))]))]), []),
        ("unbounded-for-continue", block([sfor(assign(("var", "i"), "=", ("math", mint(0))), emath(matom(const(kbool(True)))), assign(("var", "i"), "+=", ("math", mint(1))), block([scontinue()]))]), []),
        ("unbounded-for-conditional-continue", block([sfor(assign(("var", "i"), "=", ("math", mint(0))), mk_ecmp(">=", emath(mvar("i")), emath(mint(0))), assign(("var", "i"), "+=", ("math", mint(1))),
                                                          block([sif(mk_ecmp(">=", emath(mvar("i")), emath(mint(0))), block([scontinue()])), assign(("var", "n"), "=", ("math", mint(1)))]))]), []),
        ("unbounded-for-nested-break", block([sfor(assign(("var", "i"), "=", ("math", mint(0))), emath(matom(const(kbool(True)))), assign(("var", "i"), "+=", ("math", mint(1))),
                                                  block([sfor(assign(("var", "j"), "=", ("math", mint(0))), mk_ecmp("<", emath(mvar("j")), emath(mint(2))), assign(("var", "j"), "+=", ("math", mint(1))), block([sbreak()]))]))]), []),
        # calls whose RECEIVER does not exist: a three-level call through a missing field, a method of a
        # name injected as a nil pointer — each followed, in the same text, by an ordinary first-time method call (a fault in one
        # call must not disturb the next one)
        ("three-level-through-missing-field", block([scall(call("three", "h.Nope.GetN", [("const", kint(1))])), scall(call("method", "h.Mark", [("const", kint(7))]))]), [inj_struct("h")]),
        ("method-of-a-nil-pointer", block([scall(call("method", "NilP.Mark", [("const", kint(1))])), scall(call("method", "h.IdU8", [("const", kint(7))]))]), [{"name": "NilP", "kind": "nilptr"}, inj_struct("h")]),
        ("method-of-a-missing-field-value", block([assign(("var", "x"), "=", ("math", matom(acall(call("three", "h.Nope.EchoN", [("const", kint(1))]))))), scall(call("method", "h.IdF64", [("const", kint(7))]))]), [inj_struct("h")]),
        ("break-outside-loop", block([sbreak()]), []),
        ("continue-outside-loop", block([sif(emath(matom(const(kbool(True)))), block([scontinue()]))]), []),
        ("assign-to-injected-value", block([assign(("var", "c5"), "=", ("math", mint(1)))]), [inj_val("c5", tv_int("i64", 5))]),
        ("assign-field-of-nil", block([assign(("var", "NilP.I64"), "=", ("math", mint(1)))]), [{"name": "NilP", "kind": "nilptr"}]),
        ("assign-string-to-int-field", block([assign(("var", "h.I64"), "=", ("math", matom(const(kstr("s")))))]), [inj_struct("h")]),
        ("assign-negative-to-uint-field", block([assign(("var", "h.U8"), "=", ("math", mint(-1)))]), [inj_struct("h")]),
        ("assign-to-array-by-value", block([assign(("map", mapvar("av", ("int", 0))), "=", ("math", mint(1)))]), [inj_seq("av", "i64", [tv_int("i64", 1)], array=True)]),
        ("conc-panicking-child", block([sconc([("call", call("func", "Boom", [])), ("call", call("func", "Mark", [("const", kint(3))])), ("asg", assign(("var", "x"), "=", ("math", mint(1))))])]), [inj_func("Boom")]),
        ("conc-missing-function-child", block([sconc([("call", call("func", "Nope", [])), ("asg", assign(("var", "x"), "=", ("math", mint(1))))])]), []),
    ]
    for name, body, inj in extra:
        c = make_case(cid, body, [inj_func("Mark")] + inj)
        c["fault"], c["position"] = name, "statement"
        cases.append(c); cid += 1
    return cases


def termination_scenarios():
    """Loops whose collection GROWS while they run (a worklist): forRange has no iteration cap of its own — it is bounded by
    the indexes that exist when it starts.  The expectation is stated here (the Coq host model has no growing method):
    the call returns without error, the body ran once per initial index."""
    out = []
    h3 = lambda: inj_struct("h", sl=[4, 5, 6])
    body1 = block([sforrange("k", "h.SL", block([scall(call("func", "Mark", [("var", "k")])), scall(call("method", "h.PushSL", [("const", kint(9))]))])), scall(call("func", "Mark", [("const", kint(99))]))])
    out.append(("forrange-over-a-field-that-grows", body1, [h3(), inj_func("Mark")], {"class": "ok", "Mark": 4, "PushSL": 3}))
    body2 = block([sforrange("k", "h.SL", block([sforrange("j", "h.SL", block([scall(call("method", "h.PushSL", [("const", kint(1))]))]))])), scall(call("func", "Mark", [("const", kint(99))]))])
    out.append(("nested-forrange-over-a-field-that-grows", body2, [h3(), inj_func("Mark")], {"class": "ok", "Mark": 1, "PushSL": None}))
    # the children of a conc block READ fields of a rule-local object (p.N, p.Id: the object sits in the rule's local store) while
    # their siblings bind new locals, 200 blocks in a row: the call returns normally (a racing local store would abort the process)
    kids = []
    for n in range(12):
        kids.append(("asg", assign(("var", "b%d" % n), "=", ("math", mk_mbin("+", mvar("p.N" if n % 2 else "p.Id"), mint(n))))))
    loop = sfor(assign(("var", "i"), "=", ("math", mint(0))), mk_ecmp("<", emath(mvar("i")), emath(mint(200))), assign(("var", "i"), "+=", ("math", mint(1))), block([sconc(kids)]))
    out.append(("conc-children-reading-fields-of-a-local-object", block([assign(("var", "p"), "=", ("math", matom(acall(call("func", "NewC", []))))), loop,
                                                                         scall(call("func", "Mark", [("const", kint(99))]))]), [inj_func("NewC"), inj_func("Mark")],
                {"class": "ok", "NewC": 1, "Mark": 1}))
    # a call whose receiver does not exist fails — and leaves nothing behind that disturbs the NEXT rule of the same call, which
    # makes an ordinary method call for the first time in the process
    hh = lambda: inj_struct("h")
    nxt = lambda m: block([scall(call("method", "h." + m, [("const", kint(7))]))])
    for nm, bad, inj, m in (("three-level-call-through-a-missing-field-then-a-first-time-method-call", scall(call("three", "h.Nope.GetN", [("const", kint(1))])), [hh()], "IdF64"),
                            ("method-of-a-nil-pointer-then-a-first-time-method-call", scall(call("method", "NilP.Mark", [("const", kint(1))])), [hh(), {"name": "NilP", "kind": "nilptr"}], "IdU8"),
                            ("three-level-value-through-a-missing-field-then-a-first-time-method-call", assign(("var", "x"), "=", ("math", matom(acall(call("three", "h.Nope.EchoN", [("const", kint(1))]))))), [hh()], "Id64")):
        out.append((nm, nxt(m), inj, {"class": "error", m: 1}, [("p0", None, 50, block([bad]))]))
    # a rule that binds a local and then PANICS at rule level (a number as a condition; ! applied to a number; an index out of range in
    # a condition): the fault is that rule's error — and a later rule that reads the same name, which it never defined, fails with
    # its own error (a missing name) instead of finding a value: it does not reach its Mark
    seq3 = lambda: inj_seq("sq", "i64", [tv_int("i64", 1), tv_int("i64", 2)])
    for nm, cond, inj in (("number-as-condition", emath(mvar("leaked")), []), ("not-of-a-number", eatom(True, var("leaked")), []),
                          ("index-out-of-range-in-a-condition", mk_ecmp("==", emath(matom(amap(mapvar("sq", ("var", "leaked"))))), emath(mint(1))), [seq3()])):
        pre = [("p0", None, 50, block([assign(("var", "leaked"), "=", ("math", mint(7))), sif(cond, block([]))]))]
        reader = block([assign(("var", "seen"), "=", ("math", mk_mbin("+", mvar("leaked"), mint(1)))), scall(call("func", "Mark", [("const", kint(5))]))], ("expr", emath(mvar("seen"))))
        out.append(("a-missing-name-after-a-rule-level-fault-of-a-rule-that-bound-it-" + nm, reader, inj + [inj_func("Mark")], {"class": "error", "Mark": 0}, pre))
    return out


def engine_cases(rng, tier):
    from c05 import base
    cases = []
    kinds = ["panic1", "panic2", "loop", "fail", "retfail"]
    for e in engfam.ENTRIES:
        for fk in kinds:
            for pos in range(4):
                rules = [{"name": engfam.NAMES[i], "sal": 9 - i, "kind": fk if i == pos else ("ret" if i % 2 == 0 else "plain"), "stop": False, "ver": 100 + i} for i in range(4)]
                names = [r["name"] for r in rules]
                for b in ((True, False) if e in engfam.HAS_B else (True,)):
                    kw = dict(b=b, prev="fresh")
                    if e in engfam.SELECTED:
                        kw["names"] = names
                    if e in engfam.NM:
                        kw["n"], kw["m"] = 2, 2
                    if e == "ExecuteDAGModel":
                        kw["layers"] = [names[:2], names[2:]]
                    cases.append(base(e, rules, **kw))
                    if e == "ExecuteDAGModel":
                        # the faulty rule ALONE in its layer (first, middle or last layer), also when unknown names thin a layer down to it
                        cases.append(base(e, rules, **dict(kw, layers=[[n] for n in names])))
                        cases.append(base(e, rules, **dict(kw, layers=[[names[pos], "zz"], [n for n in names if n != names[pos]]])))
                        cases.append(base(e, rules, **dict(kw, layers=[[n for n in names if n != names[pos]], ["zz", names[pos]]])))
    if tier != "quick":
        for _ in range(3000):
            cases.append(engfam.rand_case(rng, rng.choice(engfam.ENTRIES), kinds=("plain", "ret", "fail", "panic1", "panic2", "loop"), weights=(3, 3, 1, 1, 1, 1)))
    return cases


RULE = ("(A) rule level: 31 fault classes (type mismatches, missing names / functions / fields, nil pointers, empty and out-of-range containers, wrong key kinds, non-boolean conditions, ! on non-booleans, "
        "panicking functions and methods, wrong argument counts and kinds, division by zero, no-result calls used as values) x 24 construct positions (assignment and compound-assignment right-hand sides, call arguments, "
        "if / else-if / for conditions, for init and step, return expressions, conc children, container element assignments, an if nested in a for), plus forRange operand faults, unbounded and nested unbounded loops, "
        "break / continue outside loops, unassignable targets; the model's predicted outcome (value / error with cited positions) must be what the call returned — a panic or crash never matches. "
        "(B) engine level: every one of the 21 entry points x 5 faulty rule kinds (two panicking shapes, an unbounded loop, a failing statement, a failing return) x 4 positions of the faulty rule x both flags, "
        "each batch in a child process, checked against the execution model's specification (the other rules run as the policy prescribes). "
        "distinct non-trivial = distinct (fault class, position) pairs at rule level plus distinct (entry point, faulty kind, position, flag) at engine level whose specification schedules >= 2 rules")


def main(run):
    build_harness()
    engfam.regen()
    ok, log = proof_obligations(run, PID, extra_obligations=3,
                                extra_names=["correspondence_C09_rules: fault matrix, Lang/Check.v mismatches = []",
                                             "gen_is_hand for all 21 entry points (T1)",
                                             "correspondence_C09_engine: Engine/Check.v mismatches gen cases = []"])
    rng = random.Random(run.seed)
    # (A)
    cases = make_cases(rng, run.tier)
    run.log("(A) running %d faulty rule texts through the sort model" % len(cases))
    obs = run_lang(cases)
    mism = evaluate_lang(PID, cases, obs)
    byid = {c["id"]: c for c in cases}
    ob = {o["id"]: o for o in obs}
    seen = {}
    for cid, code in [m for m in mism if m[1] != 7]:
        c, o = byid[cid], ob[cid]
        sig = {"kind": "lang-case", "symptom": SYMPTOM_L[code], "fault": c.get("fault"), "position": c.get("position")}
        key = (sig["symptom"], sig["fault"])
        seen[key] = seen.get(key, 0) + 1
        if seen[key] > 1 or len(seen) > 6:
            continue
        run.report(sig, {"text": c["text"], "inject": c["inject"], "rule": c["rule"], "observation": {k: o.get(k) for k in ("class", "ret", "cites", "errmsg", "crash")}, "disagreement": LCODES[code]},
                   "C09: fault '%s' at '%s': %s (observed class=%s%s) — %s" % (c.get("fault"), c.get("position"), LCODES[code], o["class"], " CRASH" if o.get("crash") else "", c["text"].replace("\n", " | ")[:300]))
    report_reader(run, PID, mism, lambda i: byid[i]["text"])
    escaped = [o for o in obs if o["class"] == "panic" or o.get("crash")]
    # (A') termination scenarios with driver-stated expectations
    term_bad = stated_scenarios(run, PID, termination_scenarios(), "a loop over a collection that grows while it runs visits the indexes present at its start and ends; a call whose receiver does not exist fails without disturbing the next rule")
    # (B)
    _ok, diff, _ = engfam.gen_obligation() if ok else (False, [], "")
    ecases = engine_cases(rng, run.tier)
    eobs, spec_bad, model_bad, nn, npar, reported = engfam.campaign(run, PID, ecases, engfam.ENTRIES, RULE)
    for e in diff:
        if not any(k[0] == e for k in reported):
            run.report({"kind": "obligation", "entry": e, "symptom": "skeleton"}, {"obligation": "gen_is_hand (E%s)" % e},
                       "C09: skeleton of %s changed and no failing input was found" % e, no_input=True)
    if not ok and not run.violations:
        run.report({"kind": "proof", "theorem": PID}, {"theorem": "Props/C09.v", "log": log[-3000:]}, "C09: the Coq development no longer builds and no failing input was found", no_input=True)
    if ok:
        interp_facts_report(run, PID, bool(run.violations))
    cov = run.coverage
    cov["discharged"] += (0 if mism else 1) + (0 if diff or not ok else 1) + (0 if spec_bad else 1)
    classes = {}
    for o in obs:
        classes[o["class"]] = classes.get(o["class"], 0) + 1
    pairs = set((c.get("fault"), c.get("position")) for c in cases)
    cov.update({"evaluations": len(cases) + len(ecases), "distinct_nontrivial": len(pairs) + nn, "rule": RULE,
                "rule_level": {"programs": len(cases), "outcome_classes": classes, "escaped_panics_or_crashes": len(escaped), "fault_classes": len(set(c.get("fault") for c in cases)), "positions": len(POSITIONS) + 1},
                "engine_level": {"calls": len(ecases), "disagreements_with_spec": len(spec_bad), "crashed_or_hung_calls": sum(1 for o in eobs if o.get("crash") or o.get("hang") or o.get("panic"))},
                "traces_validated_against_impl": len(cases) + len(ecases),
                "samples": [{"fault": cases[7].get("fault"), "position": cases[7].get("position"), "text": cases[7]["text"], "observed": {k: ob[cases[7]["id"]].get(k) for k in ("class", "cites")}},
                            {"engine_case": ecases[3], "observation": eobs[3]}]})
    run.assumptions = ["the absence of a process crash / hang is observed (child processes with timeouts), not proved: the proofs show where panics can arise in the model, that the rule entry point contains them, that evaluation terminates (every model function is a total Coq function; loops are bounded by maxExecuteNum) and that every fan-out child signals its WaitGroup (T1 goBody shape)",
                       "reflect panics exactly where the assumed table of Lang/Store.v says; injected functions terminate"]
    return run.finish()


def replay(run, data):
    if "case" in data["replay"]:
        return engfam.replay_case(run, data)
    return replay_lang(run, data)
