"""C13 — DAG model: layers are barriers, unknown names skipped, failure stops the rest."""
import itertools
from engfam import *  # noqa
from c05 import base, rules_with_failing

PID = "C13"
ENTRIES_P = ["ExecuteDAGModel"]


def make_cases(rng, tier, diff_here):
    cases = []
    layerings = [[], [[]], [["ra"]], [["ra", "rb"], ["rc"]], [["ra"], [], ["rb", "rc"]], [["zz"], ["ra", "rb"]],
                 [["ra", "ra"], ["rb"]], [["ra", "rb", "rc"], ["rd"], ["re", "zz"]], [["zz", "yy"], ["ra"]],
                 [["ra"], ["rb"], ["rc"], ["rd"]], [["rd", "rc"], ["rb", "ra"]],
                 [["", "ra"], ["rb", "", "zz", "rb"], [], ["rc"]], [["ra", ""], [""], ["rb"]]]
    k = 5
    fsets = [()] + [(i,) for i in range(k)] + ([(0, 3), (1, 2)] if tier == "quick" else list(itertools.combinations(range(k), 2)))
    for ly in layerings:
        for f in fsets:
            rules = rules_with_failing(k, f)
            flat = [n for l in ly for n in l if n in NAMES[:k]]
            for prev in ("fresh", "stale"):
                hold = rng.choice(flat) if flat and rng.random() < 0.85 else ""
                cases.append(base("ExecuteDAGModel", rules, layers=ly, hold=hold, prev=prev))
    # a failing rule that is the last of its layer to finish, with an error that is expensive to record
    for ly in ([["ra", "rb"], ["rc"]], [["ra"], ["rb", "rc"], ["rd"]], [["rb", "zz", "ra"], [], ["rc", "rd"]]):
        for i in range(2):
            rules = rules_with_failing(5, (i,))
            rules[i]["kind"] = "bigfail"
            cases.append(base("ExecuteDAGModel", rules, layers=ly, hold=NAMES[i]))
    # the SAME dag value used for two calls in a row (unknown names before, between and after existing ones): the second call
    # runs what the first one ran — a call does not edit the layers it is handed
    for ly in ([["zz", "ra", "rb"], [], ["yy", "rc"]], [["", "ra"], ["rb", "", "zz", "rb"], [], ["rc"]], [["ra", "zz", "rb", "yy", "rc"]], [["zz"], ["yy", "ra"]]):
        for f in ((), (1,)):
            c = base("ExecuteDAGModel", rules_with_failing(4, f), layers=ly, prev="stale")
            c["again"] = True
            cases.append(c)
    # very WIDE layers (70 and 130 names: each rule named many times, every occurrence runs): with and without a failing rule early
    # in the layer — the whole layer runs, the next one only when nothing failed
    for width in (70, 130):
        for f in ((), (0,), (2,)):
            rules = rules_with_failing(4, f)
            wide = [NAMES[i % 3] for i in range(width)]
            cases.append(base("ExecuteDAGModel", rules, layers=[wide, [NAMES[3]]]))
            cases.append(base("ExecuteDAGModel", rules, layers=[[NAMES[3]], wide]))
    # a name repeated in a layer of which ONE occurrence fails (the first execution only) while another succeeds and finishes later
    # (also with the failure inside a conc block whose other child is still running): the layer failed, whichever finished last
    for ly in ([["ra", "ra"], ["rb"]], [["rb"], ["ra", "rc", "ra"], ["rd"]], [["ra", "zz", "ra", "ra"], ["rb", "rc"]]):
        for kind in ("flaky", "concflaky"):
            rules = rules_with_failing(4, ())
            rules[0]["kind"] = kind
            cases.append(base("ExecuteDAGModel", rules, layers=ly))
    n_rand = 150 if tier == "quick" else 5000
    for _ in range(n_rand):
        cases.append(rand_case(rng, "ExecuteDAGModel", maxk=6 if tier == "quick" else 10))
    return cases


RULE = ("systematic: 13 layerings (0-4 layers, empty layers, unknown names incl. the empty string, duplicate names, widths 1-3) x failing subsets (none, each single rule, pairs) x fresh/previously-used engine, "
        "layers 70 and 130 names wide; layers naming a rule two or three times of which only the first execution fails (the others succeed and finish later); one rule held at its gate in most calls so that a missing layer barrier shows in the trace; random: 150 (thorough 5000) layerings.")


def main(run):
    return engine_check(run, PID, ENTRIES_P, make_cases, RULE, [],
                        after=lambda r: pool_wrappers_part(r, PID, ['ExecuteDAGModel']))


def replay(run, data):
    return replay_case(run, data)
