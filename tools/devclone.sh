#!/bin/sh
# Development aid (not a registered command): run quick checks on the current /verif sources in a clone, against /repo's HEAD
# (not its working tree, which tools/seedall.sh may be patching).   usage: tools/devclone.sh [-s seed] Cxx ...
set -e
seed=20261001
if [ "$1" = "-s" ]; then seed=$2; shift 2; fi
mkdir -p /tmp/vdev_repo
rm -rf /tmp/vdev_repo/* 
git -C /repo archive HEAD | tar -x -C /tmp/vdev_repo
cp /repo/go.sum /tmp/vdev_repo/go.sum
mkdir -p /tmp/vdev
rsync -a --delete --exclude build --exclude replays --exclude evidence /verif/ /tmp/vdev/
mkdir -p /tmp/vdev/evidence /tmp/vdev/build
sed -i 's#=> /repo#=> /tmp/vdev_repo#' /tmp/vdev/harness/go.mod
cd /tmp/vdev
for p in "$@"; do
  VERIF_REPO=/tmp/vdev_repo VERIF_SEED=$seed bin/vcheck $p --tier quick 2>&1 | grep -A2 '^VIOLATION\|done:\|HARNESS-ERROR\|Traceback' | cut -c1-400
done
