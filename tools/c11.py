"""C11 — the result map is exactly the set of rules that returned in this call."""
import itertools
from engfam import *  # noqa
from c05 import base

PID = "C11"
ENTRIES_P = ENTRIES
KINDS = ("plain", "ret", "bare", "fail", "retfail", "brk", "cont", "retpriv")


def make_cases(rng, tier, diff_here):
    cases = []
    # systematic: every entry point x a rule set containing every rule kind x fresh / previously used engine
    for e in ENTRIES:
        for rot in range(len(KINDS)):
            rules = [{"name": NAMES[i], "sal": 9 - i, "kind": KINDS[(i + rot) % len(KINDS)], "stop": False, "ver": 100 + i}
                     for i in range(5)]
            names = [r["name"] for r in rules]
            for prev in ("fresh", "stale"):
                kw = dict(b=True, prev=prev)
                if e in SELECTED:
                    kw["names"] = names if e not in NM else names[:4]
                if e in NM:
                    kw["n"], kw["m"] = 2, 2
                if e == "ExecuteDAGModel":
                    kw["layers"] = [names[:2], names[2:]]
                cases.append(base(e, rules, **kw))
        # all-plain set: the map must be empty, not stale
        rules = [{"name": NAMES[i], "sal": 9 - i, "kind": "plain", "stop": False, "ver": 100 + i} for i in range(3)]
        kw = dict(prev="stale")
        if e in SELECTED:
            kw["names"] = [r["name"] for r in rules]
        if e in NM:
            kw["n"], kw["m"] = 1, 2
        if e == "ExecuteDAGModel":
            kw["layers"] = [["ra"], ["rb", "rc"]]
        cases.append(base(e, rules, **kw))
    n_rand = 250 if tier == "quick" else 6000
    pool = ENTRIES + diff_here * 9
    for _ in range(n_rand):
        cases.append(rand_case(rng, rng.choice(pool), kinds=KINDS, weights=(2, 3, 2, 2, 2, 1, 1, 1), maxk=6 if tier == "quick" else 10))
    return cases


RULE = ("systematic: each of the 21 entry points x 5 rotations of a rule set containing a non-returning, a value-returning, a bare-returning, a failing-before-return and a failing-inside-return rule "
        "x fresh engine / engine used by an earlier call that left an entry; an all-non-returning set on a used engine; random: 250 (thorough 6000) calls over all entry points and rule kinds. "
        "Keys are compared inside Coq, values (returned integer / nil for a bare return) by the driver. Pool part: the 24 wrapper methods, both error-policy values, varied name lists / N-M splits / layerings, called in a row on (1,2) pools whose rule sets contain an always-failing rule and a stop-tag-setting rule at the top, in the middle or at the bottom; the map each hands back (also with an error) and its error flag are compared inside Coq with what Engine/Spec.v assigns to that entry point with those arguments.")


def pool_part(run):
    return pool_wrappers_part(run, PID)


def main(run):
    return engine_check(run, PID, ENTRIES_P, make_cases, RULE,
                        ["a rule that fails never reports the returned-flag (rule-level half of C11: Props/C11.v return_flag theorems over the statement model)"], after=pool_part)


def replay(run, data):
    return replay_case(run, data)
