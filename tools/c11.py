"""C11 — the result map is exactly the set of rules that returned in this call."""
import itertools
from engfam import *  # noqa
from c05 import base

PID = "C11"
ENTRIES_P = ENTRIES
KINDS = ("plain", "ret", "bare", "fail", "retfail", "brk", "cont", "retpriv")


def make_cases(rng, tier, diff_here):
    cases = []
    # systematic: every entry point x a rule set containing every rule kind x fresh / previously used engine
    for e in ENTRIES:
        for rot in range(len(KINDS)):
            rules = [{"name": NAMES[i], "sal": 9 - i, "kind": KINDS[(i + rot) % len(KINDS)], "stop": False, "ver": 100 + i}
                     for i in range(5)]
            names = [r["name"] for r in rules]
            for prev in ("fresh", "stale"):
                kw = dict(b=True, prev=prev)
                if e in SELECTED:
                    kw["names"] = names if e not in NM else names[:4]
                if e in NM:
                    kw["n"], kw["m"] = 2, 2
                if e == "ExecuteDAGModel":
                    kw["layers"] = [names[:2], names[2:]]
                cases.append(base(e, rules, **kw))
        # all-plain set: the map must be empty, not stale
        rules = [{"name": NAMES[i], "sal": 9 - i, "kind": "plain", "stop": False, "ver": 100 + i} for i in range(3)]
        kw = dict(prev="stale")
        if e in SELECTED:
            kw["names"] = [r["name"] for r in rules]
        if e in NM:
            kw["n"], kw["m"] = 1, 2
        if e == "ExecuteDAGModel":
            kw["layers"] = [["ra"], ["rb", "rc"]]
        cases.append(base(e, rules, **kw))
    n_rand = 250 if tier == "quick" else 6000
    pool = ENTRIES + diff_here * 9
    for _ in range(n_rand):
        cases.append(rand_case(rng, rng.choice(pool), kinds=KINDS, weights=(2, 3, 2, 2, 2, 1, 1, 1), maxk=6 if tier == "quick" else 10))
    return cases


RULE = ("systematic: each of the 21 entry points x 5 rotations of a rule set containing a non-returning, a value-returning, a bare-returning, a failing-before-return and a failing-inside-return rule "
        "x fresh engine / engine used by an earlier call that left an entry; an all-non-returning set on a used engine; random: 250 (thorough 6000) calls over all entry points and rule kinds. "
        "Keys are compared inside Coq, values (returned integer / nil for a bare return) by the driver. Pool part: the 24 wrapper methods, both error-policy values, varied name lists / N-M splits / layerings, called in a row on (1,2) pools whose rule sets contain an always-failing rule and a stop-tag-setting rule at the top, in the middle or at the bottom; the map each hands back (also with an error) and its error flag are compared inside Coq with what Engine/Spec.v assigns to that entry point with those arguments.")


def pool_part(run):
    """The same promise through the POOL, and the wrappers' transparency: every one of the 24 wrapper methods, with both values of
    the error-policy flag, name lists (all rules in priority order / a permuted subset / with an unknown name) and two N-M splits, on
    rule sets in which the always-failing probe rule pd and the stop-tag-setting rule ps sit at the top, in the middle or at the
    bottom — several hundred calls in a row on (1,2) pools, so that an instance serves again and again.  The map a wrapper hands
    back (also when the call reports an error) and whether it reports an error must be what the engine specification
    (Engine/Spec.v spec_outcome) assigns to that entry point, with those arguments, on the installed rules."""
    import poolfam
    import c07
    rng = random.Random(run.seed + 11)
    scs, sid = [], 1
    orders = (["pd", "pa", "pb"], ["pa", "pd", "pb"], ["pa", "pb", "pd"], ["pa", "pb", "pc"], ["ps", "pa", "pb"], ["pa", "ps", "pb", "pc"], ["pa", "pb", "ps"],
              ["pa", "pd", "ps", "pb"], ["pa", "ps", "pd", "pb"])
    for order in orders:
        for model in ((1, 3) if run.tier == "quick" else (1, 2, 3, 4)):
            rules = poolfam.rules_v(1, names=order, kinds={"pd": "fail", "ps": "stop"})
            sc = {"id": sid, "min": 1, "max": 2, "model": model, "rules": rules, "steps": []}
            rid = sid * 1000
            for meth in poolfam.METHODS:
                if meth == "ExecuteRulesWithSpecifiedEM" and "ps" in order:
                    continue        # this wrapper injects two named objects only: the rule ps could not reach the request's stop tag
                for b in (True, False):
                    k = len(order)
                    names = rng.choice([list(order), list(order), rng.sample(order, k - 1), list(reversed(order)), order[:1] + ["zz"] + order[1:]])
                    n = rng.choice([1, 2]) if k > 2 else 1
                    rid += 1
                    st = poolfam.req_step(rid, meth, names, hold_at="", flag=True, b=b, n=n, m=len(names) - n if "Selected" in meth else k - n)
                    st["layers"] = [list(order[:1]), list(order[1:])] if rng.random() < 0.5 else [list(order[:2]), ["zz"], list(order[2:])]
                    sc["steps"].append(st)
                    sc["steps"].append({"op": "wait", "id": rid})
            scs.append(sc)
            sid += 1
    obs = poolfam.run_pool([poolfam.strip(s) for s in scs])
    ob = {o["id"]: o for o in obs}
    items, n_calls, n_err = [], 0, 0
    extra = []
    for sc in scs:
        o = ob[sc["id"]]
        if o.get("crash"):
            extra.append((sc["id"], 0))
            continue
        steps = {st["id"]: st for st in sc["steps"] if st["op"] == "req"}
        for r in o["reqs"]:
            if not r.get("done"):
                extra.append((sc["id"], r["id"] % 1000))
                continue
            n_calls += 1
            n_err += 1 if r["err"] else 0
            st = steps[r["id"]]
            got = poolfam.coq_list(["(%s, %s)" % (poolfam.coq_str(n), poolfam.coq_z(v // 1000000)) for n, v in sorted(r["result"].items()) if v >= 0])
            items.append("(%s, %s, (%s, %s, %s), %s, %s, (%s, %s))" % (poolfam.coq_nat(sc["id"]), poolfam.coq_nat(r["id"] % 1000), poolfam.coq_nat(sc["max"]), poolfam.coq_nat(sc["model"]), poolfam.coq_bool(st["b"] if st["method"] in HAS_B else True),
                                                                 poolfam.coq_prules(sc["rules"]), c07.coq_shape(st, sc["model"]), got, poolfam.coq_bool(r["err"])))
    defs = ("Definition erule_s (r : rule) : erule := mkER (rname r) (rsal r) (probe_fails (rname r)) (negb (probe_fails (rname r))) (String.eqb (rname r) \"ps\") (Some (rbody r)).\n"
            "Definition spec_s (mx md : nat) (b : bool) (rs : list rule) (sh : call_shape) : outcome :=\n"
            "  spec_outcome (sh_entry sh) (mkCfg (map erule_s (sorted (m_master (mgmt_init mx md rs idshuffle)))) b (sh_n sh) (sh_m sh) (sh_names sh) (sh_layers sh) false None).\n"
            "Definition map_s (o : outcome) : list (string * Z) := match o_map o with Some m => flat_map (fun nv => match snd nv with Some v => [(fst nv, v)] | None => [] end) m | None => [] end.\n"
            "Definition pcases := %s.\n"
            "Definition PM := flat_map (fun c => match c with (sid, q, (mx, md, b), rs, sh, (got, err)) => let o := spec_s mx md b rs sh in "
            "if (same_entries got (map_s o) && Bool.eqb err (o_err o))%%bool then [] else [(sid, q)] end) pcases.\n") % poolfam.coq_list(items, per_line=True)
    mm = [tuple(t) for t in poolfam.evaluate(PID + "_pool", defs, ["PM"])["PM"]] + extra
    run.log("pool part: %d wrapper calls (%d reporting an error), %d disagreement(s)" % (n_calls, n_err, len(mm)))
    byid = {s["id"]: s for s in scs}
    seen = set()
    for sid, q in mm:
        sc = byid[sid]
        st = next((x for x in sc["steps"] if x["op"] == "req" and x["id"] % 1000 == q), None)
        meth = st["method"] if st else "?"
        if meth in seen:
            continue
        seen.add(meth)
        r = next((x for x in ob[sid]["reqs"] if x["id"] % 1000 == q), None)
        run.report({"kind": "pool-result", "entry": meth}, {"scenario": poolfam.strip(sc), "step": st, "request": r, "disagreement": "the result map / error flag handed back by the pool wrapper is not what the entry point yields, with these arguments, on the installed rules"},
                   "C11: pool wrapper %s(b=%s, names=%s, n=%s, m=%s) on rules %s (pd fails, ps sets the stop tag), model %d: returned map %s (error reported: %s) is not what the execution model yields" % (
                       meth, st and st["b"], st and st["names"], st and st["n"], st and st["m"], [x["name"] for x in sc["rules"]], sc["model"], r and r.get("result"), r and r.get("err")))
    return (not mm), {"pool_wrapper_calls": n_calls, "pool_wrapper_calls_reporting_an_error": n_err}


def main(run):
    return engine_check(run, PID, ENTRIES_P, make_cases, RULE,
                        ["a rule that fails never reports the returned-flag (rule-level half of C11: Props/C11.v return_flag theorems over the statement model)"], after=pool_part)


def replay(run, data):
    return replay_case(run, data)
