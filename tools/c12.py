"""C12 — selected-rule calls run exactly the named rules that exist, in the promised order."""
import itertools
from engfam import *  # noqa
from c05 import base, rules_with_failing

PID = "C12"
ENTRIES_P = SELECTED


def make_cases(rng, tier, diff_here):
    cases = []
    rules = [{"name": NAMES[i], "sal": s, "kind": "ret" if i % 2 == 0 else "plain", "stop": False, "ver": 100 + i}
             for i, s in enumerate([5, 9, 5, -1, 9])]
    names_all = [r["name"] for r in rules]
    lists = [[], ["zz"], ["zz", "yy"], ["rc"], ["rc", "ra"], ["ra", "rc"], ["rd", "zz", "rb"], ["rb", "rb"], ["re", "rb", "ra", "rc", "rd"],
             ["rd", "rc", "rb", "ra"], ["ra", "ra", "rd", "zz", "rd"], list(reversed(names_all))]
    if tier != "quick":
        lists += [list(p) for p in itertools.permutations(names_all[:4], 3)]
    for e in [x for x in SELECTED if x not in NM]:
        for nl in lists:
            for b in ((True, False) if e in HAS_B else (True,)):
                hold = rng.choice(nl) if nl and e in CONCURRENT and rng.random() < 0.7 else ""
                cases.append(base(e, rules, b=b, names=nl, hold=hold if hold in names_all else ""))
    for e in [x for x in SELECTED if x in NM]:
        for nl in lists:
            k = len(nl)
            for (n, m) in ([(1, k - 1), (k - 1, 1)] if k >= 2 else [(1, 1)]) + [(1, 1), (2, 2)]:
                cases.append(base(e, rules, b=rng.random() < 0.5, n=n, m=m, names=nl))
    # the SAME name list used for two calls in a row (unknown and repeated names inside): a call does not edit the list it is handed
    for e in SELECTED:
        for nl in (["zz", "rc", "ra"], ["rb", "", "rb", "zz", "rd"], ["yy", "zz", "re"]):
            k = len(nl)
            c = base(e, rules, b=True, n=1, m=k - 1, names=nl, prev="stale")
            c["again"] = True
            cases.append(c)
    # a repeated name of which only the FIRST execution fails (the other succeeds, later): the call ran a failing rule
    for e in [x for x in SELECTED if x not in NM]:
        for nl in (["ra", "ra"], ["rc", "ra", "rb", "ra"]):
            for kind in ("flaky", "concflaky"):
                for b in ((True, False) if e in HAS_B else (True,)):
                    rs = [dict(r) for r in rules]
                    rs[0]["kind"] = kind
                    cases.append(base(e, rs, b=b, names=nl))
    n_rand = 200 if tier == "quick" else 5000
    pool = ENTRIES_P + diff_here * 9
    for _ in range(n_rand):
        cases.append(rand_case(rng, rng.choice(pool), maxk=6 if tier == "quick" else 10))
    return cases


RULE = ("systematic: a 5-rule set with salience ties x 12 name lists (empty, only-unknown, singletons, permutations, duplicates, unknown names mixed in; thorough adds all 3-permutations of 4 names) "
        "x every one of the 11 selected variants (x both flags where there is one; N-M variants with matching and non-matching n+m); repeated names of which only the first execution fails; random: 200 (thorough 5000) calls.")


def main(run):
    return engine_check(run, PID, ENTRIES_P, make_cases, RULE,
                        ["duplicate names in a selection run once per occurrence (DESIGN.md appendix D)"],
                        after=lambda r: pool_wrappers_part(r, PID, ['ExecuteSelectedWithSpecifiedEM', 'ExecuteSelectedRules', 'ExecuteSelectedRulesWithControl', 'ExecuteSelectedRulesWithControlAsGivenSortedName', 'ExecuteSelectedRulesWithControlAndStopTag', 'ExecuteSelectedRulesWithControlAndStopTagAsGivenSortedName', 'ExecuteSelectedRulesConcurrent', 'ExecuteSelectedRulesMixModel', 'ExecuteSelectedRulesInverseMixModel', 'ExecuteSelectedNSortMConcurrent', 'ExecuteSelectedNConcurrentMSort', 'ExecuteSelectedNConcurrentMConcurrent']))


def replay(run, data):
    return replay_case(run, data)
