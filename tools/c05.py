"""C05 — mix, inverse-mix and N-M models: stage barriers, exactly-once, windows, error policy."""
import itertools
from engfam import *  # noqa

PID = "C05"
ENTRIES_P = ["ExecuteMixModel", "ExecuteInverseMixModel", "ExecuteSelectedRulesMixModel",
             "ExecuteSelectedRulesInverseMixModel"] + NM


def base(entry, rules, **kw):
    c = {"entry": entry, "rules": rules, "b": True, "n": 0, "m": 0, "names": [], "layers": [], "stop0": False,
         "prev": "fresh", "hold": ""}
    c.update(kw)
    return c


def rules_with_failing(k, failing):
    return [{"name": NAMES[i], "sal": 9 - i, "kind": "fail" if i in failing else ("ret" if i % 2 == 0 else "plain"),
             "stop": False, "ver": 100 + i} for i in range(k)]


def make_cases(rng, tier, diff_here):
    cases = []
    # systematic: sizes x (n,m) x failing subsets (<=1 element, or 2 in thorough) x both flags x held rule
    sizes = [2, 3, 4] if tier == "quick" else [2, 3, 4, 5, 6]
    for k in sizes:
        fsets = [()] + [(i,) for i in range(k)]
        if tier != "quick":
            fsets += list(itertools.combinations(range(k), 2))
        for e in ["ExecuteNSortMConcurrent", "ExecuteNConcurrentMSort", "ExecuteNConcurrentMConcurrent"]:
            for n in range(1, k):
                for m in range(1, k - n + 1):
                    for f in fsets:
                        for b in (True, False):
                            rules = rules_with_failing(k, f)
                            hold = NAMES[rng.randrange(n)] if rng.random() < 0.7 else NAMES[n + rng.randrange(m)]
                            cases.append(base(e, rules, b=b, n=n, m=m, hold=hold))
        for f in fsets:
            rules = rules_with_failing(k, f)
            cases.append(base("ExecuteMixModel", rules, hold=NAMES[0]))
            cases.append(base("ExecuteInverseMixModel", rules, hold=NAMES[rng.randrange(max(1, k - 1))]))
            cases.append(base("ExecuteInverseMixModel", rules, hold=NAMES[k - 1]))
    # a failing rule that is the LAST of its concurrent stage to finish (held at its gate) and whose error is expensive to
    # record (2 MiB text): the stage must not be considered over before that failure counts
    def big(k, i):
        rules = rules_with_failing(k, (i,))
        rules[i]["kind"] = "bigfail"
        return rules
    for k in (3, 4):
        for i in range(k - 1):
            cases.append(base("ExecuteInverseMixModel", big(k, i), hold=NAMES[i]))
        for i in range(1, k):
            cases.append(base("ExecuteMixModel", big(k, i), hold=NAMES[i]))
        for e in ["ExecuteNConcurrentMSort", "ExecuteNConcurrentMConcurrent"]:
            for i in range(2):
                cases.append(base(e, big(k, i), b=False, n=2, m=k - 2, hold=NAMES[i]))
    # the smallest rule sets: one rule (mix / inverse-mix have special cases for len <= 2), and n + m == len exactly
    for f in [(), (0,)]:
        rules = rules_with_failing(1, f)
        for e in ("ExecuteMixModel", "ExecuteInverseMixModel"):
            cases.append(base(e, rules, hold="ra"))
            cases.append(base(e, rules))
        for e in ["ExecuteNSortMConcurrent", "ExecuteNConcurrentMSort", "ExecuteNConcurrentMConcurrent"]:
            cases.append(base(e, rules, n=1, m=1))
            cases.append(base(e, rules, n=1, m=0))
    # the SELECTED mix / inverse-mix variants, systematically: selections of 1-4 of 5 rules (permuted, also thinned down by an unknown
    # name), every single failing rule of the selection, the head / the tail held
    for e in ("ExecuteSelectedRulesMixModel", "ExecuteSelectedRulesInverseMixModel"):
        for k in (1, 2, 3, 4):
            for f in [()] + [(i,) for i in range(k)]:
                for unknown in (False, True):
                    rules = rules_with_failing(5, f)
                    names = NAMES[:k]
                    rng.shuffle(names)
                    if unknown:
                        names.insert(rng.randrange(len(names) + 1), "zz")
                    hold = "" if k == 1 else (NAMES[0] if "Inverse" not in e else NAMES[rng.randrange(k - 1)])
                    cases.append(base(e, rules, names=list(names), hold=hold))
    # invalid parameters
    for e in NM:
        for (n, m) in [(0, 1), (1, 0), (-1, 2), (3, 2), (2, 3)]:
            rules = rules_with_failing(4, ())
            cases.append(base(e, rules, n=n, m=m, names=[r["name"] for r in rules][: max(0, n + m)]))
    # selected N-M: exactly n+m names, permuted; unknown names; wrong counts
    for e in [x for x in NM if "Selected" in x]:
        for k in (3, 4, 5):
            for _ in range(4 if tier == "quick" else 20):
                rules = mk_rules(rng, k, weights=(3, 3, 1))
                n = rng.randint(1, k - 1)
                m = rng.randint(1, k - n)
                names = rng.sample([r["name"] for r in rules], n + m)
                cases.append(base(e, rules, b=rng.random() < 0.5, n=n, m=m, names=names, hold=rng.choice(names)))
        rules = rules_with_failing(4, ())
        cases.append(base(e, rules, n=1, m=1, names=["ra", "zz"]))          # unknown name
        cases.append(base(e, rules, n=2, m=1, names=["ra", "rb"]))          # wrong count
        cases.append(base(e, rules, n=1, m=2, names=["zz", "ra", "rb"]))    # unknown first
        # as many names as there are rules, but not a permutation of them: an unknown name, a repeated name
        for k in (3, 4):
            rules = rules_with_failing(k, ())
            all_names = [r["name"] for r in rules]
            for (n, m) in ((1, k - 1), (k - 1, 1)):
                for bad in (all_names[:-1] + ["zz"], ["zz"] + all_names[1:], all_names[:-1] + [all_names[0]], [all_names[1]] + all_names[1:]):
                    cases.append(base(e, rules, b=rng.random() < 0.5, n=n, m=m, names=bad))
    # random
    n_rand = 150 if tier == "quick" else 4000
    pool = ENTRIES_P + diff_here * 9
    for _ in range(n_rand):
        cases.append(rand_case(rng, rng.choice(pool), maxk=6 if tier == "quick" else 10))
    return cases


RULE = ("systematic: rule sets of size 2-4 (thorough 2-6) with saliences 9,8,.. x every split n+m<=size x failing subsets of size <=1 (thorough <=2) x both flags x one held rule, "
        "for the three N-M models; mix / inverse-mix with each failing subset and the first / an early / the last rule held; the selected mix / inverse-mix variants on selections of 1-4 of 5 rules (permuted, with an unknown name) x every single failing rule; invalid (n,m); selected N-M with permuted, unknown, repeated and miscounted names (also name lists exactly as long as the rule set that are not a permutation of it); "
        "random: 150 (thorough 4000) calls over the 10 entry points with ties, negative saliences and random holds.")


def main(run):
    return engine_check(run, PID, ENTRIES_P, make_cases, RULE,
                        ["C05 is decided for rules whose outcome does not depend on the schedule"],
                        after=lambda r: pool_wrappers_part(r, PID, ['ExecuteMixModel', 'ExecuteInverseMixModel', 'ExecuteSelectedRulesMixModel', 'ExecuteSelectedRulesInverseMixModel', 'ExecuteNSortMConcurrent', 'ExecuteNConcurrentMSort', 'ExecuteNConcurrentMConcurrent', 'ExecuteSelectedNSortMConcurrent', 'ExecuteSelectedNConcurrentMSort', 'ExecuteSelectedNConcurrentMConcurrent']))


def replay(run, data):
    return replay_case(run, data)
