"""C08 — rule-set algebra: histories of full build / incremental build / removal.

Model: coq/theories/Rules/KcModel.v (hand-written, mirrors builder/rule_builder.go and
internal/tool/tool.go); theorems: Props/C08.v; tie: every history is run on the Go
builder, the container is dumped after every operation and compared inside Coq
(Rules/KcCheck.v) with the model state and with the invariant, modulo tie order.
"""
import itertools
import json
import random

from common import *  # noqa

NAMES = ["a", "b", "c", "d", "e", "f", "a ", " b", "A"]      # "a " / " b" / "A" are names of their own (blanks and case are part of a name)
SALS = [-3, -1, -7, -7, 0, 0, 1, 5, 5, 9, -2 ** 63, 2 ** 63 - 1]      # the int64 extremes: differences of saliences overflow
DESCS = ["", "d1", "d2"]


def rule_text(r):
    s = 'rule "%s"' % r["name"]
    if r["desc"] != "":
        s += ' "%s"' % r["desc"]
    if r["sal"] != 0 or r.get("explicit_sal"):
        s += " salience %d" % r["sal"]
    s += " begin return %d end" % r["body"]
    return s


class Gen:
    def __init__(self, rng):
        self.rng = rng
        self.ver = 100

    def rule(self, name, sal=None):
        self.ver += 1
        r = self.rng
        return {"name": name, "sal": r.choice(SALS) if sal is None else sal, "desc": r.choice(DESCS),
                "body": self.ver, "explicit_sal": r.random() < 0.3}

    def op(self, present):
        """One random operation, biased to the interesting cases given the names present."""
        r = self.rng
        x = r.random()
        if x < 0.12:
            names = r.sample(NAMES, r.randint(1, 4))
            return {"kind": "full", "rules": [self.rule(n) for n in names]}
        if x < 0.67:
            k = r.randint(1, 3)
            pool = list(present) * 2 + NAMES if present else NAMES
            names = []
            while len(names) < k:
                n = r.choice(pool)
                if n not in names:
                    names.append(n)
            return {"kind": "incr", "rules": [self.rule(n) for n in names]}
        if x < 0.85:
            pool = list(present) * 2 + NAMES if present else NAMES
            names = [r.choice(pool) for _ in range(r.randint(1, 3))]
            return {"kind": "remove", "names": names}
        if x < 0.90:
            n = r.choice(NAMES)
            return {"kind": r.choice(["full", "incr"]), "rules": [self.rule(n), self.rule(n)]}  # duplicate name
        if x < 0.93:
            return {"kind": "remove", "names": []}
        return {"kind": r.choice(["full", "incr"]), "bad": r.choice(
            ['rule "a" begin return 1', 'rule "a" salience x begin end', '   ', 'rule begin end', 'rule "a" begin a=1 # end'])}


def present_after(present, op):
    if "bad" in op:
        return present
    if op["kind"] in ("full", "incr"):
        names = [x["name"] for x in op["rules"]]
        if len(set(names)) != len(names) or not names:
            return present
        return set(names) if op["kind"] == "full" else present | set(names)
    if op["kind"] == "remove":
        return present - set(op["names"]) if op["names"] else present
    return present


def systematic(gen):
    """All histories [Full base; op1; op2] over a reduced alphabet of second/third operations."""
    hs = []
    base = lambda: {"kind": "full", "rules": [gen.rule("a", 5), gen.rule("b", 0), gen.rule("c", 0), gen.rule("d", -3)]}
    alts = [
        lambda: {"kind": "incr", "rules": [gen.rule("b", 9)]},           # move up to front
        lambda: {"kind": "incr", "rules": [gen.rule("a", -3)]},          # move down to a tie
        lambda: {"kind": "incr", "rules": [gen.rule("c", 0)]},           # same salience replace
        lambda: {"kind": "incr", "rules": [gen.rule("e", 1)]},           # add in the middle
        lambda: {"kind": "incr", "rules": [gen.rule("e", 0), gen.rule("b", 1)]},  # add + move in one text
        lambda: {"kind": "incr", "rules": [gen.rule("d", 7), gen.rule("f", -5), gen.rule("a", 0)]},
        lambda: {"kind": "remove", "names": ["b"]},
        lambda: {"kind": "remove", "names": ["a", "z", "d"]},
        lambda: {"kind": "full", "rules": [gen.rule("e", 1), gen.rule("a", 1)]},
        lambda: {"kind": "incr", "bad": 'rule "a" begin return 1'},
    ]
    for i, j in itertools.product(range(len(alts)), repeat=2):
        hs.append([base(), alts[i](), alts[j]()])
    # salience changes among NEGATIVE neighbours (a rule moving past, or staying between, rules below zero)
    neg = lambda: {"kind": "full", "rules": [gen.rule("a", 10), gen.rule("b", -1), gen.rule("c", -5), gen.rule("d", -9)]}
    for (n, sal) in [("b", -7), ("b", -5), ("c", -1), ("c", -10), ("d", -2), ("a", -6), ("b", -1), ("c", 0)]:
        hs.append([neg(), {"kind": "incr", "rules": [gen.rule(n, sal)]}])
        hs.append([neg(), {"kind": "incr", "rules": [gen.rule(n, sal), gen.rule("e", -3)]}, {"kind": "remove", "names": ["e"]}])
    # the SAME text submitted again (byte-identical) after the set has been changed by another operation: it must be
    # applied again, not recognised as "already installed"
    for i in range(len(alts)):
        b = base()
        hs.append([b, alts[i](), dict(b)])
        hs.append([b, alts[i](), dict(b), alts[(i + 3) % len(alts)]()])
        inc = alts[i]()
        hs.append([base(), inc, alts[(i + 1) % len(alts)](), dict(inc)])
    return hs


def to_harness(op):
    if "bad" in op:
        return {"kind": op["kind"], "text": op["bad"]}
    if op["kind"] == "remove":
        return {"kind": "remove", "names": op["names"]}
    return {"kind": op["kind"], "text": "\n".join(rule_text(r) for r in op["rules"])}


def coq_rule(r):
    return "mkRule %s %s %s %s" % (coq_str(r["name"]), coq_z(r["sal"]), coq_str(r["desc"]), coq_z(r["body"]))


def to_coq_op(op):
    if "bad" in op:
        return "Bad %s" % coq_bool(op["kind"] == "incr")
    if op["kind"] == "remove":
        return "Remove 0 %s" % coq_list([coq_str(n) for n in op["names"]])
    return "%s 0 %s" % ("Full" if op["kind"] == "full" else "Incr", coq_list(["(" + coq_rule(r) + ")" for r in op["rules"]]))


def coq_obs(st):
    rl = lambda l: coq_list(["(mkRule %s %s %s %s)" % (coq_str(x["name"]), coq_z(x["sal"]), coq_str(x["desc"]), coq_z(x["body"])) for x in l])
    # positions are naturals in the model: a NEGATIVE observed index (never a position) is written as len+1 (never a position either)
    idx = coq_list(["(%s, %s)" % (coq_str(k), coq_nat(v if v >= 0 else len(st["sorted"]) + 1)) for k, v in sorted(st["index"].items())])
    return "mkObs %s %s %s %s %s %s" % (coq_bool(st["err"]), rl(st["sorted"]), rl(st["ents"]),
                                        coq_list([coq_str(k) for k in st["keys"]]), idx,
                                        coq_list([coq_bool(b) for b in st["exist"]]))


HEADER = """From Coq Require Import String List ZArith Bool.
From GV Require Import Rules.KcModel Rules.KcCheck.
Import ListNotations.
"""

CODES = {1: "error flag differs from the model (all-or-nothing / acceptance)",
         2: "installed rule set (names, saliences, descriptions, bodies) differs from what the history denotes",
         3: "entity-map keys differ from the rule names stored under them",
         4: "SortRules is not in non-increasing salience order",
         5: "SortRules is not a duplicate-free permutation of the installed rules",
         6: "SortRulesIndexMap does not map every rule name to its position",
         7: "salience sequence of SortRules differs from the model's",
         8: "IsExist answers differ from the installed set"}


def evaluate(name, cases, obs):
    """cases: list of (id, history); obs: harness output. Returns list of [id, step, code]."""
    byid = {o["id"]: o for o in obs}
    items = []
    for cid, h in cases:
        o = byid[cid]
        if any(s.get("panic") for s in o["steps"]):
            continue  # handled by caller
        steps = coq_list(["(%s, %s)" % (to_coq_op(op), coq_obs(st)) for op, st in zip(h, o["steps"])], per_line=True)
        items.append("mkCase %s %s %s" % (coq_nat(cid), coq_list([coq_str(n) for n in NAMES + ["z"]]), steps))
    body = "Definition cases : list case := %s.\nDefinition M := mismatches cases.\nDefinition NM := count_moves cases.\n" % coq_list(items, per_line=True)
    res = coq_eval_cases(name, HEADER, body, ["M", "NM"])
    return parse_nat_tuples(res["M"]), int(re.findall(r"\d+", res["NM"])[0])


def run_cases(cases):
    """cases: list of (id, history) -> harness observations (sharded over the cores)."""
    payload = [{"id": cid, "probe": NAMES + ["z"], "ops": [to_harness(op) for op in h]} for cid, h in cases]
    shards = [payload[i::NCPU] for i in range(NCPU)]
    shards = [s for s in shards if s]
    outs = parallel_map(lambda s: run_harness("kc", s, timeout=900), shards)
    return [o for out in outs for o in out]


def fails(history, tag="shrink"):
    """Does a single history still disagree? (used by the shrinker and by replay)"""
    obs = run_cases([(0, history)])
    if any(s.get("panic") for s in obs[0]["steps"]):
        return [[0, i, 9] for i, s in enumerate(obs[0]["steps"]) if s.get("panic")][:1]
    mm, _ = evaluate("cases_C08_" + tag, [(0, history)], obs)
    return mm


def shrink(history, budget=24):
    h = list(history)
    mm = fails(h)
    if not mm:
        return history, None
    h = h[: mm[0][1] + 1]
    changed = True
    while changed and budget > 0:
        changed = False
        for i in range(len(h) - 1):
            cand = h[:i] + h[i + 1:]
            budget -= 1
            m2 = fails(cand)
            if m2:
                h, mm, changed = cand[: m2[0][1] + 1], m2, True
                break
            if budget <= 0:
                break
    return h, mm


def main(run):
    rng = random.Random(run.seed)
    gen = Gen(rng)
    build_harness()
    ok, log = proof_obligations(run, "C08", extra_obligations=1, extra_names=["correspondence_C08: mismatches cases = []"])
    n_rand, maxlen = (160, 12) if run.tier == "quick" else (3000, 40)
    hs = []
    corpus_dir = os.path.join(ROOT, "corpus", "C08")
    if os.path.isdir(corpus_dir):
        for f in sorted(os.listdir(corpus_dir)):
            hs.append(json.load(open(os.path.join(corpus_dir, f)))["history"])
    n_corpus = len(hs)
    hs += systematic(gen)
    n_sys = len(hs) - n_corpus
    for _ in range(n_rand):
        present, h = set(), []
        for _ in range(rng.randint(2, maxlen)):
            op = gen.op(present)
            h.append(op)
            present = present_after(present, op)
        hs.append(h)
    cases = list(enumerate(hs))
    run.log("running %d histories (%d corpus, %d systematic, %d random) on the implementation" % (len(cases), n_corpus, n_sys, n_rand))
    obs = run_cases(cases)
    kinds = {}
    for _, h in cases:
        for op in h:
            k = ("bad-" if "bad" in op else "") + op["kind"]
            kinds[k] = kinds.get(k, 0) + 1
    # panics are violations of "no sequence panics" (C08 total operations) — report directly
    mism = []
    for o in obs:
        for i, s in enumerate(o["steps"]):
            if s.get("panic"):
                mism.append([o["id"], i, 9])
    CODES[9] = "builder operation panicked, or changed the argument list it was handed"
    shard = 400
    nmoves = 0
    for i in range(0, len(cases), shard):
        mm, nm = evaluate("cases_C08_%d" % (i // shard), cases[i:i + shard], obs)
        mism += mm
        nmoves += nm
    run.log("model evaluated inside Coq: %d disagreement(s)" % len(mism))
    seen = set()
    for cid, step, code in mism:
        if cid in seen:
            continue
        seen.add(cid)
        if len(seen) > 3:
            break
        h, m2 = shrink(hs[cid]) if code != 9 else (hs[cid][:step + 1], [[0, step, 9]])
        code2 = m2[0][2] if m2 else code
        sig = {"kind": "kc-history", "code": code2, "last_op": ("bad-" if "bad" in h[-1] else "") + h[-1]["kind"]}
        run.report(sig, {"history": h, "harness_ops": [to_harness(op) for op in h], "failing_step": len(h) - 1,
                         "disagreement": CODES.get(code2, str(code2)), "replay_cmd": "bin/vcheck replay <this file>"},
                   "C08: after %d operation(s) the builder state breaks: %s" % (len(h), CODES.get(code2, code2)))
    if not ok and not run.violations:
        run.report({"kind": "proof", "theorem": "C08"}, {"theorem": "Props/C08.v / Rules/KcProofs.v", "log": log[-3000:]},
                   "C08: the Coq development no longer builds and no failing history was found", no_input=True)
    cov = run.coverage
    if not mism:
        cov["discharged"] += 1
    cov.update({"evaluations": len(cases), "distinct_nontrivial": nmoves,
                "rule": "histories = corpus + all [Full;op;op] over 10 operation shapes + random histories (length<=%d) over names %s, saliences %s; non-trivial = history containing an incremental build that moves an existing rule to another salience (counted inside Coq by count_moves); every history is distinct by construction of version-numbered bodies" % (maxlen, NAMES, SALS),
                "operations": sum(len(h) for h in hs), "operation_kinds": kinds,
                "samples": [[to_harness(op) for op in hs[n_corpus + 47]], [to_harness(op) for op in hs[-1]]],
                "traces_validated_against_impl": len(cases), "disagreements": len(mism)})
    run.assumptions = ["Go slices modelled as lists (aliasing of the shadowed newSortRules modelled by its effect)",
                       "Go map iteration order is an arbitrary permutation (theorems quantify over it; the run compares modulo tie order)",
                       "rule bodies identified by the integer they return"]
    return run.finish()


def replay(run, data):
    build_harness()
    mm = fails(data["replay"]["history"], tag="replay")
    print("replay: disagreements =", mm)
    return 1 if mm else 0
