"""C14 — stop tag: once set, no further rule starts; never set = plain variant."""
import itertools
from engfam import *  # noqa
from c05 import base

PID = "C14"
PAIRS = [("ExecuteWithStopTagDirect", "Execute"), ("ExecuteMixModelWithStopTagDirect", "ExecuteMixModel"),
         ("ExecuteSelectedRulesWithControlAndStopTag", "ExecuteSelectedRulesWithControl"),
         ("ExecuteSelectedRulesWithControlAndStopTagAsGivenSortedName", "ExecuteSelectedRulesWithControlAsGivenSortedName")]
ENTRIES_P = [a for a, _ in PAIRS] + [b for _, b in PAIRS]


def make_cases(rng, tier, diff_here):
    cases = []
    sizes = [1, 2, 3, 4] if tier == "quick" else [1, 2, 3, 4, 5]
    for k in sizes:
        for stop_pos in [None] + list(range(k)):
            for f in [()] + [(i,) for i in range(k)]:
                rules = [{"name": NAMES[i], "sal": 9 - i, "kind": "fail" if i in f else ("ret" if i % 2 == 0 else "plain"),
                          "stop": stop_pos == i, "ver": 100 + i} for i in range(k)]
                names = [r["name"] for r in rules]
                for tagged, plain in PAIRS:
                    for b in ((True, False) if tagged in HAS_B else (True,)):
                        nl = names if "Selected" in tagged else []
                        hold = names[0] if "Mix" in tagged else ""
                        cases.append(base(tagged, rules, b=b, names=nl, hold=hold))
                        if stop_pos is None:
                            cases.append(base(plain, rules, b=b, names=nl, hold=hold))
                            cases[-2]["twin"] = len(cases) - 1      # same rule set, tag never set: the two observations must agree
    # never-set tag with SEVERAL failing rules: the error of both variants must name the same failing rules
    for k in (3, 4, 5):
        for f in itertools.combinations(range(k), 2) if k < 5 else [(1, 2, 3), (0, 2, 4), (1, 3, 4), (2, 3, 4)]:
            rules = [{"name": NAMES[i], "sal": 9 - i, "kind": ("fail", "panic1", "retfail")[i % 3] if i in f else ("ret" if i % 2 == 0 else "plain"),
                      "stop": False, "ver": 100 + i} for i in range(k)]
            names = [r["name"] for r in rules]
            for tagged, plain in PAIRS:
                nl = names if "Selected" in tagged else []
                cases.append(base(tagged, rules, b=True, names=nl))
                cases.append(base(plain, rules, b=True, names=nl))
                cases[-2]["twin"] = len(cases) - 1
    # tag already set when the call starts
    rules = [{"name": NAMES[i], "sal": 9 - i, "kind": "ret", "stop": False, "ver": 100 + i} for i in range(3)]
    for tagged, _ in PAIRS:
        cases.append(base(tagged, rules, names=[r["name"] for r in rules] if "Selected" in tagged else [], stop0=True))
    n_rand = 150 if tier == "quick" else 4000
    pool = [a for a, _ in PAIRS] + diff_here * 9
    for _ in range(n_rand):
        cases.append(rand_case(rng, rng.choice(pool), maxk=6 if tier == "quick" else 10))
    return cases


RULE = ("systematic: rule sets of size 1-4 (thorough 1-5) x every position of the tag-setting rule (and 'never set') x failing subsets of size <=1 x both flags, through the 4 stop-tag variants, "
        "and the same sets through the 4 plain counterparts when the tag is never set — the two observations (error flag, the failing rules the error names, result map) must then agree, also with 2-3 failing rules; tag already set at call start; random: 150 (thorough 4000) calls.")


def main(run):
    return engine_check(run, PID, ENTRIES_P, make_cases, RULE,
                        ["the stop tag is written only by rules of the call (and optionally set before the call: c_stop0)"],
                        after=lambda r: pool_wrappers_part(r, PID, ['ExecuteWithStopTagDirect', 'ExecuteMixModelWithStopTagDirect', 'ExecuteSelectedRulesWithControlAndStopTag', 'ExecuteSelectedRulesWithControlAndStopTagAsGivenSortedName']))


def replay(run, data):
    return replay_case(run, data)
