"""C07 — hot updates are atomic per execution and visible to every later execution."""
from poolfam import *  # noqa

PID = "C07"
NAMES = ["pa", "pb", "pc"]
ENTRY_SHAPES = [  # (method, extra parameters) — pa is always in the first stage / first layer
    ("ExecuteNSortMConcurrent", {"n": 1, "m": 2}), ("ExecuteNConcurrentMSort", {"n": 1, "m": 2}), ("ExecuteNConcurrentMConcurrent", {"n": 1, "m": 2}),
    ("ExecuteDAGModel", {"layers": [["pa"], ["pb", "pc"]]}), ("ExecuteDAGModel", {"layers": [["pa"], ["pb"], ["pc"]]}),
    ("ExecuteSelectedNSortMConcurrent", {"n": 1, "m": 2}), ("ExecuteSelectedNConcurrentMSort", {"n": 1, "m": 2}),
    ("Execute", {}), ("ExecuteMixModel", {}), ("ExecuteInverseMixModel", {}), ("ExecuteConcurrent", {}),
    ("ExecuteSelectedRules", {}), ("ExecuteSelectedRulesMixModel", {}), ("ExecuteRulesWithMultiInputWithSpecifiedEM", {}),
]


def upd(kind, ver):
    if kind == "full":
        return {"op": "update", "rules": rules_v(ver), "_ver": ver}
    if kind == "incr":
        return {"op": "incr", "rules": rules_v(ver), "_ver": ver}
    if kind == "incr1":         # replaces one rule only: the version after it mixes body tags by design
        return {"op": "incr", "rules": rules_v(ver, names=("pb",), sals={"pb": 6}), "_ver": None}
    return {"op": "remove", "names": {"remove": ["pc"], "remove-first": ["pa"], "remove-mid": ["pb"], "remove-two": ["pa", "pc"], "remove-all": ["pa", "pb", "pc"]}[kind], "_ver": None}


MODEL_ENTRY = {1: "Execute", 2: "ExecuteConcurrent", 3: "ExecuteMixModel", 4: "ExecuteInverseMixModel"}
MODEL_SEL_ENTRY = {1: "ExecuteSelectedRules", 2: "ExecuteSelectedRulesConcurrent", 3: "ExecuteSelectedRulesMixModel", 4: "ExecuteSelectedRulesInverseMixModel"}


def coq_shape(st, model):
    m = st["method"]
    if m in ("ExecuteRulesWithSpecifiedEM", "ExecuteRulesWithMultiInputWithSpecifiedEM"):
        m = MODEL_ENTRY[model]
    elif m == "ExecuteSelectedWithSpecifiedEM":
        m = MODEL_SEL_ENTRY[model]
    return "(mkShape E%s %s %s %s %s)" % (m, coq_z(st.get("n", 1)), coq_z(st.get("m", 1)), coq_list([coq_str(x) for x in st.get("names", [])]),
                                          coq_list([coq_list([coq_str(x) for x in ly]) for ly in st.get("layers", [])]))


def coq_mop_of(u):
    if u["op"] == "update":
        return "(MUpdate 0 %s)" % coq_prules(u["rules"])
    if u["op"] == "incr":
        return "(MIncr 0 %s)" % coq_prules(u["rules"])
    if u["op"] == "churn":
        return "(MRemove 0 %s)" % coq_list([coq_str("ghost")])
    return "(MRemove 0 %s)" % coq_list([coq_str(n) for n in u.get("_coq_names", u["names"])])


def make_scenarios(rng, tier):
    scs = []
    sid = 1
    for (method, kw) in ENTRY_SHAPES:
        for kind in ("full", "incr", "remove", "remove-first", "remove-mid", "remove-two", "remove-all", "incr1"):
            for where in ("inside", "script"):
                for (mn, mx) in ([(1, 2)] if tier == "quick" else [(1, 2), (2, 3)]):
                    sc = {"id": sid, "min": mn, "max": mx, "model": 1, "rules": rules_v(1), "steps": []}
                    r0 = sid * 1000
                    u = upd(kind, 2)
                    # the execution under test: held in its first stage (rule pa); the update lands while it is there
                    if where == "inside":
                        sc["steps"].append(req_step(r0 + 1, method, NAMES, hold_at="", inside=dict({k: v for k, v in u.items() if not k.startswith("_")}, hold_at="pa"), **kw))
                        sc["_inside_ver"] = u["_ver"]
                        sc["_inside_u"] = u
                    else:
                        sc["steps"].append(req_step(r0 + 1, method, NAMES, hold_at="pa", **kw))
                        sc["steps"].append(dict(u))
                        sc["steps"].append({"op": "release", "id": r0 + 1})
                    # afterwards: executions on EVERY instance must run the new version
                    later = []
                    for k in range(mx):
                        later.append(r0 + 10 + k)
                        sc["steps"].append(req_step(r0 + 10 + k, "Execute", [], hold_at="*", wait_ms=-200))
                    for q in later:
                        sc["steps"].append({"op": "release", "id": q})
                    # a second update and another round
                    u2 = upd("incr1" if kind == "remove-all" else ("incr" if kind not in ("incr", "incr1") else "full"), 3)
                    sc["steps"].append(dict(u2))
                    for k in range(mx):
                        sc["steps"].append(req_step(r0 + 20 + k, rng.choice(["Execute", "ExecuteConcurrent", "ExecuteMixModel"]), [], hold_at="*", wait_ms=-200))
                    for k in range(mx):
                        sc["steps"].append({"op": "release", "id": r0 + 20 + k})
                    sc["_first_kind"] = kind
                    scs.append(sc)
                    sid += 1
    # a pool EMPTIED by a removal of every rule, refilled by one incremental update of all three rules, and then an incremental
    # replacement of the MIDDLE rule landing while an execution is held: that execution runs one admissible version, and every
    # later execution runs exactly the rules then installed (only the set-level check applies: the versions mix by design)
    for (method, kw) in [("Execute", {}), ("ExecuteNSortMConcurrent", {"n": 1, "m": 2}), ("ExecuteMixModel", {}), ("ExecuteSelectedRules", {})]:
        for where in ("inside", "script"):
            sc = {"id": sid, "min": 1, "max": 2, "model": 1, "rules": rules_v(1), "steps": []}
            r0 = sid * 1000
            sc["steps"].append(dict(upd("remove-all", 0)))
            sc["steps"].append(dict(upd("incr", 2), _ver=None))
            u = upd("incr1", 3)
            if where == "inside":
                sc["steps"].append(req_step(r0 + 1, method, NAMES, hold_at="", inside=dict({k: v for k, v in u.items() if not k.startswith("_")}, hold_at="pa"), **kw))
                sc["_inside_ver"] = None
                sc["_inside_u"] = u
            else:
                sc["steps"].append(req_step(r0 + 1, method, NAMES, hold_at="pa", **kw))
                sc["steps"].append(dict(u))
                sc["steps"].append({"op": "release", "id": r0 + 1})
            for k in range(2):
                sc["steps"].append(req_step(r0 + 10 + k, "Execute", [], hold_at="*", wait_ms=-200))
            for k in range(2):
                sc["steps"].append({"op": "release", "id": r0 + 10 + k})
            sc["steps"].append(dict(upd("incr1", 4)))
            for k in range(2):
                sc["steps"].append(req_step(r0 + 20 + k, rng.choice(["Execute", "ExecuteMixModel"]), [], hold_at="*", wait_ms=-200))
            for k in range(2):
                sc["steps"].append({"op": "release", "id": r0 + 20 + k})
            sc["_first_kind"] = "incr1"
            sc["_refill"] = True
            scs.append(sc)
            sid += 1
    # a REJECTED incremental text (a complete rule redefining pa, then a rule that does not compile) before everything else: nothing
    # of it is installed — not when it is rejected, and not by the next incremental update that succeeds
    for (method, kw) in [("Execute", {}), ("ExecuteConcurrent", {}), ("ExecuteSelectedRules", {}), ("ExecuteNSortMConcurrent", {"n": 1, "m": 2})]:
        for second in ("incr1", "incr", "full"):
            sc = {"id": sid, "min": 1, "max": 2, "model": 1, "rules": rules_v(1), "steps": []}
            r0 = sid * 1000
            sc["steps"].append({"op": "incr", "rules": rules_v(7, names=("pa",)), "bad_tail": True, "_ver": None})
            sc["steps"].append(req_step(r0 + 1, method, NAMES, hold_at="pa", **kw))
            sc["steps"].append(dict(upd(second, 2)))
            sc["steps"].append({"op": "release", "id": r0 + 1})
            for k in range(2):
                sc["steps"].append(req_step(r0 + 10 + k, "Execute", [], hold_at="*", wait_ms=-200))
            for k in range(2):
                sc["steps"].append({"op": "release", "id": r0 + 10 + k})
            sc["steps"].append({"op": "incr", "rules": rules_v(8, names=("pc",)), "bad_tail": True, "_ver": None})
            sc["steps"].append(dict(upd("incr1", 4)))
            for k in range(2):
                sc["steps"].append(req_step(r0 + 20 + k, rng.choice(["Execute", "ExecuteMixModel"]), [], hold_at="*", wait_ms=-200))
            for k in range(2):
                sc["steps"].append({"op": "release", "id": r0 + 20 + k})
            sc["_first_kind"] = "incr1"
            sc["_refill"] = True
            scs.append(sc)
            sid += 1
    # executions that start while ANOTHER management call is holding the pool's locks: every instance has run the old version
    # once, an update to version 2 has returned, then a long removal of names that do not exist runs concurrently with max
    # executions per round — each of them started after the update returned and must run version 2
    ghosts = ["ghost%d" % i for i in range(2000)]
    for (mn, mx) in ([(4, 16)] if tier == "quick" else [(4, 16), (2, 4), (1, 3)]):
        sc = {"id": sid, "min": mn, "max": mx, "model": 1, "rules": rules_v(1), "steps": []}
        r0 = sid * 1000
        first = [r0 + 1 + k for k in range(mx)]
        for q in first:
            sc["steps"].append(req_step(q, "Execute", NAMES, hold_at="*"))
        for q in first:
            sc["steps"].append({"op": "release", "id": q})
        for q in first:
            sc["steps"].append({"op": "wait", "id": q})
        sc["steps"].append(dict(upd("full", 2)))
        nxt = r0 + 100
        for rnd in range(2):
            # a management call that takes the pool's write locks again and again for a while (removals of names that do not
            # exist): a request that gets past one acquisition finds the next one pending when it takes its snapshot
            sc["steps"].append({"op": "churn", "names": ghosts, "wait_ms": 120, "_ver": None, "async": True})
            batch = []
            for k in range(3 * mx):
                nxt += 1
                batch.append(nxt)
                sc["steps"].append(req_step(nxt, "Execute", NAMES, hold_at="", wait_ms=-1))
            for q in batch:
                sc["steps"].append({"op": "wait", "id": q})
        sc["_first_kind"] = "full+concurrent-removal"
        scs.append(sc)
        sid += 1
    return scs


VCODES = {31: "one execution ran rules of two different installed versions (torn rule set)",
          32: "an execution ran a version that was never installed",
          33: "an execution that started after an update had returned ran an older version",
          34: "an execution that finished before an update started ran its version",
          35: "an execution that started after a removal had returned still ran a removed rule",
          36: "the execution crashed, panicked or returned an unexpected error while an update landed",
          37: "a request did not finish",
          38: "the rules an execution ran are not the rules of ONE admissible installed version under its entry point (all rules of that version and none of another)"}


def main(run):
    build_harness()
    regen_pool()
    ok, log = proof_obligations(run, PID, extra_obligations=2, extra_names=["T3: pool updates shape obligation (obligations/GenPoolOk.v)", "correspondence_C07: Pool/Check.v check_exec = [] on every execution of every scenario"])
    rng = random.Random(run.seed)
    scs = make_scenarios(rng, run.tier)
    run.log("running %d update/execution scenarios" % len(scs))
    obs = run_pool([strip(s) for s in scs])
    ob = {o["id"]: o for o in obs}
    extra, per_sc = [], {}
    landed = 0
    for sc in scs:
        o = ob[sc["id"]]
        if o.get("crash"):
            extra.append((sc["id"], 36))
            continue
        if o.get("stuck"):
            extra.append((sc["id"], 37))
        # updates with their sequence intervals
        ups = []
        script_ops = [st for st in sc["steps"] if st["op"] in ("update", "incr", "remove", "churn")]
        k = 0
        removals = []
        op_terms = []
        for oo in o["ops"]:
            if oo["op"].startswith("inside-"):
                st = sc["_inside_u"]
            else:
                st = sc["steps"][oo["step"]]
            ver = st.get("_ver")
            names = st.get("names") if st["op"] == "remove" else None
            op_terms.append((oo["begin_seq"], len(op_terms), "(mkOO %s %s %s %s)" % (coq_mop_of(st), coq_nat(oo["begin_seq"]), coq_nat(oo["end_seq"]), coq_bool(not oo["err"] and not oo.get("panic")))))
            if oo.get("panic"):
                extra.append((sc["id"], 36))
            if ver is not None:
                ups.append("mkUO %s %s %s %s" % (coq_nat(ver), coq_nat(oo["begin_seq"]), coq_nat(oo["end_seq"]), coq_bool(not oo["err"] and not oo.get("panic"))))
            elif names and not oo["err"]:
                removals.append([oo["end_seq"], names, 10 ** 9])
            if ver is not None and removals and removals[-1][2] == 10 ** 9:
                removals[-1][2] = oo["begin_seq"]      # a later update may legitimately bring the rule back
        execs = []
        op_terms.sort()
        steps_by_id = {st["id"]: st for st in sc["steps"] if st["op"] == "req"}
        sets = []
        for r in o["reqs"]:
            if not r.get("done"):
                continue
            if r.get("panic") or (r["err"] and "panic" in (r.get("errmsg") or "")):
                extra.append((sc["id"], 36))
            got = coq_list(["(%s, %s)" % (coq_str(n), coq_z(v // 1000000)) for n, v in sorted(r["result"].items()) if v >= 0])
            sets.append("(mkES %s %s %s %s %s %s)" % (coq_nat(sc["id"]), coq_nat(nid(sc["id"], r["id"])), coq_shape(steps_by_id[r["id"]], sc["model"]), got, coq_nat(r["begin_seq"]), coq_nat(r["end_seq"])))
            if sc["_first_kind"] in ("incr1", "remove-all"):
                continue        # the version after a one-rule incremental update mixes body tags by design: only the set check applies
            vers = [v // 1000000 for v in r["result"].values() if v >= 0]
            execs.append("mkEO %s %s %s %s %s" % (coq_nat(sc["id"]), coq_nat(nid(sc["id"], r["id"])), coq_list([coq_nat(v) for v in vers]), coq_nat(r["begin_seq"]), coq_nat(r["end_seq"])))
            for (endseq, names, until) in removals:
                if endseq < r["begin_seq"] and r["end_seq"] < until and any(n in r["result"] for n in names):
                    extra.append((sc["id"], 35))
        first = [r for r in o["reqs"] if r["id"] == sc["id"] * 1000 + 1]
        if first and first[0].get("done") and o["ops"] and o["ops"][0]["begin_seq"] > first[0]["begin_seq"] and o["ops"][0]["end_seq"] < first[0]["end_seq"]:
            landed += 1
        per_sc[sc["id"]] = (ups, execs, "(flat_map (check_exec_set (mgmt_init %s %s %s idshuffle) %s) %s)" % (
            coq_nat(sc["max"]), coq_nat(sc["model"]), coq_prules(sc["rules"]), coq_list([t for _, _, t in op_terms]), coq_list(sets)))
    parts = []
    for sid, (ups, execs, setcheck) in per_sc.items():
        parts.append("(flat_map (check_exec 1%%nat %s) %s)" % (coq_list(["(" + u + ")" for u in ups]), coq_list(["(" + e + ")" for e in execs])))
        parts.append(setcheck)
    mm = []
    for i in range(0, len(parts), 40):
        defs = "Definition M := %s.\n" % (" ++ ".join(parts[i:i + 40]) or "@nil (nat * nat)")
        mm += [tuple(t) for t in evaluate("%s_%d" % (PID, i // 40), defs, ["M"])["M"]]
    mm += extra
    run.log("checked inside Coq: %d disagreement(s); the update landed inside the execution under test in %d scenarios" % (len(mm), landed))
    byid = {s["id"]: s for s in scs}
    seen = set()
    for sid, code in mm:
        sc = byid[sid]
        first_req = next(st for st in sc["steps"] if st["op"] == "req")
        method = first_req["method"]
        key = (code, method, sc["_first_kind"])
        if key in seen:
            continue
        seen.add(key)
        sig = {"kind": "update-scenario", "symptom": code, "entry": method, "update": sc["_first_kind"]}
        where = "from inside rule pa" if first_req.get("inside") else "while the execution is held in rule pa"
        run.report(sig, {"scenario": strip(sc), "requests": ob[sid].get("reqs"), "ops": ob[sid].get("ops"), "crash": ob[sid].get("stderr"), "disagreement": VCODES[code]},
                   "C07: %s with a %s update %s on a (%d,%d) pool: %s" % (method, sc["_first_kind"], where, sc["min"], sc["max"], VCODES[code]))
    bad_shape = shape_report(run, PID, 'updates', bool(run.violations)) if ok else []
    if not ok and not run.violations:
        run.report({"kind": "proof", "theorem": PID}, {"theorem": "Props/C07.v", "log": log[-3000:]}, "C07: the Coq development no longer builds and no failing history was found", no_input=True)
    cov = run.coverage
    if ok and not bad_shape:
        cov["discharged"] += 1
    if not mm:
        cov["discharged"] += 1
    cov.update({"evaluations": len(scs), "distinct_nontrivial": landed,
                "rule": "scenarios = 14 entry-point shapes (the multi-stage N-M and DAG models, their selected variants, the single-stage models, one SpecifiedEM wrapper) x update kind (full, incremental, one-rule incremental, removal of the last / first / middle / two rules) x where the update comes from (an injected function called from inside the first-stage rule; the script while that rule is held at a gate) on a (1,2) pool (thorough: also (2,3)); then max simultaneous executions must run the new version on every instance, a second update, and another round; plus 12 scenarios that begin with a REJECTED incremental text whose first rule is complete (a redefinition of pa) and whose second does not compile, and have another one later: no successful update may install anything of them; "
                        "every rule returns version*10^6 + request id; checked inside Coq per execution: the returned (rule, body tag) entries equal Engine/Spec.v's result map of the entry point on the container of ONE admissible version of Pool/Model.v's management history (Pool/Compose.v check_exec_set); one version tag only, an installed one, not older than any update that returned before it began, not newer than any update that began after it ended; removed rules never run in executions that began after the removal returned; "
                        "distinct non-trivial = scenarios in which the update really landed between the begin and the end of the execution under test (by global sequence numbers)",
                "executions_checked": sum(len(e) for _, e, _ in per_sc.values()), "traces_validated_against_impl": len(scs),
                "samples": [{"scenario": strip(scs[0]), "requests": obs[0]["reqs"][:1], "ops": obs[0]["ops"][:1]}]})
    run.assumptions = ["the linearisation point of an execution (its snapshot of the rule container) is not observable; the run checks its consequences (single version, visibility inequalities) and T3 establishes the structure (one read under the update lock; updates publish fresh containers while holding that lock)",
                       "versions are identified by the tags the rules return; a removal is identified by the absence of the removed rules"]
    return run.finish()


def replay(run, data):
    build_harness()
    obs = run_pool([data["replay"]["scenario"]])
    print(json.dumps({k: obs[0].get(k) for k in ("reqs", "ops", "crash", "stderr")})[:2500])
    return 0
