"""C15 — rule locals are private to one execution of one rule."""
import poolfam
from langgen import *  # noqa

PID = "C15"


def ret(e):
    return ("expr", e)


def make_cases(rng, tier):
    cases = []
    cid = 0
    h = lambda: inj_struct("h", fields={"I64": tv_int("i64", 0)})
    mp = lambda: inj_map("mp", "s", "i64", [])

    def add(rules, inj, **kw):
        nonlocal cid
        cases.append(make_multi_case(cid, rules, inj, **kw))
        cid += 1
    x = lambda: mvar("x")
    # a local written by an earlier (higher-salience) rule is undefined in a later rule
    add([("A", None, 9, block([assign(("var", "x"), "=", ("math", mint(1)))], ret(emath(x())))), ("B", None, 5, block([], ret(emath(x()))))], [])
    add([("A", None, 9, block([assign(("var", "x"), "=", ("math", mint(1)))])), ("B", None, 5, block([assign(("var", "y"), "=", ("math", mk_mbin("+", x(), mint(1))))], ret(emath(mvar("y"))))),
         ("C", None, 1, block([assign(("var", "x"), "=", ("math", matom(const(kstr("s")))))], ret(emath(x()))))], [])
    # a rule that assigns a local and then panics (non-boolean condition / ! on a number): the next rule, and the next call, must not see it
    for bad in (emath(mvar("token")), eatom(True, var("token"))):
        import copy
        add([("A", None, 9, block([assign(("var", "token"), "=", ("math", mint(42))), sif(copy.deepcopy(bad), block([]))])),
             ("B", None, 5, block([], ret(emath(mvar("token")))))], [], twice=True)
        add([("A", None, 9, block([assign(("var", "token"), "=", ("math", mint(42)))], ret(copy.deepcopy(bad)))),
             ("B", None, 5, block([assign(("var", "y"), "=", ("math", mk_mbin("+", mvar("token"), mint(1))))], ret(emath(mvar("y")))))], [], twice=True)
    # the same name with different types in different rules
    add([("A", None, 9, block([assign(("var", "x"), "=", ("math", mint(7)))], ret(emath(x())))), ("B", None, 5, block([assign(("var", "x"), "=", ("math", matom(const(kstr("str")))))], ret(emath(x())))),
         ("C", None, 1, block([assign(("var", "x"), "=", ("math", matom(const(kbool(True)))))], ret(emath(x()))))], [])
    # read before write inside one rule
    add([("A", None, 9, block([assign(("var", "y"), "=", ("math", mk_mbin("+", x(), mint(1)))), assign(("var", "x"), "=", ("math", mint(1)))], ret(emath(mvar("y")))))], [])
    add([("A", None, 9, block([assign(("var", "x"), "+=", ("math", mint(1)))], ret(emath(x()))))], [])
    # injected names ARE shared by the rules of a call
    add([("A", None, 9, block([assign(("var", "h.I64"), "=", ("math", mint(7))), assign(("map", mapvar("mp", ("str", "k"))), "=", ("math", mint(5)))])),
         ("B", None, 5, block([], ret(emath(mk_mbin("+", mvar("h.I64"), matom(amap(mapvar("mp", ("str", "k")))))))))], [h(), mp()])
    # a later CALL on the same engine and builder starts from undefined locals again (h.I64 counts the calls)
    body = lambda: block([assign(("var", "h.I64"), "+=", ("math", mint(1))),
                          sif(mk_ecmp("==", emath(mvar("h.I64")), emath(mint(1))), block([assign(("var", "x"), "=", ("math", mint(5)))]))], ret(emath(x())))
    add([("A", None, 9, body())], [h()], twice=True)
    add([("A", None, 9, block([assign(("var", "x"), "=", ("math", mint(3)))], ret(emath(x())))), ("B", None, 5, block([], ret(emath(x()))))], [], twice=True)
    # a local that holds a POINTER handed out by the host (h.Slot() points at h.I64) and is then re-assigned a plain value is
    # REBOUND: the host cell keeps its value, the other rule (same local name, same pointer) and the next call see the cell unchanged
    slot = lambda: matom(acall(call("method", "h.Slot", [])))
    hs = lambda: inj_struct("h", fields={"I64": tv_int("i64", 1)})
    for newv in (mint(42), matom(const(kreal("4.5"))), mvar("u")):
        for first in ("A", "B"):
            ra = ("A", None, 9 if first == "A" else 2, block([assign(("var", "v"), "=", ("math", slot())), assign(("var", "v"), "=", ("math", newv))], ret(emath(mvar("v")))))
            rb = ("B", None, 5, block([assign(("var", "v"), "=", ("math", slot())), assign(("var", "w"), "=", ("math", mvar("h.I64")))], ret(emath(mvar("w")))))
            add([ra, rb], [hs(), inj_val("u", tv_int("u8", 200))], twice=True)
    add([("A", None, 9, block([assign(("var", "v"), "=", ("math", slot())), assign(("var", "v"), "+=", ("math", mint(1)))], ret(emath(mvar("h.I64")))))], [hs()])
    # a rule whose ONLY bindings sit in an else branch (one or two levels down), or in an else-if branch, next to a rule that binds
    # nothing at all and reads that name: however the engine decides whether a rule needs a map of its own, the reader sees nothing
    false_ = lambda: emath(matom(const(kbool(False))))
    true_ = lambda: emath(matom(const(kbool(True))))
    mark1 = lambda: scall(call("func", "Mark", [("const", kint(1))]))
    bind = lambda: block([assign(("var", "quota"), "=", ("math", mint(7)))])
    shapes = [sif(false_(), block([mark1()]), [], bind()),
              sif(false_(), block([mark1()]), [], block([sif(false_(), block([mark1()]), [], bind())])),
              sif(false_(), block([mark1()]), [(true_(), bind())], None),
              sif(true_(), block([sif(false_(), block([]), [], bind())]), [], None)]
    for sh in shapes:
        for (sa, sb) in ((9, 5), (2, 5)):
            import copy
            add([("grant", None, sa, block([copy.deepcopy(sh)], ret(emath(mvar("quota"))))), ("report", None, sb, block([], ret(emath(mvar("quota")))))], [inj_func("Mark")], twice=True)
    # the same compiled rules executed first WITHOUT a name injected (the writer's assignment binds a local, the reader finds nothing)
    # and then WITH it injected as a pointer: the writer must now write the injected scalar — nothing about a name is remembered
    for tv in (tv_int("i64", 1), tv_int("u8", 3)):
        c = make_multi_case(cid, [("writer", None, 9, block([assign(("var", "Total"), "=", ("math", mint(7)))])),
                                  ("reader", None, 5, block([assign(("var", "seen"), "=", ("math", mk_mbin("+", mint(0), mint(1))))], ret(emath(mvar("seen")))))], [])
        c["reinject"], c["inject2"] = True, [inj_ptr("Total", tv)]
        cases.append(c)
        cid += 1
    # ... and the other way round: executed first WITH a name injected, then again after the host has WITHDRAWN it (DataContext.Del, with an
    # empty first key, as the pool's two-object wrapper calls it): the name is an undefined local again — the reader fails, the writer binds
    for tv, mk in ((tv_int("i64", 100), inj_ptr), (tv_int("i64", 100), inj_val)):
        c = make_multi_case(cid, [("peek", None, 9, block([assign(("var", "seen"), "=", ("math", mk_mbin("+", mvar("acc"), mint(1))))], ret(emath(mvar("seen"))))),
                                  ("count", None, 5, block([assign(("var", "acc"), "=", ("math", mint(5)))], ret(emath(mvar("acc")))))], [mk("acc", tv)])
        c["reinject"], c["inject2"], c["withdraw"] = True, [inj_val("other", tv_int("i64", 1))], ["acc"]
        cases.append(c)
        cid += 1
    # OVERLAPPING executions (concurrent model, rule A held at a gate between the write and the read of its local): rule B binds
    # the same local name meanwhile — from a struct field, a nested field, a slice element (addressable sources), a constant
    gate = lambda: scall(call("func", "Gate", [("const", kstr("gate"))]))
    hh = lambda: inj_struct("h", fields={"I64": tv_int("i64", 111), "I32": tv_int("i32", 7)}, sub={"N": tv_int("i64", 222)})
    sq = lambda: inj_seq("sq", "i64", [tv_int("i64", 31), tv_int("i64", 32)], byptr=True)
    for (srcA, srcB) in ((mvar("h.I64"), mvar("h.Sub.N")), (mvar("h.Sub.N"), mvar("h.I64")), (matom(amap(mapvar("sq", ("int", 0)))), matom(amap(mapvar("sq", ("int", 1))))),
                         (mvar("h.I64"), mint(5)), (mint(5), mvar("h.I64"))):
        for extra_b in (0, 1):
            import copy
            rb_body = [scall(call("func", "After", [("const", kstr("gate"))])), assign(("var", "v"), "=", ("math", copy.deepcopy(srcB)))]
            if extra_b:
                rb_body.append(assign(("var", "v"), "+=", ("math", mint(1000))))
            c = make_multi_case(cid, [("A", None, 9, block([assign(("var", "v"), "=", ("math", copy.deepcopy(srcA))), gate()], ret(emath(mvar("v"))))),
                                      ("B", None, 5, block(rb_body, ret(emath(mvar("v")))))], [hh(), sq(), inj_func("Gate"), inj_func("After")])
            c["hold"], c["model"] = "gate", "concurrent"
            cases.append(c)
            cid += 1
    # random: several rules drawn from the statement generator, all using the local names l1..l4, i1.., k1..
    n_rand = 120 if tier == "quick" else 4000
    for _ in range(n_rand):
        k = rng.randint(2, 4)
        sals = rng.sample([9, 7, 5, 3, 1, -2], k)
        rules = []
        g0 = StmtGen(rng, wild=0.03)
        for i in range(k):
            g = StmtGen(rng, wild=0.03)
            g.mark = 100 * i
            rules.append(("R%d" % i, None, sals[i], g.blk(rng.randint(1, 2), False, top=True)))
        add(rules, g0.inject() + [inj_map("mp1", "s", "i64", [(tv_str("only"), tv_int("i64", 9))])], rng=rng, fancy=rng.random() < 0.2, twice=rng.random() < 0.3)
    return cases


def pool_scenarios(rng, tier):
    """the same rule executed by two pool requests, both held between the write and the read of its local"""
    scs = []
    sid = 1
    for (mn, mx) in [(1, 2), (2, 3)]:
        for method in ["Execute", "ExecuteConcurrent", "ExecuteMixModel", "ExecuteInverseMixModel", "ExecuteRulesWithMultiInputWithSpecifiedEM"]:
            sc = {"id": sid, "min": mn, "max": mx, "model": 1, "rules": poolfam.rules_v(1, names=("pa", "pb")), "steps": []}
            ids = [sid * 1000 + i for i in range(1, mx + 1)]
            for q in ids:
                sc["steps"].append(poolfam.req_step(q, method, ["pa", "pb"], hold_at="pa@mid"))
            sc["steps"].append({"op": "snapshot", "probe": ["pa"], "_active": list(ids), "_done": []})
            for q in reversed(ids):
                sc["steps"].append({"op": "release", "id": q})
            sc["steps"].append({"op": "snapshot", "probe": ["pa"], "_active": [], "_done": list(ids)})
            scs.append(sc)
            sid += 1
    return scs


RULE = ("(A) multi-rule texts run through the sort model: a local assigned by a higher-priority rule read by a later rule (must be undefined), the same local name bound to different types in different rules, read-before-write inside one rule, "
        "injected names written by one rule and read by the next (must be shared), two rules of the CONCURRENT model binding the same local name from struct fields / slice elements / constants while one of them is held at a gate between its write and its read, the same rule set executed twice on one engine (the second call must not see the first call's locals), "
        "and 120 (thorough 4000) random sets of 2-4 rules drawn from the statement generator, all using the same local names; compared inside Coq with a model that gives every rule execution an empty local map and threads only the injected objects; "
        "(B) pool scenarios in which the same rule is executed by max requests at once, every one held between the write and the read of its local, through 5 wrapper methods; each request must read back its own id; "
        "distinct non-trivial = multi-rule cases in which at least two rules use a common local name, plus pool snapshots with >= 2 requests held inside the same rule")


def main(run):
    build_harness()
    ok, log = proof_obligations(run, PID, extra_obligations=2, extra_names=["correspondence_C15_rules: Lang/Check.v mmismatches = []", "correspondence_C15_pool: Pool/Check.v check_req = [] with requests held between write and read of a local"])
    rng = random.Random(run.seed)
    cases = make_cases(rng, run.tier)
    run.log("(A) running %d multi-rule texts" % len(cases))
    obs = run_lang(cases)
    items, owners, compile_fail = [], {}, []
    for c, o in zip(cases, obs):
        if o.get("compile"):
            compile_fail.append((c["id"], o["compile"]))
            continue
        if len(o.get("calls") or []) > 600:
            continue
        items.append(coq_mcase(c, o))
        if c.get("twice") and o.get("second"):
            dumps = {d["name"]: d for d in o["store"]}
            sid = 100000 + c["id"]
            items.append(coq_mcase(c, o["second"], init_dumps=dumps, cid=sid))
        if c.get("reinject") and o.get("second"):
            # the second execution ran on OTHER injected data (inject2): one more case with the same expected behaviour as a first execution
            items.append(coq_mcase(dict(c, inject=c["inject2"]), o["second"], cid=100000 + c["id"]))
    mm = evaluate_multi(PID, items)
    # the same multi-rule texts read by the reader model (Lang/Reader.v) inside Coq: its rules, in text order, must be the printer's
    rmm, _ = evaluate_reader(PID, [coq_rcase(c["id"], c["text"], ("tree", c["rules_ast"])) for c, o in zip(cases, obs) if not o.get("compile")], shard=16)
    mm += [(cid, 7) for cid, _ in rmm]
    run.log("(A) compared inside Coq: %d disagreement(s)" % len(mm))
    byid = {c["id"]: c for c in cases}
    ob = {o["id"]: o for o in obs}
    seen = set()
    for cid, code in [m for m in mm if m[1] != 7] + [(i, 6) for i, _ in compile_fail]:
        base = cid - 100000 if cid >= 100000 else cid
        key = (code, cid >= 100000)
        if key in seen:
            continue
        seen.add(key)
        c, o = byid[base], ob[base]
        run.report({"kind": "lang-multi", "symptom": SYMPTOM_L[code], "second_call": cid >= 100000},
                   {"text": c["text"], "inject": c["inject"], "observation": {k: (o["second"] if cid >= 100000 else o).get(k) for k in ("class", "results", "cites", "calls")}, "disagreement": LCODES[code]},
                   "C15: %s%s — %s" % (LCODES[code], " (second call on the same engine)" if cid >= 100000 else "", c["text"].replace("\n", " | ")[:400]))
    report_reader(run, PID, mm, lambda i: byid[i]["text"])
    # a local bound to a slice FIELD is a value of its own: when the host replaces the field afterwards (h.ShrinkSL assigns a shorter
    # slice to h.SL), the local still is the slice it was bound to — stated here (locals holding containers are outside the Coq model)
    h4 = lambda: inj_struct("h", sl=[4, 5, 6, 7])
    mark = lambda x: scall(call("func", "Mark", [x]))
    keep = block([assign(("var", "items"), "=", ("math", mvar("h.SL"))), scall(call("method", "h.ShrinkSL", [])),
                  sforrange("k", "items", block([mark(("var", "k"))])), sforrange("j", "h.SL", block([mark(("const", kint(50)))]))])
    # two rules of one call bind the SAME local name to different objects (each from its own NewC()) and read a field of it through
    # the dotted name: each reads the field of ITS object — whatever the engine remembers about how `it.N` was resolved before
    newc = lambda: assign(("var", "it"), "=", ("math", matom(acall(call("func", "NewC", [])))))
    addn = lambda n: scall(call("method", "it.Add", [("const", kint(n))]))
    own_obj = block([newc(), addn(10), addn(10)], ("expr", emath(mvar("it.N"))))
    own_pre = [("p0", None, 50, block([newc(), addn(1), assign(("var", "seen"), "=", ("math", mvar("it.N")))])),
               ("p1", None, 40, block([newc(), assign(("var", "seen"), "=", ("math", mk_mbin("+", mvar("it.N"), mvar("it.In.N"))))]))]
    stated_bad = stated_scenarios(run, PID, [("local-bound-to-a-slice-field-then-the-field-is-replaced", keep, [h4(), inj_func("Mark")],
                                              {"class": "ok", "seq": [["ShrinkSL"], ["Mark", "0"], ["Mark", "1"], ["Mark", "2"], ["Mark", "3"], ["Mark", "50"]]}),
                                             ("same-local-name-bound-to-another-object-in-a-later-rule-then-read-through-a-dotted-name", own_obj, [inj_func("NewC")],
                                              {"class": "ok", "ret": 20, "NewC": 3}, own_pre)],
                                  "a local keeps the value it was bound to when the injected field it was read from is replaced")
    # (B)
    scs = pool_scenarios(rng, run.tier)
    pobs = poolfam.run_pool([poolfam.strip(s) for s in scs])
    pm, counts = poolfam.cap_checks(PID, scs, pobs)
    pm = [m for m in pm if m[1] in (7, 8, 11, 12, 13, 3)]
    run.log("(B) %d pool scenarios: %d disagreement(s)" % (len(scs), len(pm)))
    pbyid = {s["id"]: s for s in scs}
    pseen = set()
    for sid, code in pm:
        if code in pseen:
            continue
        pseen.add(code)
        run.report({"kind": "pool-scenario", "symptom": code}, {"scenario": poolfam.strip(pbyid[sid]), "disagreement": poolfam.CAP_CODES[code]},
                   "C15: the same rule executed by concurrent pool requests: %s" % poolfam.CAP_CODES[code])
    if not ok and not run.violations:
        run.report({"kind": "proof", "theorem": PID}, {"theorem": "Props/C15.v", "log": log[-3000:]}, "C15: the Coq development no longer builds and no failing input was found", no_input=True)
    if ok:
        interp_facts_report(run, PID, bool(run.violations))
    cov = run.coverage
    cov["discharged"] += (0 if mm or compile_fail or stated_bad else 1) + (0 if pm else 1)

    def local_names(b):
        out = set()

        def walk(n):
            if isinstance(n, dict):
                if n.get("s") == "assign" and n["target"][0] == "var" and "." not in n["target"][1]:
                    out.add(n["target"][1])
                for v in n.values():
                    walk(v)
            elif isinstance(n, (list, tuple)):
                for v in n:
                    walk(v)
        walk(b)
        return out
    shared = 0
    for c in cases:
        sets = [local_names(b) for (_, _, _, b) in c["multi"]]
        if any(sets[i] & sets[j] for i in range(len(sets)) for j in range(i + 1, len(sets))) or (c.get("twice") and sets and sets[0]):
            shared += 1
    cov.update({"evaluations": len(cases) + len(scs), "distinct_nontrivial": shared + counts["snapshots_with_2_or_more_requests_inside_a_rule"], "rule": RULE,
                "multi_rule_cases": len(cases), "second_calls_checked": sum(1 for c in cases if c.get("twice")), "pool_scenarios": len(scs), "traces_validated_against_impl": len(cases) + len(scs),
                "samples": [{"text": cases[1]["text"], "results": ob[cases[1]["id"]]["results"], "class": ob[cases[1]["id"]]["class"]}]})
    run.assumptions = ["the rule tree is immutable after compilation and shared by all executions; the local map is an argument of the execution (Lang/Sem.v exec_rule), which is what the correspondence validates",
                       "concurrent executions of the same rule are exercised through the pool (distinct engine instances share the compiled rules)"]
    return run.finish()


def replay(run, data):
    return replay_lang(run, data) if "rule" in data["replay"] else 0
