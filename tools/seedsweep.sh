#!/bin/sh
# Robustness sweep: every quick check under other PRNG seeds (the checks must be silent on the unchanged tree for ANY seed).
# usage: tools/seedsweep.sh <seed> [<seed> ...]   — evidence files are saved and restored (committed evidence uses the default seed).
cd "$(dirname "$0")/.." || exit 2
mkdir -p build/sweep
rm -rf build/evidence.sweep && cp -r evidence build/evidence.sweep
for seed in "$@"; do
  for p in C01 C02 C03 C04 C05 C06 C07 C08 C09 C10 C11 C12 C13 C14 C15 C16 C17 C18 C19 C20; do
    VERIF_SEED=$seed bin/vcheck $p --tier quick > build/sweep/${p}_$seed.log 2>&1
    rc=$?
    if [ $rc -ne 0 ] || grep -q '^VIOLATION' build/sweep/${p}_$seed.log; then
      echo "seed $seed $p rc=$rc"; grep -A3 '^VIOLATION' build/sweep/${p}_$seed.log | head -12
      mkdir -p build/sweep/replays_${p}_$seed && cp -r replays/. build/sweep/replays_${p}_$seed/ 2>/dev/null
    fi
  done
  echo "seed $seed done"
done
rm -rf evidence && mv build/evidence.sweep evidence
