"""Shared machinery for the gengine verification checks (python3, stdlib only).

One check run = build the Go harness against /repo's working tree, regenerate
the source-derived Coq files, build the Coq development (full .vo build), run a
campaign on the implementation, evaluate the model on the same cases inside
Coq, compare, write evidence, report.
"""
import fcntl
import hashlib
import json
import os
import re
import subprocess
import sys
import time

ROOT = os.path.dirname(os.path.dirname(os.path.abspath(__file__)))
REPO = os.environ.get("VERIF_REPO", "/repo")
COQ = os.path.join(ROOT, "coq")
GEN = os.path.join(COQ, "gen")
BUILD = os.path.join(ROOT, "build")
HARNESS_DIR = os.path.join(ROOT, "harness")
EVIDENCE = os.path.join(ROOT, "evidence")
REPLAYS = os.path.join(ROOT, "replays")
NCPU = os.cpu_count() or 4

GOENV = dict(os.environ)
GOENV.update({"GOFLAGS": "-mod=mod", "GOPROXY": "off", "GOSUMDB": "off",
              "GOTOOLCHAIN": "local", "CGO_ENABLED": os.environ.get("CGO_ENABLED", "1")})

TRUSTED_BASE_COMMON = [
    "Coq 8.16.1 kernel (coqc, full .vo build; vm_compute used for evaluation; no native_compute)",
    "no axioms declared by the development (Print Assumptions output recorded per theorem)",
    "hand-written Gallina model tied to /repo by the correspondence run of this check (Go harness built from the working tree, python case generator/driver)",
]


class HarnessError(Exception):
    """The machinery itself is broken (exit 2, never a VIOLATION)."""


def sh(cmd, cwd=None, timeout=600, env=None, inp=None):
    p = subprocess.run(cmd, cwd=cwd, env=env, input=inp, stdout=subprocess.PIPE,
                       stderr=subprocess.PIPE, timeout=timeout,
                       universal_newlines=True, shell=isinstance(cmd, str))
    return p.returncode, p.stdout, p.stderr


class _Lock:
    def __init__(self, name):
        os.makedirs(BUILD, exist_ok=True)
        self.path = os.path.join(BUILD, name + ".lock")

    def __enter__(self):
        self.f = open(self.path, "w")
        fcntl.flock(self.f, fcntl.LOCK_EX)
        return self

    def __exit__(self, *a):
        fcntl.flock(self.f, fcntl.LOCK_UN)
        self.f.close()


# ---------------------------------------------------------------- Go side

def build_harness():
    """go build -tags verif of the harness against /repo's working tree."""
    with _Lock("go"):
        os.makedirs(BUILD, exist_ok=True)
        try:
            src = os.path.join(REPO, "go.sum")
            dst = os.path.join(HARNESS_DIR, "go.sum")
            if open(src).read() != (open(dst).read() if os.path.exists(dst) else None):
                open(dst, "w").write(open(src).read())
        except OSError as e:
            raise HarnessError("cannot copy go.sum: %s" % e)
        rc, out, err = sh(["go", "build", "-tags", "verif", "-o", os.path.join(BUILD, "harness"),
                           "./cmd/harness"], cwd=HARNESS_DIR, env=GOENV, timeout=900)
        if rc != 0:
            raise HarnessError("go build of the harness failed (does /repo still compile?):\n" + err[-4000:])
        rc, out, err = sh(["go", "build", "-tags", "verif", "-o", os.path.join(BUILD, "xlate"),
                           "./cmd/xlate"], cwd=HARNESS_DIR, env=GOENV, timeout=900)
        if rc != 0:
            raise HarnessError("go build of the translators failed:\n" + err[-4000:])


def run_harness(sub, cases, timeout=600, args=()):
    """Run one harness sub-command on a JSON case list; returns parsed JSON."""
    rc, out, err = sh([os.path.join(BUILD, "harness"), sub] + list(args), inp=json.dumps(cases),
                      timeout=timeout, env=GOENV)
    if rc != 0:
        raise HarnessError("harness %s exited %d: %s" % (sub, rc, err[-3000:]))
    return json.loads(out)


def run_harness_child(sub, case, timeout=20, args=()):
    """Run ONE case in a child process; a crash/timeout is an observation.
    Returns (status, parsed-or-None, stderr-tail); status in ok|crash|timeout."""
    try:
        rc, out, err = sh([os.path.join(BUILD, "harness"), sub] + list(args), inp=json.dumps(case),
                          timeout=timeout, env=GOENV)
    except subprocess.TimeoutExpired:
        return "timeout", None, ""
    if rc != 0:
        return "crash", None, err[-2500:]
    try:
        return "ok", json.loads(out), err[-500:]
    except ValueError:
        return "crash", None, (out[-500:] + err[-1500:])


def run_xlate(sub, args=()):
    rc, out, err = sh([os.path.join(BUILD, "xlate"), sub] + list(args), timeout=120, env=GOENV)
    if rc != 0:
        raise HarnessError("xlate %s failed: %s" % (sub, err[-3000:]))
    return out


def parallel_map(fn, items, workers=None):
    from concurrent.futures import ThreadPoolExecutor
    with ThreadPoolExecutor(max_workers=workers or NCPU) as ex:
        return list(ex.map(fn, items))


# ---------------------------------------------------------------- Coq side

def write_if_changed(path, content):
    old = None
    if os.path.exists(path):
        old = open(path).read()
    if old != content:
        os.makedirs(os.path.dirname(path), exist_ok=True)
        open(path, "w").write(content)
        return True
    return False


def coq_make(timeout=3000):
    """Full .vo build of the development (incremental through make)."""
    with _Lock("coq"):
        mk = os.path.join(COQ, "Makefile")
        cp = os.path.join(COQ, "_CoqProject")
        if (not os.path.exists(mk)) or os.path.getmtime(mk) < os.path.getmtime(cp):
            rc, out, err = sh(["coq_makefile", "-f", "_CoqProject", "-o", "Makefile"], cwd=COQ)
            if rc != 0:
                raise HarnessError("coq_makefile failed: " + err)
        rc, out, err = sh(["timeout", str(timeout), "make", "-j%d" % NCPU], cwd=COQ, timeout=timeout + 30)
        return rc == 0, (out[-6000:] + "\n" + err[-6000:])


COQ_INCLUDES = ["-Q", "theories", "GV", "-Q", "gen", "GVgen"]


def coqc(path, timeout=1800):
    """Compile one file (cases files, property files for Print Assumptions)."""
    cmd = "ulimit -s unlimited 2>/dev/null || ulimit -s 1000000 2>/dev/null; exec timeout %d coqc %s %s" % (
        timeout, " ".join(COQ_INCLUDES), path)
    rc, out, err = sh(["bash", "-c", cmd], cwd=COQ, timeout=timeout + 30)
    return rc == 0, out, err


def coq_props(pid):
    """Re-compile Props/<pid>.v to capture its Print Assumptions output.
    Returns (ok, n_theorems, assumptions_text)."""
    path = os.path.join("theories", "Props", pid + ".v")
    full = os.path.join(COQ, path)
    if not os.path.exists(full):
        return False, 0, "missing " + path
    src = open(full).read()
    nthm = len(re.findall(r"^\s*(Theorem|Corollary)\s", src, re.M))
    with _Lock("coq"):
        ok, out, err = coqc(path)
    if not ok:
        return False, nthm, (out + err)[-3000:]
    return True, nthm, out


def parse_assumptions(out):
    """Axioms listed by Print Assumptions across a property file."""
    axioms = set()
    closed = out.count("Closed under the global context")
    for blk in re.findall(r"Axioms:\n((?:.+\n?)+?)(?:\n|\Z)", out):
        for line in blk.splitlines():
            m = re.match(r"^(\S+)\s*:", line)
            if m:
                axioms.add(m.group(1))
    return closed, sorted(axioms)


def coq_str(s):
    return '"' + s.replace('"', '""') + '"%string'


def coq_z(n):
    return "(%d)%%Z" % n


def coq_nat(n):
    return "%d%%nat" % n


def coq_bool(b):
    return "true" if b else "false"


def coq_list(items, per_line=False):
    sep = ";\n  " if per_line else "; "
    return "[" + sep.join(items) + "]"


def coq_eval_cases(name, header, body_defs, result_names, timeout=1800):
    """Write gen/<name>.v = header + defs + `Eval vm_compute` printed results, compile it,
    and return {result_name: flattened text of its value}."""
    path = os.path.join(GEN, name + ".v")
    txt = header + "\n" + body_defs + "\n"
    for r in result_names:
        txt += "Definition %s_v := Eval vm_compute in %s.\nPrint %s_v.\n" % (r, r, r)
    open(path, "w").write(txt)
    ok, out, err = coqc(os.path.join("gen", name + ".v"), timeout=timeout)
    if not ok:
        raise HarnessError("coqc failed on generated %s.v:\n%s" % (name, (out + err)[-3000:]))
    res = {}
    flat = re.sub(r"\s+", " ", out)
    for r in result_names:
        m = re.search(r"%s_v = (.*?) : " % re.escape(r), flat)
        if not m:
            raise HarnessError("cannot find %s_v in coqc output: %s" % (r, flat[:500]))
        res[r] = m.group(1).strip()
    return res


def parse_nat_tuples(text):
    """'[(1, (2, 7)); (3, (0, 1))]' -> [[1,2,7],[3,0,1]]"""
    text = text.strip()
    if text in ("[]", "nil"):
        return []
    out = []
    for item in text.strip("[]").split(";"):
        out.append([int(x) for x in re.findall(r"-?\d+", item)])
    return out


# ---------------------------------------------------------------- findings, evidence, reporting

def load_known():
    p = os.path.join(ROOT, "known_findings.json")
    if not os.path.exists(p):
        return []
    return json.load(open(p)).get("findings", [])


class Run:
    def __init__(self, pid, tier, seed):
        self.pid, self.tier, self.seed = pid, tier, seed
        self.t0 = time.time()
        self.violations = []
        self.known_hits = []
        self.coverage = {}
        self.assumptions = []
        self.known = [k for k in load_known() if k.get("property") == pid and k.get("status") == "finding"]

    def log(self, *a):
        print("[%s %s %.1fs]" % (self.pid, self.tier, time.time() - self.t0), *a, flush=True)

    def match_known(self, sig):
        """sig: dict describing a failure; a known finding matches when every key of its
        'match' equals the corresponding key of sig."""
        for k in self.known:
            m = k.get("match", {})
            if m and all(sig.get(a) == b for a, b in m.items()):
                return k
        return None

    def report(self, sig, replay, what, no_input=False):
        """Report one failure: KNOWN-FINDING if listed, else VIOLATION with a replay file."""
        k = self.match_known(sig)
        if k is not None:
            key = json.dumps(k.get("match"), sort_keys=True)
            if key not in self.known_hits:
                self.known_hits.append(key)
                print("KNOWN-FINDING: property=%s %s" % (self.pid, k.get("what", what)), flush=True)
            return False
        os.makedirs(REPLAYS, exist_ok=True)
        body = {"property": self.pid, "tier": self.tier, "seed": self.seed, "signature": sig,
                "what": what, "replay": replay}
        h = hashlib.sha1(json.dumps(body, sort_keys=True, default=str).encode()).hexdigest()[:10]
        path = os.path.join(REPLAYS, "%s_%s.json" % (self.pid, h))
        json.dump(body, open(path, "w"), indent=1, default=str)
        self.violations.append(path)
        tail = " no-failing-input-found" if no_input else ""
        print("VIOLATION property=%s replay=%s%s" % (self.pid, path, tail), flush=True)
        print("  " + what[:600], flush=True)
        return True

    def finish(self, level="proof"):
        os.makedirs(EVIDENCE, exist_ok=True)
        ev = {"property_id": self.pid, "tier": self.tier, "seed": self.seed, "level": level,
              "coverage": self.coverage, "assumptions": self.assumptions,
              "wall_s": round(time.time() - self.t0, 2), "violations": len(self.violations)}
        json.dump(ev, open(os.path.join(EVIDENCE, self.pid + ".json"), "w"), indent=1, default=str)
        self.log("done: %d violation(s), %d known finding(s)" % (len(self.violations), len(self.known_hits)))
        return 1 if self.violations else 0


def regenerate_all():
    """Every source-derived Coq file (T1 engine skeletons, T2 lock table, T3 pool shapes, compile entry points, T4 interpreter facts) is
    regenerated from /repo's CURRENT tree before anything is compiled, so that no check ever reads a model generated
    from an earlier tree (e.g. one left behind by a run on a modified /repo)."""
    if not os.path.exists(os.path.join(BUILD, "xlate")):
        build_harness()
    for sub, args, name in (("engine", [os.path.join(REPO, "engine", "gengine.go")], "Gen_Engine.v"),
                            ("pool", [os.path.join(REPO, "engine", "gengine_pool.go")], "Gen_Pool.v"),
                            ("locks", [REPO], "Gen_Locks.v"), ("compile", [REPO], "Gen_Compile.v"), ("interp", [REPO], "Gen_Interp.v")):
        write_if_changed(os.path.join(GEN, name), run_xlate(sub, args))


def interp_facts_missing(pid):
    """T4 obligation for one property: the structural premises of the interpreter model that this property relies on
    (Lang/InterpShape.v facts_of) and that do NOT hold in internal/base/*.go now. [] = obligation discharged."""
    header = "From Coq Require Import String List Bool.\nFrom GV Require Import Lang.InterpShape.\nFrom GVgen Require Import Gen_Interp.\n"
    res = coq_eval_cases("cases_interp_%s" % pid, header, 'Definition MISS := missing gen_interp_facts (facts_of "%s"%%string).' % pid, ["MISS"])
    return re.findall(r'"([^"]+)"', res["MISS"])


def interp_facts_report(run, pid, found_concrete):
    """Adds the T4 obligation to the run's coverage; reports it (no failing input) when it is broken and the campaign found nothing."""
    missing = interp_facts_missing(pid)
    cov = run.coverage
    cov["obligations"] = cov.get("obligations", 0) + 1
    cov.setdefault("obligation_names", []).append("T4: the structural premises of the interpreter model used by %s hold in internal/base/*.go (gen/Gen_Interp.v, Lang/InterpShape.v facts_of)" % pid)
    if not missing:
        cov["discharged"] = cov.get("discharged", 0) + 1
    elif not found_concrete:
        gen = open(os.path.join(GEN, "Gen_Interp.v")).read()
        run.report({"kind": "obligation", "symptom": "interp-shape", "facts": missing},
                   {"obligation": "missing gen_interp_facts (facts_of %s) = [] (T4, Lang/InterpShape.v)" % pid, "offending": missing,
                    "generated": "\n".join(l for l in gen.split("\n") if any(m in l for m in missing))},
                   "%s: the interpreter no longer has the structure the model encodes (%s) and no failing input was found" % (pid, ", ".join(missing)), no_input=True)
    return missing


def proof_obligations(run, pid, extra_obligations=0, extra_discharged=0, extra_names=()):
    """Build the development and the property file; fill the proof-level coverage keys.
    Returns (ok, log)."""
    regenerate_all()
    if os.environ.get("VERIF_NO_MAKE"):
        ok, log = True, ""
        pok, nthm, out = True, 0, ""
    else:
        ok, log = coq_make()
        pok, nthm, out = coq_props(pid) if ok else (False, 0, log)
    closed, axioms = parse_assumptions(out) if pok else (0, [])
    cov = run.coverage
    cov["obligations"] = nthm + extra_obligations
    cov["discharged"] = (nthm if pok else 0) + extra_discharged
    cov["checker_cmd"] = "cd coq && coq_makefile -f _CoqProject -o Makefile && make -j16  (then coqc theories/Props/%s.v; thorough tier adds coqchk -silent -o)" % pid
    cov["print_assumptions"] = {"theorems_closed_under_global_context": closed, "axioms": axioms}
    cov["obligation_names"] = ["theorems of Props/%s.v (%d)" % (pid, nthm)] + list(extra_names)
    if run.tier == "thorough" and ok and pok and not os.environ.get("VERIF_NO_COQCHK"):
        # independent re-check of the property module and everything it depends on, with the axiom listing
        with _Lock("coqchk"):
            rc, out2, err2 = sh("ulimit -s unlimited 2>/dev/null; exec timeout 5400 coqchk -silent -o -Q theories GV -Q gen GVgen GV.Props.%s" % pid, cwd=COQ, timeout=5500)
        summary = (out2 + err2)[-1500:]
        m = re.search(r"\* Axioms:(.*?)\* Constants/Inductives relying on type-in-type", summary, re.S)
        cov["coqchk"] = {"exit": rc, "axioms": (m.group(1).strip() if m else "?"), "summary_tail": summary[-600:]}
        if rc != 0:
            ok = False
            log = "coqchk failed: " + summary
    tb = list(TRUSTED_BASE_COMMON)
    if axioms:
        tb.append("standard-library axioms reported by Print Assumptions: " + ", ".join(axioms))
    cov["trusted_base"] = tb
    return ok and pok, (log if not ok else out)
