"""Regenerate every source-derived Coq file (translators) — used by setup and by the checks."""
from common import *  # noqa


def regenerate():
    regenerate_all()
    return []
