"""C20 — error messages point at the line of the construct that failed."""
import c09
from langgen import *  # noqa

PID = "C20"


def make_cases(rng, tier):
    """Single-fault programs under random layouts (blank lines, comments, tabs, several rules per text):
    the fault sits on an arbitrary line; cited positions are compared with the model's, and the listener's
    positions with the printer's."""
    cases = []
    cid = 0
    base = [inj_func("Mark"), inj_func("IdI64"), inj_map("gm", "s", "i64", [])]
    reps = 2 if tier == "quick" else 25
    for rep in range(reps):
        for pos in c09.POSITIONS:
            faults = c09.num_faults() + c09.bool_faults()
            if tier == "quick":
                faults = rng.sample(faults, 9)
            for (name, mkf, inj) in faults:
                is_bool = any(name == n for n, _, _ in c09.bool_faults())
                fault = mkf()
                if not is_bool and rng.random() < 0.4:
                    fault = mparen(fault)            # the faulty arithmetic as the direct operand of a pair of brackets
                    if rng.random() < 0.5:
                        fault = mk_mbin(rng.choice(["+", "*"]), mint(2), fault)
                body = c09.place(pos, None if is_bool else fault, fault if is_bool else None)
                if body is None:
                    continue
                # push the fault down the page: filler statements before it, other rules before and after
                filler = [assign(("var", "f%d" % i), "=", ("math", mint(i))) for i in range(rng.randint(0, 4))]
                body["stmts"] = filler + body["stmts"]
                prelude = []
                for k in range(rng.randint(0, 2)):
                    prelude.append(("p%d" % k, None, 50 + k, block([assign(("var", "q"), "=", ("math", mint(k)))])))
                names = {d["name"] for d in inj}
                hx = [inj_struct("h")] if pos in c09.NEEDS_H and "h" not in names else []
                c = make_case(cid, body, [d for d in base if d["name"] not in names] + hx + inj, rng=rng, fancy=True, prelude=prelude, sal=1, multiline=rng.random() < 0.6)
                c["fault"], c["position"] = name, pos
                cases.append(c); cid += 1
    # faults of the COMPOUND ASSIGNMENT OPERATOR itself (the right-hand side evaluates; the addition / division of the target's
    # current value and that value fails) on every kind of target: a local, a struct field, entries of maps injected by value
    # and by pointer (string and variable keys), a slice element
    targets = [("local", ("var", "loc")), ("field", ("var", "h.I64")), ("map-entry", ("map", mapvar("gm", ("str", "a")))), ("pmap-entry", ("map", mapvar("pm", ("str", "a")))),
               ("pmap-entry-variable-key", ("map", mapvar("pm", ("var", "kk")))), ("slice-element", ("map", mapvar("sq", ("int", 1))))]
    opfaults = [("+=", matom(const(kstr("x")))), ("-=", matom(const(kstr("x")))), ("*=", matom(const(kstr("x")))), ("/=", mint(0)), ("/=", matom(const(kstr("x"))))]
    for rep in range(1 if tier == "quick" else 6):
        for tname, tgt in targets:
            for op, rhs in opfaults:
                import copy
                stmts = [assign(("var", "loc"), "=", ("math", mint(3))), assign(("var", "kk"), "=", ("math", matom(const(kstr("a"))))), scall(call("func", "Mark", [("const", kint(1))])),
                         assign(copy.deepcopy(tgt), op, ("math", copy.deepcopy(rhs))), scall(call("func", "Mark", [("const", kint(2))]))]
                filler = [assign(("var", "f%d" % i), "=", ("math", mint(i))) for i in range(rng.randint(0, 4))]
                inj = [inj_func("Mark"), inj_struct("h"), inj_map("gm", "s", "i64", [(tv_str("a"), tv_int("i64", 7))]), inj_map("pm", "s", "i64", [(tv_str("a"), tv_int("i64", 7))], byptr=True),
                       inj_seq("sq", "i64", [tv_int("i64", 1), tv_int("i64", 2)])]
                c = make_case(cid, block(filler + stmts), inj, rng=rng, fancy=True, sal=1, multiline=rng.random() < 0.5)
                c["fault"], c["position"] = "compound-operator " + op, "compound-op-" + tname
                cases.append(c); cid += 1
    # the same compiled text executed AGAIN with other data: a block whose FIRST child failed in the first execution and whose
    # SECOND child is the only one that fails in the second — what the second error cites is the second child's line only
    hs = lambda x, y: inj_struct("h", fields={"I64": tv_int("i64", x), "I32": tv_int("i32", y)})
    div = lambda tgt, den: assign(("var", tgt), "=", ("math", mk_mbin("/", mint(100), mvar(den))))
    for (first, second) in (((0, 5), (4, 0)), ((4, 0), (0, 5)), ((0, 5), (4, 5)), ((4, 5), (4, 0))):
        for outer in ("plain", "if", "for"):
            blk = sconc([("asg", div("qa", "h.I64")), ("asg", div("qb", "h.I32"))])
            if outer == "if":
                blk = sif(emath(matom(const(kbool(True)))), block([blk]))
            elif outer == "for":
                blk = sfor(assign(("var", "i"), "=", ("math", mint(0))), mk_ecmp("<", emath(mvar("i")), emath(mint(1))), assign(("var", "i"), "+=", ("math", mint(1))), block([blk]))
            filler = [assign(("var", "f%d" % i), "=", ("math", mint(i))) for i in range(rng.randint(0, 3))]
            c = make_case(cid, block(filler + [blk, scall(call("func", "Mark", [("const", kint(2))]))]), [hs(*first), inj_func("Mark")], rng=rng, fancy=True, sal=1, multiline=False)
            c["fault"], c["position"] = "div-by-zero-second-execution", "conc-" + outer
            c["reinject"], c["inject2"] = True, [hs(*second), inj_func("Mark")]
            cases.append(c); cid += 1
    return cases


def nontrivial(c, o):
    if o["class"] != "error" or not o["cites"]:
        return None
    return (c.get("fault"), c.get("position"), o["cites"][0][0])


RULE = ("single-fault programs: 31 fault classes x 24 construct positions (as C09, incl. conc blocks nested in for / if / else and blocks made of calls of one kind) printed under random layouts — random indentation, tabs, blank lines, comment lines, line breaks in the middle of constructs (60 % of the texts), the faulty arithmetic inside brackets (40 %), 0-4 filler statements before the fault, 0-2 other rules "
        "before the faulty rule in the same text — so that the faulty construct lands on an arbitrary line; compared: every (line, column) cited by the error text (regex `line N, column M`) with the citation list of the model, whose node "
        "positions are those the printer assigned to first tokens, and every node position in the listener-built tree with the printer's; plus 30 faults of the compound assignment operator itself (`+=` `-=` `*=` with a string, `/=` by zero and by a string) on a local, a struct field, entries of maps injected by value and by pointer (constant and variable keys) and a slice element; plus 12 blocks executed a second time with other data (another child fails: the second error cites that child only); distinct non-trivial = distinct (fault class, position, cited line) with at least one citation")


def far_lines(run):
    """Positions far down a long text: the same single-fault rule compiled as it is and after 65,600 / 140,000 blank lines (and
    after 70,000 comment lines): every cited line must move by exactly that many lines, the columns stay (a metamorphic check on
    the implementation — the unpadded texts are compared with the model in the main campaign; such line numbers are not handed to
    Coq as unary numerals)."""
    faults = [("div-by-zero", block([assign(("var", "x"), "=", ("math", mk_mbin("/", mint(5), mint(0))))]), []),
              ("missing-function", block([scall(call("func", "Nope", []))]), []),
              ("string-minus-int", block([assign(("var", "x"), "=", ("math", mk_mbin("-", matom(const(kstr("a"))), mint(1))))]), []),
              ("assignment-to-injected-value", block([assign(("var", "c5"), "=", ("math", mint(1)))]), [inj_val("c5", tv_int("i64", 5))]),
              ("logic-on-a-number", block([sif(mk_elogic("&&", emath(mint(5)), emath(matom(const(kbool(True))))), block([]))]), [])]
    pads = [(0, ""), (65600, "\n"), (140000, "\n"), (70000, "// c\n")]
    cases, cid = [], 95000
    for name, body, inj in faults:
        for n, unit in pads:
            import copy
            c = make_case(cid, copy.deepcopy(body), inj)
            c["text"], c["tree"], c["fault"], c["pad"] = unit * n + c["text"], False, name, n
            cases.append(c); cid += 1
    obs = run_lang(cases, timeout=120)
    base, bad = {}, 0
    for c, o in zip(cases, obs):
        if c["pad"] == 0:
            base[c["fault"]] = o["cites"]
    for c, o in zip(cases, obs):
        want = [[l + c["pad"], col] for l, col in base[c["fault"]]]
        if not base[c["fault"]] or o.get("crash") or o.get("compile") or o["cites"] != want:
            bad += 1
            run.report({"kind": "lang-case", "symptom": "far-line", "fault": c["fault"]},
                       {"text_tail": c["text"][-200:], "leading_lines": c["pad"], "inject": c["inject"], "rule": c["rule"], "observed_cites": o["cites"], "expected_cites": want, "errmsg": o.get("errmsg")},
                       "C20: fault '%s' after %d leading lines: the error cites %s, the construct is at %s" % (c["fault"], c["pad"], o["cites"], want))
    return bad == 0, {"far_line_texts": len(cases)}


def main(run):
    return lang_check(run, PID, make_cases, RULE,
                      ["line/column of a construct = 1-based line / 0-based column of its first token as the printer placed it (confirmed against the listener's tree for every node of every case)"], nontrivial,
                      extra=("far_lines_C20: leading blank / comment lines (65,600, 70,000, 140,000) shift every cited line by their number", far_lines))


def replay(run, data):
    return replay_lang(run, data)
