"""C19 — gengine's own state is free of data races under its concurrent contract."""
import re as _re
from common import *  # noqa

PID = "C19"
HEADER = """From Coq Require Import String List Bool.
From GV Require Import Race.Checker.
From GVgen Require Import Gen_Locks.
"""


def regen_locks():
    src = run_xlate("locks", [REPO])
    return write_if_changed(os.path.join(GEN, "Gen_Locks.v"), src)


def build_race_harness():
    with common_lock("go"):
        rc, out, err = sh(["go", "build", "-race", "-tags", "verif", "-o", os.path.join(BUILD, "harness_race"), "./cmd/harness"],
                          cwd=HARNESS_DIR, env=GOENV, timeout=900)
    if rc != 0:
        raise HarnessError("go build -race of the harness failed: " + err[-2000:])


def common_lock(name):
    import common
    return common._Lock(name)


def offenders():
    path = os.path.join(GEN, "cases_locks.v")
    open(path, "w").write(HEADER + "Definition OFF := Eval vm_compute in map (fun a => (a_fn a, a_state a, a_line a, a_write a)) (offending gen_accesses).\nPrint OFF.\n"
                          "Definition NACC := Eval vm_compute in length gen_accesses.\nPrint NACC.\n")
    ok, out, err = coqc(os.path.join("gen", "cases_locks.v"))
    if not ok:
        raise HarnessError("coqc failed on the lock table: " + (out + err)[-2000:])
    flat = _re.sub(r"\s+", " ", out)
    off = _re.findall(r'\("([^"]+)"%string, "([^"]+)"%string, (\d+), (true|false)\)', flat)
    nacc = int(_re.search(r"NACC = (\d+)", flat).group(1))
    return [(f, s, int(l), w == "true") for f, s, l, w in off], nacc


def race_reports(ms, clients):
    """Run the scenario set under the race detector; returns (calls, [report dict])."""
    env = dict(GOENV)
    env["GORACE"] = "halt_on_error=0"
    rc, out, err = sh([os.path.join(BUILD, "harness_race"), "race"], inp=json.dumps({"ms": ms, "clients": clients}), env=env, timeout=300)
    calls = 0
    try:
        calls = json.loads(out).get("calls", 0)
    except ValueError:
        pass
    reports = []
    for blk in err.split("WARNING: DATA RACE")[1:]:
        blk = blk.split("==================")[0]
        lines = _re.findall(_re.escape(REPO.rstrip("/")) + r"/([\w/\.]+\.go):(\d+)", blk)
        own = [(f, int(l)) for f, l in lines if not f.startswith("test/")]
        reports.append({"lines": own[:6], "text": blk[:1800]})
    return calls, reports, rc


FILE_OF = {"gengine_pool.go": "engine/gengine_pool.go", "gengine.go": "engine/gengine.go", "data_context.go": "context/data_context.go",
           "conc_statement.go": "internal/base/conc_statement.go", "rule_builder.go": "builder/rule_builder.go"}


def main(run):
    build_harness()
    build_race_harness()
    regen_locks()
    ok, log = proof_obligations(run, PID, extra_obligations=2,
                                extra_names=["T2: race_ok gen_accesses = true (obligations/GenLocksOk.v)", "race detector: no report on gengine's own state in the scenario set"])
    off, nacc = offenders() if ok else ([], 0)
    ms, clients = (2500, 6) if run.tier == "quick" else (20000, 12)
    run.log("lock table: %d accesses, %d outside the discipline; running the scenario set under the race detector for %d ms" % (nacc, len(off), ms))
    calls, reports, rc = race_reports(ms, clients)
    run.log("%d calls, %d race report(s)" % (calls, len(reports)))
    # attribute reports to states
    by_state = {}
    for (fn, state, line, wr) in off:
        by_state.setdefault(state, []).append((fn, line))
    reported_states = set()
    unexplained = []
    for r in reports:
        hit = None
        for (f, l) in r["lines"]:
            for state, sites in by_state.items():
                if any(FILE_OF.get(state.split(":")[0]) == f and l == ln for _, ln in sites):
                    hit = state
                    break
            if hit:
                break
        if hit:
            if hit not in reported_states:
                reported_states.add(hit)
                run.report({"kind": "data-race", "state": hit}, {"state": hit, "unguarded_sites": by_state[hit][:8], "race_report": r["text"], "scenario": {"cmd": "build/harness_race race", "ms": ms, "clients": clients}},
                           "C19: data race on %s (unsynchronised access at %s; race detector report attached)" % (hit, ", ".join("%s:%d" % x for x in by_state[hit][:4])))
        else:
            unexplained.append(r)
    for r in unexplained[:3]:
        key = tuple(r["lines"][:2])
        run.report({"kind": "data-race", "state": "unlisted", "lines": [list(x) for x in r["lines"][:2]]}, {"race_report": r["text"], "scenario": {"cmd": "build/harness_race race", "ms": ms, "clients": clients}},
                   "C19: the race detector reports a race on gengine code that the lock table does not list: %s" % (r["lines"][:3],))
    for state, sites in by_state.items():
        if state not in reported_states:
            run.report({"kind": "obligation", "state": state, "symptom": "discipline"}, {"obligation": "race_ok gen_accesses = true (obligations/GenLocksOk.v)", "state": state, "unguarded_sites": sites[:10],
                                                                                    "searched": "%d calls under the race detector" % calls},
                       "C19: %s is accessed outside its lock discipline at %s and the race detector did not exhibit a race in this run" % (state, ", ".join("%s:%d" % x for x in sites[:4])), no_input=True)
    if not ok and not run.violations:
        run.report({"kind": "proof", "theorem": PID}, {"theorem": "Props/C19.v", "log": log[-3000:]}, "C19: the Coq development no longer builds and no race was found", no_input=True)
    cov = run.coverage
    cov["discharged"] += (1 if ok and not off else 0) + (0 if reports else 1)
    states = {}
    cov.update({"evaluations": calls, "distinct_nontrivial": nacc,
                "rule": "T2 lock table: every access (read or write) to gengine's own shared state in the five files anchored by C19, with the mutexes syntactically held (distinct non-trivial = number of access sites recorded); "
                        "race detector: %d ms of %d client goroutines issuing pool requests through 9 wrapper families concurrently with full / incremental updates, removals, clear, model changes and queries, plus concurrent / mix / N-M / DAG executions on stand-alone engines, every rule containing a conc block; user data is per request, so reports concern gengine's own state" % (ms, clients),
                "accesses_in_lock_table": nacc, "accesses_outside_discipline": len(off), "race_reports": len(reports), "calls_under_race_detector": calls,
                "samples": [{"offending": off[:3]}, {"report": (reports[0]["text"][:600] if reports else "none")}]})
    run.assumptions = ["T2's syntactic lock pairing (Lock/Unlock/defer Unlock, branch = intersection, go func = new thread) reports the held mutexes faithfully",
                       "ownership: an engine instance (its Gengine, its wrapper fields and its data context's request keys) is used by one request at a time (C17); hand-over is ordered by the free-list mutexes",
                       "rule containers are immutable after publication (T3: no in-place stores) and reached through one synchronised snapshot per execution",
                       "accesses inside user-injected objects are outside gengine's own state",
                       "the race detector only sees the schedules that occur in the run; the discipline theorem (Race/HB.v) covers all interleavings"]
    return run.finish()


def replay(run, data):
    build_race_harness()
    sc = data["replay"].get("scenario", {"ms": 2500, "clients": 6})
    calls, reports, rc = race_reports(sc.get("ms", 2500), sc.get("clients", 6))
    print("race reports now:", len(reports))
    for r in reports[:2]:
        print(r["text"][:800])
    return 1 if reports else 0
