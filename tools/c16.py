"""C16 — pool management operations and queries agree with the denoted rule set."""
import itertools
from poolfam import *  # noqa

PID = "C16"
SALS = [9, 5, 5, 1, -2]
# the always-failing rule pd never TIES with another rule: among equal saliences the order is Go's map iteration order, and with
# pd in a tie the result of the mix / inverse-mix models would depend on it (a false alarm of seed 21 before this was separated)
SALS_PD = [12, 7, 4, 0, -4]
# ... and, since a failure makes the inverse-mix model skip the LOWEST rule, no two rules tie at all: every name draws from a pool of
# its own (a thorough run found pb and pc tied at the bottom next to a failing pd: which of them was skipped was the map order's
# choice).  Ties between rules are C08's subject; a rule re-submitted with an unchanged salience still occurs (small pools)
SALS_BY_NAME = {"pa": [9, 11, 1, 2 ** 63 - 1], "pb": [6, 8, -2], "pc": [3, 10, -3, -2 ** 63], "pd": SALS_PD}     # pairwise disjoint, and containing the initial 9 / 6 / 3


class Gen:
    def __init__(self, rng):
        self.rng = rng
        self.ver = 1

    def rules(self, names):
        self.ver += 1
        # the rule named "pd" always FAILS (Pool/Check.v probe_fails): with a failing rule in the set the result map depends on
        # the execution model, so the model the pool really uses becomes observable
        return [{"name": n, "sal": self.rng.choice(SALS_BY_NAME.get(n, SALS)), "desc": "v%d" % self.ver, "kind": "fail" if n == "pd" else "ret", "ver": self.ver} for n in names]

    def op(self, kind=None):
        r = self.rng
        kind = kind or r.choice(["update", "incr", "incr", "remove", "clear", "setmodel", "bad"])
        if kind == "update":
            return {"op": "update", "rules": self.rules(r.sample(RN, r.randint(1, 4)))}
        if kind == "incr":
            return {"op": "incr", "rules": self.rules(r.sample(RN, r.randint(1, 3)))}
        if kind == "remove":
            return {"op": "remove", "names": r.sample(RN + ["zz"], r.randint(1, 3)) if r.random() < 0.9 else []}
        if kind == "clear":
            return {"op": "clear"}
        if kind == "setmodel":
            return {"op": "setmodel", "model": r.choice([1, 2, 3, 4, 0, 5])}
        return {"op": r.choice(["update", "incr"]), "text": r.choice(['rule "pa" begin return 1', "   ", 'rule "pa" begin end rule "pa" begin end', 'rule "pz" "vz" begin x = 1 # end', 'rule "pz" begin return 1 end $'])}


def scenario(sid, mn, mx, ops, gen):
    init = rules_v(1)
    sc = {"id": sid, "min": mn, "max": mx, "model": 1, "rules": init, "steps": [], "ops": ops}
    rid = sid * 1000
    for o in ops:
        sc["steps"].append(dict(o))
        sc["steps"].append({"op": "snapshot", "probe": RN})
        for method in ("Execute", "ExecuteRulesWithMultiInputWithSpecifiedEM"):      # the sort-model wrapper, then the pool's own model
            held = []
            for _ in range(mx):
                rid += 1
                held.append(rid)
                sc["steps"].append(req_step(rid, method, [], hold_at="*", wait_ms=-200))
            for q in held:
                sc["steps"].append({"op": "release", "id": q})
            for q in held:
                sc["steps"].append({"op": "wait", "id": q})
        sc["_reqs_per_op"] = 2 * mx
    return sc


def make_scenarios(rng, tier):
    scs = []
    sid = 1
    g = Gen(rng)
    kinds = ["update", "incr", "remove", "clear", "setmodel"]
    # systematic: all sequences of length <= 2 (quick) / 3 (thorough) over the five operation kinds
    L = 2 if tier == "quick" else 3
    for n in range(1, L + 1):
        for seq in itertools.product(kinds, repeat=n):
            scs.append(scenario(sid, 2, 3, [g.op(k) for k in seq], g))
            sid += 1
    # the SAME operation (byte-identical text) submitted again after the set was changed in between
    for mid in ("incr", "remove", "clear", "update"):
        first = g.op("update")
        scs.append(scenario(sid, 2, 3, [first, g.op(mid), dict(first)], g))
        sid += 1
        inc = g.op("incr")
        scs.append(scenario(sid, 1, 2, [g.op("update"), inc, g.op(mid), dict(inc)], g))
        sid += 1
    # the very text in service submitted AGAIN after removals took rules of it away: a full update installs what its text says, every time
    for (mn, mx) in ((1, 2), (2, 3)):
        t = {"op": "update", "rules": g.rules(["pa", "pb", "pc"])}
        scs.append(scenario(sid, mn, mx, [t, {"op": "remove", "names": ["pb"]}, dict(t), {"op": "remove", "names": ["pa", "pc"]}, dict(t)], g))
        sid += 1
    # texts that do not compile — syntax errors, duplicate names, characters no token starts with — through both update paths
    for k in ("update", "incr"):
        for t in ('rule "pz" "vz" begin x = 1 # end', 'rule "pz" begin return 1 end $', 'rule "pa" begin return 1'):
            scs.append(scenario(sid, 2, 3, [{"op": k, "text": t}, g.op("incr")], g))
            sid += 1
    # ... and texts in which COMPLETE rules (redefinitions of installed rules, new rules) precede the rule that does not compile: the
    # text is rejected as a whole, and nothing of it turns up later — not after the next successful incremental or full update either
    for k in ("update", "incr"):
        for names in (["pa"], ["pb", "pq"]):
            for nxt in ("incr", "update", "remove"):
                scs.append(scenario(sid, 2, 3, [{"op": k, "rules": g.rules(names), "bad_tail": True}, g.op(nxt), g.op("incr")], g))
                sid += 1
    # the execution model in use: rule sets in which the always-failing rule pd is the top, a middle or the lowest rule, under
    # each of the four models (set after, and before, the update)
    def fixed_rules(order):
        g.ver += 1
        return [{"name": n, "sal": (12, 7, 0)[i] if n == "pd" else 9 - 4 * i, "desc": "v%d" % g.ver, "kind": "fail" if n == "pd" else "ret", "ver": g.ver} for i, n in enumerate(order)]
    for order in (["pd", "pa", "pb"], ["pa", "pd", "pb"], ["pa", "pb", "pd"], ["pd", "pa"], ["pa", "pd"]):
        for m in (1, 2, 3, 4):
            scs.append(scenario(sid, 1, 2, [{"op": "update", "rules": fixed_rules(order)}, {"op": "setmodel", "model": m}], g))
            sid += 1
    for m in (3, 4):
        scs.append(scenario(sid, 2, 3, [{"op": "setmodel", "model": m}, {"op": "incr", "rules": fixed_rules(["pd", "pc"])}, {"op": "remove", "names": ["pa"]}], g))
        sid += 1
    # a pool EMPTIED by removals is not a cleared pool; clearing it afterwards must still clear it
    for tail in ([], ["incr"], ["update"], ["setmodel"]):
        ops = [{"op": "remove", "names": list(RN)}, {"op": "clear"}] + [g.op(k) for k in tail]
        scs.append(scenario(sid, 1, 2, ops, g))
        sid += 1
    scs.append(scenario(sid, 2, 3, [{"op": "remove", "names": ["pa", "pb"]}, {"op": "remove", "names": ["pc", "pd"]}, {"op": "clear"}, {"op": "clear"}], g))
    sid += 1
    # every rule removed, then an incremental update on the emptied (not cleared) pool
    scs.append(scenario(sid, 2, 3, [{"op": "remove", "names": list(RN)}, g.op("incr"), g.op("incr")], g))
    sid += 1
    scs.append(scenario(sid, 1, 2, [{"op": "remove", "names": ["pa", "pb", "pc"]}, {"op": "incr", "rules": g.rules(["pb"])}], g))
    sid += 1
    # an emptied (cleared, or every rule removed) pool refilled by ONE incremental update of several rules, then incremental
    # replacements of a rule that is not the first — with its salience unchanged, and with a new salience
    for empty in ([{"op": "clear"}], [{"op": "remove", "names": list(RN)}]):
        for second in ("same", "moved"):
            refill = g.rules(["pa", "pb", "pc"])
            sal_b = next(r["sal"] for r in refill if r["name"] == "pb")
            repl = g.rules(["pb"])
            repl[0]["sal"] = sal_b if second == "same" else next(x for x in SALS_BY_NAME["pb"] if x != sal_b)
            scs.append(scenario(sid, 2, 3, empty + [{"op": "incr", "rules": refill}, {"op": "incr", "rules": repl}, {"op": "incr", "rules": g.rules(["pc"])}], g))
            sid += 1
    n_rand, maxlen = (12, 8) if tier == "quick" else (300, 12)
    for _ in range(n_rand):
        mn, mx = rng.choice([(2, 3), (1, 4), (1, 2)])
        scs.append(scenario(sid, mn, mx, [g.op() for _ in range(rng.randint(3, maxlen))], g))
        sid += 1
    return scs


def coq_mop(o):
    if "text" in o or o.get("bad_tail"):
        return "MBadText %s" % coq_bool(o["op"] == "incr")
    k = o["op"]
    if k == "update":
        return "MUpdate 0 %s" % coq_prules(o["rules"])
    if k == "incr":
        return "MIncr 0 %s" % coq_prules(o["rules"])
    if k == "remove":
        return "MRemove 0 %s" % coq_list([coq_str(n) for n in o["names"]])
    if k == "clear":
        return "MClear"
    return "MSetModel %s" % coq_nat(max(0, o["model"]))


def coq_mg_case(sc, o):
    steps = []
    ops_obs = [x for x in o["ops"]]
    snaps = o["snaps"]
    reqs = {r["id"]: r for r in o["reqs"]}
    rid = sc["id"] * 1000
    for i, op in enumerate(sc["ops"]):
        oo = ops_obs[i] if i < len(ops_obs) else {"err": False, "panic": "missing"}
        sn = snaps[i] if i < len(snaps) else None
        execs, em_execs = [], []
        for batch in (execs, em_execs):
            for _ in range(sc["max"]):
                rid += 1
                r = reqs.get(rid)
                if r is None or not r.get("done"):
                    batch.append(None)
                else:
                    batch.append(sorted((k, v // 1000000) for k, v in r["result"].items()))
        panic = bool(oo.get("panic")) or sn is None or bool(sn.get("panic")) or any(e is None for e in execs + em_execs)
        if sn is not None and not sn.get("panic") and sn.get("index_ok") is False:
            INDEX_BAD.append((sc["id"], i))
        if sn is None or sn.get("panic"):
            snap_t = "mkMS %s true [] [] false 0%%nat [] 0%%nat [] [] [] []" % coq_bool(oo.get("err", False))
        else:
            opt = lambda vals, errs, f: coq_list(["None" if e else "(Some %s)" % f(v) for v, e in zip(vals or [], errs or [])])
            snap_t = "mkMS %s %s %s %s %s %s %s %s %s %s %s %s" % (
                coq_bool(oo.get("err", False)), coq_bool(panic), coq_rules_of_dump(sn["master_rules"]),
                coq_list([coq_rules_of_dump(inst["rules"]) for inst in sn["insts"]]), coq_bool(sn["clear"]), coq_nat(sn["model"]),
                coq_list([coq_bool(b) for b in sn["exist"]]), coq_nat(sn["number"]), opt(sn["sal"], sn["sal_err"], coq_z), opt(sn["desc"], sn["desc_err"], coq_str),
                coq_list([coq_list(["(%s, %s)" % (coq_str(k), coq_z(v)) for k, v in (e or [])]) for e in execs]),
                coq_list([coq_list(["(%s, %s)" % (coq_str(k), coq_z(v)) for k, v in (e or [])]) for e in em_execs]))
        steps.append("(%s, %s)" % (coq_mop(op), snap_t))
        if panic:
            break
    return "mkMC %s %s %s %s %s %s" % (coq_nat(sc["id"]), coq_nat(sc["max"]), coq_nat(sc["model"]), coq_prules(sc["rules"]),
                                      coq_list([coq_str(n) for n in RN]), coq_list(steps, per_line=True))


INDEX_BAD = []
MG_CODES = {28: "the name->position index of the master or of an instance's rule container is inconsistent with its sorted rule list (the next incremental update will edit the wrong slot)",
            21: "the management operation (or a query / execution after it) panicked",
            22: "the operation's error flag differs from the model",
            29: "an execution through a *SpecifiedEM wrapper did not return what the DENOTED execution model returns on the denoted rule set (one probe rule always fails, so the models differ in what they return)",
            23: "the master rule set is not the set the sequence denotes (names, saliences, descriptions, order)",
            24: "some engine instance holds a different rule set than the master",
            25: "cleared flag or execution model differ",
            26: "queries (IsExist / GetRulesNumber / GetRuleSalience / GetRuleDesc) differ from the denoted set",
            27: "an execution forced onto some instance did not run exactly the denoted rules (by version)"}


def main(run):
    build_harness()
    regen_pool()
    ok, log = proof_obligations(run, PID, extra_obligations=3, extra_names=["T3: pool updates shape obligation (obligations/GenPoolOk.v)", "T2: waiting discipline — no mutex leaked at a return, one lock order, waiters hold nothing (obligations/GenWaitOk.v): a management call or query cannot put the pool out of service", "correspondence_C16: Pool/Check.v check_mg = []"])
    rng = random.Random(run.seed)
    scs = make_scenarios(rng, run.tier)
    run.log("running %d management histories (%d operations)" % (len(scs), sum(len(s["ops"]) for s in scs)))
    obs = run_pool([strip({k: v for k, v in s.items() if k != "ops"}) for s in scs])
    ob = {o["id"]: o for o in obs}
    items, crashed = [], []
    for s in scs:
        if ob[s["id"]].get("crash"):
            crashed.append(s["id"])
        else:
            items.append(coq_mg_case(s, ob[s["id"]]))
    mm = [(t[0], t[1], t[2]) for t in chunked_eval(PID, "mg_case", items, "check_mg", per=12)]
    mm += [(sid, 0, 21) for sid in crashed]
    mm += [(sid, step, 28) for sid, step in INDEX_BAD if not any(m[0] == sid for m in mm)]
    run.log("checked inside Coq: %d disagreement(s)" % len(mm))
    byid = {s["id"]: s for s in scs}
    seen = set()
    for sid, step, code in mm:
        s = byid[sid]
        hist = [dict(o) for o in s["ops"][:step + 1]]
        shape = tuple(("bad-" if "text" in o else "") + o["op"] for o in hist[-2:])
        key = (code, shape)
        if key in seen or len(seen) > 6:
            continue
        seen.add(key)
        run.report({"kind": "mgmt-history", "symptom": code, "last_ops": list(shape)},
                   {"pool": [s["min"], s["max"]], "history": hist, "scenario": strip({k: v for k, v in s.items() if k != "ops"}), "disagreement": MG_CODES[code]},
                   "C16: after %s on a (%d,%d) pool: %s" % (" ; ".join(("bad-" if "text" in o else "") + o["op"] for o in hist), s["min"], s["max"], MG_CODES[code]))
    bad_shape = shape_report(run, PID, 'updates', bool(run.violations)) if ok else []
    bad_wait = wait_report(run, PID, bool(run.violations)) if ok else True
    if not ok and not run.violations:
        run.report({"kind": "proof", "theorem": PID}, {"theorem": "Props/C16.v", "log": log[-3000:]}, "C16: the Coq development no longer builds and no failing history was found", no_input=True)
    cov = run.coverage
    if ok and not bad_shape:
        cov["discharged"] += 1
    if ok and not bad_wait:
        cov["discharged"] += 1
    if not mm:
        cov["discharged"] += 1
    shapes = set(tuple(("bad-" if "text" in o else "") + o["op"] for o in s["ops"]) for s in scs)
    kinds = {}
    for s in scs:
        for o in s["ops"]:
            k = ("bad-" if "text" in o else "") + o["op"]
            kinds[k] = kinds.get(k, 0) + 1
    cov.update({"evaluations": len(scs), "distinct_nontrivial": len([x for x in shapes if len(x) >= 2]),
                "rule": "histories = all sequences of length <= 2 (thorough 3) over {full update, incremental update, removal, clear, set-model} with fresh version-tagged rule sets, plus random histories of length 3-8 (thorough 12) that also contain non-compiling texts, invalid models and removals of absent names, on pools (2,3),(1,4),(1,2); after EVERY operation: snapshot of master and of every instance's rule container (by reflection), all queries, and an execution forced onto every instance (max simultaneous held requests) whose returned versions are compared; distinct non-trivial = distinct operation-kind sequences of length >= 2",
                "operations": kinds, "forced_executions": sum(len(o["reqs"]) for o in obs), "traces_validated_against_impl": len(scs),
                "samples": [{"history": scs[7]["ops"], "pool": [scs[7]["min"], scs[7]["max"]]}]})
    run.assumptions = ["rule bodies are identified by the version they return; per-instance rule containers are compared by value (names, saliences, descriptions, order) — sharing between instances is C07's subject"]
    return run.finish()


def replay(run, data):
    build_harness()
    obs = run_pool([data["replay"]["scenario"]])
    print(json.dumps({k: obs[0].get(k) for k in ("ops", "crash", "stderr")})[:1500])
    return 1 if any(o.get("panic") for o in obs[0].get("ops", [])) or obs[0].get("crash") else 0
