"""C04 — sort model: strict priority order, exactly once, documented error policy."""
import itertools
from engfam import *  # noqa
from c05 import base

PID = "C04"
ENTRIES_P = ["Execute", "ExecuteSelectedRules", "ExecuteSelectedRulesWithControl", "ExecuteWithStopTagDirect", "ExecuteSelectedRulesWithControlAndStopTag"]


# a rule can fail in several ways: a failing statement, a failing return expression, a panic raised inside the evaluation of a
# condition / of a return expression (recovered at the rule's entry point), a stray break
FAILK = ["fail", "panic1", "retfail", "panic2", "fail", "brk"]


def make_cases(rng, tier, diff_here):
    cases = []
    sal_pool = [-2, 0, 0, 3, 7]
    sizes = [1, 2, 3, 4] if tier == "quick" else [1, 2, 3, 4, 5]
    for k in sizes:
        for combo in ([tuple(sal_pool[:k])] if tier == "quick" else list(itertools.combinations(sal_pool, k))[:6]):
            sals = list(combo)
            rng.shuffle(sals)
            for fbits in range(2 ** k):
                rules = [{"name": NAMES[i], "sal": sals[i], "kind": FAILK[(i + k + fbits) % len(FAILK)] if (fbits >> i) & 1 else ("ret" if i % 2 else "plain"),
                          "stop": False, "ver": 100 + i} for i in range(k)]
                for b in (True, False):
                    cases.append(base("Execute", rules, b=b, prev=rng.choice(["fresh", "stale"])))
                    names = [r["name"] for r in rules]
                    rng.shuffle(names)
                    cases.append(base("ExecuteSelectedRulesWithControl", rules, b=b, names=names))
                cases.append(base("ExecuteSelectedRules", rules, names=list(reversed([r["name"] for r in rules]))))
    cases.append(base("Execute", []))
    # the sorted variants that carry a stop tag are the sort model too: every failing subset x every position of a tag-setting rule
    # (the failing rule itself included: it sets the tag and then fails) x both flags
    for k in (2, 3, 4):
        for stop_pos in [None] + list(range(k)):
            for fbits in range(2 ** k):
                rules = [{"name": NAMES[i], "sal": 9 - i, "kind": FAILK[(i + fbits) % len(FAILK)] if (fbits >> i) & 1 else ("ret" if i % 2 else "plain"),
                          "stop": stop_pos == i, "ver": 100 + i} for i in range(k)]
                names = [r["name"] for r in rules]
                rng.shuffle(names)
                for b in (True, False):
                    cases.append(base("ExecuteWithStopTagDirect", rules, b=b))
                    cases.append(base("ExecuteSelectedRulesWithControlAndStopTag", rules, b=b, names=names))
    # rule sets installed through HISTORIES of builder operations (full, incremental with moved saliences, removals incl. absent names)
    ver = [500]

    def R(name, sal, kind="ret"):
        ver[0] += 1
        return {"name": name, "sal": sal, "kind": kind, "stop": False, "ver": ver[0]}
    hists = [
        [{"kind": "full", "rules": [R("ra", 9), R("rb", 5), R("rc", 1)]}, {"kind": "remove", "names": ["rc", "ghost"]}],
        [{"kind": "full", "rules": [R("ra", 9), R("rb", 5), R("rc", 1)]}, {"kind": "remove", "names": ["zz"]}],
        [{"kind": "full", "rules": [R("ra", 9), R("rb", 5), R("rc", 1)]}, {"kind": "incr", "rules": [R("ra", 0), R("rb", 12)]}],
        [{"kind": "full", "rules": [R("ra", 9), R("rb", 5), R("rc", 1)]}, {"kind": "incr", "rules": [R("rd", 7), R("rc", 20, "fail")]}, {"kind": "remove", "names": ["rb"]}],
        [{"kind": "full", "rules": [R("ra", 3), R("rb", 3), R("rc", 3)]}, {"kind": "incr", "rules": [R("rb", 3, "fail")]}, {"kind": "incr", "rules": [R("re", 3), R("ra", -1)]}],
    ]
    # the very same text built AGAIN after the set was changed in between (a roll back): a full build replaces everything, every time
    A = [R("ra", 9), R("rb", 5), R("rc", 1)]
    hists += [
        [{"kind": "full", "rules": A}, {"kind": "incr", "rules": [R("rb", 20, "fail")]}, {"kind": "full", "rules": A}],
        [{"kind": "full", "rules": A}, {"kind": "remove", "names": ["ra"]}, {"kind": "full", "rules": A}],
        [{"kind": "full", "rules": A}, {"kind": "full", "rules": A}, {"kind": "incr", "rules": [R("rd", 7)]}, {"kind": "remove", "names": ["rd", "rb"]}, {"kind": "full", "rules": A}],
    ]
    MIN, MAX = -2 ** 63, 2 ** 63 - 1        # saliences whose differences overflow int64
    hists += [
        [{"kind": "full", "rules": [R("ra", 9), R("rb", 0)]}, {"kind": "incr", "rules": [R("rc", MIN)]}],
        [{"kind": "full", "rules": [R("ra", -5), R("rb", -9)]}, {"kind": "incr", "rules": [R("rc", MAX)]}],
        [{"kind": "full", "rules": [R("ra", MIN), R("rb", MAX), R("rc", 0)]}, {"kind": "incr", "rules": [R("rd", 1), R("ra", MAX)]}, {"kind": "incr", "rules": [R("rb", MIN, "fail")]}],
    ]
    hist_pool = sal_pool + [MIN, MAX]
    for _ in range(10 if tier == "quick" else 300):
        h = [{"kind": "full", "rules": [R(n, rng.choice(hist_pool)) for n in rng.sample(NAMES[:6], rng.randint(1, 5))]}]
        for _ in range(rng.randint(1, 4)):
            k = rng.choice(["incr", "incr", "remove"])
            if k == "incr":
                h.append({"kind": "incr", "rules": [R(n, rng.choice(hist_pool), rng.choice(["ret", "plain", "fail"])) for n in rng.sample(NAMES[:7], rng.randint(1, 3))]})
            else:
                h.append({"kind": "remove", "names": rng.sample(NAMES[:7] + ["ghost"], rng.randint(1, 3))})
        hists.append(h)
    for h in hists:
        for b in (True, False):
            c = base("Execute", [], b=b)
            c["history"] = h
            cases.append(c)
    n_rand = 200 if tier == "quick" else 5000
    pool = ENTRIES_P + diff_here * 9
    for _ in range(n_rand):
        cases.append(rand_case(rng, rng.choice(pool), kinds=("plain", "ret", "fail", "panic1", "retfail"), weights=(3, 3, 1, 1, 1), maxk=7 if tier == "quick" else 10))
    return cases


RULE = ("systematic: rule sets of size 1-4 (thorough 1-5) over saliences {-2,0,0,3,7} (ties, negatives) x EVERY failing subset x both flags, through Execute and the two sorted selected variants "
        "(names permuted); sets of size 2-4 x every failing subset x every position of a tag-setting rule (a failing rule included) x both flags through the two sorted stop-tag variants; rule sets installed through 21 (thorough 311) histories (three of them build the very same text again after an incremental update / a removal) of full / incremental (moved and tied saliences, the int64 extremes, several rules per text) / removal (incl. absent names) operations, whose installed order must be the denoted set in non-increasing current salience; random: 200 (thorough 5000) calls with up to 7 (10) rules.")


def main(run):
    return engine_check(run, PID, ENTRIES_P, make_cases, RULE,
                        ["the installed order rb.Kc.SortRules is taken as observed (its correctness is C08)"],
                        after=lambda r: pool_wrappers_part(r, PID, ['Execute', 'ExecuteSelectedRules', 'ExecuteSelectedRulesWithControl', 'ExecuteSelectedRulesWithControlAsGivenSortedName', 'ExecuteRulesWithMultiInputWithSpecifiedEM']))


def replay(run, data):
    return replay_case(run, data)
