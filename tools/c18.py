"""C18 — conc blocks join before the next statement and lose no effect or error."""
import itertools
from langgen import *  # noqa

PID = "C18"


def children_pool():
    """(child, call signature or None, category index: 0 assignment, 1 function, 2 method, 3 three-level)"""
    return [
        (("asg", assign(("var", "ca"), "=", ("math", mint(11)))), None, 0),
        (("asg", assign(("var", "h.I64"), "=", ("math", mint(12)))), None, 0),
        (("asg", assign(("map", mapvar("mp", ("str", "k"))), "=", ("math", mint(13)))), None, 0),
        (("asg", assign(("var", "cb"), "=", ("math", matom(acall(call("func", "IdI64", [("const", kint(14))])))))), ("IdI64", "14"), 0),
        (("call", call("func", "Mark", [("const", kint(21))])), ("Mark", "21"), 1),
        (("call", call("func", "Mark", [("const", kint(22))])), ("Mark", "22"), 1),
        (("call", call("method", "h.Mark", [("const", kint(31))])), ("Mark", "31"), 2),
        (("call", call("method", "h.Id64", [("const", kint(32))])), ("Id64", "32"), 2),
        (("call", call("three", "h.PSub.GetN", [("const", kint(41))])), ("GetN", "41"), 3),
    ]


FAILING = [
    (("asg", assign(("var", "cf"), "=", ("math", mvar("nope")))), None, 0),
    # assignments the data context refuses: a name injected BY VALUE, a field of a struct injected by value, a missing field
    (("asg", assign(("var", "lim"), "=", ("math", mint(20)))), None, 0),
    (("asg", assign(("var", "hv.I64"), "=", ("math", mint(5)))), None, 0),
    (("asg", assign(("var", "h.Nope"), "=", ("math", mint(5)))), None, 0),
    (("call", call("func", "Boom", [])), None, 1),
    (("call", call("func", "BigBoom", [])), None, 1),      # fails last, with an 8 MiB panic value: slow to record
    (("call", call("func", "Nope", [])), None, 1),
    (("call", call("method", "h.Boom", [])), None, 2),
    (("call", call("three", "h.PSub.Nope", [])), None, 3),
]


def fresh(ch):
    import copy
    return copy.deepcopy(ch)


def inject():
    return [inj_func("Mark"), inj_func("IdI64"), inj_func("Boom"), inj_func("BigBoom"), inj_func("Hold"), inj_struct("h"), inj_map("mp", "s", "i64", []),
            inj_val("lim", tv_int("i64", 10)), dict(inj_struct("h"), name="hv", kind="structv")]


def make_cases(rng, tier):
    cases = []
    cid = 0
    pool = children_pool()
    combos = []
    for k in range(0, 7):
        for _ in range(6 if tier == "quick" else 60):
            chosen = rng.sample(pool, min(k, len(pool)))
            nfail = rng.choice([0, 0, 1, 1, 2]) if k > 0 else 0
            failing = rng.sample(FAILING, 1) if nfail >= 1 else []      # one failing child: cited positions are deterministic
            combos.append((chosen, failing))
    # the SAME statement written two or three times in one block runs two or three times (children are statements, not texts)
    # (not the map assignment: two goroutines writing one Go map is a race of the RULE's own making — the runtime may abort the
    # process with "concurrent map writes" — and the extra child never writes the map either)
    is_map_write = lambda ch: ch[0][0] == "asg" and ch[0][1]["target"][0] == "map"
    for k in (2, 3):
        for ch in pool:
            if is_map_write(ch):
                continue
            combos.append(([ch] * k + rng.sample([c for c in pool if not is_map_write(c)], 1), []))
    # blocks with ONE child, of every shape (sound and failing): nothing to run concurrently with, everything else unchanged
    for ch in pool:
        combos.append(([ch], []))
    for ch in FAILING:
        combos.append(([], [ch]))
    for chosen, failing in combos:
        for hold_kind in ("none", "func-child", "method-child"):
            kids = [fresh(c) for c in chosen + failing]
            rng.shuffle(kids)
            hold = ""
            if hold_kind == "func-child":
                kids.insert(rng.randrange(len(kids) + 1), (("call", call("func", "Hold", [("const", kstr("gate"))])), ("Hold", "gate"), 1))
                hold = "gate"
            elif hold_kind == "method-child":
                if rng.random() < 0.5:
                    continue            # half of the blocks also with the held child being a METHOD call
                kids.insert(rng.randrange(len(kids) + 1), (("call", call("method", "h.HoldM", [("const", kstr("gate"))])), ("HoldM", "gate"), 2))
                hold = "gate"
            body = block([scall(call("func", "Mark", [("const", kint(1))])), sconc([k[0] for k in kids]), scall(call("func", "Mark", [("const", kint(99))]))],
                         ("expr", emath(mk_mbin("+", mvar("h.I64"), matom(amap(mapvar("mp", ("str", "k"))))))))
            c = make_case(cid, body, inject())
            c["hold"], c["kids"] = hold, kids
            cases.append(c)
            cid += 1
    return cases


def canonical_calls(c, o):
    """Checks the join barrier and exactly-once on the observed call sequence, then rewrites the block's segment into
    the model's (spawn) order so that the Coq comparison is order-insensitive inside the block. Returns (problems, calls)."""
    calls = [cl for cl in o["calls"]]
    probs = []
    sig = lambda cl: (cl["fn"], cl["args"][0].get("z", cl["args"][0].get("s")) if cl["args"] else None)
    sigs = [sig(cl) for cl in calls]
    failing = any(k in [f[0] for f in FAILING] or True for k in [])  # unused
    expected = [k[1] for k in c["kids"] if k[1] is not None]
    blockfails = o["class"] == "error"
    try:
        i1 = sigs.index(("Mark", "1"))
    except ValueError:
        return ["Mark(1) before the block was not recorded"], calls
    i99 = sigs.index(("Mark", "99")) if ("Mark", "99") in sigs else None
    end = i99 if i99 is not None else len(sigs)
    seg = [s for s in sigs[i1 + 1:end] if s[0] != "Unheld"]
    unheld_pos = [i for i, s in enumerate(sigs) if s[0] == "Unheld"]
    if sorted(map(str, seg)) != sorted(map(str, expected)):
        probs.append("children's calls are not exactly once each: observed %s, expected %s" % (seg, expected))
    if i99 is not None and unheld_pos and unheld_pos[0] > i99:
        probs.append("the statement after the block started before a held child finished")
    if i99 is not None and any(s in expected for s in sigs[i99 + 1:]):
        probs.append("a child's call was recorded after the statement following the block")
    if blockfails and i99 is not None:
        probs.append("a failing block let the next statement run")
    # rewrite in spawn order: assignments, functions, methods, three-level (each category in listed order)
    order = [k for cat in range(4) for k in c["kids"] if k[2] == cat and k[1] is not None]
    bysig = {}
    for cl in calls[i1 + 1:end]:
        if cl["fn"] != "Unheld":
            bysig.setdefault(str(sig(cl)), []).append(cl)
    new_seg = []
    for k in order:
        l = bysig.get(str(k[1]))
        if l:
            new_seg.append(l.pop(0))
    out = calls[:i1 + 1] + new_seg + [cl for cl in calls[end:] if cl["fn"] != "Unheld"]
    return probs, out


RULE = ("conc blocks of 0-6 children drawn from 9 non-failing shapes (assignments to a local, a struct field, a map entry, an assignment whose right-hand side calls a function; function, method and three-level calls) (also the same child written two or three times), plus at most one failing child "
        "(undefined name, assignment to a name or struct injected by value or to a missing field, panicking function or method — one of them late and with an 8 MiB panic value —, missing function or method), shuffled; each block twice or three times: plain, with an extra child Hold(\"gate\") (a function call) and, for half of them, with an extra child h.HoldM(\"gate\") (a method call) that the adversary blocks until nothing else happens for a quiet period; "
        "`Mark(1)` precedes and `Mark(99)` follows the block, the rule returns values written by the children; checked by the driver on the global call order: every child's call exactly once, all of them (and the held child's release) before Mark(99), "
        "Mark(99) absent when the block fails; checked inside Coq (after rewriting the block's calls into spawn order): outcome class, cited positions, returned value, host objects afterwards; "
        "plus 14 engine-level calls (selected concurrent, DAG, N-M, mix) that name one rule two or three times, so that it runs twice at once, its conc block failing in the first execution only while that execution's second child is still running when the other execution enters the block: trace, error flag and result map compared with Engine/Spec.v inside Coq; "
        "distinct non-trivial = blocks with at least two children")


def main(run):
    build_harness()
    ok, log = proof_obligations(run, PID, extra_obligations=1, extra_names=["correspondence_C18: join barrier / exactly-once on observed call orders + Lang/Check.v on effects and errors"])
    rng = random.Random(run.seed)
    cases = make_cases(rng, run.tier)
    run.log("running %d conc-block programs (%d with a held child)" % (len(cases), sum(1 for c in cases if c["hold"])))
    payload_cases = []
    for c in cases:
        payload_cases.append(c)
    # run_lang does not pass 'hold': patch the payload
    orig = dict((c["id"], c) for c in cases)
    import langgen

    def run_with_hold(cs):
        payload = [{k: c[k] for k in ("id", "text", "rule", "inject", "tree")} for c in cs]
        for p, c in zip(payload, cs):
            p["hold"] = c.get("hold", "")
        shards = [payload[i::NCPU] for i in range(NCPU)]
        outs = parallel_map(lambda s: run_harness_child("lang", s, timeout=300), [s for s in shards if s])
        res = []
        for st, out, err in outs:
            if st != "ok":
                raise HarnessError("lang harness crashed on a conc campaign: " + err[-500:])
            res += out
        return sorted(res, key=lambda o: o["id"])
    obs = run_with_hold(cases)
    problems = []
    for c, o in zip(cases, obs):
        if o.get("compile"):
            problems.append((c["id"], "compile: " + o["compile"][:200]))
            continue
        if c["hold"] and not o.get("held"):
            problems.append((c["id"], "the held child never reached its gate"))
        probs, newcalls = canonical_calls(c, o)
        for p in probs:
            problems.append((c["id"], p))
        o["calls"] = newcalls
    mism = evaluate_lang(PID, cases, obs)
    run.log("driver checks: %d problem(s); compared inside Coq: %d disagreement(s)" % (len(problems), len(mism)))
    ob = {o["id"]: o for o in obs}
    seen = set()
    for cid, what in problems:
        key = what[:40]
        if key in seen:
            continue
        seen.add(key)
        run.report({"kind": "conc-order", "symptom": key}, {"text": orig[cid]["text"], "inject": orig[cid]["inject"], "rule": "r1", "hold": orig[cid]["hold"], "observation": {k: ob[cid].get(k) for k in ("class", "calls", "held", "during")}},
                   "C18: %s — %s" % (what, orig[cid]["text"].replace("\n", " | ")[:300]))
    for cid, code in [m for m in mism if m[1] != 7]:
        key = ("coq", code)
        if key in seen:
            continue
        seen.add(key)
        run.report({"kind": "lang-case", "symptom": SYMPTOM_L[code]}, {"text": orig[cid]["text"], "inject": orig[cid]["inject"], "rule": "r1", "observation": {k: ob[cid].get(k) for k in ("class", "ret", "cites", "calls", "store")}, "disagreement": LCODES[code]},
                   "C18: %s — %s" % (LCODES[code], orig[cid]["text"].replace("\n", " | ")[:300]))
    report_reader(run, PID, mism, lambda i: orig[i]["text"])
    # (E) the same rule executed TWICE at once by one call (a repeated name), its conc block failing in the first execution only
    # while that execution's other child is still running when the second one enters the block: the failure belongs to the block
    # that raised it and the call reports it (Engine/Spec.v spec_outcome on the observed trace, error flag and result map)
    import engfam
    from c05 import base as ebase
    ecases = []
    for entry, kw in (("ExecuteSelectedRulesConcurrent", {"names": ["ra", "ra"]}), ("ExecuteSelectedRulesConcurrent", {"names": ["rb", "ra", "ra"]}),
                      ("ExecuteDAGModel", {"layers": [["ra", "ra"], ["rb"]]}), ("ExecuteDAGModel", {"layers": [["rb"], ["ra", "ra", "ra"]]}),
                      ("ExecuteSelectedNConcurrentMConcurrent", {"names": ["ra", "ra", "rb"], "n": 2, "m": 1, "b": True}),
                      ("ExecuteSelectedNConcurrentMSort", {"names": ["ra", "ra", "rb"], "n": 2, "m": 1, "b": False}),
                      ("ExecuteSelectedRulesMixModel", {"names": ["rb", "ra", "ra"]})):
        for rep in range(2):
            ecases.append(ebase(entry, [{"name": "ra", "sal": 5, "kind": "concflaky", "stop": False, "ver": 100}, {"name": "rb", "sal": 9, "kind": "ret", "stop": False, "ver": 101}], **kw))
    for i, c in enumerate(ecases):
        c["id"], c["via"], c["quiet_ms"] = i, "engine", 25
    eobs = engfam.run_sharded(ecases)
    emism, _, _ = engfam.evaluate(PID + "e", ecases, eobs)
    run.log("(E) %d calls running one rule twice at once, its conc block failing once: %d disagreement(s)" % (len(ecases), len(emism)))
    eseen = set()
    for cid, code in emism:
        if (ecases[cid]["entry"], code) in eseen or code >= 10:
            continue
        eseen.add((ecases[cid]["entry"], code))
        run.report({"kind": "engine-call", "entry": ecases[cid]["entry"], "symptom": engfam.SYMPTOM.get(code, str(code))}, {"case": ecases[cid], "observation": eobs[cid], "disagreement": engfam.CODES.get(code, str(code))},
                   "C18: a conc block failing in one of two simultaneous executions of its rule, %s names=%s layers=%s: %s" % (ecases[cid]["entry"], ecases[cid]["names"], ecases[cid]["layers"], engfam.CODES.get(code, str(code))))
    if not ok and not run.violations:
        run.report({"kind": "proof", "theorem": PID}, {"theorem": "Props/C18.v", "log": log[-3000:]}, "C18: the Coq development no longer builds and no failing input was found", no_input=True)
    if ok:
        interp_facts_report(run, PID, bool(run.violations))
    cov = run.coverage
    if not problems and not mism and not emism:
        cov["discharged"] += 1
    shapes = set()
    for c in cases:
        if len(c["kids"]) >= 2:
            shapes.add((tuple(sorted(str(k[1]) + str(k[2]) + k[0][0] for k in c["kids"])), bool(c["hold"])))
    cov.update({"evaluations": len(cases), "distinct_nontrivial": len(shapes), "rule": RULE, "held_child_rounds": sum(1 for o in obs if o.get("held")),
                "calls_recorded_while_a_child_was_held": sum(o.get("during", 0) for o in obs), "traces_validated_against_impl": len(cases),
                "samples": [{"text": cases[40]["text"], "calls": [(cl["fn"], [a.get("z", a.get("s")) for a in cl["args"]]) for cl in ob[cases[40]["id"]]["calls"]]}]})
    run.assumptions = ["children with overlapping targets are outside the comparison (their final values depend on the schedule); the theorems give order-independence for commuting children and, in general, membership in the set of sequentialisations",
                       "sync.WaitGroup / the go statement per the Go memory model; the cited positions of a failing block are compared with one failing child per block (the order in which several failures are reported is scheduling-dependent)"]
    return run.finish()


def replay(run, data):
    if "case" in data.get("replay", {}):
        import engfam
        return engfam.replay_case(run, data)
    return replay_lang(run, data)
