"""Reading correspondence for C01: token strings (well-formed and malformed) are compiled by the implementation
(harness `parse`: the shape of the listener's tree, by reflection) and read by the Coq model Lang/Parse.v (`parse`);
both must agree on every string — same shape, or both reject."""
import json
import random
import re

from common import *  # noqa

AOPS = {"+": "BA OAdd", "-": "BA OSub", "*": "BA OMul", "/": "BA ODiv"}
COPS = {"==": "BC CEq", "!=": "BC CNe", ">": "BC CGt", "<": "BC CLt", ">=": "BC CGe", "<=": "BC CLe"}
LOPS = {"&&": "BL LAnd", "||": "BL LOr"}
OPS = dict(AOPS, **COPS, **LOPS)
OPL = list(OPS)


def level(op):
    return 4 if op in "*/" else 3 if op in "+-" else 2 if op in COPS else 1


# ---- tokens: ("a", n) | ("op", s) | "(" | ")" | "!"
def tok_text(t):
    return "a%d" % t[1] if t[0] == "a" else t[1] if t[0] == "op" else t


def tok_coq(t):
    return "TAtom %d" % t[1] if t[0] == "a" else "TOp (%s)" % OPS[t[1]] if t[0] == "op" else {"(": "TL", ")": "TR", "!": "TNot"}[t]


def render(toks, rng):
    out = []
    for t in toks:
        out.append(tok_text(t))
    # random spacing, but never glue two tokens into another token (`<` `=`, `!` `=`, `&` ...): always at least one blank
    # around operators; parentheses and '!' may be glued
    s = ""
    for i, x in enumerate(out):
        glue = x in ("(", ")", "!") or (i > 0 and out[i - 1] in ("(", "!"))
        if i > 0 and not (glue and rng.random() < 0.6 and not (x == "(" and out[i - 1].startswith("a"))):
            s += " " * rng.choice([1, 1, 1, 2])
        if x == "!" and i + 1 < len(out) and out[i + 1].startswith("="):
            s += " "
        s += x
    return s


def gen_operand(rng, depth, math_only, counter):
    r = rng.random()
    if depth > 0 and r < 0.3:
        neg = (not math_only) and rng.random() < 0.3
        inner = gen_flat(rng, depth - 1, True if math_only else rng.random() < 0.5, counter)
        return (["!"] if neg else []) + ["("] + inner + [")"]
    neg = (not math_only) and rng.random() < 0.15
    n = counter[0] % 10
    counter[0] += 1
    return (["!"] if neg else []) + [("a", n)]


def gen_flat(rng, depth, math_only, counter):
    """a mostly well-sorted token string: operands joined by operators; arithmetic neighbours get math operands"""
    n = rng.choice([1, 2, 2, 3, 3, 4, 5, 6])
    ops = [rng.choice(list(AOPS) if math_only else OPL) for _ in range(n - 1)]
    toks = []
    for i in range(n):
        need_math = math_only or (i > 0 and ops[i - 1] in AOPS) or (i < n - 1 and ops[i] in AOPS)
        if rng.random() < 0.04:
            need_math = not need_math          # a few sort errors
        toks += gen_operand(rng, depth, need_math, counter)
        if i < n - 1:
            toks.append(("op", ops[i]))
    return toks


def mutate(toks, rng):
    toks = list(toks)
    k = rng.choice(["drop", "dup", "swap", "ins"])
    if not toks:
        return [("op", "+")]
    i = rng.randrange(len(toks))
    if k == "drop":
        del toks[i]
    elif k == "dup":
        toks.insert(i, toks[i])
    elif k == "swap" and len(toks) > 1:
        j = rng.randrange(len(toks))
        toks[i], toks[j] = toks[j], toks[i]
    else:
        toks.insert(i, rng.choice(["(", ")", "!", ("op", rng.choice(OPL)), ("a", rng.randrange(10))]))
    return toks


def in_domain(toks):
    """no atom directly followed by '(' (a call for the real lexer); non-empty; `! =` cannot arise since operators are spaced"""
    if not toks:
        return False
    for a, b in zip(toks, toks[1:]):
        if a[0] == "a" and b == "(":
            return False
    return True


CTX = [("return", 'rule "p" begin\n return %s\nend'), ("if", 'rule "p" begin\n if %s {\n  x = 1\n }\nend'), ("assign", 'rule "p" begin\n x = %s\nend')]


def gen_cases(rng, n_valid, n_bad):
    import itertools
    cases = []

    def add(toks, kind):
        if not in_domain(toks):
            return
        ctx, tmpl = CTX[len(cases) % 3]
        cases.append({"id": len(cases), "toks": toks, "ctx": ctx, "text": tmpl % render(toks, rng), "kind": kind})
    # systematic: every ordered pair and triple of operators over plain atoms (all sorts, incl. the ill-sorted ones)
    for ops in itertools.product(OPL, repeat=2):
        add([("a", 0), ("op", ops[0]), ("a", 1), ("op", ops[1]), ("a", 2)], "pair")
    for ops in itertools.product(OPL, repeat=2):
        add([("a", 0), ("op", ops[0]), "(", ("a", 1), ("op", ops[1]), ("a", 2), ")"], "pair-paren-right")
        add(["(", ("a", 0), ("op", ops[0]), ("a", 1), ")", ("op", ops[1]), ("a", 2)], "pair-paren-left")
        add(["!", "(", ("a", 0), ("op", ops[0]), ("a", 1), ")", ("op", ops[1]), "!", ("a", 2)], "pair-negated")
    trip = list(itertools.product(OPL, repeat=3))
    for ops in rng.sample(trip, min(len(trip), n_valid // 4)):
        add([("a", 0), ("op", ops[0]), ("a", 1), ("op", ops[1]), ("a", 2), ("op", ops[2]), ("a", 3)], "triple")
    for _ in range(n_valid):
        add(gen_flat(rng, rng.choice([0, 1, 1, 2, 3]), rng.random() < 0.25, [0]), "random")
    base = [c["toks"] for c in cases if c["kind"] == "random"] or [[("a", 0)]]
    for _ in range(n_bad):
        t = mutate(rng.choice(base), rng)
        if rng.random() < 0.3:
            t = mutate(t, rng)
        add(t, "mutated")
    for _ in range(n_bad // 4):
        add([rng.choice(["(", ")", "!", ("op", rng.choice(OPL)), ("a", rng.randrange(10)), ("a", rng.randrange(10))]) for _ in range(rng.randint(1, 7))], "noise")
    return cases


SHAPE_TOK = re.compile(r"[NLP]\(|\)|,|[^(),]+")


def shape_to_coq(s):
    """N(op,l,r) | L(neg,aK) | P(neg,t)  ->  Coq term of type shape; None if the dump has an unexpected node"""
    if "?" in s:
        return None
    pos = [0]
    toks = SHAPE_TOK.findall(s)

    def eat(x=None):
        t = toks[pos[0]]
        pos[0] += 1
        if x is not None and t != x:
            raise ValueError("shape syntax: expected %r got %r in %s" % (x, t, s))
        return t

    def rec():
        t = eat()
        if t == "N(":
            op = eat(); eat(","); l = rec(); eat(","); r = rec(); eat(")")
            return "(SNode (%s) %s %s)" % (OPS[op], l, r)
        if t == "L(":
            neg = eat(); eat(","); name = eat(); eat(")")
            if not re.fullmatch(r"a\d", name):
                raise ValueError("atom " + name)
            return "(SLeaf %s %d)" % ("true" if neg == "1" else "false", int(name[1:]))
        if t == "P(":
            neg = eat(); eat(","); x = rec(); eat(")")
            return "(SParen %s %s)" % ("true" if neg == "1" else "false", x)
        raise ValueError("shape syntax at %r in %s" % (t, s))
    try:
        r = rec()
        if pos[0] != len(toks):
            return None
        return r
    except (ValueError, KeyError, IndexError):
        return None


def reading_check(run, tag, n_valid, n_bad):
    """returns (cases, obs-by-id, list of (case id, why)) — the caller reports"""
    rng = random.Random(run.seed * 7919 + 13)
    cases = gen_cases(rng, n_valid, n_bad)
    obs = run_harness("parse", [{"id": c["id"], "text": c["text"], "ctx": c["ctx"]} for c in cases], timeout=600)
    ob = {o["id"]: o for o in obs}
    bad = []
    rows = []
    for c in cases:
        o = ob[c["id"]]
        if o.get("panic"):
            bad.append((c["id"], "the compile call panicked: " + o["panic"][:200]))
            continue
        if o.get("compile"):
            term = "None"
        else:
            t = shape_to_coq(o.get("shape", "?"))
            if t is None:
                bad.append((c["id"], "the listener built a node of an unexpected form: " + o.get("shape", "")[:200]))
                continue
            term = "(Some %s)" % t
        rows.append("(%d, [%s], %s)" % (c["id"], "; ".join(tok_coq(t) for t in c["toks"]), term))
    header = "From Coq Require Import List ZArith.\nFrom GV Require Import Lang.Syntax Lang.Parse.\nImport ListNotations.\n"
    body = "Definition rcases : list (nat * list tok * option shape) := [\n%s\n].\nDefinition rm := parse_mismatches rcases." % ";\n".join(rows)
    res = coq_eval_cases("cases_%s_reading" % tag, header, body, ["rm"])
    ids = [int(x) for x in re.findall(r"\d+", res["rm"])]
    byid = {c["id"]: c for c in cases}
    for i in ids:
        o = ob[i]
        bad.append((i, "the implementation %s, the grammar model (Lang/Parse.v) %s" % (
            ("rejects the text (%s)" % o["compile"][:120]) if o.get("compile") else ("reads " + o.get("shape", "")),
            "reads it differently or rejects it" if not o.get("compile") else "accepts it")))
    return cases, ob, bad
