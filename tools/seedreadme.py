#!/usr/bin/env python3
"""Regenerates seeded/README.md from the meta.json files."""
import glob
import json
import os

ROOT = os.path.dirname(os.path.dirname(os.path.abspath(__file__)))
rows = []
for f in sorted(glob.glob(os.path.join(ROOT, "seeded", "*", "meta.json"))):
    m = json.load(open(f))
    det = m.get("detection", {})
    caught = sorted(k for k, v in det.items() if v["violations"] > 0)
    silent = sorted(k for k, v in det.items() if v["violations"] == 0)
    own = det.get(m["breaks"], {})
    first = (own.get("first") or next((det[k]["first"] for k in caught), "")).replace("|", "/")[:170]
    concrete = "yes" if own.get("violations", 0) > own.get("no_input", 0) else ("no-failing-input-found only" if own.get("violations") else "MISSED")
    rows.append("| `%s` | %s | %s | %s | %s | %s | %s |" % (m["slug"], m["breaks"], ", ".join(m.get("files_changed", [])), ", ".join(caught), ", ".join(silent), concrete, first))
head = """# Seeded changes

Each directory holds `patch.diff` (the source change only), the sub-agent's demonstration test (`seeded_*_test.go.txt`, package `test`, public API only) and `meta.json` (what was run to confirm it, which quick checks raise a `VIOLATION` with it).
Every change was written by an independent sub-agent that saw only the property text and a scratch worktree, and was kept only after `tools/seedtest.py confirm` re-established: it builds, the demonstration fails with it and passes without it, all 77 stable tests of the pinned suite still pass. None is committed to `/repo`. `python3 tools/seedtest.py run <slug> Cxx ...` applies it, runs the quick checks, undoes it and restores the evidence files; `tools/seedall.sh` re-runs every change against the current checks.
Round 1 = plain slugs, round 2 = slugs ending in `b` (a second independent agent per property).

| slug | breaks | files | caught by (quick) | also run, silent | own check has a concrete replay | first report |
|---|---|---|---|---|---|---|
"""
open(os.path.join(ROOT, "seeded", "README.md"), "w").write(head + "\n".join(rows) + "\n")
print(len(rows), "seeded changes;", sum(1 for r in rows if "| yes |" in r), "caught with a concrete replay by the check of the property they break")
