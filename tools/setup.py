"""vcheck setup: build everything from files on disk (offline)."""
import sys
from common import *  # noqa


def main():
    try:
        build_harness()
        print("harness + translators built")
        import gen_all
        gen_all.regenerate()
        ok, log = coq_make(timeout=5400)
        if not ok:
            print(log[-5000:])
            print("setup: Coq build FAILED")
            return 1
        print("Coq development built")
        rc, out, err = sh("grep -rnE 'Admitted|admit\\b|^\\s*(Axiom|Parameter|Conjecture)\\b|Unset Guard|bypass_check|type-in-type' coq/theories coq/gen --include=*.v || true", cwd=ROOT)
        if out.strip():
            print("setup: forbidden constructs found:\n" + out)
            return 1
        return 0
    except HarnessError as e:
        print("HARNESS-ERROR:", e)
        return 2
