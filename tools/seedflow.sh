#!/bin/sh
# Development aid (not a registered command): confirm and then detect a batch of seeded changes.
# usage: tools/seedflow.sh <prefix> "<tag> <pid> <slug>" ...     (worktrees /tmp/<prefix>_<tag>); log: build/seedflow.log
cd "$(dirname "$0")/.." || exit 2
prefix=$1; shift
for spec in "$@"; do
  set -- $spec
  tag=$1; pid=$2; slug=$3
  echo "== $slug" >> build/seedflow.log
  python3 tools/seedtest.py confirm /tmp/${prefix}_$tag $pid $slug > build/confirm_$slug.log 2>&1
  tail -n 1 build/confirm_$slug.log >> build/seedflow.log
  if [ -f seeded/$slug/meta.json ]; then
    python3 tools/seedtest.py run $slug $pid 2>&1 | cut -c1-420 >> build/seedflow.log
  fi
done
echo "batch done" >> build/seedflow.log
