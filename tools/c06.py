"""C06 — pool requests are isolated from each other."""
from poolfam import *  # noqa

PID = "C06"


def make_scenarios(rng, tier):
    scs = []
    sizes = [(1, 2), (2, 3), (2, 5)]
    reps = 3 if tier == "quick" else 40
    sid = 1
    for (mn, mx) in sizes:
        for rep in range(reps):
            scs.append(overlap_scenario(sid, mn, mx, rng, faulty=rep % 3 == 2, rounds=2 if tier == "quick" else 3))
            sid += 1
        for rep in range(3 if tier == "quick" else 50):
            scs.append(random_walk_scenario(sid, mn, mx, rng, steps=10 if tier == "quick" else 24, faulty=rep % 3 == 2))
            sid += 1
    # every wrapper method at least once per run, two at a time on a (1,2) pool
    for i in range(0, len(METHODS), 2):
        sc = {"id": sid, "min": 1, "max": 2, "model": 1 + (i // 2) % 4, "rules": rules_v(1), "steps": []}
        names = ["pa", "pb", "pc"]
        a, b = sid * 1000 + 1, sid * 1000 + 2
        sc["steps"] = [req_step(a, METHODS[i], names, hold_at="*"), req_step(b, METHODS[i + 1], names, hold_at="*"),
                       {"op": "snapshot", "probe": names, "_active": [a, b], "_done": []},
                       {"op": "release", "id": b}, {"op": "release", "id": a},
                       {"op": "snapshot", "probe": names, "_active": [], "_done": [a, b]}]
        # then REJECTED requests on the instances that have just served a and b (invalid n/m, no existing name): whatever map they
        # are handed must contain nothing of a or b
        c = b
        for meth, kw in (("ExecuteSelectedNSortMConcurrent", {"n": 1, "m": 1, "names": ["pa", "zz"]}), ("ExecuteNSortMConcurrent", {"n": 0, "m": 1}),
                         ("ExecuteSelectedNConcurrentMSort", {"n": 5, "m": 1, "names": ["pa"]}), ("ExecuteSelectedRules", {"names": ["zz"]}),
                         ("ExecuteNConcurrentMConcurrent", {"n": 2, "m": 9}), ("ExecuteSelectedNConcurrentMConcurrent", {"n": 1, "m": 2, "names": ["pa", "pb", "zz"]})):
            # each rejected request directly after a SERVED one (the pool hands the same instance out again)
            c += 1
            sc["steps"].append(req_step(c, "Execute", names, hold_at=""))
            c += 1
            st = req_step(c, meth, names, hold_at="")
            st.update(kw)
            sc["steps"].append(st)
        scs.append(sc)
        sid += 1
    # the same pairing with FAILING rules next to the held one (pb fails, pc panics while pa is held at its gate): a call must
    # not return — and hand its instance and data back — while one of its rules is still running
    # ... with continue-on-error and the held rule alone in the first stage (n=1), and with STOP-on-error and the failing rule in
    # the held rule's own stage (n=2): a stage that gives up at the first failure must still wait for the rules it has started
    for i, (bflag, n, m) in [(i, v) for i in range(0, len(METHODS), 2) for v in ((True, 1, 2), (False, 2, 1))]:
        sc = {"id": sid, "min": 1, "max": 2, "model": 1 + (i // 2) % 4, "rules": rules_v(1, kinds={"pb": "fail", "pc": "panic"}), "steps": []}
        names = ["pa", "pb", "pc"]
        a, b = sid * 1000 + 1, sid * 1000 + 2
        sc["steps"] = [req_step(a, METHODS[i], names, hold_at="pa", b=bflag, n=n, m=m), req_step(b, METHODS[i + 1], names, hold_at="pa", b=bflag, n=n, m=m),
                       {"op": "sleep", "wait_ms": 20},
                       {"op": "snapshot", "probe": names, "_active": [a, b], "_done": []},
                       {"op": "release", "id": b}, {"op": "release", "id": a},
                       {"op": "snapshot", "probe": names, "_active": [], "_done": [a, b]}]
        scs.append(sc)
        sid += 1
    # the stop tag set in the CONCURRENT stage of the mix model (by pc, next to the held pb): the call ends when its rules have
    # ended — not when the tag is set — and only then hands its instance and data back
    for (mn, mx) in [(1, 2), (2, 3)]:
        sc = {"id": sid, "min": mn, "max": mx, "model": 1, "rules": rules_v(1, kinds={"pc": "stop"}), "steps": []}
        names = ["pa", "pb", "pc"]
        a, b = sid * 1000 + 1, sid * 1000 + 2
        sc["steps"] = [req_step(a, "ExecuteMixModelWithStopTagDirect", names, hold_at="pb"), req_step(b, "ExecuteMixModelWithStopTagDirect", names, hold_at="pb"),
                       {"op": "sleep", "wait_ms": 30},
                       {"op": "snapshot", "probe": names, "_active": [a, b], "_done": []},
                       {"op": "release", "id": b}, {"op": "release", "id": a},
                       {"op": "snapshot", "probe": names, "_active": [], "_done": [a, b]}]
        scs.append(sc)
        sid += 1
    # a request may inject its own object under a name the pool was BUILT with (the api "Tn"): once it has returned nothing of
    # it may be left in the instance, whatever becomes of the api — later requests that do not inject that name follow
    for (mn, mx) in [(1, 2), (2, 3)]:
        for meth in ("Execute", "ExecuteRulesWithMultiInputWithSpecifiedEM", "ExecuteSelectedRules", "ExecuteMixModel"):
            sc = {"id": sid, "min": mn, "max": mx, "model": 1, "rules": rules_v(1), "steps": []}
            names = ["pa", "pb", "pc"]
            rid = sid * 1000
            shadow = []
            for _ in range(mx):
                rid += 1
                shadow.append(rid)
                sc["steps"].append(req_step(rid, meth, names, hold_at="*", extra=["K%d" % rid, "Tn"]))
            sc["steps"].append({"op": "snapshot", "probe": names, "_active": list(shadow), "_done": []})
            for q in shadow:
                sc["steps"].append({"op": "release", "id": q})
            sc["steps"].append({"op": "snapshot", "probe": names, "_active": [], "_done": list(shadow)})
            later = []
            for _ in range(mx):
                rid += 1
                later.append(rid)
                sc["steps"].append(req_step(rid, "Execute", names, hold_at="*"))
            sc["steps"].append({"op": "snapshot", "probe": names, "_active": list(later), "_done": list(shadow)})
            for q in later:
                sc["steps"].append({"op": "release", "id": q})
            sc["steps"].append({"op": "snapshot", "probe": names, "_active": [], "_done": shadow + later})
            scs.append(sc)
            sid += 1
    # a pool that has been CLEARED and brought back into service (full update / incremental update) isolates its requests as before
    for (mn, mx) in [(1, 2), (2, 3)]:
        for back in ("update", "incr"):
            sc = {"id": sid, "min": mn, "max": mx, "model": 1, "rules": rules_v(1), "steps": []}
            names = ["pa", "pb", "pc"]
            sc["steps"].append({"op": "clear"})
            sc["steps"].append({"op": back, "rules": rules_v(2)})
            rid = sid * 1000
            for rnd in range(2):
                held = []
                for _ in range(mx):
                    rid += 1
                    held.append(rid)
                    sc["steps"].append(req_step(rid, ["Execute", "ExecuteConcurrent"][rnd], names, hold_at="*"))
                sc["steps"].append({"op": "snapshot", "probe": names, "_active": list(held), "_done": []})
                for q in reversed(held):
                    sc["steps"].append({"op": "release", "id": q})
                sc["steps"].append({"op": "snapshot", "probe": names, "_active": [], "_done": list(held)})
            scs.append(sc)
            sid += 1
    # requests that PANIC inside the pooled call (a nil stop tag: the engine dereferences it after the first rule, outside every
    # recover; the panic reaches the caller): the instance goes back WITHOUT the request's data, like after any other ending
    for (mn, mx) in [(1, 2), (2, 3)]:
        sc = {"id": sid, "min": mn, "max": mx, "model": 1, "rules": rules_v(1), "steps": []}
        names = ["pa", "pb", "pc"]
        rid = sid * 1000
        gone = []
        for meth in ("ExecuteMixModelWithStopTagDirect", "ExecuteWithStopTagDirect", "ExecuteSelectedRulesWithControlAndStopTag", "ExecuteSelectedRulesWithControlAndStopTagAsGivenSortedName") * 2:
            rid += 1
            gone.append(rid)
            sc["steps"].append(req_step(rid, meth, names, hold_at="", nil_tag=True))
            sc["steps"].append({"op": "wait", "id": rid})
            sc["steps"].append({"op": "snapshot", "probe": names, "_active": [], "_done": list(gone)})
        held = []
        for _ in range(mx):
            rid += 1
            held.append(rid)
            sc["steps"].append(req_step(rid, "Execute", names, hold_at="*"))
        sc["steps"].append({"op": "snapshot", "probe": names, "_active": list(held), "_done": list(gone)})
        for q in held:
            sc["steps"].append({"op": "release", "id": q})
        sc["steps"].append({"op": "snapshot", "probe": names, "_active": [], "_done": gone + held})
        scs.append(sc)
        sid += 1
    # ExecuteRulesWithSpecifiedEM takes two named objects; a call may carry only the SECOND ("response") one: it is injected, and
    # must be taken out again when the call returns, like any other request data
    for (mn, mx) in [(1, 2), (2, 3)]:
        sc = {"id": sid, "min": mn, "max": mx, "model": 1, "rules": rules_v(1), "steps": []}
        names = ["pa", "pb", "pc"]
        rid = sid * 1000
        first = []
        for _ in range(mx):
            rid += 1
            first.append(rid)
            sc["steps"].append(req_step(rid, "ExecuteRulesWithSpecifiedEM", names, hold_at="*", resp_only=True, extra=[]))
        sc["steps"].append({"op": "snapshot", "probe": names, "_active": list(first), "_done": []})
        for q in first:
            sc["steps"].append({"op": "release", "id": q})
        sc["steps"].append({"op": "snapshot", "probe": names, "_active": [], "_done": list(first)})
        later = []
        for _ in range(mx):
            rid += 1
            later.append(rid)
            sc["steps"].append(req_step(rid, "Execute", names, hold_at="*"))
        sc["steps"].append({"op": "snapshot", "probe": names, "_active": list(later), "_done": list(first)})
        for q in later:
            sc["steps"].append({"op": "release", "id": q})
        sc["steps"].append({"op": "snapshot", "probe": names, "_active": [], "_done": first + later})
        scs.append(sc)
        sid += 1
    return scs


RULE = ("scenarios as C17 (overlap rounds and random walks over pool states) on pools (1,2),(2,3),(2,5) plus every one of the 24 wrapper methods paired on a (1,2) pool, once with sound rules and twice with a failing and a panicking rule next to the held one (continue-on-error with the held rule alone in its stage; stop-on-error with the failing rule in the held rule's stage): max requests held at a gate inside their first rule while snapshots read every instance's data context by reflection; "
        "every request carries a unique id in its own injected object and under a unique key (in eight scenarios also under the name of an api the pool was built with; in two, through the response slot alone of the two-object wrapper); rules echo the id into the returned values and into the request's object; "
        "checked inside Coq: the instances holding request keys are exactly the executing requests, one each; nothing of a returned request is left in any instance; returned maps contain only the caller's id and are unchanged when read again at the end; "
        "plus two scenarios in which the stop tag is set in the concurrent stage of the mix model while a sibling rule is held; plus two scenarios in which eight requests panic inside the pooled call (nil stop tag) with a snapshot after each; plus four scenarios on pools that were cleared and brought back into service by a full / incremental update; distinct non-trivial = snapshots taken while at least two requests were simultaneously inside a rule")


def main(run):
    build_harness()
    regen_pool()
    ok, log = proof_obligations(run, PID, extra_obligations=2, extra_names=["T3: pool wrappers shape obligation (obligations/GenPoolOk.v)", "correspondence_C06: Pool/Check.v check_cap / check_req = []"])
    rng = random.Random(run.seed)
    scs = make_scenarios(rng, run.tier)
    run.log("running %d pool scenarios" % len(scs))
    obs = run_pool([strip(s) for s in scs])
    mm, counts = cap_checks(PID, scs, obs)
    mine = [m for m in mm if m[1] in (2, 3, 4, 8, 11, 12, 13)]
    run.log("checked inside Coq: %d disagreement(s) (%d relevant to C06)" % (len(mm), len(mine)))
    byid = {s["id"]: s for s in scs}
    ob = {o["id"]: o for o in obs}
    seen = set()
    for sid, code in mine:
        if code in seen:
            continue
        seen.add(code)
        run.report({"kind": "pool-scenario", "symptom": code}, {"scenario": strip(byid[sid]), "observation": {k: ob[sid].get(k) for k in ("snaps", "stuck", "reqs", "crash", "stderr")}, "disagreement": CAP_CODES[code]},
                   "C06: pool (%d,%d): %s" % (byid[sid]["min"], byid[sid]["max"], CAP_CODES[code]))
    bad_shape = shape_report(run, PID, 'wrappers', bool(run.violations)) if ok else []
    # "each execute call allocates a fresh result map" is T1's IReset: a changed engine skeleton breaks C06's premise too
    import engfam
    engfam.regen()
    _g, diff, _l = engfam.gen_obligation() if ok else (True, [], "")
    if diff and not run.violations:
        run.report({"kind": "obligation", "symptom": "skeleton", "entries": diff}, {"obligation": "gen_is_hand (T1) for %s: the map handed back is fresh per call only if the skeleton starts with IReset" % diff,
                                                                              "searched": "%d pool scenarios" % len(scs)},
                   "C06: the skeleton of %s changed (result-map allocation is part of C06's premise) and no failing history was found" % ", ".join(diff), no_input=True)
        bad_shape = bad_shape or diff
    if not ok and not run.violations:
        run.report({"kind": "proof", "theorem": PID}, {"theorem": "Props/C06.v", "log": log[-3000:]}, "C06: the Coq development no longer builds and no failing history was found", no_input=True)
    cov = run.coverage
    if ok and not bad_shape:
        cov["discharged"] += 1
    if not mine:
        cov["discharged"] += 1
    methods = sorted(set(st["method"] for s in scs for st in s["steps"] if st["op"] == "req"))
    cov.update({"evaluations": len(scs), "distinct_nontrivial": counts["snapshots_with_2_or_more_requests_inside_a_rule"], "rule": RULE,
                "traces_validated_against_impl": len(scs), "wrapper_methods_exercised": len(methods),
                "samples": [{"scenario": strip(scs[-1]), "requests": obs[-1]["reqs"][:2]}]}, **counts)
    run.assumptions = ["a request's data is identified by the keys it injects; the api table given at pool construction is shared by design",
                       "the result map handed back is the engine's map of that call (fresh per call: C11 / T1 IReset); T3 establishes that the deferred clean-up deletes exactly the injected keys before the instance is released"]
    return run.finish()


def replay(run, data):
    build_harness()
    obs = run_pool([data["replay"]["scenario"]])
    print(json.dumps(obs[0])[:1500])
    return 0
