"""C17 — pool capacity: at most max in flight, waiters proceed, instances are never lost."""
from poolfam import *  # noqa

PID = "C17"


def make_scenarios(rng, tier):
    scs = []
    sizes = [(1, 2), (2, 3), (3, 8)] if tier == "quick" else [(1, 2), (2, 3), (3, 8), (1, 5), (4, 6)]
    reps = 3 if tier == "quick" else 40
    sid = 1
    for (mn, mx) in sizes:
        for rep in range(reps):
            scs.append(overlap_scenario(sid, mn, mx, rng, faulty=rep % 2 == 1, rounds=2 if tier == "quick" else 3))
            sid += 1
        for rep in range(4 if tier == "quick" else 60):
            scs.append(random_walk_scenario(sid, mn, mx, rng, steps=10 if tier == "quick" else 24, faulty=rep % 2 == 1))
            sid += 1
        # contention: hundreds of short requests at once
        for _ in range((2 if mx >= 8 else 1) if tier == "quick" else 4):
            scs.append(storm_scenario(sid, mn, mx, rng, n=600 if tier == "quick" else 900))
            sid += 1
        # a waiter must proceed as soon as ANY instance is handed back: the last-started (an additional instance), the first, a random one
        for ri in ([-1, 0] if tier == "quick" else [-1, 0] + [rng.randrange(mx) for _ in range(6)]):
            scs.append(waiter_scenario(sid, mn, mx, rng, release_index=ri))
            sid += 1
    # a waiter while a running rule UPDATES the pool (incremental, full, removal): neither may wait for the other
    for (mn, mx) in [(1, 2), (2, 3)]:
        for kind in ("incr", "update", "remove"):
            scs.append(waiter_update_scenario(sid, mn, mx, rng, kind=kind))
            sid += 1
    # pools made almost entirely of additional instances: their list is the contended one
    for (mn, mx) in [(1, 8), (1, 6)]:
        for _ in range(1 if tier == "quick" else 4):
            scs.append(storm_scenario(sid, mn, mx, rng, n=600 if tier == "quick" else 900))
            sid += 1
    # requests that PANIC inside the pooled call (a nil stop tag handed to the stop-tag wrappers: the engine dereferences it after the
    # first rule): the panic reaches the caller, the instance goes back to the pool all the same
    for (mn, mx) in [(1, 2), (2, 3)]:
        sc = {"id": sid, "min": mn, "max": mx, "model": 1, "rules": rules_v(1), "steps": []}
        names = ["pa", "pb", "pc"]
        rid = sid * 1000
        for meth in ("ExecuteMixModelWithStopTagDirect", "ExecuteWithStopTagDirect", "ExecuteSelectedRulesWithControlAndStopTag", "ExecuteSelectedRulesWithControlAndStopTagAsGivenSortedName") * 2:
            rid += 1
            sc["steps"].append(req_step(rid, meth, names, hold_at="", nil_tag=True))
            sc["steps"].append({"op": "wait", "id": rid})
        sc["steps"].append({"op": "snapshot", "probe": names, "_active": [], "_done": []})
        held = []
        for _ in range(mx):
            rid += 1
            held.append(rid)
            sc["steps"].append(req_step(rid, "Execute", names, hold_at="*"))
        sc["steps"].append({"op": "snapshot", "probe": names, "_active": list(held), "_done": []})
        for q in held:
            sc["steps"].append({"op": "release", "id": q})
        sc["steps"].append({"op": "snapshot", "probe": names, "_active": [], "_done": list(held)})
        scs.append(sc)
        sid += 1
    # simultaneous hand-backs: every request of a round finishes at the same instant, thousands of rounds
    for (mn, mx) in [(2, 8), (1, 4), (3, 5)]:
        scs.append(burst_scenario(sid, mn, mx, 1500 if tier == "quick" else 12000))
        sid += 1
    return scs


RULE = ("scenario = pool (min,max) in {(1,2),(2,3),(3,8)} (thorough adds (1,5),(4,6)); per round: max requests, through wrapper methods drawn from all 24, each held at a gate inside its first rule; 0-2 further requests that must wait; "
        "a snapshot (free lists, per-instance data-context keys, by reflection) while max requests are inside rules; release in random order; snapshot at quiescence; second round proves the pool still serves max simultaneous requests; "
        "half of the scenarios use rule sets whose rules fail or panic; plus storms of 600 (thorough 900) short unheld requests (one per pool size, two on (3,8), one each on (1,8) and (1,6) pools whose instances are nearly all additional ones; thorough four of each) each followed by max simultaneous held ones; plus bursts (1,500 rounds, thorough 12,000, on three pool sizes: max requests held inside a rule until all are there, then released at the same instant, so that instances are handed back simultaneously; nothing recorded, conservation checked afterwards); plus requests that panic inside the pooled call (a nil stop tag) followed by max held ones; plus waiter scenarios (max held requests, one more that must wait, ONE instance handed back — an additional one or an initial one — after which the waiter must run to completion while the others stay held; six more in which the released request first updates the pool — incremental, full, removal — from inside its rule while the waiter waits); plus random walks over pool states (start a held request / release a random held one / run a request to completion, a snapshot after every action, then max simultaneous requests again) so that instances are handed back before and while others are taken; checked inside Coq: conservation (free ++ additional ++ in use = 0..max-1), no shared instance, at most max simultaneous executions (from the global event order), waiters finish; "
        "distinct non-trivial = snapshots taken while at least two requests were simultaneously inside a rule")


def main(run):
    build_harness()
    regen_pool()
    ok, log = proof_obligations(run, PID, extra_obligations=3, extra_names=["T3: pool wrappers shape obligation (obligations/GenPoolOk.v)", "T2: waiting discipline — waiters hold nothing, one lock order (obligations/GenWaitOk.v)", "correspondence_C17: Pool/Check.v check_cap on every snapshot = []"])
    rng = random.Random(run.seed)
    scs = make_scenarios(rng, run.tier)
    run.log("running %d pool scenarios" % len(scs))
    obs = run_pool([strip(s) for s in scs])
    mm, counts = cap_checks(PID, scs, obs)
    mine = [m for m in mm if m[1] in (1, 2, 5, 6, 7, 8)]
    run.log("checked inside Coq: %d disagreement(s) (%d relevant to C17)" % (len(mm), len(mine)))
    byid = {s["id"]: s for s in scs}
    ob = {o["id"]: o for o in obs}
    seen = set()
    for sid, code in mine:
        if code in seen:
            continue
        seen.add(code)
        run.report({"kind": "pool-scenario", "symptom": code}, {"scenario": strip(byid[sid]), "observation": {k: ob[sid].get(k) for k in ("snaps", "stuck", "reqs", "crash", "stderr")}, "disagreement": CAP_CODES[code]},
                   "C17: pool (%d,%d): %s" % (byid[sid]["min"], byid[sid]["max"], CAP_CODES[code]))
    bad_shape = shape_report(run, PID, 'wrappers', bool(run.violations)) if ok else []
    bad_wait = wait_report(run, PID, bool(run.violations)) if ok else True
    if not ok and not run.violations:
        run.report({"kind": "proof", "theorem": PID}, {"theorem": "Props/C17.v", "log": log[-3000:]}, "C17: the Coq development no longer builds and no failing history was found", no_input=True)
    cov = run.coverage
    if ok and not bad_shape:
        cov["discharged"] += 1
    if ok and not bad_wait:
        cov["discharged"] += 1
    if not mine:
        cov["discharged"] += 1
    cov.update({"evaluations": len(scs), "distinct_nontrivial": counts["snapshots_with_2_or_more_requests_inside_a_rule"], "rule": RULE,
                "traces_validated_against_impl": len(scs), "max_rule_bodies_simultaneously_inside": max((o.get("max_inside", 0) for o in obs), default=0),
                "samples": [{"scenario": strip(scs[0]), "snapshot": obs[0]["snaps"][:1]}]}, **counts)
    run.assumptions = ["getGengine's spin loop is modelled as 'Get is not enabled while both lists are empty'; real liveness additionally needs a fair scheduler (assumption)",
                       "the put goroutine started by the deferred function is modelled as a separate atomic step (APut)",
                       "T3 establishes that every wrapper releases its instance in a deferred function (so on error and panic paths too)",
                       "Pool/Progress.v treats taking an instance as one atomic step enabled iff fewer than max are in use (getGengine's spin loop releases its three list mutexes on every iteration — in the order table of GenWaitOk.v) and assumes rules terminate and call at most finitely many updates; sync.RWMutex is modelled with writer preference",
                       "T2's syntactic lock pairing reports the mutexes held at call sites and acquisitions of engine/gengine_pool.go faithfully (calls through function values are not followed)"]
    return run.finish()


def replay(run, data):
    build_harness()
    sc = data["replay"]["scenario"]
    obs = run_pool([sc])
    print(json.dumps(obs[0])[:1500])
    return 0
