#!/bin/sh
# Regenerates every evidence file on the current (unchanged) tree: quick tier, all 20 properties.
cd "$(dirname "$0")/.." || exit 2
rc=0
for p in C01 C02 C03 C04 C05 C06 C07 C08 C09 C10 C11 C12 C13 C14 C15 C16 C17 C18 C19 C20; do
  bin/vcheck $p --tier "${1:-quick}" | tail -1 || rc=1
done
python3-vt - <<'PY'
import json, jsonschema, glob
sch = json.load(open('/root/.vp/EVIDENCE.schema.json'))
bad = 0
for f in sorted(glob.glob('evidence/*.json')):
    e = json.load(open(f)); jsonschema.validate(e, sch)
    c = e['coverage']
    if c['obligations'] != c['discharged'] or e.get('violations'):
        bad += 1; print('NOT CLEAN', f, c['obligations'], c['discharged'], e.get('violations'))
print('evidence files:', len(glob.glob('evidence/*.json')), 'not clean:', bad)
PY
exit $rc
