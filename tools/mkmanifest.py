#!/usr/bin/env python3
"""Regenerates MANIFEST.json from the table below (keeps it schema-valid)."""
import json, os
ROOT = os.path.dirname(os.path.dirname(os.path.abspath(__file__)))

PROOF = "proof"
ENG_NOTE = 'Trusted: Coq kernel; T1 translator (harness/cmd/xlate, go/ast) reporting the statement shapes of engine/gengine.go (unknown shapes become IUnknown, cross-checked by trace acceptance against the generated skeleton); sync.WaitGroup/Mutex and the go statement per the Go memory model (a parallel stage = all interleavings of its children, joined before the next stage); rules abstracted to schedule-independent outcomes (fails / returns / sets stop tag), true of the observer rules and justified in general by C02/C15; gate adversary quiet period (timing can hide a missing barrier from one round, never invent one). No axioms.'
ENG_TECH = 'Coq proof over an IR regenerated from engine/gengine.go by a go/ast translator (per-run obligation gen = hand, then hand_sound: run_prog = spec for every configuration; traces quantify over all interleavings) + trace/err/result correspondence under a gate adversary evaluated inside Coq'
POOL_NOTE = 'Trusted: Coq kernel; T3 translator (harness/cmd/xlate pool.go, go/ast) reporting the statement shapes of engine/gengine_pool.go; sync.Mutex / the go statement per the Go memory model; the pool harness (reflection snapshots, gates, globally sequenced events) and python scenario generator; liveness needs a fair scheduler (assumption). No axioms.'
POOL_TECH = 'Coq proof (transition-system invariants by induction over all action sequences / histories) + go/ast translator obligations (wrapper and update shapes) + scenario correspondence with gate-held requests evaluated inside Coq'
LANG_NOTE = "Trusted: Coq kernel; the hand-written interpreter model (Lang/Store.v, Sem.v) whose fidelity is established by the correspondence run and, for its structural premises (recover points, fresh locals, statement / return protocol, conc fan-out and join, for cap), by the T4 translator harness/cmd/xlate interp.go (outcome class, value, cited positions, calls with dynamic argument types, whole host store, and the listener-built tree compared node by node with the grammar's reading of the generated text); the assumed table of reflect primitives; IEEE-754 binary64 semantics of Go's float64 (the model runs on Coq primitive floats; theorems quantify over any float_ops); python float() = strconv.ParseFloat on the literals used (also the oracle table of real literals handed to the reader model Lang/Reader.v, whose lexer and grammar are a hand-written copy of gengine.g4 tied to the generated ANTLR code by behaviour only). No axioms in the theorems (the primfo instance shows Coq's primitive-float constants in Print Assumptions of cases files only)."
LANG_TECH = 'Coq proof over a hand-written executable model of the interpreter (operators, expression nodes, statements, data context) + go/ast translator obligations on the interpreter structure the model encodes (T4) + model/implementation correspondence on generated rule texts evaluated by vm_compute inside Coq, including listener-tree / position comparison'
CLAIMS = {
 "C03": {
  "text": 'Partial (relative to an assumed table of reflect primitives). Theorems (Props/C03.v, 69, closed, for every float_ops): reads of injected scalars, fields (one and two levels), map entries (missing key = zero value) and slice elements return the current value; a write to a struct field / pointer scalar stores set_conv / set_single of the value, which under the explicit guard `representable` is the value of the target kind with the same mathematical value (swrap/uwrap identities for all widths, cross-class int/uint/float), and changes nothing else (frame lemmas on the injected table, the other fields, locals, trace); container element writes change exactly that element (wanted coercion); calls convert arguments positionally to the declared parameter kinds, record exactly the received arguments and yield the first result; an injected name always shadows a local. Guard-needed theorems show the non-representable branches (negative to unsigned, string to int, 300 into int8 wraps to 44, non-finite float). Tie: 1093 rule texts (16 field paths x 5 source classes, pointer scalars of 14 kinds, maps/slices/arrays direct and by pointer, key coercion and index faults, every catalogue function x argument class, methods, three-level calls, shadowing, random programs), comparing returned values, received arguments with dynamic types and the WHOLE host store afterwards.',
  "note": LANG_NOTE,
  "technique": LANG_TECH},
 "C09": {
  "text": 'Partial. Proved (Props/C09.v, 17, closed): with the recover at the rule entry point no rule execution of the model yields a panic (and without it `if 5 {}` does — so the recover is what contains it); every model function is total (termination by construction), a for loop evaluates its condition at most 10000 times; conc children never let a panic out; engine level: every entry point returns nil or an error for every configuration, runs the other rules as its error policy prescribes (hand_sound) and later calls are unaffected. Established by translator + observation: T1 (every fan-out child signals its WaitGroup on every path: goBody shape); fault matrix of 31 fault classes x 24 construct positions (+ forRange / unbounded-loop / unassignable-target shapes) whose predicted outcome (value / error with cited positions) must be what the call returned, and 660 engine calls (21 entry points x 5 faulty rule kinds x 4 positions x flags) in child processes. Observed, not proved: that the real process does not crash or hang.',
  "note": LANG_NOTE,
  "technique": LANG_TECH},
 "C18": {
  "text": "Theorems (Props/C18.v, 14, closed): conc_run runs EVERY child exactly once whatever the others do and fails, after all of them, iff some child failed (conc_fold characterisation), never panics; over ALL interleavings of the children's start/end events every child has started and ended before the statement after the block starts, each exactly once (Interleave / Subseq / Permutation); for children that respect and commute on the visible state the failure flag and the final state are independent of the order (generic permutation theorem + a proved instance: assignments to distinct non-injected locals). Tie: 84 blocks of 0-6 children drawn from 9 shapes (+ one failing child), each also with a child held at a gate: the driver checks exactly-once and join-before-next on the global call order, Coq compares outcome class, cited positions, returned value and host objects.",
  "note": LANG_NOTE,
  "technique": LANG_TECH},
 "C01": {
  "text": "Theorems (Props/C01.v, 58, closed, for every float_ops): integer + - * wrap at 64 bits (mixed signed/unsigned included), / truncates, division by zero of any class fails, a float operand promotes to float64, + concatenates strings, ill-typed arithmetic never yields a value; integer comparisons are exact over all of Z (signed against unsigned included), float comparisons use the float order, strings lexicographic, booleans only == / !=; && || ! only on booleans; every expression node yields a value only if all its operands did (both operands always evaluated, left first) and errors propagate; @name/@id/@desc/@sal. Precedence, left associativity and parentheses: Lang/Parse.v is an operator-precedence reader (tokens -> shape of the listener's tree, with the grammar's two sorts) proved sound and complete against the canonical-form specification (parse ts = Some t <-> print t = ts /\\ canon t /\\ sorted t; the reading is unique; a tighter operator binds first, equal or looser associates left, parentheses override — for operands of any shape), and tied to the generated ANTLR parser on every run: ~1400 token strings (all operator pairs bare / parenthesised / negated, triples, nested random strings, sort errors, token mutations, noise; three contexts) compiled by the implementation, tree shape dumped by reflection, parse must return exactly that shape or None exactly when compile fails. The reader model Lang/Reader.v (lexer + grammar + listener checks, a function of the TEXT) reads every expression through that same parse (C01_text_expressions_are_read_by_the_grammar) and its tree for every generated text must be the listener's. Plus: all operator pairs and 150 (thorough: all) triples evaluated end to end, 14x14 operand kinds x operators at boundary values, random trees.",
  "note": LANG_NOTE,
  "technique": LANG_TECH},
 "C02": {
  "text": 'Theorems (Props/C02.v, 43, closed): statements run in order and nothing after a non-normal outcome has any effect; exactly the first true if/else-if branch runs (else otherwise); for: condition before every iteration, step after a normal iteration AND after continue (same continuation), break leaves only the innermost loop, cut off after maxExecuteNum condition evaluations; forRange visits each key once in order (inductive visits + totality); return propagates unchanged out of every construct; compound assignment is read-modify-write; locals live in one flat map; the returned-flag only comes from a return whose expression evaluated (rule-level half of C11). Tie: 516 programs (jump kind x nesting position matrix, else-if truth vectors, the cap, compound assignment on 8 target kinds, random trees) with Mark calls making the path observable.',
  "note": LANG_NOTE,
  "technique": LANG_TECH},
 "C10": {
  "text": 'Partial. Proved (Props/C10.v, 9, closed; the first five for any front end): an entry point that inspects all diagnostics before installing is all-or-nothing, installs exactly the C08 replacement/merge on success, and any two such entry points accept exactly the same texts; duplicate names are rejected; the reader model Lang/Reader.v (the token rules of the grammar, a recursive-descent reader making the alternative choices of the ANTLR parser, the checks of the listener; evaluated inside Coq on the text) accepts no text that defines a name twice or no rule, and only int64 saliences, and is total (C10_reader_model_is_total: it never runs out of fuel, for every text). Per-run obligation: the five entry points regenerated from the source (xlate compile) are all of that shape (obligations/GenCompileOk.v). Observed, not proved: totality (no panic / crash over valid, token-mutated, character-mutated, lexer-noise, arbitrary-byte streams and every kind of truncation (token-boundary prefixes / suffixes of a valid text, keyword-only texts), about 420 texts x 5 entry points quick), pairwise agreement, exact state equality on reject; for every distinct text the verdict of the full build and the installed names / saliences / descriptions equal those of the reader model (about 400 texts quick, 9,500 thorough; a disagreement with the model alone is reported without failing input, since C10 promises agreement between entry points, not a particular language).',
  "note": LANG_NOTE,
  "technique": LANG_TECH},
 "C15": {
  "text": 'Theorems (Props/C15.v, 8, closed): every rule execution starts from an empty local map; an unassigned local is undefined; rules of a call share only the injected objects and the call trace (run_rules); the outcome of a block does not depend on locals shadowed by injected names or foreign to it (simulation over every evaluator function). Tie: 128 multi-rule texts (locals of an earlier rule read by a later one, same name / different types, read-before-write, shared injected data, the same rule set executed twice on one engine, random rule sets sharing local names) compared inside Coq; pool scenarios with the same rule executed by max requests held between the write and the read of its local.',
  "note": LANG_NOTE,
  "technique": LANG_TECH},
 "C19": {
  "text": "Partial. Proved (Props/C19.v, 12, closed): for every well-formed trace (mutex / RWMutex exclusion, fork/join) in which every access to a variable holds its guard — a mutex; the two-lock RW discipline (writes hold the write side and the update mutex, reads either); or confinement to the forking goroutine before fork / after join with forked goroutines under a mutex — any two conflicting accesses are ordered by happens-before. Established by translator + observation: T2 regenerates the table of all 242 accesses to gengine's own shared state with the mutexes syntactically held; obligation race_ok gen_accesses = true (Race/Checker.v discipline, constructors and caller-held locks explicit); cross-checked by the scenario set under the Go race detector (about a million calls quick).",
  "note": LANG_NOTE,
  "technique": LANG_TECH},
 "C20": {
  "text": "Theorems (Props/C20.v, 16, closed): every position cited by a failed block / rule is the position of a construct of that rule's body (mutual induction over all evaluator functions); arithmetic faults, comparison / logic type faults, failing or panicking calls and failing assignments cite their own construct first. From the text: Lang/Lexer.v computes every token's position from the text, proved equal to line = 1 + line breaks before the token / column = characters since the last one; every position in a tree that Lang/Reader.v reads from a text is a token position; composed (C20_cited_positions_are_lines_of_the_text): a position cited by the failure of a rule read from text s is 1 + the number of line breaks before a token of s, for every text and layout. That the implementation stores the same positions is tied by correspondence: the reader's tree must equal the printer's, and every node position of every generated text (random layouts: blank lines, comments, tabs, several rules) is compared with the listener's tree, and every (line, column) in the error text with the model's citation list (193 single-fault programs quick).",
  "note": LANG_NOTE,
  "technique": LANG_TECH},
 "C06": {
  "text": "Theorems (Props/C06.v, 6, closed): over EVERY sequence of atomic pool steps (Get / Inject / Done / async Put) by any number of clients, request data in an instance belongs to the request holding it, a request resolves only its own data (plus the shared api table), nothing of a request is left once its deferred clean-up ran, idle instances are clean, a later request on the same instance sees nothing. Tie: T3 (every one of the 24 wrappers: cleared test, prepare, deferred [delete exactly the injected keys; release] registered before the single engine call, hands back that engine's map) + 21 scenarios (all 24 wrapper methods, pools (1,2),(2,3),(2,5)) with max requests held inside rules while every instance's data context is read by reflection; echo values and result maps re-read at the end.",
  "note": POOL_NOTE,
  "technique": POOL_TECH},
 "C07": {
  "text": "Theorems (Props/C07.v, 13, closed): for every well-formed history of updates (atomic installs under one lock, increasing versions) and executions (one snapshot between begin and end), an execution observes exactly one installed version; it is >= every update that returned before the execution began and < every update that began after it ended. Tie: T3 (prepare takes one snapshot of the instance's container under updateLock into a request-private builder; the management methods hold updateLock throughout, publish to all instances, never store into a field of a published container) + 196 scenarios: 14 entry-point shapes x {full, incremental, one-rule incremental, removal of the last / first / middle / two rules} x {update from inside the first-stage rule, update while that rule is held}, then max simultaneous executions on every instance. Per execution, inside Coq: version-tag checks and the set-level check of Pool/Compose.v — the returned (rule, body) entries equal the result map Engine/Spec.v assigns to the entry point on the container of ONE admissible version of Pool/Model.v's management history (all rules of that version and none of another; theorems C07_check_means_one_admissible_version, C07_sort_model_runs_the_whole_version, ...).",
  "note": POOL_NOTE,
  "technique": POOL_TECH},
 "C16": {
  "text": 'Theorems (Props/C16.v, 16, closed): for ANY sequence of full/incremental updates, removals, clears, model changes and non-compiling texts, the master copy and EVERY instance hold exactly the denoted rule set (invariant of C08 each), cleared flag and model as denoted, queries agree, failed operations change nothing, clear followed by full or incremental update restores service (no management call or query can put the pool out of service: T2 per-run obligation GenWaitOk.v — no mutex still held at a return, one acquisition order — for the system Pool/Progress.v proves deadlock-free); and — the execution MODEL in use made observable (Pool/Compose.v) — with a rule that always fails in the set, the result an execution hands back is the one Engine/Spec.v assigns to the denoted model on the denoted set: sort / concurrent return the non-failing rules, mix returns nothing when the top rule fails, the models are told apart (C16_sort_and_mix_models_are_told_apart). Tie: T3 update shapes + ~95 histories (all sequences of length <= 2 over 5 operation kinds, resubmitted texts, emptied-then-cleared pools, lexer-noise texts, the failing probe rule as top / middle / lowest rule under each of the 4 models, random), after every operation: master and per-instance containers and index maps by reflection, all queries, an execution forced onto every instance through the sort-model wrapper AND one through the *SpecifiedEM wrapper (max held requests each), compared inside Coq with the model of the history.',
  "note": POOL_NOTE,
  "technique": POOL_TECH},
 "C17": {
  "text": 'Theorems (Props/C17.v, 26, closed): over every sequence of atomic pool steps: free ++ additional ++ in-use ++ pending-put is a permutation of 0..max-1 (no instance lost or duplicated), at most max in flight, no instance given to two requests, Get enabled iff an instance is free (waiters wait, never fail), release always enabled after Get whatever the rules did, a put makes an instance available, a quiescent pool is full; and, with the locks in the picture (Pool/Progress.v: requests, updates from outside and from inside rules, queries, RWMutex with writer preference, any number of threads, M >= 1 instances): progress in every state, a decreasing weight, hence every schedule serves everyone (waiters included), while the variant whose waiter holds the read lock deadlocks (explicit schedule). Tie: T2 per-run obligation GenWaitOk.v (whoever may wait holds no pool mutex, one acquisition order — proved acyclic for every table that passes, Race/WaitFacts.v —, nothing acquired inside a read section, no mutex leaked at a return) + T3 (release in a deferred function of every wrapper) + scenarios on pools (1,2),(2,3),(3,8) with max held requests, queued waiters, failing and panicking rules, two rounds; conservation and max-simultaneous checks inside Coq.',
  "note": POOL_NOTE,
  "technique": POOL_TECH},
 "C04": {
  "text": 'Theorems (Props/C04.v, 8, closed): for every rule list, failing set and flag, every trace of Execute is exactly the S/E sequence of all rules (continue-on-error) or of the prefix ending with the first failing rule (stop-on-error), error iff some rule failed; the executed sequence is non-increasing in salience when the installed list is (C08 invariant); the sorted selected variants run a stable descending sort of the selection. Proved for the hand skeletons (Engine/Sound.v hand_sound: run_prog (hand e) c = spec_outcome e c for all 21 entry points and ALL configurations); tied to /repo on every run by T1 (gen/Gen_Engine.v regenerated from engine/gengine.go; obligation gen e = hand e, obligations/GenEngineOk.v re-proves gen_sound) and by running ~350 calls whose traces, error flags and result maps are accepted inside Coq (Engine/Check.v).',
  "note": ENG_NOTE,
  "technique": ENG_TECH},
 "C05": {
  "text": 'Theorems (Props/C05.v, 22, closed): for EVERY interleaving (all t with traces segs t, Interleave relation) of mix, inverse-mix and the three N-M models and their selected variants: the stage split t = t1 ++ t2 with stage-1 events (all Ends included) before any stage-2 Start (barrier), each scheduled rule exactly once (Permutation), S before E, sorted stages in list order, stage 2 runs iff flag or nothing failed, windows are firstn n / firstn m (skipn n), rules outside the window never run, invalid (n,m) fail without running anything. Tie: T1 skeleton equality + ~530 calls with one rule held at a gate (455 held rounds) accepted inside Coq.',
  "note": ENG_NOTE,
  "technique": ENG_TECH},
 "C11": {
  "text": 'Theorems (Props/C11.v, 7, closed): the engine model carries the result map WITH its values (name -> value, nil for a bare return); for all 21 entry points and all configurations the map is never nil, its keys are exactly the executed rules that reported the returned-flag, without duplicates; with pairwise distinct rule names every key is bound to the value THAT rule returned and nothing else is in the map (C11_engine_result_values; the left-to-right half holds unconditionally), a bare return binds nil; the map does not depend on what an earlier call left (hand_no_stale). Rule-level half (flag only from a return whose expression evaluated and whose value could leave the rule) is part of the statement model (Lang/Sem.v exec_block) and of T4 (statements_protocol, return_protocol, rule_execute_recovers). Tie: T1 (IReset first in every skeleton; addResult is one locked store of exactly the executed rule\'s name and value) + ~600 calls over all entry points, all rule kinds (plain / value return / bare return / fail / fail-inside-return / stray break / stray continue / return of an unexported field), fresh and previously-used engines, warm histories; keys AND values compared inside Coq (Engine/Check.v entries_eqb). Through the pool (and the transparency of its wrappers): the 24 wrapper methods with both error-policy values, varied name lists, N-M splits and layerings, called in a row on (1,2) pools whose rule sets contain an always-failing rule and a stop-tag-setting rule at the top / middle / bottom: the map each hands back, with or without an error, and the error flag must be what Engine/Spec.v spec_outcome assigns to that entry point with those arguments on the installed rules (about 800 calls quick, compared inside Coq).',
  "note": ENG_NOTE,
  "technique": ENG_TECH},
 "C12": {
  "text": "Theorems (Props/C12.v, 11, closed): every selected variant runs only rules of sel names (existing, named), as-given variants in exactly the caller's order (prefix under stop-on-error), sorted variants a stable sorted permutation, no existing name selected => error and nothing runs, selected N-M strict (unknown name, wrong count or invalid window => error, nothing runs). Tie: T1 + ~480 calls over the 11 selected variants x 12 name-list shapes + random.",
  "note": ENG_NOTE,
  "technique": ENG_TECH},
 "C13": {
  "text": "Theorems (Props/C13.v, 6, closed): the DAG call's traces are exactly those of dag_stage; for layers ly :: rest every trace splits t1 ++ t2 with t1 an interleaving of the existing rules of ly (once per occurrence, unknown names skipped), t2 = [] and error if one failed, else t2 a trace of the remaining layers: layer barrier under all interleavings, failure stops the rest, error iff an executed rule failed. Tie: T1 (IForLayers [ISelect MSkip; IPar waited; IFailIfErrs], IReset first) + ~330 calls with one rule held per call.",
  "note": ENG_NOTE,
  "technique": ENG_TECH},
 "C14": {
  "text": "Theorems (Props/C14.v, 7, closed): with the tag never set the stop-tag variant's whole outcome equals the plain variant's (4 pairs); in sorted variants the executed list is the prefix ending with the first rule after which the tag is set (every earlier rule ran with the tag unset); in the mix variant nothing else runs once the first rule set it. Tie: T1 (stoptag flag, IIfNotStopped) + ~630 calls: every position of the tag-setting rule x failing subsets x both flags x 4 tagged variants and the plain counterparts.",
  "note": ENG_NOTE,
  "technique": ENG_TECH},
 "C08": {
  "text": "Theorems (Props/C08.v, closed under the global context): for EVERY finite history of full builds, incremental builds, removals and non-compiling texts, every rule name/salience/description/body and every Go map-iteration order, the model container keeps the invariant (unique names, SortRules a duplicate-free permutation of the installed rules in non-increasing current salience, index map = positions) and its abstraction equals the denotation of the history; failed operations change nothing; IsExist agrees. The model (Rules/KcModel.v) is a hand transcription of builder/rule_builder.go + tool.BinarySearch (including the shadowed-mid quirk); it is tied to /repo on every run by running generated histories on the real builder and comparing the dumped container after every operation inside Coq (Rules/KcCheck.v).",
  "note": "Trusted: Coq kernel; the hand-written model's fidelity is established only by the correspondence run (261+ histories quick, 3000+ thorough; generator and harness are python/Go); Go slices modelled as lists; rule bodies identified by the integer they return. No axioms.",
  "technique": "Coq proof (invariant + refinement by induction over histories) + model/implementation correspondence evaluated by vm_compute inside Coq"},
}
PENDING_UNUSED = "check not built yet in this session (design in DESIGN.md section 5); will be claimed when its model, theorems and correspondence run exist"
ALL = ["C%02d" % i for i in range(1, 21)]


POOL_PART = " Through the pool: the wrapper methods of this family are also called on (1,2) pools (both error-policy values, varied name lists / N-M splits / layerings, rule sets with an always-failing and a stop-tag-setting rule at every position) and the map and error flag they hand back are compared inside Coq with spec_outcome of the entry point on those arguments — T3 checks which engine method a wrapper calls, this that it passes its arguments on."
for _k in ("C04", "C05", "C12", "C13", "C14"):
    CLAIMS[_k]["text"] += POOL_PART


def main():
    checks = []
    for pid in ALL:
        if pid not in CLAIMS:
            continue
        c = CLAIMS[pid]
        checks.append({
            "property_id": pid,
            "quick_cmd": "bin/vcheck %s --tier quick" % pid,
            "thorough_cmd": "bin/vcheck %s --tier thorough" % pid,
            "evidence_file": "evidence/%s.json" % pid,
            "replay_cmd_template": "bin/vcheck replay {path}",
            "engine": "coq-gengine",
            "level_claimed": {"category": "proof", "text": c["text"], "design_ref": c.get("ref", "DESIGN.md section 5 " + pid)},
            "level_note": c["note"],
            "technique": c["technique"],
        })
    m = {
        "version": 1,
        "setup_cmd": "bin/vcheck setup",
        "hooks": {
            "guard": "verif",
            "enable": "go build -tags verif (the harness module under /verif/harness imports /repo through a replace directive; observation uses exported APIs and reflection, so no hook file is currently needed in /repo)",
            "baseline_off_cmd": "cd /repo && GOFLAGS=-mod=mod go test -vet=off -count=1 -timeout 25m ./...",
            "source_commits": [],
            "add_only": True,
        },
        "engines": [{"name": "coq-gengine", "path": "coq/", "serves_properties": sorted(CLAIMS),
                     "kind_free_text": "Coq 8.16 development: executable Gallina models of gengine + theorems; tied to /repo by correspondence runs (Go harness) and go/ast translators"}],
        "checks": checks,
        "not_applicable": [{"property_id": p, "reason": PENDING} for p in ALL if p not in CLAIMS],
        "notes": "Single entry point bin/vcheck; see DESIGN.md. Exit 0 = held, 1 = VIOLATION line printed, 2 = machinery error.",
    }
    json.dump(m, open(os.path.join(ROOT, "MANIFEST.json"), "w"), indent=1)


if __name__ == "__main__":
    main()
