#!/usr/bin/env python3
"""Regenerates MANIFEST.json from the table below (keeps it schema-valid)."""
import json, os
ROOT = os.path.dirname(os.path.dirname(os.path.abspath(__file__)))

PROOF = "proof"
CLAIMS = {
 "C08": {
  "text": "Theorems (Props/C08.v, closed under the global context): for EVERY finite history of full builds, incremental builds, removals and non-compiling texts, every rule name/salience/description/body and every Go map-iteration order, the model container keeps the invariant (unique names, SortRules a duplicate-free permutation of the installed rules in non-increasing current salience, index map = positions) and its abstraction equals the denotation of the history; failed operations change nothing; IsExist agrees. The model (Rules/KcModel.v) is a hand transcription of builder/rule_builder.go + tool.BinarySearch (including the shadowed-mid quirk); it is tied to /repo on every run by running generated histories on the real builder and comparing the dumped container after every operation inside Coq (Rules/KcCheck.v).",
  "note": "Trusted: Coq kernel; the hand-written model's fidelity is established only by the correspondence run (261+ histories quick, 3000+ thorough; generator and harness are python/Go); Go slices modelled as lists; rule bodies identified by the integer they return. No axioms.",
  "technique": "Coq proof (invariant + refinement by induction over histories) + model/implementation correspondence evaluated by vm_compute inside Coq"},
}
PENDING = "check not built yet in this session (design in DESIGN.md section 5); will be claimed when its model, theorems and correspondence run exist"
ALL = ["C%02d" % i for i in range(1, 21)]


def main():
    checks = []
    for pid in ALL:
        if pid not in CLAIMS:
            continue
        c = CLAIMS[pid]
        checks.append({
            "property_id": pid,
            "quick_cmd": "bin/vcheck %s --tier quick" % pid,
            "thorough_cmd": "bin/vcheck %s --tier thorough" % pid,
            "evidence_file": "evidence/%s.json" % pid,
            "replay_cmd_template": "bin/vcheck replay {path}",
            "engine": "coq-gengine",
            "level_claimed": {"category": "proof", "text": c["text"], "design_ref": c.get("ref", "DESIGN.md section 5 " + pid)},
            "level_note": c["note"],
            "technique": c["technique"],
        })
    m = {
        "version": 1,
        "setup_cmd": "bin/vcheck setup",
        "hooks": {
            "guard": "verif",
            "enable": "go build -tags verif (the harness module under /verif/harness imports /repo through a replace directive; observation uses exported APIs and reflection, so no hook file is currently needed in /repo)",
            "baseline_off_cmd": "cd /repo && GOFLAGS=-mod=mod go test -vet=off -count=1 -timeout 25m ./...",
            "source_commits": [],
            "add_only": True,
        },
        "engines": [{"name": "coq-gengine", "path": "coq/", "serves_properties": sorted(CLAIMS),
                     "kind_free_text": "Coq 8.16 development: executable Gallina models of gengine + theorems; tied to /repo by correspondence runs (Go harness) and go/ast translators"}],
        "checks": checks,
        "not_applicable": [{"property_id": p, "reason": PENDING} for p in ALL if p not in CLAIMS],
        "notes": "Single entry point bin/vcheck; see DESIGN.md. Exit 0 = held, 1 = VIOLATION line printed, 2 = machinery error.",
    }
    json.dump(m, open(os.path.join(ROOT, "MANIFEST.json"), "w"), indent=1)


if __name__ == "__main__":
    main()
