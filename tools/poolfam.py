"""Pool family (C06 C07 C16 C17): scenario scripts for the pool harness, Coq emission
(Pool/Check.v) and the common check flow.

Model: coq/theories/Pool/Model.v (capacity/isolation transition system, management
operations lifted from Rules/KcModel.v, update histories); theorems Pool/Proofs.v and
Props/C06 C07 C16 C17; tie: (T3) gen/Gen_Pool.v regenerated from engine/gengine_pool.go with
its shape obligations, and scenario correspondence evaluated inside Coq.
"""
import json
import random

from common import *  # noqa

METHODS = ["ExecuteRulesWithSpecifiedEM", "ExecuteRulesWithMultiInputWithSpecifiedEM", "ExecuteSelectedWithSpecifiedEM",
           "Execute", "ExecuteWithStopTagDirect", "ExecuteConcurrent", "ExecuteMixModel", "ExecuteMixModelWithStopTagDirect",
           "ExecuteSelectedRules", "ExecuteSelectedRulesWithControl", "ExecuteSelectedRulesWithControlAsGivenSortedName",
           "ExecuteSelectedRulesWithControlAndStopTag", "ExecuteSelectedRulesWithControlAndStopTagAsGivenSortedName",
           "ExecuteSelectedRulesConcurrent", "ExecuteSelectedRulesMixModel", "ExecuteInverseMixModel",
           "ExecuteSelectedRulesInverseMixModel", "ExecuteNSortMConcurrent", "ExecuteNConcurrentMSort",
           "ExecuteNConcurrentMConcurrent", "ExecuteSelectedNSortMConcurrent", "ExecuteSelectedNConcurrentMSort",
           "ExecuteSelectedNConcurrentMConcurrent", "ExecuteDAGModel"]
RN = ["pa", "pb", "pc", "pd"]


def rules_v(ver, names=("pa", "pb", "pc"), kinds=None, sals=None):
    return [{"name": n, "sal": (sals or {}).get(n, 9 - 3 * i), "desc": "v%d" % ver, "kind": (kinds or {}).get(n, "ret"), "ver": ver} for i, n in enumerate(names)]


def req_step(rid, method, names, hold_at="", **kw):
    st = {"op": "req", "id": rid, "method": method, "b": True, "hold_at": hold_at, "names": list(names), "n": 1, "m": max(1, len(names) - 1),
          "layers": [list(names[:1]), list(names[1:])], "extra": ["K%d" % rid], "flag": (rid * 7919) % 3 != 0}
    st.update(kw)
    return st


# ---------------------------------------------------------------- running
def run_pool(scenarios, timeout=600):
    shards = [scenarios[i::NCPU] for i in range(NCPU)]
    shards = [s for s in shards if s]

    def one(shard):
        st, out, err = run_harness_child("pool", shard, timeout=timeout)
        if st == "ok":
            return out
        res = []
        for sc in shard:
            st1, out1, err1 = run_harness_child("pool", [sc], timeout=90)
            if st1 == "ok":
                res += out1
            else:
                res.append({"id": sc["id"], "crash": st1, "stderr": err1[-1500:], "events": [], "reqs": [], "ops": [], "snaps": [], "stuck": [], "max_inside": 0})
        return res
    outs = parallel_map(one, shards)
    return sorted([o for out in outs for o in out], key=lambda o: o["id"])


# ---------------------------------------------------------------- Coq emission
HEADER = """From Coq Require Import String List ZArith Bool.
From GV Require Import Rules.KcModel Rules.KcCheck Pool.Model Pool.Check Engine.IR Engine.Hand Engine.Spec Pool.Compose.
Import ListNotations.
"""


def activity(events):
    """(True,q) at the first rule entered by request q; (False,q) at the end of the LAST rule q ran.
    Between those two events q certainly holds an engine instance, so counting them is a sound lower bound of the number of
    simultaneous executions.  (The return of q's call is NOT usable as the end: the pool hands the instance back in a deferred
    call before the caller's goroutine can record the return, so a waiter may legitimately enter its first rule first.)"""
    last_exit, n_enter, n_exit = {}, {}, {}
    for i, e in enumerate(events):
        if e["kind"] == "exit":
            last_exit[e["req"]] = i
            n_exit[e["req"]] = n_exit.get(e["req"], 0) + 1
        elif e["kind"] == "enter":
            n_enter[e["req"]] = n_enter.get(e["req"], 0) + 1
    seen, out = set(), []
    for i, e in enumerate(events):
        q = e["req"]
        if e["kind"] == "enter" and q not in seen:
            seen.add(q)
            out.append((True, q))
        elif q in seen and n_enter.get(q) == n_exit.get(q) and e["kind"] == "exit" and last_exit[q] == i:
            out.append((False, q))
        elif q in seen and n_enter.get(q) != n_exit.get(q) and e["kind"] == "req-end":
            out.append((False, q))      # a rule that never reached its exit marker: fall back to the return of the call
    return out


def nid(sid, x):
    """Request ids are sid*1000 + k: inside Coq they are nat numerals, which must stay small — the scenario-local k is
    used (ids are only ever compared within one scenario); anything that is not an id of this scenario becomes 999."""
    k = x - sid * 1000
    return k if 0 < k < 999 else (0 if x == 0 else 999)


def coq_cap_snap(sid, sc, snap, active, done, events):
    owner = []
    for inst in snap["insts"]:
        ids = set(int(k[1:]) for k in inst["dc_keys"] if k.startswith("K") and k[1:].isdigit())
        ids |= set(inst.get("req_ids") or [])      # request objects under ANY key (a request may inject nothing but its Req)
        for q in sorted(ids):
            owner.append((inst["tag"], q))
    ev = coq_list(["(%s, %s)" % (coq_bool(a), coq_nat(nid(sid, q))) for a, q in activity(events)])
    return "mkCS %s %s %s %s %s %s %s %s %s" % (
        coq_nat(sid), coq_nat(sc["min"]), coq_nat(sc["max"]), coq_list([coq_nat(t) for t in snap["free"]]), coq_list([coq_nat(t) for t in snap["addl"]]),
        coq_list(["(%s, %s)" % (coq_nat(t), coq_nat(nid(sid, q))) for t, q in owner]), coq_list([coq_nat(nid(sid, q)) for q in active]), ev, coq_list([coq_nat(nid(sid, q)) for q in done]))


def coq_req_obs(sid, r):
    vals = [v % 1000000 for v in r["result"].values() if v >= 0]
    same = r.get("result_reread") == r["result"]
    return "mkRO %s %s %s %s %s %s" % (coq_nat(nid(sid, r["id"])), coq_nat(sid), coq_list([coq_nat(nid(sid, v)) for v in vals]), coq_nat(nid(sid, max(0, r["out"]))), coq_bool(same), coq_bool(r["out"] != 0))


def parse_rule(s):
    n, sal, desc = s.split("|")
    ver = int(desc[1:]) if desc[1:].isdigit() else 0
    return n, int(sal), desc, ver


def coq_rule(n, sal, desc, ver):
    return "(mkRule %s %s %s %s)" % (coq_str(n), coq_z(sal), coq_str(desc), coq_z(ver))


def coq_rules_of_dump(lst):
    return coq_list([coq_rule(*parse_rule(s)) for s in lst])


def coq_prules(rs):
    return coq_list([coq_rule(r["name"], r["sal"], r["desc"], r["ver"]) for r in rs])


def evaluate(tag, defs, results):
    """defs: Coq definitions text; results: names to evaluate -> dict name -> list of int tuples"""
    res = coq_eval_cases("cases_" + tag, HEADER, defs, results)
    return {k: parse_nat_tuples(v) for k, v in res.items()}


def chunked_eval(tag, kind, items, checker, per=150):
    """items: Coq terms of one record type; checker: function name (list -> mismatches via flat_map)."""
    parts = [items[i:i + per] for i in range(0, len(items), per)] or [[]]

    def one(ip):
        i, part = ip
        defs = "Definition xs : list %s := %s.\nDefinition M := flat_map %s xs.\n" % (kind, coq_list(["(" + x + ")" for x in part], per_line=True), checker)
        return evaluate("%s_%d" % (tag, i), defs, ["M"])["M"]
    out = []
    for r in parallel_map(one, list(enumerate(parts))):
        out += r
    return out


# ---------------------------------------------------------------- C06 / C17 scenarios: overlapping requests
def overlap_scenario(sid, mn, mx, rng, faulty=False, model=None, rounds=2):
    kinds = {}
    if faulty:
        kinds = {"pb": rng.choice(["fail", "panic"]), "pc": rng.choice(["fail", "panic", "ret"])}
    elif rng.random() < 0.6:
        kinds = {"pa": "cond", "pb": "cond", "pc": "cond"}     # requests without the flag get an empty result map
    rules = rules_v(1, kinds=kinds)
    names = [r["name"] for r in rules]
    sc = {"id": sid, "min": mn, "max": mx, "model": model or rng.choice([1, 2, 3, 4]), "rules": rules, "steps": [], "notes": []}
    rid = [sid * 1000]
    done = []

    def new_req(held, **kw):
        rid[0] += 1
        m = rng.choice(METHODS)
        sc["steps"].append(req_step(rid[0], m, names, hold_at="*" if held else "", **kw))
        return rid[0]
    for rd in range(rounds):
        held = [new_req(True) for _ in range(mx)]
        sc["steps"].append({"op": "snapshot", "probe": names, "_active": list(held), "_done": list(done)})
        queued = [new_req(False, wait_ms=-1) for _ in range(rng.choice([0, 1, 2]))]
        if queued:
            sc["steps"].append({"op": "sleep", "wait_ms": 30})
            sc["steps"].append({"op": "snapshot", "probe": names, "_active": list(held), "_done": list(done)})
        order = list(held)
        rng.shuffle(order)
        for q in order:
            sc["steps"].append({"op": "release", "id": q})
        for q in queued:
            sc["steps"].append({"op": "wait", "id": q})
        done += held + queued
        sc["steps"].append({"op": "snapshot", "probe": names, "_active": [], "_done": list(done)})
    return sc


def waiter_scenario(sid, mn, mx, rng, release_index=-1):
    """max requests held (started one after the other: the last ones hold the ADDITIONAL instances), one more request that has
    to wait; ONE held request is released (by default the last one, i.e. an additional instance is handed back while every
    initial instance stays busy) and the waiter must then run to completion before anything else is released."""
    rules = rules_v(1)
    names = [r["name"] for r in rules]
    sc = {"id": sid, "min": mn, "max": mx, "model": 1, "rules": rules, "steps": []}
    rid = sid * 1000
    held = []
    for _ in range(mx):
        rid += 1
        held.append(rid)
        sc["steps"].append(req_step(rid, rng.choice(["Execute", "ExecuteConcurrent", "ExecuteRulesWithMultiInputWithSpecifiedEM"]), names, hold_at="*"))
    sc["steps"].append({"op": "snapshot", "probe": names, "_active": list(held), "_done": []})
    rid += 1
    waiter = rid
    sc["steps"].append(req_step(waiter, "Execute", names, hold_at="", wait_ms=-1))
    sc["steps"].append({"op": "sleep", "wait_ms": 40})
    first = held[release_index]
    sc["steps"].append({"op": "release", "id": first})
    sc["steps"].append({"op": "wait", "id": waiter})          # recorded as stuck when it does not finish
    rest = [q for q in held if q != first]
    sc["steps"].append({"op": "snapshot", "probe": names, "_active": rest, "_done": [first, waiter]})
    for q in rest:
        sc["steps"].append({"op": "release", "id": q})
    sc["steps"].append({"op": "snapshot", "probe": names, "_active": [], "_done": held + [waiter]})
    return sc


def waiter_update_scenario(sid, mn, mx, rng, kind="incr"):
    """as waiter_scenario, but the request that is released performs a pool update FROM INSIDE its rule (the documented
    rule-triggered update) while the waiter is waiting for an instance and the other instances stay busy: the update must
    go through, the request return, and the waiter then run to completion"""
    rules = rules_v(1)
    names = [r["name"] for r in rules]
    sc = {"id": sid, "min": mn, "max": mx, "model": 1, "rules": rules, "steps": []}
    rid = sid * 1000
    held = []
    u = {"op": "incr", "rules": rules_v(2)[:2]} if kind == "incr" else ({"op": "update", "rules": rules_v(2)} if kind == "update" else {"op": "remove", "names": ["pc"]})
    for i in range(mx):
        rid += 1
        held.append(rid)
        kw = {"inside": dict(u, hold_at="pa")} if i == 0 else {}
        sc["steps"].append(req_step(rid, "Execute", names, hold_at="pa", **kw))
    sc["steps"].append({"op": "snapshot", "probe": names, "_active": list(held), "_done": []})
    rid += 1
    waiter = rid
    sc["steps"].append(req_step(waiter, "Execute", names, hold_at="", wait_ms=-1))
    sc["steps"].append({"op": "sleep", "wait_ms": 40})
    sc["steps"].append({"op": "release", "id": held[0], "wait_ms": -1})
    sc["steps"].append({"op": "wait", "id": held[0]})         # the updating request itself must come back ...
    sc["steps"].append({"op": "wait", "id": waiter})          # ... and then the waiter (recorded as stuck otherwise)
    rest = held[1:]
    sc["steps"].append({"op": "snapshot", "probe": names, "_active": rest, "_done": [held[0], waiter]})
    for q in rest:
        sc["steps"].append({"op": "release", "id": q})
    sc["steps"].append({"op": "snapshot", "probe": names, "_active": [], "_done": held + [waiter]})
    return sc


def storm_scenario(sid, mn, mx, rng, n=600):
    """many short requests from many clients at once (far more than max), none held: the bookkeeping of the free and
    additional lists is exercised under contention; afterwards max simultaneous requests must still be served"""
    rules = rules_v(1)
    names = [r["name"] for r in rules]
    sc = {"id": sid, "min": mn, "max": mx, "model": 1, "rules": rules, "steps": []}
    rid = sid * 1000
    ids = []
    for _ in range(n):
        rid += 1
        ids.append(rid)
        meth = rng.choice(["Execute", "ExecuteConcurrent", "ExecuteRulesWithMultiInputWithSpecifiedEM", "ExecuteSelectedRules", "ExecuteDAGModel", "ExecuteSelectedRules"])
        st = req_step(rid, meth, names, hold_at="", wait_ms=-1)
        # degenerate requests: an EMPTY dag, an EMPTY name list — they take an instance like any other and must hand it back
        if meth == "ExecuteDAGModel" and rng.random() < 0.6:
            st["layers"] = []
        if meth == "ExecuteSelectedRules" and rng.random() < 0.3:
            st["names"] = []
        sc["steps"].append(st)
    for q in ids:
        sc["steps"].append({"op": "wait", "id": q})
    sc["steps"].append({"op": "snapshot", "probe": names, "_active": [], "_done": []})
    held = []
    for _ in range(mx):
        rid += 1
        held.append(rid)
        sc["steps"].append(req_step(rid, "Execute", names, hold_at="*"))
    sc["steps"].append({"op": "snapshot", "probe": names, "_active": list(held), "_done": []})
    for q in held:
        sc["steps"].append({"op": "release", "id": q})
    sc["steps"].append({"op": "snapshot", "probe": names, "_active": [], "_done": list(held)})
    return sc


def burst_scenario(sid, mn, mx, rounds):
    """rounds x (max requests held inside their first rule until all are there, then released at the same instant): instances are
    handed back simultaneously, thousands of times; afterwards every instance must be back and max requests must still fit"""
    rules = rules_v(1)
    names = [r["name"] for r in rules]
    sc = {"id": sid, "min": mn, "max": mx, "model": 1, "rules": rules, "steps": []}
    sc["steps"].append({"op": "burst", "id": sid * 10000000, "n": rounds, "m": mx})
    sc["steps"].append({"op": "snapshot", "probe": names, "_active": [], "_done": []})
    rid, held = sid * 1000, []
    for _ in range(mx):
        rid += 1
        held.append(rid)
        sc["steps"].append(req_step(rid, "Execute", names, hold_at="*"))
    sc["steps"].append({"op": "snapshot", "probe": names, "_active": list(held), "_done": []})
    for q in held:
        sc["steps"].append({"op": "release", "id": q})
    sc["steps"].append({"op": "snapshot", "probe": names, "_active": [], "_done": list(held)})
    return sc


def cap_checks(tag, scenarios, obs):
    """Returns (mismatches [(scenario id, code)], counts). Codes: Pool/Check.v check_cap (1-6) and check_req (11-13);
    7 = a request never finished (waiter starved / instance lost); 8 = scenario crashed the process."""
    snaps, reqs, extra = [], [], []
    n_overlap = 0
    byid = {o["id"]: o for o in obs}
    for sc in scenarios:
        o = byid[sc["id"]]
        if o.get("crash"):
            extra.append([sc["id"], 8])
            continue
        if o.get("stuck"):
            extra.append([sc["id"], 7])
        sn = iter(o["snaps"])
        for st in sc["steps"]:
            if st["op"] == "snapshot":
                s = next(sn)
                if s.get("panic"):
                    extra.append([sc["id"], 8])
                    continue
                snaps.append(coq_cap_snap(sc["id"], sc, s, st.get("_active", []), st.get("_done", []), o["events"]))
                if len(st.get("_active", [])) >= 2:
                    n_overlap += 1
        for r in o["reqs"]:
            if r.get("done"):
                reqs.append(coq_req_obs(sc["id"], r))
    mm = chunked_eval(tag + "_cap", "cap_snap", snaps, "check_cap") + chunked_eval(tag + "_req", "req_obs", reqs, "check_req") + extra
    return mm, {"snapshots": len(snaps), "requests": len(reqs), "snapshots_with_2_or_more_requests_inside_a_rule": n_overlap}


CAP_CODES = {1: "an engine instance was lost or duplicated (free lists + instances in use are not a permutation of 0..max-1)",
             2: "an engine instance serves two requests, or one request holds two instances",
             3: "the requests holding an instance's data context are not exactly the requests executing",
             4: "data injected by a request that has returned is still present in an instance's data context",
             5: "an initial wrapper sits in the additional list or vice versa",
             6: "more than max executions ran simultaneously",
             7: "a request never finished (a waiter was starved or an instance was not handed back)",
             8: "the scenario crashed the process or a snapshot panicked",
             11: "the returned map contains a value computed from another request",
             12: "the rules wrote a different request's object",
             13: "the returned map was modified after it was handed back"}


def strip(sc):
    """scenario without the driver's private annotations"""
    out = dict(sc)
    out["steps"] = [{k: v for k, v in st.items() if not k.startswith("_")} for st in sc["steps"]]
    out.pop("notes", None)
    return out


# ---------------------------------------------------------------- T3: shapes of the pool source
def regen_pool():
    src = run_xlate("pool", [os.path.join(REPO, "engine", "gengine_pool.go")])
    return write_if_changed(os.path.join(GEN, "Gen_Pool.v"), src)


SHAPE_HEADER = """From Coq Require Import String List Bool.
From GV Require Import Pool.Shape.
From GVgen Require Import Gen_Pool.
Import ListNotations.
"""


def pool_obligation():
    """Per-run T3 obligations. Returns (bad wrapper names, bad update-method names, prepare_ok)."""
    path = os.path.join(GEN, "cases_poolshape.v")
    open(path, "w").write(SHAPE_HEADER + "Definition BW := Eval vm_compute in bad_wrappers gen_wrappers.\nPrint BW.\n"
                          "Definition BU := Eval vm_compute in bad_updates gen_updates.\nPrint BU.\n"
                          "Definition PS := Eval vm_compute in (gen_prepare_snapshots && gen_snapshot_locked_one_read)%bool.\nPrint PS.\n")
    ok, out, err = coqc(os.path.join("gen", "cases_poolshape.v"))
    if not ok:
        raise HarnessError("coqc failed on the pool shape file: " + (out + err)[-2000:])
    flat = re.sub(r"\s+", " ", out)
    bw = re.findall(r'"([^"]+)"', re.search(r"BW = (.*?) : ", flat).group(1))
    bu = re.findall(r'"([^"]+)"', re.search(r"BU = (.*?) : ", flat).group(1))
    ps = "true" in re.search(r"PS = (.*?) : ", flat).group(1)
    ok2, out2, err2 = coqc(os.path.join("obligations", "GenPoolOk.v"))
    return bw, bu, ps, ok2


def wait_obligation():
    """Per-run T2 obligation of C17 (the waiting discipline Pool/Progress.v is proved about). Returns (offending call sites, offending acquisitions, table_ok, lemmas_ok)."""
    path = os.path.join(GEN, "cases_poolwait.v")
    open(path, "w").write("From Coq Require Import String List Bool.\nFrom GV Require Import Race.Checker.\nFrom GVgen Require Import Gen_Locks.\nImport ListNotations.\n"
                          "Definition BW := Eval vm_compute in map (fun c => (cs_caller c, cs_callee c, cs_held c)) (bad_waits gen_poolcalls).\nPrint BW.\n"
                          "Definition BA := Eval vm_compute in map (fun q => (q_fn q, q_lock q, q_held q)) (bad_acqs gen_poolcalls gen_poolacqs).\nPrint BA.\n"
                          "Definition NE := Eval vm_compute in wait_table_nonempty gen_poolcalls.\nPrint NE.\n"
                          "Definition LK := Eval vm_compute in map (fun l => (fst (fst l), snd (fst l), [snd (fst l)])) gen_lockleaks.\nPrint LK.\n")
    ok, out, err = coqc(os.path.join("gen", "cases_poolwait.v"))
    if not ok:
        raise HarnessError("coqc failed on the pool wait-discipline file: " + (out + err)[-2000:])
    flat = re.sub(r"\s+", " ", out)
    grp = lambda name: re.search(name + r" = (.*?) : ", flat).group(1)
    triples = lambda txt: [tuple(re.findall(r'"([^"]*)"', t)) for t in re.findall(r"\(([^()]*\[[^\]]*\])\)", txt)]
    bw, ba = triples(grp("BW")), triples(grp("BA"))
    ne = "true" in grp("NE")
    lk = triples(grp("LK"))
    ok2, out2, err2 = coqc(os.path.join("obligations", "GenWaitOk.v"))
    return bw, ba + [(t[0], "LEAKED: " + t[1]) for t in lk], ne, ok2


def wait_report(run, pid, found_concrete):
    bw, ba, ne, ok2 = wait_obligation()
    bad = bool(bw or ba or not ne or not ok2)
    if bad and not found_concrete:
        what = []
        if bw:
            what.append("a function that may wait for an instance or for the rules is called with a mutex of the pool held: %s" % "; ".join("%s -> %s holding %s" % (t[0], t[1], list(t[2:])) for t in bw[:4]))
        if ba:
            what.append("a mutex is acquired out of order or inside a read section, or still held at a return: %s" % "; ".join("%s takes %s holding %s" % (t[0], t[1], list(t[2:])) for t in ba[:4]))
        if not ne:
            what.append("the call table no longer mentions getGengine / the engine's Execute*")
        run.report({"kind": "obligation", "symptom": "wait-discipline", "calls": [list(t) for t in bw[:6]], "acquisitions": [list(t) for t in ba[:6]]},
                   {"obligation": "obligations/GenWaitOk.v: wait_ok gen_poolcalls = true, order_ok gen_poolcalls gen_poolacqs = true (the system Pool/Progress.v's progress theorem is about)",
                    "offending_calls": bw, "offending_acquisitions": ba, "searched": "the waiter and update scenarios of this run"},
                   "%s: engine/gengine_pool.go no longer follows the waiting discipline the progress theorem is proved for (%s), and no request was observed stuck" % (pid, " | ".join(what) or "GenWaitOk.v does not compile"), no_input=True)
    return bad


def shape_report(run, pid, which, found_concrete):
    """which: 'wrappers' or 'updates'. Reports a broken T3 obligation when no concrete failing history was found."""
    bw, bu, ps, ok2 = pool_obligation()
    bad = bw if which == "wrappers" else (bu + ([] if ps else ["prepare/snapshotRuleBuilder"]))
    if bad and not found_concrete:
        run.report({"kind": "obligation", "symptom": "pool-shape", "which": which, "names": bad},
                   {"obligation": "obligations/GenPoolOk.v: %s" % ("wrappers_ok gen_wrappers = true" if which == "wrappers" else "updates_ok ... gen_updates = true"),
                    "offending": bad, "generated": open(os.path.join(GEN, "Gen_Pool.v")).read()[-3000:]},
                   "%s: the structure of %s in engine/gengine_pool.go is no longer the one the theorems are proved for, and no failing history was found" % (pid, ", ".join(bad)), no_input=True)
    return bad


def random_walk_scenario(sid, mn, mx, rng, steps=14, faulty=False, model=None):
    """A random walk over pool states: start a request held inside its first rule (while fewer than max are held), release
    a random held one, or run a request to completion; a snapshot after every action. Covers arrival orders in which
    instances are handed back before / while others are taken (histories, not just one overlap pattern)."""
    kinds = {}
    if faulty:
        kinds = {"pb": rng.choice(["fail", "panic"]), "pc": rng.choice(["fail", "panic", "ret"])}
    elif rng.random() < 0.6:
        kinds = {"pa": "cond", "pb": "cond", "pc": "cond"}
    rules = rules_v(1, kinds=kinds)
    names = [r["name"] for r in rules]
    sc = {"id": sid, "min": mn, "max": mx, "model": model or rng.choice([1, 2, 3, 4]), "rules": rules, "steps": []}
    rid = sid * 1000
    held, done = [], []
    for _ in range(steps):
        x = rng.random()
        if held and (x < 0.35 or len(held) == mx):
            q = held.pop(rng.randrange(len(held)))
            sc["steps"].append({"op": "release", "id": q})
            done.append(q)
        elif x < 0.55:
            rid += 1
            sc["steps"].append(req_step(rid, rng.choice(METHODS), names))
            done.append(rid)
        else:
            rid += 1
            sc["steps"].append(req_step(rid, rng.choice(METHODS), names, hold_at="*"))
            held.append(rid)
        sc["steps"].append({"op": "snapshot", "probe": names, "_active": list(held), "_done": list(done)})
    for q in list(held):
        sc["steps"].append({"op": "release", "id": q})
        done.append(q)
    sc["steps"].append({"op": "snapshot", "probe": names, "_active": [], "_done": list(done)})
    # finally the pool must still serve max simultaneous requests
    last = []
    for _ in range(mx):
        rid += 1
        sc["steps"].append(req_step(rid, "Execute", names, hold_at="*"))
        last.append(rid)
    sc["steps"].append({"op": "snapshot", "probe": names, "_active": list(last), "_done": list(done)})
    for q in last:
        sc["steps"].append({"op": "release", "id": q})
    return sc
