#!/bin/sh
# Development aid (not a registered command): runs every quick check under other PRNG seeds in a CLONE of /verif against a
# COPY of /repo, so that the sweep neither disturbs nor is disturbed by work in /verif and /repo.
# usage: tools/sweep_clone.sh <seed> [<seed> ...]     output: /tmp/vsweep/build/sweep_result.log
set -e
rm -rf /tmp/vsweep /tmp/vsweep_repo
mkdir -p /tmp/vsweep_repo
git -C /repo archive HEAD | tar -x -C /tmp/vsweep_repo; cp /repo/go.sum /tmp/vsweep_repo/go.sum
rsync -a --exclude build --exclude replays /verif/ /tmp/vsweep/
sed -i 's#=> /repo#=> /tmp/vsweep_repo#' /tmp/vsweep/harness/go.mod
cd /tmp/vsweep
mkdir -p build
: > build/sweep_result.log
for seed in "$@"; do
  for p in C01 C02 C03 C04 C05 C06 C07 C08 C09 C10 C11 C12 C13 C14 C15 C16 C17 C18 C19 C20; do
    VERIF_REPO=/tmp/vsweep_repo VERIF_SEED=$seed bin/vcheck $p --tier quick > build/sw_${p}_$seed.log 2>&1 || true
    if grep -q '^VIOLATION\|Traceback\|HarnessError' build/sw_${p}_$seed.log || ! grep -q 'done: 0 violation' build/sw_${p}_$seed.log; then
      echo "seed $seed $p:" >> build/sweep_result.log
      grep -A2 '^VIOLATION' build/sw_${p}_$seed.log | head -9 >> build/sweep_result.log
      tail -n 3 build/sw_${p}_$seed.log >> build/sweep_result.log
    fi
  done
  echo "seed $seed done" >> build/sweep_result.log
done
