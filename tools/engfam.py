"""Engine family (C04 C05 C11 C12 C13 C14, engine part of C09): shared generator, harness
driver, Coq case writer and reporting.

Model: coq/theories/Engine/{IR,Hand,Spec,Trace}.v; theorems Engine/Sound.v, TraceFacts.v;
tie: (T1) gen/Gen_Engine.v regenerated from engine/gengine.go, obligation gen = hand
(obligations/GenEngineOk.v), and (correspondence) observed traces / error flags / result
maps of real calls, with a gate adversary holding one rule, checked inside Coq by
Engine/Check.v against the specification and against the generated skeleton.
"""
import itertools
import json
import random

from common import *  # noqa

ENTRIES = [
    "Execute", "ExecuteWithStopTagDirect", "ExecuteConcurrent", "ExecuteMixModel",
    "ExecuteMixModelWithStopTagDirect", "ExecuteSelectedRules", "ExecuteSelectedRulesWithControl",
    "ExecuteSelectedRulesWithControlAsGivenSortedName", "ExecuteSelectedRulesWithControlAndStopTag",
    "ExecuteSelectedRulesWithControlAndStopTagAsGivenSortedName", "ExecuteSelectedRulesConcurrent",
    "ExecuteSelectedRulesMixModel", "ExecuteInverseMixModel", "ExecuteSelectedRulesInverseMixModel",
    "ExecuteNSortMConcurrent", "ExecuteNConcurrentMSort", "ExecuteNConcurrentMConcurrent",
    "ExecuteSelectedNSortMConcurrent", "ExecuteSelectedNConcurrentMSort",
    "ExecuteSelectedNConcurrentMConcurrent", "ExecuteDAGModel",
]
SELECTED = [e for e in ENTRIES if "Selected" in e]
NM = [e for e in ENTRIES if "NSort" in e or "NConcurrent" in e]
TAGGED = [e for e in ENTRIES if "StopTag" in e]
HAS_B = ["Execute", "ExecuteWithStopTagDirect", "ExecuteSelectedRulesWithControl",
         "ExecuteSelectedRulesWithControlAsGivenSortedName", "ExecuteSelectedRulesWithControlAndStopTag",
         "ExecuteSelectedRulesWithControlAndStopTagAsGivenSortedName"] + NM
CONCURRENT = [e for e in ENTRIES if any(k in e for k in ("Concurrent", "Mix", "DAG"))]

NAMES = ["ra", "rb", "rc", "rd", "re", "rf", "rg", "rh", "ri", "rj"]
SALS = [9, 7, 7, 5, 3, 0, 0, -2, -5, 2 ** 63 - 100, -2 ** 63 + 100]      # ties, negatives, near the int64 extremes (detie may shift a salience by a few units)
KIND_FLAGS = {"plain": (False, False), "ret": (False, True), "bare": (False, True),
              "fail": (True, False), "retfail": (True, False),
              "panic1": (True, False), "panic2": (True, False), "loop": (True, False),
              "brk": (True, False), "cont": (True, False), "retpriv": (True, False), "bigfail": (True, False),
              # fails in its FIRST execution of the call only (repeated names: one occurrence fails, another succeeds later): the rule failed in this call
              "flaky": (True, False), "concflaky": (True, False)}


def mk_rules(rng, k, kinds=("plain", "ret", "fail"), weights=(3, 3, 2), stop_p=0.0, distinct_sal=False):
    names = NAMES[:k]
    sals = rng.sample([9, 8, 7, 6, 5, 4, 3], k) if distinct_sal else [rng.choice(SALS) for _ in range(k)]
    return [{"name": n, "sal": s, "kind": rng.choices(kinds, weights)[0], "stop": rng.random() < stop_p,
             "ver": 100 + i} for i, (n, s) in enumerate(zip(names, sals))]


def rand_names(rng, rules, exact=None):
    pool = [r["name"] for r in rules]
    if exact is not None:
        if len(pool) >= exact and rng.random() < 0.75:
            return rng.sample(pool, exact)
        x = rng.random()
        base = rng.sample(pool, min(exact, len(pool)))
        full = (base + ["zz"] * exact)[:exact]
        if x < 0.4:
            if full:
                full[rng.randrange(len(full))] = "zz"                     # an unknown name, right count
            return full
        if x < 0.7:
            return base[:-1] if base else ["zz"]                          # wrong count
        if len(full) >= 2:
            i, j = rng.sample(range(len(full)), 2)
            full[i] = full[j]                                             # a repeated name, right count
        return full
    x = rng.random()
    if not pool:
        return rng.choice([[], ["zz"]])
    if x < 0.08:
        return []
    if x < 0.16:
        return ["zz", "yy"][: rng.randint(1, 2)]
    k = rng.randint(1, len(pool))
    l = rng.sample(pool, k)
    if rng.random() < 0.3:
        l.insert(rng.randint(0, len(l)), rng.choice(["zz", "zz", ""]))
    if rng.random() < 0.2:
        l.append(rng.choice(l))
    return l


def rand_layers(rng, rules):
    pool = [r["name"] for r in rules] + ["zz", ""]       # "" is an unknown name like any other
    n = rng.choice([0, 1, 2, 2, 3, 3, 4])
    out = []
    for _ in range(n):
        w = rng.choice([0, 1, 2, 2, 3, 4])
        out.append([rng.choice(pool) for _ in range(w)])
    return out


def rand_case(rng, entry, kinds=("plain", "ret", "fail"), weights=(3, 3, 2), maxk=6):
    k = rng.randint(1, maxk) if rng.random() > 0.04 else 0
    tag = entry in TAGGED
    rules = mk_rules(rng, k, kinds, weights, stop_p=0.3 if tag else 0.0)
    x = rng.random()
    if x < 0.15:            # every salience negative (same order): "the highest" is below the default 0
        for r in rules:
            if abs(r["sal"]) < 100:
                r["sal"] -= 10
    elif x < 0.20:          # every salience equal
        for r in rules:
            r["sal"] = 0
    c = {"entry": entry, "rules": rules, "b": rng.random() < 0.5, "n": 0, "m": 0, "names": [], "layers": [],
         "stop0": tag and rng.random() < 0.08, "prev": rng.choice(["fresh", "stale", "stale-empty"]), "hold": ""}
    if entry in NM:
        if k >= 2 and rng.random() < 0.8:
            n = rng.randint(1, k - 1)
            m = rng.randint(1, k - n)
        else:
            n, m = rng.choice([(0, 1), (1, 0), (-1, 2), (k, 1), (1, k), (k + 1, 1), (1, 1)])
        c["n"], c["m"] = n, m
    if entry in SELECTED:
        c["names"] = rand_names(rng, rules, exact=(c["n"] + c["m"]) if entry in NM and c["n"] + c["m"] > 0 else None)
    if entry == "ExecuteDAGModel":
        c["layers"] = rand_layers(rng, rules)
    if entry in CONCURRENT and rules and rng.random() < 0.8:
        c["hold"] = rng.choice(rules)["name"]
    if (c["names"] or c["layers"]) and rng.random() < 0.25:
        # the same call made once BEFORE the observed one with the very same argument values (the same name list / layer slices):
        # a call leaves its caller's arguments alone, so the second call does exactly what a first one does
        c["again"] = True
        c["prev"] = "stale"
    if len(rules) >= 2 and rng.random() < 0.15:
        # the same rule set reached through a HISTORY on the builder the call uses — an older variant of the set, then an
        # incremental build (changed kinds / versions, added rules) — with the entry point executed once on the same engine
        # before the last operation ("warm"): whatever the engine or the builder remembers from that earlier call must not matter
        old = []
        for r in rules:
            x = rng.random()
            if x < 0.3:
                continue                                    # not there yet: the incremental build adds it
            if x < 0.6:
                old.append(dict(r, kind=rng.choice(kinds), ver=r["ver"] + 500))   # an older body, replaced later
            else:
                old.append(dict(r))
        if old:
            newer = [dict(r) for r in rules if not any(o == r for o in old)]
            if newer:
                c["history"] = [{"kind": "full", "rules": old}, {"kind": "incr", "rules": newer}]
                c["warm"] = True
    return c


# ---------------------------------------------------------------- running

def run_sharded(cases, timeout=240):
    """Run engine cases in child processes; a process crash is bisected to single cases."""
    shards = [cases[i::NCPU] for i in range(NCPU)]
    shards = [s for s in shards if s]

    def one(shard):
        st, out, err = run_harness_child("engine", shard, timeout=timeout)
        if st == "ok":
            return out
        res = []
        for c in shard:
            st1, out1, err1 = run_harness_child("engine", [c], timeout=40)
            if st1 == "ok":
                res += out1
            else:
                res.append({"id": c["id"], "crash": st1, "stderr": err1[-1200:], "order": None, "events": [],
                            "err": False, "result": {}, "hang": st1 == "timeout", "panic": ""})
        return res
    outs = parallel_map(one, shards)
    return sorted([o for out in outs for o in out], key=lambda o: o["id"])


def denote_history(history):
    cur = {}
    for op in history:
        if op["kind"] == "full":
            cur = {r["name"]: r for r in op["rules"]}
        elif op["kind"] == "incr":
            for r in op["rules"]:
                cur[r["name"]] = r
        else:
            for n in op["names"]:
                cur.pop(n, None)
    return list(cur.values())


def order_problem(c, o):
    """C04/C08: the installed order must be the denoted rules, each once, in non-increasing current salience."""
    if not c.get("history") or o.get("order") is None or o.get("crash"):
        return None
    den = {r["name"]: r["sal"] for r in c["rules"]}
    if sorted(o["order"]) != sorted(den):
        return "installed order %s is not the denoted rule set %s" % (o["order"], sorted(den))
    sals = [den[n] for n in o["order"]]
    if any(sals[i] < sals[i + 1] for i in range(len(sals) - 1)):
        return "installed order %s is not in non-increasing salience order %s" % (o["order"], sals)
    return None


def model_order(c, o):
    """c_rules in the order the builder installed them (observed), falling back to a stable sort."""
    byname = {r["name"]: r for r in c["rules"]}
    if o.get("order") is not None:
        return [byname[n] for n in o["order"]]
    return sorted(c["rules"], key=lambda r: -r["sal"])


def coq_oz(v):
    """a result-map value as `option Z` (nil = None); anything that is not an integer becomes a value no rule returns"""
    if v is None:
        return "None"
    if isinstance(v, bool) or not isinstance(v, int):
        return "(Some (-999)%Z)"
    return "(Some %s)" % coq_z(v)


def rule_value(r):
    """what the observer rule returns when it returns: its version number for `return <ver>`, nil for a bare return"""
    return "(Some %s)" % coq_z(r["ver"]) if r["kind"] == "ret" else "None"


def coq_case(c, o):
    rules = model_order(c, o)
    rl = coq_list(["mkER %s %s %s %s %s %s" % (coq_str(r["name"]), coq_z(r["sal"]), coq_bool(KIND_FLAGS[r["kind"]][0]),
                                                 coq_bool(KIND_FLAGS[r["kind"]][1]), coq_bool(r["stop"]), rule_value(r)) for r in rules])
    cfg = "mkCfg %s %s %s %s %s %s %s %s" % (
        rl, coq_bool(c["b"]), coq_z(c["n"]), coq_z(c["m"]), coq_list([coq_str(n) for n in c["names"]]),
        coq_list([coq_list([coq_str(n) for n in ly]) for ly in c["layers"]]), coq_bool(c["stop0"]),
        "None" if c["prev"] == "fresh" else ("(Some [])" if c["prev"] == "stale-empty" else "(Some [(%s, Some 1%%Z)])" % coq_str("old__")))
    crash = bool(o.get("crash") or o.get("panic") or o.get("hang"))
    tr = coq_list([("St " if k == "S" else "En ") + coq_str(n) for k, n in o["events"]])
    entries = coq_list(["(%s, %s)" % (coq_str(k), coq_oz(v)) for k, v in sorted(o["result"].items())])
    return "mkEC %s E%s (%s) %s %s %s %s" % (coq_nat(c["id"]), c["entry"], cfg, tr, coq_bool(o["err"]), entries, coq_bool(crash))


HEADER = """From Coq Require Import String List ZArith Bool.
From GV Require Import Engine.IR Engine.Hand Engine.Spec Engine.Trace Engine.Check Engine.IREq.
From GVgen Require Import Gen_Engine.
Import ListNotations.
"""

CODES = {1: "the call panicked, crashed the process or did not return",
         2: "the observed start/end trace is not one the model's stages allow (order, barrier, exactly-once or window violated)",
         3: "the error flag differs",
         4: "the result map differs (keys, or the value bound to a key)",
         5: "the specification predicts a crash (cannot happen)",
         6: "a rule was still running, or started, after the call had returned",
         8: "the caller's stop tag after the call is not what its value before the call and the rules that ran make it (the engine wrote to it)",
         7: "the variant with a stop tag that is never set and the variant without a tag differ on the same rule set (the failing rules named by the returned error, the error flag or the result map)"}
SYMPTOM = {1: "crash", 2: "trace", 3: "error-flag", 4: "result-map", 5: "spec", 6: "after-return", 7: "twin", 8: "tag-after"}


def err_rule_names(o):
    """the rule names a returned error mentions (`rule: "x" executed, error:` / `rule "x" executed, ...`)"""
    if o.get("err_rules") is not None:
        return sorted(o["err_rules"])
    return sorted(set(re.findall(r'rule:? "([^"]*)" executed', o.get("errmsg") or "")))


def evaluate(tag, cases, obs):
    byid = {o["id"]: o for o in obs}
    out, nn, npar = [], 0, 0
    shard = max(50, min(500, (len(cases) + NCPU - 1) // NCPU))
    parts = [cases[i:i + shard] for i in range(0, len(cases), shard)]

    def one(ip):
        i, part = ip
        body = "Definition cases : list ecase := %s.\nDefinition M := mismatches gen cases.\nDefinition NT := count_nontrivial cases.\nDefinition NP := count_par cases.\n" % coq_list(
            ["(" + coq_case(c, byid[c["id"]]) + ")" for c in part], per_line=True)
        return coq_eval_cases("cases_%s_%d" % (tag, i), HEADER, body, ["M", "NT", "NP"])
    for res in parallel_map(one, list(enumerate(parts))):
        out += parse_nat_tuples(res["M"])
        nn += int(re.findall(r"\d+", res["NT"])[0])
        npar += int(re.findall(r"\d+", res["NP"])[0])
    return out, nn, npar


def regen():
    """T1: regenerate gen/Gen_Engine.v from /repo/engine/gengine.go."""
    src = run_xlate("engine", [os.path.join(REPO, "engine", "gengine.go")])
    return write_if_changed(os.path.join(GEN, "Gen_Engine.v"), src)


def gen_obligation():
    """Per-run obligation: the generated skeletons are the proved ones.
    Returns (ok, differing entry names, coqc log)."""
    body = "Definition D := map entry_index (filter (fun e => negb (prog_eqb (gen e) (hand e))) all_entries).\n"
    res = coq_eval_cases("cases_gendiff", HEADER, body, ["D"])
    diff = [ENTRIES[t[0]] for t in parse_nat_tuples(res["D"])] if res["D"] not in ("[]", "nil") else []
    ok, out, err = coqc(os.path.join("obligations", "GenEngineOk.v"))
    return ok and not diff, diff, (out + err)[-1500:]


def value_problems(c, o):
    """Result-map VALUES (the Coq side compares keys): a returning rule's entry must hold its value."""
    bad = []
    byname = {r["name"]: r for r in c["rules"]}
    # the map handed back by the EARLIER call on this engine must not have been touched by this call
    if c.get("prev") in ("stale", "stale-empty") and o.get("prime_keys") is not None and not o.get("crash"):
        want = ["old__"] if c["prev"] == "stale" else []
        if o["prime_keys"] != want:
            bad.append(("<map of the earlier call>", o["prime_keys"], want))
    for k, v in o["result"].items():
        r = byname.get(k)
        if r is None:
            continue
        want = r["ver"] if r["kind"] == "ret" else None
        if r["kind"] in ("ret", "bare") and v != want:
            bad.append((k, v, want))
    return bad


SORTS_A_SELECTION = ["ExecuteSelectedRules", "ExecuteSelectedRulesWithControl", "ExecuteSelectedRulesWithControlAndStopTag", "ExecuteSelectedRulesMixModel",
                     "ExecuteSelectedRulesInverseMixModel", "ExecuteSelectedNSortMConcurrent", "ExecuteSelectedNConcurrentMSort", "ExecuteSelectedNConcurrentMConcurrent"]


def detie(c):
    """Entry points that re-sort a SELECTION: the property fixes the order only up to ties (any order among equal
    saliences is a correct run), while the model predicts Go's stable order. To never alarm on a correct tie order the
    correspondence cases for these entry points use pairwise distinct saliences (ties stay covered by the theorems and,
    for the unselected models, by the observed installed order)."""
    if c["entry"] not in SORTS_A_SELECTION:
        return
    seen = set()
    for r in sorted(c["rules"], key=lambda r: -r["sal"]):
        while r["sal"] in seen:
            r["sal"] -= 1
        seen.add(r["sal"])


def campaign(run, pid, cases, entries, design_rule, extra_obligations=()):
    """Common flow of the engine-family checks."""
    for i, c in enumerate(cases):
        c["id"] = i
        c.setdefault("via", "engine")
        if c.get("history"):
            c["rules"] = denote_history(c["history"])
        detie(c)
        c.setdefault("quiet_ms", 25 if run.tier == "quick" else 80)
    run.log("running %d calls on the implementation (%d with a held rule)" % (len(cases), sum(1 for c in cases if c["hold"])))
    obs = run_sharded(cases)
    for o in obs:
        if o.get("compile"):
            c = cases[o["id"]]
            if c.get("history"):   # a builder operation of the history failed or panicked: that is a finding, not a harness error
                o["crash"] = "history"
                o["stderr"] = o["compile"]
                o["order"] = None
                continue
            raise HarnessError("observer rule set does not compile: " + o["compile"])
    mism, nn, npar = evaluate(pid, cases, obs)
    byid = {o["id"]: o for o in obs}
    spec_bad = [(i, c) for i, c in mism if c < 10]
    model_bad = [(i, c) for i, c in mism if c >= 10]
    for c in cases:
        vp = value_problems(c, byid[c["id"]])
        if vp and not any(i == c["id"] for i, _ in spec_bad):
            spec_bad.append((c["id"], 4))
        if byid[c["id"]].get("late"):
            spec_bad.append((c["id"], 6))
        if c.get("twin") is not None:
            o1, o2 = byid[c["id"]], byid[c["twin"]]
            if not (o1.get("crash") or o2.get("crash")) and (err_rule_names(o1) != err_rule_names(o2) or bool(o1["err"]) != bool(o2["err"]) or o1["result"] != o2["result"]):
                o1["twin_observation"] = {k: o2.get(k) for k in ("err", "errmsg", "result")}
                spec_bad.append((c["id"], 7))
        o_ = byid[c["id"]]
        if "StopTag" in c["entry"] and not o_.get("crash") and not o_.get("panic") and "tag_after" in o_:
            # the caller's tag belongs to the rules: after the call it is set iff it was set before or a rule that sets it ran
            ended = {e[1] for e in o_.get("events", []) if e[0] == "E"}
            started = {e[1] for e in o_.get("events", []) if e[0] == "S"}
            if started == ended and bool(o_["tag_after"]) != (bool(c.get("stop0")) or any(r["stop"] and r["name"] in ended for r in c["rules"])):
                spec_bad.append((c["id"], 8))
        op = order_problem(c, byid[c["id"]])
        if op:
            byid[c["id"]]["order_problem"] = op
            spec_bad.append((c["id"], 2))
    run.log("checked inside Coq: %d disagreement(s) with the specification, %d with the generated skeleton" % (len(spec_bad), len(model_bad)))
    reported = {}
    for cid, code in spec_bad:
        c = cases[cid]
        key = (c["entry"], SYMPTOM[code])
        if key in reported:
            reported[key] += 1
            continue
        reported[key] = 1
        o = byid[cid]
        sig = {"kind": "engine-call", "entry": c["entry"], "symptom": SYMPTOM[code]}
        run.report(sig, {"case": c, "observation": o, "disagreement": CODES[code]},
                   "%s: %s on %s (rules=%s b=%s n=%s m=%s names=%s layers=%s hold=%s prev=%s): %s" % (
                       pid, SYMPTOM[code], c["entry"], [(r["name"], r["sal"], r["kind"]) for r in c["rules"]], c["b"], c["n"], c["m"],
                       c["names"], c["layers"], c["hold"], c["prev"], CODES[code]))
    return obs, spec_bad, model_bad, nn, npar, reported


def pool_wrappers_part(run, pid, methods=None):
    """The same promise through the POOL, and the wrappers' transparency: every one of the 24 wrapper methods, with both values of
    the error-policy flag, name lists (all rules in priority order / a permuted subset / with an unknown name) and two N-M splits, on
    rule sets in which the always-failing probe rule pd and the stop-tag-setting rule ps sit at the top, in the middle or at the
    bottom — several hundred calls in a row on (1,2) pools, so that an instance serves again and again.  The map a wrapper hands
    back (also when the call reports an error) and whether it reports an error must be what the engine specification
    (Engine/Spec.v spec_outcome) assigns to that entry point, with those arguments, on the installed rules."""
    import poolfam
    import c07
    rng = random.Random(run.seed + 11)
    methods = [m for m in poolfam.METHODS if methods is None or m in methods]
    scs, sid = [], 1
    orders = (["pd", "pa", "pb"], ["pa", "pd", "pb"], ["pa", "pb", "pd"], ["pa", "pb", "pc"], ["ps", "pa", "pb"], ["pa", "ps", "pb", "pc"], ["pa", "pb", "ps"],
              ["pa", "pd", "ps", "pb"], ["pa", "ps", "pd", "pb"])
    for order in orders:
        for model in ((1, 3) if run.tier == "quick" else (1, 2, 3, 4)):
            rules = poolfam.rules_v(1, names=order, kinds={"pd": "fail", "ps": "stop"})
            sc = {"id": sid, "min": 1, "max": 2, "model": model, "rules": rules, "steps": []}
            rid = sid * 1000
            for meth in methods:
                if meth == "ExecuteRulesWithSpecifiedEM" and "ps" in order:
                    continue        # this wrapper injects two named objects only: the rule ps could not reach the request's stop tag
                for b in (True, False):
                    k = len(order)
                    names = rng.choice([list(order), list(order), rng.sample(order, k - 1), list(reversed(order)), order[:1] + ["zz"] + order[1:]])
                    n = rng.choice([1, 2]) if k > 2 else 1
                    rid += 1
                    st = poolfam.req_step(rid, meth, names, hold_at="", flag=True, b=b, n=n, m=len(names) - n if "Selected" in meth else k - n)
                    st["layers"] = [list(order[:1]), list(order[1:])] if rng.random() < 0.5 else [list(order[:2]), ["zz"], list(order[2:])]
                    sc["steps"].append(st)
                    sc["steps"].append({"op": "wait", "id": rid})
            scs.append(sc)
            sid += 1
    # ... the same after the pool REMOVED a rule that is not the last one (every instance then runs the shortened set, each rule once)
    for order in orders[:5]:
        rules = poolfam.rules_v(1, names=order, kinds={"pd": "fail", "ps": "stop"})
        gone = order[len(order) // 2 - 1] if len(order) > 2 else order[0]
        # (a full update with the same rules first: from then on the master and every instance hold the SAME published container)
        sc = {"id": sid, "min": 1, "max": 3, "model": 1, "rules": rules, "steps": [{"op": "update", "rules": rules}, {"op": "remove", "names": [gone]}], "_gone": gone}
        rest = [n for n in order if n != gone]
        rid = sid * 1000
        for meth in methods:
            if meth == "ExecuteRulesWithSpecifiedEM" and "ps" in order:
                continue
            for b in (True, False):
                rid += 1
                st = poolfam.req_step(rid, meth, list(rest), hold_at="", flag=True, b=b, n=1, m=len(rest) - 1)
                st["layers"] = [list(rest[:1]), list(rest[1:])]
                sc["steps"].append(st)
                sc["steps"].append({"op": "wait", "id": rid})
        scs.append(sc)
        sid += 1
    # ... and OVERLAPPING calls on a (1,3) pool (one initial instance, two additional ones): a quiet call run to its end, then three requests held inside their first
    # rule at once, released in reverse order — each map must be the caller's own (every value carries the request's id)
    for order in orders[:4]:
        for meth in [m for m in ("Execute", "ExecuteConcurrent", "ExecuteNSortMConcurrent", "ExecuteSelectedRules", "ExecuteDAGModel", "ExecuteMixModel") if m in methods][:3]:
            rules = poolfam.rules_v(1, names=order, kinds={"pd": "fail", "ps": "stop"})
            sc = {"id": sid, "min": 1, "max": 3, "model": 1, "rules": rules, "steps": []}
            rid = sid * 1000 + 500
            held = []
            # a quiet call first, run to its end and handed back (the free lists have been taken from and given to once) ...
            warm = poolfam.req_step(rid, meth, list(order), hold_at="", flag=True, b=True, n=1, m=len(order) - 1)
            warm["layers"] = [list(order[:1]), list(order[1:])]
            sc["steps"] += [warm, {"op": "wait", "id": rid}, {"op": "sleep", "wait_ms": 30}]
            rid = sid * 1000
            for _ in range(3):
                rid += 1
                held.append(rid)
                st = poolfam.req_step(rid, meth, list(order), hold_at="*", flag=True, b=True, n=1, m=len(order) - 1)
                st["layers"] = [list(order[:1]), list(order[1:])]
                sc["steps"].append(st)
            for q in reversed(held):
                sc["steps"].append({"op": "release", "id": q})
            for q in held:
                sc["steps"].append({"op": "wait", "id": q})
            scs.append(sc)
            sid += 1
    obs = poolfam.run_pool([poolfam.strip(s) for s in scs])
    ob = {o["id"]: o for o in obs}
    items, n_calls, n_err = [], 0, 0
    extra = []
    for sc in scs:
        o = ob[sc["id"]]
        if o.get("crash"):
            extra.append((sc["id"], 0))
            continue
        steps = {st["id"]: st for st in sc["steps"] if st["op"] == "req"}
        # exactly once: no rule body is entered twice by one request (the name lists and layers used here repeat no name)
        enters = {}
        for ev in o.get("events") or []:
            if ev["kind"] == "enter":
                enters[(ev["req"], ev.get("rule"))] = enters.get((ev["req"], ev.get("rule")), 0) + 1
        for (q, rule_), cnt in enters.items():
            if cnt > 1:
                extra.append((sc["id"], q % 1000))
        for r in o["reqs"]:
            if not r.get("done"):
                extra.append((sc["id"], r["id"] % 1000))
                continue
            n_calls += 1
            n_err += 1 if r["err"] else 0
            st = steps[r["id"]]
            if any(v >= 0 and v % 1000000 != r["id"] for v in r["result"].values()) or r.get("result_reread", r["result"]) != r["result"]:
                extra.append((sc["id"], r["id"] % 1000))          # an entry computed for ANOTHER request, or a map that changed after it was handed back
            got = poolfam.coq_list(["(%s, %s)" % (poolfam.coq_str(n), poolfam.coq_z(v // 1000000)) for n, v in sorted(r["result"].items()) if v >= 0])
            items.append("(%s, %s, (%s, %s, %s), %s, %s, (%s, %s))" % (poolfam.coq_nat(sc["id"]), poolfam.coq_nat(r["id"] % 1000), poolfam.coq_nat(sc["max"]), poolfam.coq_nat(sc["model"]), poolfam.coq_bool(st["b"] if st["method"] in HAS_B else True),
                                                                 poolfam.coq_prules([x for x in sc["rules"] if x["name"] != sc.get("_gone")]), c07.coq_shape(st, sc["model"]), got, poolfam.coq_bool(r["err"])))
    defs = ("Definition erule_s (r : rule) : erule := mkER (rname r) (rsal r) (probe_fails (rname r)) (negb (probe_fails (rname r))) (String.eqb (rname r) \"ps\") (Some (rbody r)).\n"
            "Definition spec_s (mx md : nat) (b : bool) (rs : list rule) (sh : call_shape) : outcome :=\n"
            "  spec_outcome (sh_entry sh) (mkCfg (map erule_s (sorted (m_master (mgmt_init mx md rs idshuffle)))) b (sh_n sh) (sh_m sh) (sh_names sh) (sh_layers sh) false None).\n"
            "Definition map_s (o : outcome) : list (string * Z) := match o_map o with Some m => flat_map (fun nv => match snd nv with Some v => [(fst nv, v)] | None => [] end) m | None => [] end.\n"
            "Definition pcases := %s.\n"
            "Definition PM := flat_map (fun c => match c with (sid, q, (mx, md, b), rs, sh, (got, err)) => let o := spec_s mx md b rs sh in "
            "if (same_entries got (map_s o) && Bool.eqb err (o_err o))%%bool then [] else [(sid, q)] end) pcases.\n") % poolfam.coq_list(items, per_line=True)
    mm = [tuple(t) for t in poolfam.evaluate(pid + "_pool", defs, ["PM"])["PM"]] + extra
    run.log("pool part: %d wrapper calls (%d reporting an error), %d disagreement(s)" % (n_calls, n_err, len(mm)))
    byid = {s["id"]: s for s in scs}
    seen = set()
    for sid, q in mm:
        sc = byid[sid]
        st = next((x for x in sc["steps"] if x["op"] == "req" and x["id"] % 1000 == q), None)
        meth = st["method"] if st else "?"
        if meth in seen:
            continue
        seen.add(meth)
        r = next((x for x in ob[sid]["reqs"] if x["id"] % 1000 == q), None)
        run.report({"kind": "pool-result", "entry": meth}, {"scenario": poolfam.strip(sc), "step": st, "request": r, "disagreement": "the result map / error flag handed back by the pool wrapper is not what the entry point yields, with these arguments, on the installed rules"},
                   "%s: pool wrapper %s(b=%s, names=%s, n=%s, m=%s) on rules %s (pd fails, ps sets the stop tag), model %d: returned map %s (error reported: %s) is not what the execution model yields" % (
                       pid, meth, st and st["b"], st and st["names"], st and st["n"], st and st["m"], [x["name"] for x in sc["rules"]], sc["model"], r and r.get("result"), r and r.get("err")))
    return (not mm), {"pool_wrapper_calls": n_calls, "pool_wrapper_calls_reporting_an_error": n_err}



def engine_check(run, pid, entries, make_cases, rule_text, assumptions, after=None):
    """Full check for one engine-family property."""
    build_harness()
    regen()
    ok, log = proof_obligations(run, pid, extra_obligations=2,
                                extra_names=["gen_is_hand: Gen_Engine.gen e = Hand.hand e for the %d entry points of this property (T1, obligations/GenEngineOk.v)" % len(entries),
                                             "correspondence_%s: mismatches gen cases = [] (Engine/Check.v)" % pid])
    gen_ok, diff, glog = gen_obligation() if ok else (False, [], log)
    diff_here = [e for e in diff if e in entries]
    if diff_here:
        run.log("generated skeleton differs from the proved one for: %s" % ", ".join(diff_here))
    rng = random.Random(run.seed)
    cases = make_cases(rng, run.tier, diff_here)
    obs, spec_bad, model_bad, nn, npar, reported = campaign(run, pid, cases, entries, rule_text)
    # a broken obligation with no concrete failing input
    found_entries = set(e for (e, _s) in reported)
    for e in diff_here:
        if e not in found_entries:
            sig = {"kind": "obligation", "entry": e, "symptom": "skeleton"}
            run.report(sig, {"obligation": "gen_is_hand (E%s): the skeleton regenerated from engine/gengine.go is not the one the theorems are proved for" % e,
                             "generated": open(os.path.join(GEN, "Gen_Engine.v")).read().split("Definition %s " % e)[1].split("\nDefinition")[0][:1500] if ("Definition %s " % e) in open(os.path.join(GEN, "Gen_Engine.v")).read() else "?",
                             "searched": "%d calls of %s" % (sum(1 for c in cases if c["entry"] == e), e)},
                       "%s: skeleton of %s changed and no failing input was found" % (pid, e), no_input=True)
    if not ok and not run.violations:
        run.report({"kind": "proof", "theorem": pid}, {"theorem": "Props/%s.v" % pid, "log": log[-3000:]},
                   "%s: the Coq development no longer builds and no failing input was found" % pid, no_input=True)
    if ok and pid in ("C04", "C05", "C11", "C12", "C13", "C14"):
        interp_facts_report(run, pid, bool(run.violations))
    cov = run.coverage
    if not diff_here and ok:
        cov["discharged"] += 1
    if not spec_bad:
        cov["discharged"] += 1
    per_entry = {}
    for c in cases:
        per_entry[c["entry"]] = per_entry.get(c["entry"], 0) + 1
    held = sum(1 for o in obs if o.get("held"))
    cov.update({"evaluations": len(cases), "distinct_nontrivial": nn,
                "rule": rule_text + " Non-trivial = the specification schedules at least two rules for the call (counted inside Coq); cases are distinct by construction (systematic enumeration + seeded random draws).",
                "calls_per_entry_point": per_entry, "calls_with_parallel_stage_of_2_or_more": npar,
                "held_rule_rounds": held, "events_observed_while_a_rule_was_held": sum(o.get("during", 0) for o in obs),
                "traces_validated_against_impl": len(cases),
                "disagreements_with_spec": len(spec_bad), "disagreements_with_generated_skeleton": len(model_bad),
                "generated_skeleton_differs_for": diff_here,
                "samples": [{"case": cases[0], "observation": obs[0]}, {"case": cases[-1], "observation": obs[-1]}]})
    run.assumptions = assumptions + [
        "rules are abstracted to schedule-independent outcomes (fails / returns / sets the stop tag): true for the observer rules the harness writes; justified in general by C02/C15",
        "sync.WaitGroup, sync.Mutex and the go statement behave per the Go memory model (a [Par] stage is the set of interleavings of its children, joined before the next stage)",
        "T1 translator (go/ast) reports the statement shapes of engine/gengine.go faithfully; unknown shapes become IUnknown",
        "gate adversary: a held rule keeps its stage open for a quiet period (%d ms); timing can only hide a missing barrier from a round, never invent one" % (25 if run.tier == "quick" else 80)]
    if after:
        run.coverage["obligations"] = run.coverage.get("obligations", 0) + 1
        clean, extra_cov = after(run)
        if clean:
            run.coverage["discharged"] += 1
        run.coverage.update(extra_cov)
    return run.finish()


def replay_case(run, data):
    build_harness()
    regen()
    coq_make()
    c = data["replay"]["case"]
    c["id"] = 0
    obs = run_sharded([c])
    mism, _, _ = evaluate("replay", [c], obs)
    print("observation:", json.dumps(obs[0])[:800])
    print("replay: disagreements =", mism)
    return 1 if [m for m in mism if m[1] < 10] else 0
