"""C10 — compiling is total, all-or-nothing, and identical across entry points."""
import random
from common import *  # noqa
import c08
from langgen import coq_rcase, evaluate_reader, RCODES

PID = "C10"
ENTRIES5 = ["builder-full", "builder-incremental", "pool-construction", "pool-full-update", "pool-incremental-update"]
VOCAB = ["rule", "Rule", "RULE", '"a"', '"b"', '"c"', '"dsc"', "salience", "Salience", "5", "-3", "begin", "BEGIN", "end", "End", "x", "y", "a.b", "a.b.c", "=", ":=", "+=", "==", "!=", "<", ">=", "&&", "||", "!",
         "+", "-", "*", "/", "(", ")", "{", "}", "[", "]", ",", ";", "if", "else", "for", "forRange", "break", "continue", "return", "conc", "true", "false", "1.5", "1e3", "@name", "@id", "@sal", "@desc",
         "#", "$", "'", "`", "\\", '"unterminated', "// comment\n", "//", "nil", "NULL", "0x1F", "99999999999999999999", "\t", "\n", "é", "世", "\x00"]
BASE_RULES = [("a", 5, "d0"), ("b", 0, "d0"), ("q", -2, "d0")]


def rule_text(n, sal, desc, body="return 1"):
    return 'rule "%s" "%s" salience %d begin %s end' % (n, desc, sal, body)


BASE = "\n".join(rule_text(*r) for r in BASE_RULES)
BODIES = ["return 1", "x = 1 + 2 * 3 return x", "if a > 1 { b = 2 } else if c == 3 { d = 4 } else { e = 5 }", "for i = 0; i < 3; i += 1 { s += i }", "conc { x = 1 f(2) }",
          'm["k"] = a.b + f(1, "s", g(2))', "forRange k := m { t = m[k] }", "x = !(a && b) || c != d", "return @name + @desc", "h.F = 1.5 / -2 return h.G(3)", ""]


def valid_text(rng):
    names = rng.sample(["a", "b", "c", "d", "e"], rng.randint(1, 4))
    return "\n".join(rule_text(n, rng.choice([-3, 0, 1, 5, 9]), "d%d" % rng.randint(1, 9), rng.choice(BODIES)) for n in names), names


def tokens_of(text):
    return re.findall(r'"[^"]*"|//[^\n]*\n|[A-Za-z_@][\w\.]*|\d+\.?\d*|[^\sA-Za-z_\d]', text)


def mutate(rng, text):
    toks = tokens_of(text)
    for _ in range(rng.randint(1, 3)):
        if not toks:
            break
        i = rng.randrange(len(toks))
        k = rng.random()
        if k < 0.3:
            del toks[i]
        elif k < 0.6:
            toks[i] = rng.choice(VOCAB)
        elif k < 0.85:
            toks.insert(i, rng.choice(VOCAB))
        elif len(toks) > 1:
            j = rng.randrange(len(toks))
            toks[i], toks[j] = toks[j], toks[i]
    return " ".join(toks)


CHARS = list("abeEfrRx_019") + list(".\"=!<>&|+-*/()[]{},;:@# \n\t")


def cmutate(rng, text):
    """character-level edits: what the token rules (longest match, keywords, numbers, names with dots, two-character operators) decide"""
    cs = list(text)
    for _ in range(rng.randint(1, 3)):
        i = rng.randrange(len(cs) + 1)
        k = rng.random()
        if k < 0.35 and i < len(cs):
            del cs[i]
        elif k < 0.7:
            cs.insert(i, rng.choice(CHARS))
        elif i < len(cs):
            cs[i] = rng.choice(CHARS)
    return "".join(cs)


def make_texts(rng, tier):
    n = 260 if tier == "quick" else 8000
    texts = []
    fixed = ['rule "x" begin a=1 # end', 'rule "a" begin end rule "a" begin end', "", "   \n\t ", 'rule "" begin end', 'rule "x" salience 99999999999999999999 begin end',
             'rule "x" begin return 1 end trailing garbage', 'rule "x" begin y = 9223372036854775808 end', 'rule "x" begin y = tRuE end', 'rule "x" begin m[""] = 1 end',
             'rule "x" begin end', BASE, BASE + "\nxyz #", BASE + " xyz zzz \u89c4\u5219\n", BASE + " zz", BASE + " 5 $", 'rule "a " begin end rule "a" begin end', 'rule "x" begin /* c */ end', 'rule "x" "d" "e" begin end', 'rule "x" begin a = "unterminated end', 'rule "x" begin a = 1 // c']
    # string tokens: doubled quotes and backslash pairs inside, names that are nothing but quotes
    fixed += ['rule "a""b" begin end', 'rule "x" begin y = "q\\"r" end', 'rule "\\"" begin end', 'rule """" begin end', 'rule "a" "d""e" salience 1 begin end', 'rule "a\\" begin end',
              'rule "a" begin m["""k"] = 1 end', 'rule "a" begin m[""""] = 1 end', 'rule "a""" begin end rule "a" begin end']
    # white space of Unicode that is NOT white space of the rule language ([ \t\n\r] only), at the very start or end of a text
    USPACE = ["\x0b", "\x0c", "\x85", "\xa0", "\u2028", "\u3000", "\u2003", "\x1f"]
    for sp in USPACE:
        fixed += [BASE + sp, sp + BASE, BASE + "\n" + sp + "\n", 'rule "u" begin end' + sp]
    # texts that BEGIN with blank lines, spaces or comment lines (positions inside are counted from the first character of the text)
    v0 = rule_text("a", 5, "d1", "x = 1 + f(2) return x") + "\n" + rule_text("b", -3, "d2", "if a > 1 { b = 2 }")
    fixed += ["\n\n\n" + v0, "   \n\t\n" + v0, "// c\n\n" + v0, "\n" + v0 + "\n\n", " " + v0]
    for t in fixed:
        texts.append(("fixed", t))
    # truncations: every token-boundary PREFIX and SUFFIX of one valid two-rule text (a text cut right after `rule`, after the
    # name, inside the header, inside a body ...), and keyword-only texts: the places where error recovery of the parser has
    # nothing left to consume
    two = rule_text("a", 5, "d1", "x = 1 + f(2) return x") + "\n" + rule_text("b", -3, "d2", "if a > 1 { b = 2 }")
    toks = tokens_of(two)
    cuts = range(1, len(toks)) if tier != "quick" else sorted(set(list(range(1, 10)) + list(range(10, len(toks), 3)) + [len(toks) - 1, len(toks) - 2]))
    for i in cuts:
        texts.append(("prefix", " ".join(toks[:i])))
    for i in (range(1, len(toks)) if tier != "quick" else range(1, len(toks), 4)):
        texts.append(("suffix", " ".join(toks[i:])))
    for kw in ["rule", "rule rule", "begin", "end", "rule end", "rule begin", "rule begin end", "salience", "rule salience", 'rule "a"', 'rule "a" "d"', 'rule "a" salience',
               'rule "a" salience -', 'rule "a" begin', two + " rule", two + " rule rule", two + ' rule "c"', "rule " + two, two + " end", two + " begin"]:
        texts.append(("truncated", kw))
    n += len(texts) - len(fixed)
    while len(texts) < n:
        x = rng.random()
        v, _ = valid_text(rng)
        if x < 0.36:
            texts.append(("valid", v))
        elif x < 0.42:
            # lexer noise only: characters no token can start with, dropped between otherwise valid tokens
            toks = tokens_of(v)
            for _ in range(rng.randint(1, 2)):
                toks.insert(rng.randrange(len(toks) + 1), rng.choice(["#", "$", "`", "'", "?", "~", "^", "%", "\\"]))
            texts.append(("lexer-noise", " ".join(toks)))
        elif x < 0.47:
            # a valid text, then tokens that cannot start a rule, then characters no token can start with: what lies behind the
            # point where the parser stops reading must not matter to one entry point only
            tail = " ".join(rng.choice(["xyz", "zz", "5", "end", "x.y", "=", "("]) for _ in range(rng.randint(1, 3)))
            texts.append(("unread-tail", v + "\n" + tail + " " + rng.choice(["#", "$", "`", "\u89c4", "?", "~"]) + rng.choice(["", " more", "\n"])))
        elif x < 0.62:
            texts.append(("char-mutated", cmutate(rng, v)))
        elif x < 0.85:
            texts.append(("mutated", mutate(rng, v)))
        else:
            k = rng.randint(0, 60)
            texts.append(("bytes", bytes(rng.randrange(256) for _ in range(k)).decode("latin-1")))
    # layout: the same texts with every blank replaced by a line break — each token then starts a line, so every diagnostic
    # is positioned at column 0 of some line (positions must not decide whether a text is accepted)
    out = []
    for k, (kind, t) in enumerate(texts):
        out.append((kind, t))
        if kind in ("mutated", "lexer-noise", "prefix", "suffix", "truncated", "unread-tail", "fixed") and k % 2 == 0 and " " in t:
            out.append((kind, t.replace(" ", "\n")))
    out += [("fixed", "//only a comment\n"), ("fixed", "#rule \"a\" begin end"), ("fixed", "rule \"a\" begin end\n#"), ("fixed", "rule \"a\" begin\nx=\nend"),
            ("fixed", "rule \"a\" begin end\n@rule \"c\" begin end"), ("fixed", "\n\n$")]
    return out


def regen_compile():
    src = run_xlate("compile", [REPO])
    return write_if_changed(os.path.join(GEN, "Gen_Compile.v"), src)


def compile_obligation():
    path = os.path.join(GEN, "cases_compile.v")
    open(path, "w").write("From Coq Require Import String List Bool.\nFrom GV Require Import Compile.Model.\nFrom GVgen Require Import Gen_Compile.\n"
                          "Definition BE := Eval vm_compute in bad_eps gen_eps.\nPrint BE.\n")
    ok, out, err = coqc(os.path.join("gen", "cases_compile.v"))
    if not ok:
        raise HarnessError("coqc failed on the compile table: " + (out + err)[-2000:])
    flat = re.sub(r"\s+", " ", out)
    return re.findall(r'"([^"]+)"', re.search(r"BE = (.*?) : ", flat).group(1))


def parse_rules(lst):
    out = {}
    for s in lst:
        if s == "!instance-differs":
            return None
        n, sal, desc = split_rule(s)
        out[n] = (int(sal), desc)
    return out


def split_rule(s):
    """name|salience|description (names and descriptions are arbitrary strings: the first `|integer|` separates them)"""
    m = re.match(r"^(.*?)\|(-?\d+)\|(.*)$", s, re.S)
    return m.group(1), m.group(2), m.group(3)


def sorted_desc(lst):
    sals = [int(split_rule(s)[1]) for s in lst if s != "!instance-differs"]
    return all(sals[i] >= sals[i + 1] for i in range(len(sals) - 1))


def main(run):
    build_harness()
    regen_compile()
    ok, log = proof_obligations(run, PID, extra_obligations=2,
                                extra_names=["xlate compile: forallb ep_wf gen_eps = true (obligations/GenCompileOk.v)", "correspondence_C10: five-entry-point differential, all-or-nothing, merge/replace as C08 denotes"])
    bad = compile_obligation() if ok else []
    rng = random.Random(run.seed)
    texts = make_texts(rng, run.tier)
    # every text from the known 3-rule state; every third text ALSO from the empty state (fresh builder / cleared pool)
    n0 = len(texts)
    texts = texts + [(k + "@empty", t) for i, (k, t) in enumerate(texts) if i % 3 == 0 or k == "fixed"]
    cases = [{"id": i, "base": "" if k.endswith("@empty") else BASE, "text": t} for i, (k, t) in enumerate(texts)]
    # the text that is ALREADY the last fully built one, after an incremental build changed the set in between: a successful
    # full build must replace everything again (state before = BASE merged with MID)
    MID = rule_text("b", 7, "dm", "return 2") + "\n" + rule_text("z", 1, "dm")
    texts.append(("resubmitted", BASE))
    cases.append({"id": len(cases), "base": BASE, "mid": MID, "text": BASE})
    mid_rules = {"b": (7, "dm"), "z": (1, "dm")}
    # a pool cleared, refilled by an incremental update, cleared AGAIN: it is empty again — the next text (incremental or full) starts from nothing
    for t in [rule_text("c", 3, "dq"), rule_text("b", 7, "dq") + "\n" + rule_text("n", 2, "dq"), rule_text("z", 1, "dq", "return 9")] + [valid_text(rng)[0] for _ in range(2 if run.tier == "quick" else 10)]:
        texts.append(("after-second-clear@empty", t))
        cases.append({"id": len(cases), "base": "", "mid": MID, "reclear": True, "text": t})
    # texts submitted to a state that a REMOVAL produced (rules before, between and after the survivors removed; absent names):
    # the incremental entry points must merge into the denoted set minus the removed names, the full ones replace it
    rm_texts = [rule_text("b", 0, "dr", "return 2"), rule_text("q", -2, "dr", "return 2"), rule_text("q", 8, "dr"), rule_text("b", 0, "dr") + "\n" + rule_text("q", -2, "dr"),
                rule_text("b", 3, "dr") + "\n" + rule_text("n", 1, "dr"), rule_text("a", 5, "dr"), rule_text("n", -9, "dr")]
    for rm in (["a"], ["b"], ["q"], ["a", "b"], ["ghost"], ["a", "ghost", "q"]):
        for t in rm_texts + ([valid_text(rng)[0] for _ in range(2 if run.tier == "quick" else 12)]):
            texts.append(("after-removal", t))
            cases.append({"id": len(cases), "base": BASE, "rm": rm, "text": t})
    run.log("submitting %d texts to the five entry points" % len(cases))
    shards = [cases[i::NCPU] for i in range(NCPU)]

    def one(shard):
        st, out, err = run_harness_child("compile", shard, timeout=900)
        if st == "ok":
            return out
        res = []
        for c in shard:
            st1, out1, err1 = run_harness_child("compile", [c], timeout=60)
            res += out1 if st1 == "ok" else [{"id": c["id"], "crash": st1, "stderr": err1[-800:], "entries": []}]
        return res
    obs = sorted([o for out in parallel_map(one, [s for s in shards if s]) for o in out], key=lambda o: o["id"])
    problems = []   # (id, code, detail)
    base_rules_full = {n: (s, d) for n, s, d in BASE_RULES}
    stream_stats, nontrivial = {}, set()
    for (kind, text), o in zip(texts, obs):
        base_rules = {} if kind.endswith("@empty") else (dict(base_rules_full, **mid_rules) if kind == "resubmitted" else base_rules_full)
        if cases[o["id"]].get("rm"):
            base_rules = {n: v for n, v in base_rules.items() if n not in cases[o["id"]]["rm"]}
        kind = kind.replace("@empty", "")
        st = stream_stats.setdefault(kind + ("" if base_rules else " (from the empty state)"), {"texts": 0, "accepted": 0})
        st["texts"] += 1
        if o.get("crash"):
            problems.append((o["id"], "crash", o.get("stderr", "")[:300]))
            continue
        es = {e["entry"]: e for e in o["entries"]}
        if any(e.get("panic") for e in es.values()):
            problems.append((o["id"], "panic", [e["entry"] + ": " + e["panic"][:120] for e in es.values() if e.get("panic")]))
            continue
        acc = {n: not e["err"] for n, e in es.items()}
        if len(set(acc.values())) > 1:
            problems.append((o["id"], "disagree", acc))
        if all(acc.values()):
            st["accepted"] += 1
        # all-or-nothing
        for n, e in es.items():
            if e["err"] and e["before"] != e["after"]:
                problems.append((o["id"], "not-atomic", n))
            if not sorted_desc(e["after"]) or not e.get("index_ok", True) or "!instance-differs" in e["after"]:
                problems.append((o["id"], "corrupt-state", n))
        # success replaces / merges as requested: the full build's result is the oracle for what the text defines
        if acc.get("builder-full"):
            parsed = parse_rules(es["builder-full"]["after"])
            if len(parsed) >= 2 or kind == "valid":
                nontrivial.add(text)
            for n in ("pool-construction", "pool-full-update"):
                if acc.get(n) and parse_rules(es[n]["after"]) != parsed:
                    problems.append((o["id"], "replace-differs", n))
            if kind == "resubmitted" and parsed != base_rules_full:
                problems.append((o["id"], "replace-differs", "builder-full"))
            # what a text compiles TO is the same through every entry point: the rules it defines have the same tree — node kinds,
            # operands and SOURCE POSITIONS — wherever the text was submitted
            ref = es["builder-full"].get("trees") or {}
            for n in ENTRIES5:
                if n != "builder-full" and acc.get(n):
                    other = es[n].get("trees") or {}
                    diff = [r for r in parsed if r in ref and r in other and ref[r] != other[r]]
                    if diff:
                        problems.append((o["id"], "tree-differs", "%s: rule(s) %s" % (n, diff[:3])))
            merged = dict(base_rules)
            merged.update(parsed)
            for n in ("builder-incremental", "pool-incremental-update"):
                if acc.get(n) and parse_rules(es[n]["after"]) != merged:
                    problems.append((o["id"], "merge-differs", n))
        elif any(acc.values()) or len(set(acc.values())) > 1:
            nontrivial.add(text)
        elif kind == "mutated":
            nontrivial.add(text)
    # the reader model (Lang/Lexer.v + Lang/Reader.v) decides, inside Coq and from the text alone, whether the rule language
    # contains the text and which rules it defines: the full build's verdict and installed set must be the model's
    rcs, seen_t = [], set()
    for (kind, text), o in zip(texts, obs):
        es = {e["entry"]: e for e in o.get("entries", [])}
        e = es.get("builder-full")
        if o.get("crash") or e is None or e.get("panic") or text in seen_t:
            continue
        seen_t.add(text)
        if e["err"]:
            rcs.append((o["id"], coq_rcase(o["id"], text, ("reject",))))
        else:
            metas = [split_rule(x) for x in e["after"] if x != "!instance-differs"]
            if all(x.count("|") == 2 for x in e["after"]):
                rcs.append((o["id"], coq_rcase(o["id"], text, ("meta", [(m[0], m[2], int(m[1])) for m in metas]))))
            else:
                rcs.append((o["id"], coq_rcase(o["id"], text, ("accept",))))
    rmm, runsup = evaluate_reader(PID, [t for _, t in rcs])
    run.log("reader model: %d texts decided inside Coq, %d outside its domain, %d disagreement(s)" % (len(rcs) - runsup, runsup, len(rmm)))
    reader_problems = [(cid, "reader-model", RCODES[code]) for cid, code in rmm]
    run.log("%d problem(s) over %d texts" % (len(problems), len(texts)))
    seen = set()
    found_disagree = False
    for cid, code, detail in problems:
        if code == "disagree":
            found_disagree = True
            key = (code, tuple(sorted(k for k, v in detail.items() if v)))
        else:
            key = (code, str(detail)[:40])
        if key in seen or len(seen) > 6:
            continue
        seen.add(key)
        sig = {"kind": "compile-text", "symptom": code}
        if code == "disagree":
            sig["accepting"] = sorted(k for k, v in detail.items() if v)
        run.report(sig, {"base": cases[cid]["base"], "mid": cases[cid].get("mid", ""), "rm": cases[cid].get("rm", []), "reclear": cases[cid].get("reclear", False), "text": texts[cid][1], "stream": texts[cid][0], "detail": detail, "observation": obs[cid]},
                   "C10: %s for the text %r: %s" % (code, texts[cid][1][:160], str(detail)[:300]))
    if reader_problems and not run.violations:
        # the reader model no longer decides the language the builder accepts: by itself that is no text on which the entry
        # points differ or a build is not all-or-nothing
        cid, _, detail = reader_problems[0]
        run.report({"kind": "correspondence", "symptom": "reader-model"}, {"correspondence": "Lang/ReaderCheck.v rmismatches rcases = [] (reader model vs. the full build's verdict and installed rules)",
                                                                           "text": texts[cid][1], "disagreement": detail, "observation": obs[cid]},
                   "C10: %s — text %r; searched %d texts x 5 entry points for a disagreement between entry points" % (detail, texts[cid][1][:160], len(texts)), no_input=True)
    if bad and not found_disagree:
        run.report({"kind": "obligation", "symptom": "ep_wf", "names": bad}, {"obligation": "forallb ep_wf gen_eps = true", "offending": bad, "generated": open(os.path.join(GEN, "Gen_Compile.v")).read()[-900:],
                                                                             "searched": "%d texts x 5 entry points" % len(texts)},
                   "C10: entry point(s) %s no longer inspect every diagnostic before installing, and no text was found on which they differ" % bad, no_input=True)
    if not ok and not run.violations:
        run.report({"kind": "proof", "theorem": PID}, {"theorem": "Props/C10.v", "log": log[-3000:]}, "C10: the Coq development no longer builds and no failing text was found", no_input=True)
    cov = run.coverage
    cov["discharged"] += (1 if ok and not bad else 0) + (0 if problems or reader_problems else 1)
    cov.update({"evaluations": len(texts) * 5, "distinct_nontrivial": len(nontrivial),
                "rule": "truncations first: token-boundary prefixes and suffixes of a valid two-rule text and 20 keyword-only / cut-off headers (where the parser's error recovery has nothing left to consume); then three streams: valid multi-rule texts over 11 body shapes (~38%), token-level mutations of valid texts — delete / replace / insert / swap of 1-3 tokens over a 70-token vocabulary with unknown characters, keyword case variants, unterminated strings and comments, huge literals (~32%), character-level edits of valid texts — delete / insert / replace 1-3 characters over letters, digits, dots, quotes, operators, brackets and white space, which exercise longest-match tokenisation (~15%), arbitrary bytes incl. NUL and non-ASCII (~15%), plus 16 fixed texts; every text is submitted to all five entry points from a known 3-rule state, and every third text (and all fixed texts) also from the EMPTY state (fresh builder / cleared pool); five texts are submitted to a pool that was cleared, refilled incrementally and cleared again; 7 redefining / adding texts and some valid ones are also submitted to the states six REMOVALS leave (first, middle, last rule, two rules, an absent name, a mix); "
                        "checked: returned normally (no panic / crash), pairwise accept/reject agreement, the same compiled tree (positions included) for every rule of an accepted text through every entry point, the full build's verdict and installed names / saliences / descriptions equal to those the reader model (Lang/Reader.v, evaluated inside Coq on the text) computes, exact state equality on reject, on accept the state equals the replacement / merge of the rules the text defines, sortedness and index consistency afterwards; "
                        "distinct non-trivial = distinct texts that are valid with >= 2 rules, or mutated, or on which the entry points disagree",
                "reader_model": {"texts_decided_inside_coq": len(rcs) - runsup, "outside_model_domain": runsup, "disagreements": len(reader_problems)},
                "streams": stream_stats, "entry_points": ENTRIES5, "traces_validated_against_impl": len(texts),
                "samples": [{"text": texts[20][1], "accepted_by": [e["entry"] for e in obs[20]["entries"] if not e["err"]]}, {"text": texts[0][1], "accepted_by": [e["entry"] for e in obs[0]["entries"] if not e["err"]]}]})
    run.assumptions = ["totality (returns normally for every byte string) is OBSERVED over the generated streams, not proved: the ANTLR runtime and generated lexer/parser are a black box [front] in Compile/Model.v",
                       "the listener records an error for a name defined twice in one text (ExitRuleEntity) — assumption of duplicate_rejected, exercised by the fixed texts",
                       "the translator (xlate compile) reports faithfully which error lists each entry point tests and that nothing is installed before"]
    return run.finish()


def replay(run, data):
    build_harness()
    st, out, err = run_harness_child("compile", [{"id": 0, "base": data["replay"]["base"], "mid": data["replay"].get("mid", ""), "rm": data["replay"].get("rm", []), "reclear": data["replay"].get("reclear", False), "text": data["replay"]["text"]}], timeout=60)
    print(st, json.dumps(out)[:1500] if out else err)
    if st != "ok":
        return 1
    acc = [not e["err"] for e in out[0]["entries"]]
    return 1 if len(set(acc)) > 1 or any(e.get("panic") for e in out[0]["entries"]) else 0
