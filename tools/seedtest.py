#!/usr/bin/env python3
"""Seeded-change experiments.

  seedtest.py confirm <worktree> <Cxx> <slug>   — confirm a sub-agent's change in its scratch worktree (patch applies to
        a clean checkout, builds, demonstration fails with it and passes without it, pinned suite still passes), then store it
        as /verif/seeded/<slug>/ (patch.diff, demo test, meta.json).
  seedtest.py run <slug> [Cxx ...]              — apply /verif/seeded/<slug>/patch.diff to /repo, run the quick checks
        (default: the property it breaks + related), undo, and record which checks raised a VIOLATION in meta.json.
"""
import json
import os
import re
import shutil
import subprocess
import sys
import time

ROOT = os.path.dirname(os.path.dirname(os.path.abspath(__file__)))
ENV = dict(os.environ, GOFLAGS="-mod=mod", GOPROXY="off", GOSUMDB="off", GOTOOLCHAIN="local")
BASELINE_FAIL = {"Test_lexer", "Test_pligin"}


def sh(cmd, cwd=None, timeout=3000):
    p = subprocess.run(cmd, cwd=cwd, shell=isinstance(cmd, str), env=ENV, stdout=subprocess.PIPE, stderr=subprocess.STDOUT, universal_newlines=True, timeout=timeout)
    return p.returncode, p.stdout


def confirm(wt, pid, slug):
    demo = os.path.join(wt, "test", "seeded_%s_test.go" % pid.lower())
    if not os.path.exists(demo):
        cands = [f for f in os.listdir(os.path.join(wt, "test")) if f.startswith("seeded_")]
        if not cands:
            print("no demonstration test found")
            return 1
        demo = os.path.join(wt, "test", cands[0])
    rc, diff = sh("git diff -- . ':(exclude)test/seeded_*' ':(exclude)patch.diff' ':(exclude)*.diff'", cwd=wt)
    if not diff.strip():
        print("no source change in the worktree")
        return 1
    testname = re.search(r"func (TestSeeded\w+)\(", open(demo).read())
    testname = testname.group(1) if testname else "TestSeeded" + pid
    meta = {"property": pid, "slug": slug, "confirmed_at": time.strftime("%Y-%m-%d %H:%M:%S"), "ran": []}
    # with the change
    rc1, out1 = sh("go build ./engine/ ./builder/ ./context/ ./internal/...", cwd=wt)
    meta["ran"].append({"cmd": "go build (changed tree)", "rc": rc1})
    if rc1 != 0:
        print("changed tree does not build:\n" + out1[-1500:])
        return 1
    rcw, outw = sh("go test -vet=off -count=1 -run '^%s$' ./test/" % testname, cwd=wt, timeout=900)
    meta["ran"].append({"cmd": "go test -run %s (with the change)" % testname, "rc": rcw, "tail": outw[-600:]})
    # without the change
    changed = [l.split()[-1] for l in sh("git diff --name-only -- . ':(exclude)test/seeded_*' ':(exclude)patch.diff'", cwd=wt)[1].split("\n") if l.strip()]
    tmp = os.path.join(wt, ".seed_confirm.diff")          # no git stash: refs/stash is shared between worktrees
    open(tmp, "w").write(diff)
    sh("git apply -R --whitespace=nowarn .seed_confirm.diff", cwd=wt)
    rco, outo = sh("go test -vet=off -count=1 -run '^%s$' ./test/" % testname, cwd=wt, timeout=900)
    sh("git apply --whitespace=nowarn .seed_confirm.diff", cwd=wt)
    os.remove(tmp)
    meta["ran"].append({"cmd": "go test -run %s (without the change)" % testname, "rc": rco, "tail": outo[-300:]})
    print("demonstration: with change rc=%d, without rc=%d" % (rcw, rco))
    if rcw == 0 or rco != 0:
        print("demonstration does not discriminate:\n--- with ---\n%s\n--- without ---\n%s" % (outw[-1200:], outo[-1200:]))
        return 1
    # the pinned suite with the change (demo test excluded)
    tmpdemo = demo + ".off"
    os.rename(demo, tmpdemo)
    # the pinned suite: every test of BASELINE.json's stable_pass list must still pass.
    # (Test_lexer panics also on the pinned tree and would abort the rest of its package: skipped, like Test_pligin.)
    rcs, outs = sh("go test -json -vet=off -count=1 -timeout 25m -skip '^(Test_lexer|Test_pligin)$' ./... 2>&1", cwd=wt, timeout=2400)
    os.rename(tmpdemo, demo)
    passed = set()
    for line in outs.split("\n"):
        try:
            ev = json.loads(line)
        except ValueError:
            continue
        if ev.get("Action") == "pass" and ev.get("Test"):
            passed.add(ev["Package"] + "::" + ev["Test"])
    stable = json.load(open("/root/.vp/BASELINE.json"))["stable_pass"]
    missing = [t for t in stable if t not in passed]
    meta["ran"].append({"cmd": "go test -json -vet=off -count=1 -skip '^(Test_lexer|Test_pligin)$' ./... (with the change, demonstration excluded)", "stable_pass_tests": len(stable), "not_passing": missing})
    print("suite with the change: %d of %d baseline tests pass; not passing: %s" % (len(stable) - len(missing), len(stable), missing))
    if missing:
        return 1
    d = os.path.join(ROOT, "seeded", slug)
    os.makedirs(d, exist_ok=True)
    open(os.path.join(d, "patch.diff"), "w").write(diff)
    shutil.copy(demo, os.path.join(d, os.path.basename(demo) + ".txt"))
    meta["breaks"] = pid
    meta["files_changed"] = changed
    json.dump(meta, open(os.path.join(d, "meta.json"), "w"), indent=1)
    print("stored", d)
    return 0


def run(slug, checks):
    d = os.path.join(ROOT, "seeded", slug)
    meta = json.load(open(os.path.join(d, "meta.json")))
    if not checks:
        checks = [meta["breaks"]]
    rc, out = sh("git status --porcelain", cwd="/repo")
    if out.strip():
        print("/repo is not clean; refusing")
        return 2
    rc, out = sh("git apply --whitespace=nowarn %s" % os.path.join(d, "patch.diff"), cwd="/repo")
    if rc != 0:
        print("patch does not apply to /repo:", out)
        return 2
    results = {}
    evdir = os.path.join(ROOT, "evidence")
    saved = os.path.join(ROOT, "build", "evidence.saved")
    shutil.rmtree(saved, ignore_errors=True)
    shutil.copytree(evdir, saved)           # evidence files must come from runs on the UNCHANGED tree
    try:
        for c in checks:
            t0 = time.time()
            rc, out = sh([os.path.join(ROOT, "bin", "vcheck"), c, "--tier", "quick"], cwd=ROOT, timeout=3000)
            viol = [l for l in out.split("\n") if l.startswith("VIOLATION")]
            first = ""
            lines = out.split("\n")
            for i, l in enumerate(lines):
                if l.startswith("VIOLATION") and i + 1 < len(lines):
                    first = lines[i + 1].strip()[:300]
                    break
            results[c] = {"exit": rc, "violations": len(viol), "no_input": sum(1 for v in viol if v.endswith("no-failing-input-found")), "first": first, "wall_s": round(time.time() - t0, 1)}
            print(c, results[c])
    finally:
        sh("git checkout -- .", cwd="/repo")
        sh("git clean -fdq -- engine builder context internal", cwd="/repo")
        shutil.rmtree(evdir, ignore_errors=True)
        shutil.copytree(saved, evdir)
    meta.setdefault("detection", {}).update(results)
    meta["detected_by"] = sorted(k for k, v in meta["detection"].items() if v["violations"] > 0)
    json.dump(meta, open(os.path.join(d, "meta.json"), "w"), indent=1)
    shutil.rmtree(os.path.join(ROOT, "replays"), ignore_errors=True)
    return 0


if __name__ == "__main__":
    if sys.argv[1] == "confirm":
        sys.exit(confirm(sys.argv[2], sys.argv[3], sys.argv[4]))
    sys.exit(run(sys.argv[2], sys.argv[3:]))
