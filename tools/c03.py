"""C03 — injected data is read, written and called faithfully."""
import itertools
import copy
from langgen import *  # noqa

PID = "C03"

SRC = {  # source values by class: (typed value injected as `src`)
    "int": [tv_int("i64", z) for z in (0, 7, -3, 127, 200, 255, 40000, -129, 2 ** 31 - 1, 2 ** 40)] + [tv_int("i8", -5), tv_int("i16", 300), tv_int("i32", -70000)],
    "uint": [tv_int("u64", z) for z in (0, 9, 255, 256, 65535, 2 ** 32 - 1, 2 ** 63)] + [tv_int("u8", 250), tv_int("u16", 60000)],
    "float": [tv_float("f64", f) for f in (0.0, 3.0, -2.0, 2.5, 255.0, 1024.0, -7.75, 100000.0)] + [tv_float("f32", 6.5)],
    "str": [tv_str("hello"), tv_str("")],
    "bool": [tv_bool(True), tv_bool(False)],
}
# integers that a float64 cannot carry exactly: a store between the signed and unsigned classes must not pass through one
BIG = {"int": [tv_int("i64", z) for z in (2 ** 53 + 1, 2 ** 63 - 1, -(2 ** 53) - 1, 1234567890123456789)],
       "uint": [tv_int("u64", z) for z in (2 ** 53 + 1, 2 ** 63 - 1, 2 ** 64 - 1, 8765432109876543211)]}
FIELD_PATHS = ["h.I8", "h.I32", "h.I64", "h.U8", "h.U64", "h.F32", "h.F64", "h.S", "h.B",
               "h.Sub.N", "h.Sub.F", "h.Sub.S", "h.Sub.U8", "h.PSub.N", "h.PSub.F", "h.PSub.U8"]


def host(**kw):
    return inj_struct("h", fields={"I8": tv_int("i8", -1), "I32": tv_int("i32", 11), "I64": tv_int("i64", 12), "U8": tv_int("u8", 13), "U64": tv_int("u64", 14),
                                   "F32": tv_float("f32", 1.5), "F64": tv_float("f64", 2.5), "S": tv_str("s0"), "B": tv_bool(False)},
                      sub={"N": tv_int("i64", 21), "F": tv_float("f64", 0.25), "S": tv_str("sub"), "U8": tv_int("u8", 22)},
                      psub={"N": tv_int("i64", 31), "F": tv_float("f64", 0.75), "S": tv_str("psub"), "U8": tv_int("u8", 32)},
                      m={"k": 10, "j": 2}, sl=[4, 5, 6], ar=[1, 2, 3], **kw)


def f32_exact(v):
    if v["t"] in FLOAT_T:
        return v.get("c") != "fin" or int(v["m"]) % (1 << 29) == 0
    return abs(int(v["z"])) < 2 ** 24


def in_domain(field, cls, v):
    """declared model domain: no non-string into a string target (Go stores "<T Value>"), float32 targets only for
    exactly representable values"""
    if field == "S" and cls != "str":
        return False
    if field == "F32" and cls in ("int", "uint", "float") and not f32_exact(v):
        return False
    return True


def rd(path):
    return ("expr", emath(mvar(path)))


def make_cases(rng, tier):
    cases = []
    cid = 0

    def add(body, inj, **kw):
        nonlocal cid
        cases.append(make_case(cid, body, inj, **kw))
        cid += 1

    # (1) writes to struct fields, one and two levels, every source class x every target
    for path in FIELD_PATHS:
        for cls, vals in SRC.items():
            big = BIG.get(cls, [])
            for v in (vals + big if tier != "quick" else rng.sample(vals, min(4, len(vals))) + rng.sample(big, min(1, len(big)))):
                if not in_domain(path.split(".")[-1], cls, v):
                    continue
                add(block([assign(("var", path), "=", ("math", mvar("src")))], rd(path)), [host(), inj_val("src", v)])
    # a store of a value that COMPARES EQUAL to what the target holds but is not that value (the zeros of opposite sign), and of the
    # very value it holds: the host sees the assigned value afterwards, sign bit included
    for (cur, new_) in ((0.0, -0.0), (-0.0, 0.0), (-0.0, -0.0), (2.5, 2.5)):
        for path, t in (("h.F64", "f64"), ("h.F32", "f32"), ("h.Sub.F", "f64"), ("h.PSub.F", "f64")):
            fields = {"F64": tv_float("f64", cur), "F32": tv_float("f32", cur)}
            hh = inj_struct("h", fields=fields, sub={"F": tv_float("f64", cur)}, psub={"F": tv_float("f64", cur)})
            for st in ("f64", "f32"):
                add(block([assign(("var", path), "=", ("math", mvar("src")))], rd(path)), [copy.deepcopy(hh), inj_val("src", tv_float(st, new_))])
        add(block([assign(("var", "p"), "=", ("math", mvar("src")))]), [inj_ptr("p", tv_float("f64", cur)), inj_val("src", tv_float("f64", new_))])
    # struct by value is not assignable; reading works
    add(block([assign(("var", "hv.I64"), "=", ("math", mint(5)))]), [dict(host(), name="hv", kind="structv")])
    add(block([], rd("hv.Sub.N")), [dict(host(), name="hv", kind="structv")])
    # (2) pointer-injected scalars of every kind x every source class
    for t in INT_T + UINT_T + FLOAT_T + ["s", "b"]:
        for cls, vals in SRC.items():
            big = BIG.get(cls, [])
            for v in (vals + big if tier != "quick" else rng.sample(vals, min(3, len(vals))) + rng.sample(big, min(1, len(big)))):
                if t == "f32" and cls in ("int", "uint", "float") and not f32_exact(v):
                    continue
                add(block([assign(("var", "p"), "=", ("math", mvar("src")))]), [inj_ptr("p", zero_tv(t)), inj_val("src", v)])
    # (3) containers: maps with string / int keys (literal, variable), slices and arrays (literal, variable index), direct and by pointer
    ets = ["i8", "i32", "i64", "u8", "u64", "f64", "s", "b"] if tier == "quick" else INT_T + UINT_T + FLOAT_T + ["s", "b"]
    for et in ets:
        vals = {"i": SRC["int"], "u": SRC["uint"], "f": SRC["float"], "s": SRC["str"], "b": SRC["bool"]}[et[0]]
        for byptr in (False, True):
            for v in rng.sample(vals, min(3, len(vals))):
                same = dict(v, t=et) if et[0] in "iuf" and et in BITS and -2 ** (BITS[et] - 1) <= int(v.get("z", "0")) < 2 ** (BITS[et] - (0 if et[0] == "u" else 1)) and (et[0] != "u" or int(v.get("z", "0")) >= 0) else v
                e0 = zero_tv(et)
                m = inj_map("m", "s", et, [(tv_str("a"), e0)], byptr=byptr)
                add(block([assign(("map", mapvar("m", ("str", "a"))), "=", ("math", mvar("src")))], ("expr", emath(matom(amap(mapvar("m", ("str", "a"))))))), [m, inj_val("src", v)])
                add(block([assign(("map", mapvar("m", ("str", "new"))), "=", ("math", mvar("src")))], ("expr", emath(matom(amap(mapvar("m", ("str", "zz"))))))), [m, inj_val("src", same)])
                mi = inj_map("m", "i64", et, [(tv_int("i64", 3), e0)], byptr=byptr)
                add(block([assign(("map", mapvar("m", ("int", 3))), "=", ("math", mvar("src")))], ("expr", emath(matom(amap(mapvar("m", ("int", 4))))))), [mi, inj_val("src", same)])
                add(block([assign(("map", mapvar("m", ("var", "k"))), "=", ("math", mvar("src")))]), [mi, inj_val("src", same), inj_val("k", tv_int("i64", 3))])
                for arr in (False, True):
                    sq = inj_seq("q", et, [e0, e0, e0], byptr=byptr, array=arr)
                    add(block([assign(("map", mapvar("q", ("int", 1))), "=", ("math", mvar("src")))], ("expr", emath(matom(amap(mapvar("q", ("int", 1))))))), [sq, inj_val("src", same)])
                    add(block([assign(("map", mapvar("q", ("var", "k"))), "=", ("math", mvar("src")))]), [sq, inj_val("src", v), inj_val("k", tv_int("i", 2))])
    # a NEGATIVE integer is an ordinary key of an int-keyed map: literal and variable keys, maps injected by value and by
    # pointer (index checks belong to slices and arrays only)
    for byp in (False, True):
        for kt in ("i64", "i32", "i8"):
            mk = lambda: inj_map("m", kt, "i64", [(tv_int(kt, -1), tv_int("i64", 5)), (tv_int(kt, 3), tv_int("i64", 6))], byptr=byp)
            add(block([assign(("map", mapvar("m", ("int", -1))), "=", ("math", mint(70)))], ("expr", emath(matom(amap(mapvar("m", ("int", -1))))))), [mk()])
            add(block([assign(("map", mapvar("m", ("int", -40))), "=", ("math", mint(71)))], ("expr", emath(matom(amap(mapvar("m", ("int", -40))))))), [mk()])
            add(block([assign(("var", "kx"), "=", ("math", mint(-40))), assign(("map", mapvar("m", ("var", "kx"))), "+=", ("math", mint(72)))],
                      ("expr", emath(matom(amap(mapvar("m", ("int", -40))))))), [mk()])
    # key coercion, out-of-range and wrong-kind indexes
    for kt, kv in [("i8", tv_int("i64", 3)), ("i32", tv_int("i8", 3)), ("i64", tv_int("i8", 3)), ("u8", tv_int("u64", 3)), ("u8", tv_int("i64", 3)), ("s", tv_int("i64", 3))]:
        kk = tv_str("3") if kt == "s" else dict(tv_int(kt, 3))
        add(block([], ("expr", emath(matom(amap(mapvar("m", ("var", "k"))))))), [inj_map("m", kt, "i64", [(kk, tv_int("i64", 77))]), inj_val("k", kv)])
    for idx in (("int", 5), ("int", -1), ("var", "k"), ("str", "x")):
        add(block([], ("expr", emath(matom(amap(mapvar("q", idx)))))), [inj_seq("q", "i32", [tv_int("i32", 1), tv_int("i32", 2)]), inj_val("k", tv_int("u8", 1))])
        add(block([assign(("map", mapvar("q", idx)), "=", ("math", mint(9)))]), [inj_seq("q", "i32", [tv_int("i32", 1), tv_int("i32", 2)]), inj_val("k", tv_int("u8", 1))])
    # fields that are containers: h.M / h.SL / h.AR
    add(block([assign(("map", mapvar("h.M", ("str", "k"))), "+=", ("math", mint(5))), assign(("map", mapvar("h.SL", ("int", 2))), "=", ("math", mint(70))),
               assign(("map", mapvar("h.AR", ("int", 0))), "=", ("math", mvar("u")))], ("expr", emath(matom(amap(mapvar("h.M", ("str", "missing"))))))), [host(), inj_val("u", tv_int("u8", 200))])
    # (4) calls: every parameter kind x every argument class; arity faults; methods and three-level calls
    for fn, (params, _) in FUNCS.items():
        if fn in ("Hold",):
            continue
        if len(params) == 1:
            for cls, vals in SRC.items():
                for v in rng.sample(vals, min(2, len(vals))):
                    if params[0] == "f32" and cls == "float" and v.get("c") == "fin" and abs(int(v["m"])) % (1 << 29) != 0:
                        continue
                    if params[0] == "f32" and cls in ("int", "uint", "float") and not f32_exact(v):
                        continue        # declared domain: float32 targets only for exactly representable values (as for fields)
                    add(block([], ("expr", emath(matom(acall(call("func", fn, [("var", "src")])))))), [inj_func(fn), inj_val("src", v)])
    # small integers around the signed-byte and byte boundaries, handed to every integer parameter kind from each number class
    for z in (127, 128, 129, -128, -129, 255, 256, -1):
        for fn in ("IdI", "IdI8", "IdI16", "IdI64", "IdU", "IdU8", "IdU16"):
            srcs = [tv_int("i64", z), tv_float("f64", float(z))] + ([tv_int("u16", z)] if z >= 0 else [])
            for v in srcs:
                add(block([], ("expr", emath(matom(acall(call("func", fn, [("var", "src")])))))), [inj_func(fn), inj_val("src", v)])
        add(block([], ("expr", emath(matom(acall(call("func", "IdI", [("const", kint(z))])))))), [inj_func("IdI")])
    # unsigned arguments at and above 2^63 (exactly representable as floats) handed to float parameters, and to every integer kind
    for z in (2 ** 63, 3 * 2 ** 62, 2 ** 63 + 2048, 2 ** 64 - 2048):
        for fn in ("IdF64", "IdU64", "IdI64", "IdU", "IdU8") + (("IdF32",) if z in (2 ** 63, 3 * 2 ** 62) else ()):
            add(block([], ("expr", emath(matom(acall(call("func", fn, [("var", "src")])))))), [inj_func(fn), inj_val("src", tv_int("u64", z))])
        add(block([], ("expr", emath(matom(acall(call("func", "Two", [("var", "a"), ("var", "b")])))))), [inj_func("Two"), inj_val("a", tv_int("u8", 9)), inj_val("b", tv_int("u64", z))])
        add(block([scall(call("method", "h.IdF64", [("var", "src")]))]), [host(), inj_val("src", tv_int("u", z))])
    add(block([], ("expr", emath(matom(acall(call("func", "Two", [("var", "a"), ("var", "b")])))))), [inj_func("Two"), inj_val("a", tv_int("u8", 9)), inj_val("b", tv_int("i32", -4))])
    add(block([], ("expr", emath(matom(acall(call("func", "Mix3", [("const", kint(300)), ("const", kstr("x")), ("const", kreal("2.0"))])))))), [inj_func("Mix3")])
    add(block([], ("expr", emath(matom(acall(call("func", "Two", [("var", "a")])))))), [inj_func("Two"), inj_val("a", tv_int("u8", 9))])
    add(block([], ("expr", emath(matom(acall(call("func", "IdI64", [("const", kint(1)), ("const", kint(2))])))))), [inj_func("IdI64")])
    add(block([scall(call("func", "NoRet", [])), scall(call("func", "Boom", [])), scall(call("func", "Nope", []))]), [inj_func("NoRet"), inj_func("Boom")])
    add(block([assign(("var", "x"), "=", ("math", matom(acall(call("func", "NoRet", [])))))], ("expr", emath(mvar("x")))), [inj_func("NoRet")])
    add(block([scall(call("method", "h.Mark", [("const", kint(4))]))], ("expr", emath(matom(acall(call("method", "h.IdU8", [("var", "h.I64")])))))), [host()])
    add(block([], ("expr", emath(matom(acall(call("three", "h.PSub.GetN", [("const", kint(6))])))))), [host()])
    add(block([], ("expr", emath(matom(acall(call("three", "h.Sub.GetN", [("const", kint(6))])))))), [host()])
    add(block([scall(call("method", "h.Boom", [])), scall(call("method", "h.Nope", [])), scall(call("method", "zz.Mark", [("const", kint(1))]))]), [host()])
    # value-receiver methods through a pointer, a struct value and a struct-typed field — the same method name sits at different
    # indexes of the two method sets; both orders within one text, and pointer-receiver methods asked of a value
    hv = lambda: dict(host(), name="hv", kind="structv")
    for first, second in (("h.Echo", "hv.Echo"), ("hv.Echo", "h.Echo")):
        add(block([assign(("var", "x"), "=", ("math", matom(acall(call("method", first, [("const", kint(7))])))))],
                  ("expr", emath(mk_mbin("+", mvar("x"), matom(acall(call("method", second, [("const", kint(30))]))))))), [host(), hv()])
    for first, second in (("h.Sub.EchoN", "h.PSub.EchoN"), ("h.PSub.EchoN", "h.Sub.EchoN"), ("hv.Sub.EchoN", "h.PSub.GetN")):
        inj = [host(), hv()] if first.startswith("hv") else [host()]
        add(block([assign(("var", "x"), "=", ("math", matom(acall(call("three", first, [("const", kint(6))])))))],
                  ("expr", emath(mk_mbin("+", mvar("x"), matom(acall(call("three", second, [("const", kint(40))]))))))), inj)
    add(block([], ("expr", emath(matom(acall(call("method", "hv.Id64", [("const", kint(1))])))))), [hv()])
    add(block([scall(call("method", "hv.Mark", [("const", kint(1))]))], ("expr", emath(matom(acall(call("method", "hv.Echo", [("const", kint(2))])))))), [hv()])
    # (5) an injected name always refers to the injected object, even if a "local" of that name is assigned
    add(block([assign(("var", "a"), "=", ("math", mint(5)))], rd("a")), [inj_val("a", tv_int("i64", 1))])
    add(block([assign(("var", "p"), ":=", ("math", mint(5))), assign(("var", "p2"), "=", ("math", mint(6)))], rd("p2")), [inj_ptr("p", tv_int("i16", 1))])
    add(block([assign(("var", "Mark"), "=", ("math", mint(5))), scall(call("func", "Mark", [("const", kint(2))]))]), [inj_func("Mark")])
    # a local bound to a pointer into the host and then re-assigned is rebound; the host cell is not written
    add(block([assign(("var", "v"), "=", ("math", matom(acall(call("method", "h.Slot", []))))), assign(("var", "v"), "=", ("math", mint(42)))], rd("h.I64")), [host()])
    add(block([assign(("var", "v"), "=", ("math", matom(acall(call("method", "h.Slot", []))))), assign(("var", "v"), "=", ("math", mint(42)))], rd("v")), [host()])
    # the SAME compiled rule executed first WITHOUT a name injected (its assignment then binds a local) and then WITH it injected
    # as a pointer (the assignment must now write the injected scalar): nothing about a name may be remembered between executions
    for tgt_t, v in (("i64", 1), ("u8", 3), ("f64", None)):
        c0 = len(cases)
        add(block([assign(("var", "Total"), "=", ("math", mint(7))), assign(("var", "Total"), "+=", ("math", mint(1)))]), [])
        cases[c0]["reinject"], cases[c0]["inject2"] = True, [inj_ptr("Total", tv_float("f64", 0.5) if v is None else tv_int(tgt_t, v))]
    # reads of missing things
    add(block([], rd("h.Nope")), [host()])
    add(block([], rd("nope")), [host()])
    add(block([], rd("h.Sub.Nope")), [host()])
    add(block([], rd("x.y")), [])
    # (6) random programs mixing reads / writes / calls
    n_rand = 150 if tier == "quick" else 6000
    for _ in range(n_rand):
        g = StmtGen(rng, wild=0.02)
        add(g.blk(rng.randint(1, 2), False, top=True), g.inject() + [inj_map("mp1", "s", "i64", [(tv_str("only"), tv_int("i64", 9))])])
    # every third case is then executed AGAIN on the same data context after the host has bound FRESH objects to the same
    # names (no Del in between): reads must see the new objects' current values and writes must land in them
    for c in cases:
        if c["id"] % 3 == 0:
            c["reinject"] = True
    return cases


def nontrivial(c, o):
    if o["class"] != "ok":
        return None
    srcs = [d for d in c["inject"] if d["name"] == "src"]
    tgt = [d["kind"] + ":" + d.get("et", d.get("v", {}).get("t", "")) for d in c["inject"] if d["name"] in ("m", "q", "p", "h")]
    first = c["body"]["stmts"][0] if c["body"]["stmts"] else None
    path = None
    if first and first.get("s") == "assign":
        path = first["target"][1] if first["target"][0] == "var" else first["target"][1]["name"] + str(first["target"][1]["key"][0])
    return (path, srcs[0]["v"]["t"] if srcs else None, tuple(tgt), tree_shape_key(c["body"]) if not srcs else None)


RULE = ("systematic: writes `target = src` for every target in 16 struct-field paths (one and two levels, by value and by pointer) x 5 source classes x source values (boundaries of every width); pointer-injected scalars of all 14 kinds x source classes; "
        "maps with string / int64 / variable keys, slices and arrays with literal / variable indexes, injected directly and by pointer, over 8 (thorough 14) element kinds; key coercion and out-of-range / negative / string indexes; container fields of a struct; "
        "stores of a zero of the opposite sign (and of the very value held) into float fields and pointer-injected floats; calls of every catalogue function with every argument class, arity faults, missing functions, panicking functions, methods and three-level calls; shadowing of injected names; reads of missing names / fields; random programs; six driver-stated scenarios in which the host injects an object / a function / a key under a name the rule has already bound as a local (method, three-level and function calls must then reach the injected one; m[k] and m[k] += 1 must use the injected k); every third text executed a second time after fresh objects were re-injected under the same names into the same data context; "
        "compared: returned value, recorded calls with the dynamic types of the received arguments, and the WHOLE host store afterwards (so untouched data is checked too); distinct non-trivial = distinct (target path, source kind, container kinds) whose run succeeded")


def publish_scenarios():
    """An injected name always refers to the injected object — also when the rule bound a LOCAL of that name first and the host
    injected the object afterwards, while the rule was running (Publish calls DataContext.Add).  From then on calls a.m(..),
    a.b.m(..) and a(..) reach the injected object (Counter 2 / 22, HostF), as reads and writes of a.N do.  Stated here: the Coq
    host model has no function that injects."""
    fcall = lambda n, args=(): scall(call("func", n, list(args)))
    out = []
    b1 = block([assign(("var", "acc"), "=", ("math", matom(acall(call("func", "NewC", []))))), scall(call("method", "acc.Add", [("const", kint(1))])), fcall("Publish"),
                scall(call("method", "acc.Add", [("const", kint(10))])), scall(call("three", "acc.In.Add", [("const", kint(20))]))], ("expr", emath(mvar("acc.N"))))
    out.append(("method-and-three-level-call-after-the-host-injected-the-name", b1, [inj_func("NewC"), inj_func("Publish")],
                {"class": "ok", "seq": [["NewC"], ["CAdd", "1", "1"], ["Publish"], ["CAdd", "2", "10"], ["CAdd", "22", "20"]]}))
    b2 = block([assign(("var", "fn"), "=", ("math", matom(acall(call("func", "NewF", []))))), fcall("Publish"), fcall("fn", [("const", kint(5))])])
    out.append(("function-call-after-the-host-injected-the-name", b2, [inj_func("NewF"), inj_func("Publish")], {"class": "ok", "seq": [["NewF"], ["Publish"], ["HostF", "5"]]}))
    # the VARIABLE KEY of an element access is resolved like any other name: once the host has injected `k`, m[k] means the injected k
    mpk = lambda: inj_map("mp", "i64", "i64", [(tv_int("i64", 1), tv_int("i64", 10)), (tv_int("i64", 2), tv_int("i64", 20))])
    sqk = lambda: inj_seq("sq", "i64", [tv_int("i64", 7), tv_int("i64", 8), tv_int("i64", 9)])
    rdk = lambda nm: ("expr", emath(matom(amap(mapvar(nm, ("var", "k"))))))
    for nm, inj, want in (("mp", mpk, 20), ("sq", sqk, 9)):
        bk = block([assign(("var", "k"), "=", ("math", mint(1))), fcall("Publish")], rdk(nm))
        out.append(("variable-key-after-the-host-injected-the-key-name-" + nm, bk, [inj(), inj_func("Publish")], {"class": "ok", "ret": want}))
    bw = block([assign(("var", "k"), "=", ("math", mint(1))), fcall("Publish"), assign(("map", mapvar("mp", ("var", "k"))), "+=", ("math", mint(1)))], rdk("mp"))
    out.append(("compound-assignment-through-a-variable-key-after-the-host-injected-the-key-name", bw, [mpk(), inj_func("Publish")], {"class": "ok", "ret": 21}))
    # a call whose ARGUMENT failed to evaluate (in an earlier rule of the same call, which goes on), then nested calls: every
    # call receives the values of ITS argument expressions, whatever became of earlier argument lists (the call as a whole reports
    # the earlier rules' errors: class error; the rule under observation returns its value all the same)
    bad_arg = ("var", "nope")
    fails = {"function": scall(call("func", "IdI64", [bad_arg])), "method": scall(call("method", "h.Id64", [bad_arg])), "three-level": scall(call("three", "h.PSub.GetN", [bad_arg])),
             "inner-function": scall(call("func", "IdI64", [("call", call("func", "IdI64", [bad_arg]))]))}
    for kind, st in fails.items():
        pre = [("p0", None, 50, block([st])), ("p1", None, 40, block([st, st]))]
        bn = block([], ("expr", emath(matom(acall(call("func", "Mix3", [("const", kint(7)), ("const", kstr("s")), ("call", call("func", "IdI32", [("const", kint(9))]))]))))))
        out.append(("nested-call-after-a-failed-argument-evaluation-in-a-%s-call" % kind, bn, [inj_func("Mix3"), inj_func("IdI32"), inj_func("IdI64"), inj_struct("h")],
                    {"class": "error", "ret": 9, "seq": [["IdI32", "9"], ["Mix3", "7", "s", "9"]]}, pre))
        bm = block([scall(call("method", "h.Mark", [("call", call("func", "Two", [("call", call("func", "IdI64", [("const", kint(4))])), ("call", call("func", "IdF64", [("const", kreal("2.5"))]))]))]))])
        out.append(("nested-calls-in-a-method-argument-after-a-failed-argument-evaluation-in-a-%s-call" % kind, bm, [inj_func("Two"), inj_func("IdF64"), inj_func("IdI64"), inj_struct("h")],
                    {"class": "error", "seq": [["IdI64", "4"], ["IdF64", ""], ["Two", "4", ""], ["Mark", "4"]]}, pre))
    b3 = block([assign(("var", "acc"), "=", ("math", matom(acall(call("func", "NewC", []))))), scall(call("method", "acc.Add", [("const", kint(1))])), scall(call("three", "acc.In.Add", [("const", kint(2))]))])
    out.append(("calls-on-a-local-object", b3, [inj_func("NewC")], {"class": "ok", "seq": [["NewC"], ["CAdd", "1", "1"], ["CAdd", "11", "2"]]}))
    return out


def stated(run):
    bad = stated_scenarios(run, PID, publish_scenarios(), "a name that is injected refers to the injected object in reads, writes AND calls, even if a local of that name was bound before")
    return bad == 0, {"stated_scenarios": len(publish_scenarios())}


def main(run):
    return lang_check(run, PID, make_cases, RULE,
                      ["float -> integer and float64 -> float32 conversions are compared only for representable values (the property's guard); string targets receiving non-strings are outside the model"], nontrivial,
                      extra=("stated_C03: calls through a name the host injects while the rule runs reach the injected object; nested calls after an argument list that failed to evaluate receive their own arguments (driver-stated expectations on the recorded calls)", stated))


def replay(run, data):
    return replay_lang(run, data)
