#!/bin/sh
# Re-runs every seeded change against the CURRENT checks (its own property's check plus the others that caught it before).
cd "$(dirname "$0")/.." || exit 2
for d in seeded/*/; do
  slug=$(basename "$d")
  checks=$(python3 - "$d/meta.json" <<'PY'
import json, sys
m = json.load(open(sys.argv[1]))
cs = [m["breaks"]] + [c for c in sorted(m.get("detection", {})) if c != m["breaks"]]
m["detection"] = {}
json.dump(m, open(sys.argv[1], "w"), indent=1)
print(" ".join(cs))
PY
)
  echo "== $slug: $checks"
  python3 tools/seedtest.py run "$slug" $checks 2>&1 | cut -c1-260
done
python3 tools/seedreadme.py
