"""Rule-level family (C01 C02 C03 C09 C11 C15 C18 C20): AST, printer (text + positions +
expected listener tree), Coq emitters, host-object descriptions and the campaign driver.

The AST mirrors coq/theories/Lang/Syntax.v constructor by constructor. The printer emits
the text WITHOUT any parentheses of its own: parentheses are explicit nodes (mparen /
eparen), and the generators only build trees whose shape is the one the grammar's
precedence and left-associativity produce for the printed text — so the comparison of the
expected tree with the tree the real listener built (obtained by reflection) is what ties
precedence and associativity to the parser.
"""
import json
import math
import random

from common import *  # noqa

INT_T = ["i", "i8", "i16", "i32", "i64"]
UINT_T = ["u", "u8", "u16", "u32", "u64"]
FLOAT_T = ["f32", "f64"]
BITS = {"i": 64, "i8": 8, "i16": 16, "i32": 32, "i64": 64, "u": 64, "u8": 8, "u16": 16, "u32": 32, "u64": 64}
COQ_STY = {"i": "TI KI", "i8": "TI KI8", "i16": "TI KI16", "i32": "TI KI32", "i64": "TI KI64",
           "u": "TU KU", "u8": "TU KU8", "u16": "TU KU16", "u32": "TU KU32", "u64": "TU KU64",
           "f32": "TF KF32", "f64": "TF KF64", "s": "TS", "b": "TB"}


# ---------------------------------------------------------------- typed values
def tv_int(t, z):
    return {"t": t, "z": str(z)}


def tv_float(t, f):
    if f != f:
        return {"t": t, "c": "nan"}
    if f in (float("inf"), float("-inf")):
        return {"t": t, "c": "+inf" if f > 0 else "-inf"}
    if f == 0:
        return {"t": t, "c": "-0" if math.copysign(1, f) < 0 else "+0"}
    fr, ex = math.frexp(f)
    return {"t": t, "c": "fin", "m": str(int(fr * (1 << 53))), "e": ex - 53}


def tv_str(s):
    return {"t": "s", "s": s}


def tv_bool(b):
    return {"t": "b", "b": bool(b)}


def coq_float(tv):
    c = tv.get("c")
    if c == "fin":
        return "(prim_of_me %s %s)" % (coq_z(int(tv["m"])), coq_z(tv.get("e", 0)))
    return {"nan": "PrimFloat.nan", "+inf": "PrimFloat.infinity", "-inf": "PrimFloat.neg_infinity",
            "+0": "PrimFloat.zero", "-0": "PrimFloat.neg_zero"}[c]


def coq_value(tv):
    t = tv["t"]
    if t in INT_T:
        return "(vint %s %s)" % (COQ_STY[t].split()[1], coq_z(int(tv["z"])))
    if t in UINT_T:
        return "(vuint %s %s)" % (COQ_STY[t].split()[1], coq_z(int(tv["z"])))
    if t in FLOAT_T:
        return "(vfloat %s %s)" % (COQ_STY[t].split()[1], coq_float(tv))
    if t == "s":
        return "(vstr %s)" % coq_str(tv.get("s", ""))
    if t == "b":
        return "(vbool %s)" % coq_bool(tv.get("b", False))
    if t == "nil":
        return "vnil"
    return "(vother %s)" % coq_str(tv.get("k", "?"))


# ---------------------------------------------------------------- AST constructors
def var(n): return ("var", n)
def const(c): return ("const", c)
def kint(z, text=None): return ("int", z) if text is None else ("int", z, text)     # text: the literal as written (leading zeros)
def kreal(text): return ("real", text)
def kstr(s): return ("str", s)
def kbool(b): return ("bool", b)
def call(kind, name, args): return {"k": kind, "name": name, "args": args, "pos": None}
def acall(c): return ("call", c)
def mapvar(name, key): return {"name": name, "key": key, "pos": None}    # key: ("int",z)|("str",s)|("var",n)
def amap(m): return ("mapvar", m)
def matom(a): return {"t": "matom", "a": a, "pos": None}
def mbin(op, l, r): return {"t": "mbin", "op": op, "l": l, "r": r, "pos": None}
def mparen(m): return {"t": "mparen", "m": m, "pos": None}
def emath(m): return {"t": "emath", "m": m, "pos": None}
def ecmp(op, l, r): return {"t": "ecmp", "op": op, "l": l, "r": r, "pos": None}
def elogic(op, l, r): return {"t": "elogic", "op": op, "l": l, "r": r, "pos": None}
def eatom(neg, a): return {"t": "eatom", "neg": neg, "a": a, "pos": None}
def eparen(neg, e): return {"t": "eparen", "neg": neg, "e": e, "pos": None}
def assign(target, op, rhs): return {"s": "assign", "target": target, "op": op, "rhs": rhs, "pos": None}  # target ("var",n)|("map",mv); rhs ("math",m)|("expr",e)
def scall(c): return {"s": "call", "c": c}
def sif(c, th, elifs=(), el=None): return {"s": "if", "c": c, "th": th, "elifs": list(elifs), "el": el}
def sfor(init, c, step, body): return {"s": "for", "init": init, "c": c, "step": step, "body": body, "pos": None}
def sforrange(key, coll, body): return {"s": "forrange", "key": key, "coll": coll, "body": body, "pos": None}
def sbreak(): return {"s": "break"}
def scontinue(): return {"s": "continue"}
def sconc(children): return {"s": "conc", "children": children}    # ("asg", a) | ("call", c)
def block(stmts, ret=None): return {"stmts": stmts, "ret": ret}     # ret: None | ("bare",) | ("expr", e)


# ---------------------------------------------------------------- printer
class Printer:
    """Prints a rule text; records the 0-based column / 1-based line of every node's first token."""

    def __init__(self, rng=None, fancy=False):
        self.lines = [""]
        self.rng = rng
        self.fancy = fancy and rng is not None
        self.multiline = False      # fancy layouts may also break lines in the middle of a construct
        self.indent = 0
        self.glue = False

    def text(self):
        return "\n".join(self.lines) + "\n"

    def nl(self):
        if self.fancy and self.rng.random() < 0.15:
            self.lines.append("")
        if self.fancy and self.rng.random() < 0.1:
            self.lines.append(" " * self.rng.randint(0, 4) + "// c" + str(self.rng.randint(0, 99)))
        self.lines.append("")

    def tok(self, s, glue_before=False):
        cur = self.lines[-1]
        if cur == "":
            pad = ("\t" if self.fancy and self.rng.random() < 0.1 else " " * (2 * self.indent + (self.rng.randint(0, 3) if self.fancy else 0)))
            cur = pad
        elif not (glue_before or self.glue) and self.fancy and self.multiline and self.rng.random() < 0.06:
            # a line break in the middle of a construct (legal: white space is skipped): a construct then spans several lines
            # and its position is that of its FIRST token, not of the line where it ends or fails
            self.lines.append("")
            cur = " " * (2 * self.indent + self.rng.randint(0, 6))
        elif not (glue_before or self.glue):
            cur += " " * (self.rng.randint(1, 3) if self.fancy and self.rng.random() < 0.2 else 1)
        self.glue = False
        col = len(cur)
        self.lines[-1] = cur + s
        return (len(self.lines), col)

    # ---- expressions
    def p_const(self, c):
        k = c[0]
        if k == "int":
            return self.tok(c[2] if len(c) > 2 else str(c[1]))
        if k == "real":
            return self.tok(c[1])
        if k == "str":
            return self.tok('"%s"' % c[1])
        if k == "bool":
            return self.tok("true" if c[1] else "false")
        return self.tok({"atname": "@name", "atid": "@id", "atdesc": "@desc", "atsal": "@sal"}[k])

    def p_mapvar(self, m):
        p = self.tok(m["name"])
        self.tok("[", glue_before=True)
        self.glue = True
        k = m["key"]
        if k[0] == "int":
            self.tok(str(k[1]))
        elif k[0] == "str":
            self.tok('"%s"' % k[1])
        else:
            self.tok(k[1])
        self.tok("]", glue_before=True)
        m["pos"] = p
        return p

    def p_call(self, c):
        p = self.tok(c["name"])
        self.tok("(", glue_before=True)
        self.glue = True
        for i, a in enumerate(c["args"]):
            if i:
                self.tok(",", glue_before=True)
            self.p_arg(a)
        self.tok(")", glue_before=True)
        c["pos"] = p
        return p

    def p_arg(self, a):
        k = a[0]
        if k == "const":
            return self.p_const(a[1])
        if k == "var":
            return self.tok(a[1])
        if k == "call":
            return self.p_call(a[1])
        if k == "mapvar":
            return self.p_mapvar(a[1])
        return self.p_expr(a[1])

    def p_atom(self, a):
        k = a[0]
        if k == "var":
            return self.tok(a[1])
        if k == "const":
            return self.p_const(a[1])
        if k == "call":
            return self.p_call(a[1])
        return self.p_mapvar(a[1])

    def p_mexpr(self, m):
        t = m["t"]
        if t == "matom":
            p = self.p_atom(m["a"])
        elif t == "mparen":
            p = self.tok("(")
            self.glue = True
            self.p_mexpr(m["m"])
            self.tok(")", glue_before=True)
        else:
            p = self.p_mexpr(m["l"])
            self.tok(m["op"])
            self.p_mexpr(m["r"])
        m["pos"] = p
        return p

    def p_expr(self, e):
        t = e["t"]
        if t == "emath":
            p = self.p_mexpr(e["m"])
        elif t == "eatom":
            if e["neg"]:
                p = self.tok("!")
                self.glue = True
                self.p_atom(e["a"])
            else:
                p = self.p_atom(e["a"])
        elif t == "eparen":
            if e["neg"]:
                p = self.tok("!")
                self.glue = True
                self.tok("(")
            else:
                p = self.tok("(")
            self.glue = True
            self.p_expr(e["e"])
            self.tok(")", glue_before=True)
        else:
            p = self.p_expr(e["l"])
            self.tok(e["op"])
            self.p_expr(e["r"])
        e["pos"] = p
        return p

    # ---- statements
    def p_assign(self, a):
        tg = a["target"]
        p = self.tok(tg[1]) if tg[0] == "var" else self.p_mapvar(tg[1])
        self.tok(a["op"])
        if a["rhs"][0] == "math":
            self.p_mexpr(a["rhs"][1])
        else:
            self.p_expr(a["rhs"][1])
        a["pos"] = p
        return p

    def p_block_braced(self, b):
        self.tok("{")
        self.indent += 1
        self.p_block(b)
        self.indent -= 1
        self.nl()
        self.tok("}")

    def p_stmt(self, s):
        k = s["s"]
        if k == "assign":
            self.p_assign(s)
        elif k == "call":
            self.p_call(s["c"])
        elif k == "if":
            self.tok("if")
            self.p_expr(s["c"])
            self.p_block_braced(s["th"])
            for (c, b) in s["elifs"]:
                self.tok("else")
                self.tok("if")
                self.p_expr(c)
                self.p_block_braced(b)
            if s["el"] is not None:
                self.tok("else")
                self.p_block_braced(s["el"])
        elif k == "for":
            s["pos"] = self.tok("for")
            self.p_assign(s["init"])
            self.tok(";", glue_before=True)
            self.p_expr(s["c"])
            self.tok(";", glue_before=True)
            self.p_assign(s["step"])
            self.p_block_braced(s["body"])
        elif k == "forrange":
            s["pos"] = self.tok("forRange")
            self.tok(s["key"])
            self.tok(":=")
            self.tok(s["coll"])
            self.p_block_braced(s["body"])
        elif k == "break":
            self.tok("break")
        elif k == "continue":
            self.tok("continue")
        elif k == "conc":
            self.tok("conc")
            self.tok("{")
            self.indent += 1
            for ch in s["children"]:
                self.nl()
                if ch[0] == "asg":
                    self.p_assign(ch[1])
                else:
                    self.p_call(ch[1])
            self.indent -= 1
            self.nl()
            self.tok("}")

    def p_block(self, b):
        for s in b["stmts"]:
            self.nl()
            self.p_stmt(s)
        if b["ret"] is not None:
            self.nl()
            self.tok("return")
            if b["ret"][0] == "expr":
                self.p_expr(b["ret"][1])

    def p_rule(self, name, desc, sal, body):
        self.tok('rule "%s"' % name)
        if desc is not None:
            self.tok('"%s"' % desc)
        if sal is not None:
            self.tok("salience %d" % sal)
        self.nl()
        self.tok("begin")
        self.indent = 1
        self.p_block(body)
        self.indent = 0
        self.nl()
        self.tok("end")
        self.nl()


# ---------------------------------------------------------------- expected listener tree (harness dumpNode format)
def _at(p):
    return " @%d:%d" % (p[0], p[1])


def d_constval(c, meta):
    k = c[0]
    if k == "int":
        return "<i64:%d>" % c[1]
    if k == "real":
        tv = tv_float("f64", float(c[1]))
        return "<f64:%s>" % (tv["c"] if tv["c"] != "fin" else "%s*2^%d" % (tv["m"], tv["e"]))
    if k == "str":
        return "<s:%s>" % c[1]
    if k == "bool":
        return "<b:%s>" % ("true" if c[1] else "false")
    if k == "atname":
        return "<s:%s>" % meta["name"]
    if k == "atdesc":
        return "<s:%s>" % (meta["desc"] or "")
    if k == "atsal":
        return "<i64:%d>" % (meta["sal"] or 0)
    try:
        z = int(meta["name"].strip(" "))
        if not (-2 ** 63 <= z < 2 ** 63) or not meta["name"].strip(" ").lstrip("+-").isdigit():
            z = 0
    except ValueError:
        z = 0
    return "<i64:%d>" % z


def d_const(c, meta):
    return "(Constant ConstantValue:%s)" % d_constval(c, meta)


def d_mapvar(m, fixed_pos):
    s = "(MapVar" + (_at(m["pos"]) if fixed_pos else " @0:0") + " Name=" + m["name"]
    k = m["key"]
    if k[0] == "int" and k[1] != 0:
        s += " Intkey=%d" % k[1]
    if k[0] == "str":
        s += " Strkey=" + k[1]
    if k[0] == "var":
        s += " Varkey=" + k[1]
    return s + ")"


class Dumper:
    def __init__(self, meta, fixed_pos):
        self.meta = meta
        self.fixed = fixed_pos       # True once the listener fills MapVar / For / ForRange positions

    def call(self, c):
        tn, fn, an = {"func": ("FunctionCall", "FunctionName", "FunctionArgs"), "method": ("MethodCall", "MethodName", "MethodArgs"),
                      "three": ("ThreeLevelCall", "ThreeLevel", "MethodArgs")}[c["k"]]
        s = "(%s%s %s=%s" % (tn, _at(c["pos"]), fn, c["name"])
        if c["args"]:
            s += " %s:(Args ArgList:[%s])" % (an, " ".join(self.arg(a) for a in c["args"]))
        return s + ")"

    def callfield(self, c):
        return {"func": "FunctionCall", "method": "MethodCall", "three": "ThreeLevelCall"}[c["k"]] + ":" + self.call(c)

    def arg(self, a):
        k = a[0]
        if k == "const":
            return "(Arg Constant:%s)" % d_const(a[1], self.meta)
        if k == "var":
            return "(Arg Variable=%s)" % a[1]
        if k == "call":
            return "(Arg %s)" % self.callfield(a[1])
        if k == "mapvar":
            return "(Arg MapVar:%s)" % d_mapvar(a[1], self.fixed)
        return "(Arg Expression:%s)" % self.expr(a[1])

    def atom(self, a, p):
        s = "(ExpressionAtom" + _at(p)
        k = a[0]
        if k == "var":
            s += " Variable=" + a[1]
        elif k == "const":
            s += " Constant:" + d_const(a[1], self.meta)
        elif k == "call":
            s += " " + self.callfield(a[1])
        else:
            s += " MapVar:" + d_mapvar(a[1], self.fixed)
        return s + ")"

    def mexpr(self, m):
        s = "(MathExpression" + _at(m["pos"])
        t = m["t"]
        if t == "matom":
            s += " ExpressionAtom:" + self.atom(m["a"], m["pos"])
        elif t == "mparen":
            s += " MathExpressionLeft:" + self.mexpr(m["m"])
        else:
            s += " MathExpressionLeft:" + self.mexpr(m["l"])
            s += (" MathPmOperator=" if m["op"] in "+-" else " MathMdOperator=") + m["op"]
            s += " MathExpressionRight:" + self.mexpr(m["r"])
        return s + ")"

    def expr(self, e):
        s = "(Expression" + _at(e["pos"])
        t = e["t"]
        if t == "emath":
            s += " MathExpression:" + self.mexpr(e["m"])
        elif t == "eatom":
            ap = e["pos"] if not e["neg"] else e["apos"]
            s += " ExpressionAtom:" + self.atom(e["a"], ap) + (" NotOperator=!" if e["neg"] else "")
        elif t == "eparen":
            s += " ExpressionLeft:" + self.expr(e["e"]) + (" NotOperator=!" if e["neg"] else "")
        else:
            s += " ExpressionLeft:" + self.expr(e["l"]) + " ExpressionRight:" + self.expr(e["r"])
            s += (" LogicalOperator=" if t == "elogic" else " ComparisonOperator=") + e["op"]
        return s + ")"

    def assign(self, a):
        s = "(Assignment" + _at(a["pos"])
        tg = a["target"]
        s += (" Variable=" + tg[1]) if tg[0] == "var" else (" MapVar:" + d_mapvar(tg[1], self.fixed))
        s += " AssignOperator=" + a["op"]
        s += (" MathExpression:" + self.mexpr(a["rhs"][1])) if a["rhs"][0] == "math" else (" Expression:" + self.expr(a["rhs"][1]))
        return s + ")"

    def stmt(self, s):
        k = s["s"]
        if k == "assign":
            return "(Statement Assignment:%s)" % self.assign(s)
        if k == "call":
            return "(Statement %s)" % self.callfield(s["c"])
        if k == "if":
            r = "(Statement IfStmt:(IfStmt Expression:%s StatementList:%s" % (self.expr(s["c"]), self.block(s["th"]))
            if s["elifs"]:
                r += " ElseIfStmtList:[%s]" % " ".join("(ElseIfStmt Expression:%s StatementList:%s)" % (self.expr(c), self.block(b)) for c, b in s["elifs"])
            if s["el"] is not None:
                r += " ElseStmt:(ElseStmt StatementList:%s)" % self.block(s["el"])
            return r + "))"
        if k == "for":
            return "(Statement ForStmt:(ForStmt%s Expression:%s StatementList:%s Assignments:[%s %s]))" % (
                _at(s["pos"]) if self.fixed else " @0:0", self.expr(s["c"]), self.block(s["body"]), self.assign(s["init"]), self.assign(s["step"]))
        if k == "forrange":
            return "(Statement ForRangeStmt:(ForRangeStmt%s StatementList:%s keyName=%s name=%s))" % (
                _at(s["pos"]) if self.fixed else " @0:0", self.block(s["body"]), s["key"], s["coll"])
        if k == "break":
            return "(Statement BreakStmt:(BreakStmt))"
        if k == "continue":
            return "(Statement ContinueStmt:(ContinueStmt))"
        cs = s["children"]
        r = "(Statement ConcStatement:(ConcStatement"
        asg = [c[1] for c in cs if c[0] == "asg"]
        if asg:
            r += " Assignments:[%s]" % " ".join(self.assign(a) for a in asg)
        for kind, fld in (("func", "FunctionCalls"), ("method", "MethodCalls"), ("three", "ThreeLevelCalls")):
            l = [c[1] for c in cs if c[0] == "call" and c[1]["k"] == kind]
            if l:
                r += " %s:[%s]" % (fld, " ".join(self.call(c) for c in l))
        return r + "))"

    def block(self, b):
        r = "(Statements"
        if b["stmts"]:
            r += " StatementList:[%s]" % " ".join(self.stmt(s) for s in b["stmts"])
        if b["ret"] is not None:
            r += " ReturnStatement:(ReturnStatement" + ((" Expression:" + self.expr(b["ret"][1])) if b["ret"][0] == "expr" else "") + ")"
        return r + ")"

    def rule(self, body):
        return "(RuleContent Statements:%s)" % self.block(body)


# ---------------------------------------------------------------- Coq emitters
def c_pos(p, zero=False):
    return "(0%nat, 0%nat)" if zero else "(%d%%nat, %d%%nat)" % (p[0], p[1])


AOP = {"+": "OAdd", "-": "OSub", "*": "OMul", "/": "ODiv"}
COP = {"==": "CEq", "!=": "CNe", ">": "CGt", "<": "CLt", ">=": "CGe", "<=": "CLe"}
LOP = {"&&": "LAnd", "||": "LOr"}
ASG = {"=": "AsSet", ":=": "AsDef", "+=": "AsAdd", "-=": "AsSub", "*=": "AsMul", "/=": "AsDiv"}


class CoqEmit:
    def __init__(self, fixed_pos):
        self.fixed = fixed_pos

    def const(self, c):
        k = c[0]
        if k == "int":
            return "(KInt %s)" % coq_z(c[1])
        if k == "real":
            tv = tv_float("f64", float(c[1]))
            if tv["c"] != "fin":
                return "(KReal %s %s)" % (coq_z(0), coq_z(0))
            return "(KReal %s %s)" % (coq_z(int(tv["m"])), coq_z(tv.get("e", 0)))
        if k == "str":
            return "(KStr %s)" % coq_str(c[1])
        if k == "bool":
            return "(KBool %s)" % coq_bool(c[1])
        return {"atname": "KAtName", "atid": "KAtId", "atdesc": "KAtDesc", "atsal": "KAtSal"}[k]

    def mapvar(self, m):
        k = m["key"]
        ks = "(MKInt %s)" % coq_z(k[1]) if k[0] == "int" else ("(MKStr %s)" % coq_str(k[1]) if k[0] == "str" else "(MKVar %s)" % coq_str(k[1]))
        return "(mkMV %s %s %s)" % (c_pos(m["pos"], zero=not self.fixed), coq_str(m["name"]), ks)

    def call(self, c):
        args = "ANil"
        for a in reversed(c["args"]):
            args = "(ACons %s %s)" % (self.arg(a), args)
        return "(Call %s %s %s %s)" % ({"func": "CFunc", "method": "CMethod", "three": "CThree"}[c["k"]], c_pos(c["pos"]), coq_str(c["name"]), args)

    def arg(self, a):
        k = a[0]
        if k == "const":
            return "(GConst %s)" % self.const(a[1])
        if k == "var":
            return "(GVar %s)" % coq_str(a[1])
        if k == "call":
            return "(GCall %s)" % self.call(a[1])
        if k == "mapvar":
            return "(GMapVar %s)" % self.mapvar(a[1])
        return "(GExpr %s)" % self.expr(a[1])

    def atom(self, a):
        k = a[0]
        if k == "var":
            return "(AVar %s)" % coq_str(a[1])
        if k == "const":
            return "(AConst %s)" % self.const(a[1])
        if k == "call":
            return "(ACall %s)" % self.call(a[1])
        return "(AMapVar %s)" % self.mapvar(a[1])

    def mexpr(self, m):
        t = m["t"]
        if t == "matom":
            return "(MAtom %s %s)" % (c_pos(m["pos"]), self.atom(m["a"]))
        if t == "mparen":
            return "(MParen %s %s)" % (c_pos(m["pos"]), self.mexpr(m["m"]))
        return "(MBin %s %s %s %s)" % (c_pos(m["pos"]), AOP[m["op"]], self.mexpr(m["l"]), self.mexpr(m["r"]))

    def expr(self, e):
        t = e["t"]
        if t == "emath":
            return "(EMath %s %s)" % (c_pos(e["pos"]), self.mexpr(e["m"]))
        if t == "eatom":
            return "(EAtom %s %s %s)" % (c_pos(e["pos"]), coq_bool(e["neg"]), self.atom(e["a"]))
        if t == "eparen":
            return "(EParen %s %s %s)" % (c_pos(e["pos"]), coq_bool(e["neg"]), self.expr(e["e"]))
        if t == "ecmp":
            return "(ECmp %s %s %s %s)" % (c_pos(e["pos"]), COP[e["op"]], self.expr(e["l"]), self.expr(e["r"]))
        return "(ELogic %s %s %s %s)" % (c_pos(e["pos"]), LOP[e["op"]], self.expr(e["l"]), self.expr(e["r"]))

    def assign(self, a):
        tg = a["target"]
        t = "(TVar %s)" % coq_str(tg[1]) if tg[0] == "var" else "(TMap %s)" % self.mapvar(tg[1])
        r = "(RMath %s)" % self.mexpr(a["rhs"][1]) if a["rhs"][0] == "math" else "(RExpr %s)" % self.expr(a["rhs"][1])
        return "(mkAsg %s %s %s %s)" % (c_pos(a["pos"]), t, ASG[a["op"]], r)

    def stmt(self, s):
        k = s["s"]
        if k == "assign":
            return "(SAssign %s)" % self.assign(s)
        if k == "call":
            return "(SCall %s)" % self.call(s["c"])
        if k == "if":
            el = "ENil"
            for (c, b) in reversed(s["elifs"]):
                el = "(ECons %s %s %s)" % (self.expr(c), self.block(b), el)
            return "(SIf %s %s %s %s)" % (self.expr(s["c"]), self.block(s["th"]), el,
                                          "None" if s["el"] is None else "(Some %s)" % self.block(s["el"]))
        if k == "for":
            return "(SFor %s %s %s %s %s)" % (c_pos(s["pos"], zero=not self.fixed), self.assign(s["init"]), self.expr(s["c"]), self.assign(s["step"]), self.block(s["body"]))
        if k == "forrange":
            return "(SForRange %s %s %s %s)" % (c_pos(s["pos"], zero=not self.fixed), coq_str(s["key"]), coq_str(s["coll"]), self.block(s["body"]))
        if k == "break":
            return "SBreak"
        if k == "continue":
            return "SContinue"
        # spawn order of ConcStatement.Evaluate: assignments, function calls, method calls, three-level calls
        cs = s["children"]
        order = [c for c in cs if c[0] == "asg"] + [c for kk in ("func", "method", "three") for c in cs if c[0] == "call" and c[1]["k"] == kk]
        return "(SConc %s)" % coq_list(["(CCAsg %s)" % self.assign(c[1]) if c[0] == "asg" else "(CCCall %s)" % self.call(c[1]) for c in order])

    def block(self, b):
        ss = "SNil"
        for s in reversed(b["stmts"]):
            ss = "(SCons %s %s)" % (self.stmt(s), ss)
        r = "None" if b["ret"] is None else ("(Some None)" if b["ret"][0] == "bare" else "(Some (Some %s))" % self.expr(b["ret"][1]))
        return "(Block %s %s)" % (ss, r)


# ---------------------------------------------------------------- host objects
FUNCS = {"NewC": ([], '(bconst (vother "ptr"))'), "NewF": ([], '(bconst (vother "func"))'), "Publish": ([], "bnone"),
         "Mark": (["i64"], "bnone"), "IdI": (["i"], "(becho 0)"), "IdI8": (["i8"], "(becho 0)"), "IdI16": (["i16"], "(becho 0)"),
         "IdI32": (["i32"], "(becho 0)"), "IdI64": (["i64"], "(becho 0)"), "IdU": (["u"], "(becho 0)"), "IdU8": (["u8"], "(becho 0)"),
         "IdU16": (["u16"], "(becho 0)"), "IdU32": (["u32"], "(becho 0)"), "IdU64": (["u64"], "(becho 0)"), "IdF32": (["f32"], "(becho 0)"),
         "IdF64": (["f64"], "(becho 0)"), "IdS": (["s"], "(becho 0)"), "IdB": (["b"], "(becho 0)"), "Two": (["i64", "f64"], "(becho 0)"),
         "Mix3": (["u8", "s", "i32"], "(becho 2)"), "NoRet": ([], "bnone"), "Boom": ([], "bpanic"), "BigBoom": ([], "bpanic"), "BoomErr": ([], "bpanic"), "BoomRT": ([], "bpanic"), "Hold": (["s"], "bnone"), "Gate": (["s"], "bnone"), "After": (["s"], "bnone")}
HOST_METHODS = {"Mark": (["i64"], "bnone"), "Id64": (["i64"], "(becho 0)"), "IdU8": (["u8"], "(becho 0)"), "IdF64": (["f64"], "(becho 0)"), "Boom": ([], "bpanic"),
                "Echo": (["i64"], "(becho 0)"),
                # Slot returns a pointer into the host (to h.I64): an opaque value of kind ptr in the model
                "Slot": ([], '(bconst (vother "ptr"))'),
                # ShrinkSL truncates h.SL in the real host (no such behaviour in the Coq model): called only by driver-stated scenarios
                "ShrinkSL": ([], "bnone"),
                "BumpM": ([], "bnone"), "BumpI": ([], "bnone"), "HoldM": (["s"], "bnone"),
                # PushSL appends to h.SL in the real host; the Coq model has no growing behaviour: it is listed so that hosts look
                # alike, and it is called only by scenarios whose expectation is stated in the driver (C09 termination scenarios)
                "PushSL": (["i32"], "bnone")}
SUB_METHODS = {"GetN": (["i32"], "(becho 0)"), "EchoN": (["i32"], "(becho 0)")}
# value-receiver methods: the only ones a struct VALUE (injected by value, or a struct-typed field) offers through reflection
HOST_VALUE_METHODS = ("Echo",)
SUB_VALUE_METHODS = ("EchoN",)
HOST_FIELDS = [("I8", "i8"), ("I32", "i32"), ("I64", "i64"), ("U8", "u8"), ("U64", "u64"), ("F32", "f32"), ("F64", "f64"), ("S", "s"), ("B", "b")]
SUB_FIELDS = [("N", "i64"), ("F", "f64"), ("S", "s"), ("U8", "u8")]


def zero_tv(t):
    if t in INT_T or t in UINT_T:
        return tv_int(t, 0)
    if t in FLOAT_T:
        return tv_float(t, 0.0)
    return tv_str("") if t == "s" else tv_bool(False)


def coq_fdesc(name, sig):
    return "(mkf %s %s %s)" % (coq_str(name), coq_list(["(%s)" % COQ_STY[t] for t in sig[0]]), sig[1])


def inj_func(name, fn=None):
    return {"name": name, "kind": "func", "fn": fn or name}


def inj_val(name, tv):
    return {"name": name, "kind": "val", "v": tv}


def inj_ptr(name, tv):
    return {"name": name, "kind": "ptr", "v": tv}


def inj_struct(name, fields=None, sub=None, psub=None, m=None, sl=None, ar=None, byptr=True):
    d = {"name": name, "kind": "struct" if byptr else "structv"}
    d["fields"] = {k: zero_tv(t) for k, t in HOST_FIELDS}
    d["fields"].update(fields or {})
    d["sub"] = {k: zero_tv(t) for k, t in SUB_FIELDS}
    d["sub"].update(sub or {})
    d["psub"] = {k: zero_tv(t) for k, t in SUB_FIELDS}
    d["psub"].update(psub or {})
    d["m"] = {k: str(v) for k, v in (m or {}).items()}
    d["sl"] = [str(x) for x in (sl or [])]
    d["ar"] = [str(x) for x in (ar or [0, 0, 0])]
    return d


def inj_map(name, kt, et, entries, byptr=False):
    return {"name": name, "kind": "pmap" if byptr else "map", "kt": kt, "et": et, "keys": [k for k, _ in entries], "elems": [v for _, v in entries]}


def inj_seq(name, et, elems, byptr=False, array=False):
    return {"name": name, "kind": ("parr" if byptr else "arr") if array else ("pseq" if byptr else "seq"), "et": et, "elems": elems}


def coq_fields(pairs):
    s = "fnil"
    for n, o in reversed(pairs):
        s = "(fcons %s %s %s)" % (coq_str(n), o, s)
    return s


def coq_hobj(d, dump=None):
    """Coq hobj for an injection description; with [dump] (the harness store dump) the object AFTER the call."""
    k = d["kind"]
    if k == "val":
        return "(hval %s)" % coq_value(d["v"])
    if k == "nilptr":
        return "(hval (vother %s))" % coq_str("ptr")
    if k == "ptr":
        return "(hptr (%s) %s)" % (COQ_STY[d["v"]["t"]], coq_value(dump["v"] if dump else d["v"]))
    if k == "func":
        return "(hfunc %s)" % coq_fdesc(d["fn"], FUNCS[d["fn"]])
    if k in ("struct", "structv"):
        src = dump if (dump and k == "struct") else d
        flds = [(n, "(hval %s)" % coq_value(src["fields"][n])) for n, _ in HOST_FIELDS]
        sub = coq_fields([(n, "(hval %s)" % coq_value(src["sub"][n])) for n, _ in SUB_FIELDS])
        psub = coq_fields([(n, "(hval %s)" % coq_value(src["psub"][n])) for n, _ in SUB_FIELDS])
        flds.append(("Sub", "(hstruct false %s %s)" % (sub, coq_list([coq_fdesc(n, SUB_METHODS[n]) for n in SUB_VALUE_METHODS]))))
        flds.append(("PSub", "(hstruct true %s %s)" % (psub, coq_list([coq_fdesc(n, s) for n, s in SUB_METHODS.items()]))))
        m = src.get("m") or {}
        mitems = sorted(m.items()) if isinstance(m, dict) else [(a, b) for a, b in m]
        flds.append(("M", "(hmap false TS (TI KI64) %s)" % coq_list(["(%s, %s)" % (coq_value(tv_str(a)), coq_value(tv_int("i64", int(b)))) for a, b in mitems])))
        flds.append(("SL", "(hseq false false (TI KI32) %s)" % coq_list([coq_value(tv_int("i32", int(x))) for x in (src.get("sl") or [])])))
        # an array FIELD of a struct injected by pointer is addressable: it behaves as a fixed-length slice;
        # inside a struct injected by value it is a plain (unaddressable) array
        flds.append(("AR", "(hseq false %s (TU KU8) %s)" % (coq_bool(k != "struct"), coq_list([coq_value(tv_int("u8", int(x))) for x in (src.get("ar") or [0, 0, 0])]))))
        meths = HOST_METHODS.items() if k == "struct" else [(n, HOST_METHODS[n]) for n in HOST_VALUE_METHODS]
        return "(hstruct %s %s %s)" % (coq_bool(k == "struct"), coq_fields(flds), coq_list([coq_fdesc(n, s) for n, s in meths]))
    if k in ("map", "pmap"):
        keys = (dump.get("keys") if dump else d.get("keys")) or []
        elems = (dump.get("elems") if dump else d.get("elems")) or []
        return "(hmap %s (%s) (%s) %s)" % (coq_bool(k == "pmap"), COQ_STY[d["kt"]], COQ_STY[d["et"]],
                                           coq_list(["(%s, %s)" % (coq_value(a), coq_value(b)) for a, b in zip(keys or [], elems or [])]))
    elems = (dump.get("elems") if dump else d["elems"]) or []
    return "(hseq %s %s (%s) %s)" % (coq_bool(k in ("pseq", "parr")), coq_bool(k in ("arr", "parr")), COQ_STY[d["et"]],
                                     coq_list([coq_value(x) for x in elems]))


# ---------------------------------------------------------------- one case
def make_case(cid, body, inject, name="r1", desc="d one", sal=3, rng=None, fancy=False, prelude=None, fixed_pos=True, multiline=False):
    """Prints the rule (optionally after other rules: prelude = list of (name, desc, sal, body)),
    returns the case dict (text for the harness + AST kept for the Coq emission)."""
    pr = Printer(rng, fancy)
    pr.multiline = multiline
    for (n2, d2, s2, b2) in (prelude or []):
        pr.p_rule(n2, d2, s2, b2)
    pr.p_rule(name, desc, sal, body)
    fix_neg_atom_pos(body)
    meta = {"name": name, "desc": desc, "sal": sal}
    return {"id": cid, "text": pr.text(), "rule": name, "inject": inject, "tree": True, "body": body, "meta": meta,
            "expect_tree": Dumper(meta, fixed_pos).rule(body), "rules_ast": list(prelude or []) + [(name, desc, sal, body)]}


def fix_neg_atom_pos(node):
    """For `!atom` the ExpressionAtom starts one token after the Expression: compute apos."""
    if isinstance(node, dict):
        if node.get("t") == "eatom" and node["neg"]:
            node["apos"] = (node["pos"][0], node["pos"][1] + 1)
            a = node["a"]
            if a[0] == "call" and a[1].get("pos"):
                node["apos"] = a[1]["pos"]
            if a[0] == "mapvar" and a[1].get("pos"):
                node["apos"] = a[1]["pos"]
        for v in node.values():
            fix_neg_atom_pos(v)
    elif isinstance(node, (list, tuple)):
        for v in node:
            fix_neg_atom_pos(v)


HEADER = """From Coq Require Import Ascii String List ZArith Bool Floats.
From GV Require Import Lang.Value Lang.Syntax Lang.Store Lang.Sem Lang.Check Lang.Reader Lang.ReaderCheck.
Import ListNotations.
"""


# ---------------------------------------------------------------- the reader model (Lang/Reader.v): text -> tree inside Coq
REAL_RE = re.compile(r"(?:\d+)?\.\d+(?:[eE]-?\d+)?|\d+\.[eE]-?\d+|\d+[eE]-?\d+")


def coq_text(s):
    """A Coq string term for an arbitrary text: a literal when every character is printable ASCII, newline or tab."""
    if all(c in "\n\t" or 32 <= ord(c) < 127 for c in s):
        return coq_str(s)
    return "(sb %s)" % coq_list([str(b) for b in s.encode("utf-8", "surrogateescape")])


def coq_reals(text):
    """the oracle table of Reader.read_text: every substring that can be a REAL_LITERAL token (an over-approximation), with
    and without a sign, converted as CoqEmit converts the real constants of the printer's tree (python float())"""
    out, seen = [], set()
    for m in REAL_RE.finditer(text):
        for lit in (m.group(0), "-" + m.group(0)):
            if lit in seen:
                continue
            seen.add(lit)
            try:
                f = float(lit)
            except ValueError:
                continue
            if f != f or f in (float("inf"), float("-inf")):
                continue            # strconv.ParseFloat reports a range error: outside the table (the reader answers RUnsup)
            tv = tv_float("f64", f)
            me = (0, 0) if tv["c"] != "fin" else (int(tv["m"]), tv.get("e", 0))
            out.append("(%s, (%s, %s))" % (coq_str(lit), coq_z(me[0]), coq_z(me[1])))
    return coq_list(out)


def coq_rules_ast(rules_ast):
    em = CoqEmit(True)
    return coq_list(["(mkRule (mkMeta %s %s %s) %s)" % (coq_str(n), coq_str(d or ""), coq_z(s or 0), em.block(b)) for (n, d, s, b) in rules_ast])


def coq_rcase(cid, text, expect):
    """expect: ("tree", rules_ast) | ("meta", [(name, desc, sal)]) | ("accept",) | ("reject",)"""
    if expect[0] == "tree":
        x = "(XTree %s)" % coq_rules_ast(expect[1])
    elif expect[0] == "meta":
        x = "(XMeta %s)" % coq_list(["(mkMeta %s %s %s)" % (coq_text(n), coq_text(d), coq_z(s)) for n, d, s in expect[1]])
    else:
        x = "XAccept" if expect[0] == "accept" else "XReject"
    return "(mkRC %s %s %s %s)" % (coq_nat(cid), coq_text(text), coq_reals(text), x)


RCODES = {1: "the reader model (Lang/Reader.v: lexer + grammar + listener checks, evaluated inside Coq on the text itself) builds a different tree from the listener",
          2: "the reader model accepts the text, the builder rejects it",
          3: "the reader model rejects the text, the builder accepts it",
          4: "the reader model ran out of fuel"}


def stated_scenarios(run, pid, scens, disagreement, base_id=90000):
    """Scenarios whose expectation is stated by the driver (host behaviour the Coq host model cannot express: methods that grow or
    shrink a collection, a host that injects objects while the rule runs).  scens: [(name, body, inject, expect)] with
    expect = {"class": ..., "<fn>": number of recorded calls or None, "seq": [[fn, first-arg-as-text], ...] (optional, exact)};
    an optional fifth component lists rules printed BEFORE the rule (name, desc, salience, body): all rules of the text are executed.
    Returns the number of scenarios that did not behave as stated."""
    tcs = []
    for i, sc in enumerate(scens):
        name, body, inj, exp = sc[:4]
        c = make_case(base_id + i, body, inj, prelude=(sc[4] if len(sc) > 4 else None))
        c["fault"], c["expect"] = name, exp
        tcs.append(c)
    tobs = run_lang(tcs, timeout=40)
    bad = 0
    for c, o in zip(tcs, tobs):
        exp = c["expect"]
        counts = {}
        for call_ in o.get("calls") or []:
            counts[call_["fn"]] = counts.get(call_["fn"], 0) + 1
        seq = [[cl["fn"]] + [str(a.get("z", a.get("s", ""))) for a in cl["args"]] for cl in (o.get("calls") or [])]
        wrong = o["class"] != exp["class"] or o.get("crash") or any(v is not None and counts.get(fn, 0) != v for fn, v in exp.items() if fn not in ("class", "seq", "ret"))
        if exp.get("seq") is not None and seq != exp["seq"]:
            wrong = True
        if exp.get("ret") is not None and str((o.get("ret") or {}).get("z")) != str(exp["ret"]):
            wrong = True
        if wrong:
            bad += 1
            run.report({"kind": "lang-case", "symptom": "stated", "fault": c["fault"]},
                       {"text": c["text"], "inject": c["inject"], "rule": c["rule"], "observation": {k: o.get(k) for k in ("class", "ret", "errmsg", "crash")}, "calls_seen": seq[:40], "expected": exp,
                        "disagreement": disagreement},
                       "%s: '%s': expected %s, observed class=%s%s ret=%s calls=%s — %s" % (pid, c["fault"], exp, o["class"], " CRASH/HANG" if o.get("crash") else "", (o.get("ret") or {}).get("z"), seq[:12], c["text"].replace("\n", " | ")[:300]))
    return bad


def report_reader(run, pid, mism, text_of):
    """mism: [(id, code)]. Removes the code-7 entries (the reader model and the printer disagree on a text: two parts of the MODEL),
    and — when nothing concrete has been reported — reports the first as a broken correspondence without a failing input.
    Call it AFTER the concrete disagreements have been reported. Returns the other entries."""
    rd = [m for m in mism if m[1] == 7]
    if rd and not run.violations:
        text = text_of(rd[0][0])
        run.report({"kind": "correspondence", "symptom": "reader"}, {"correspondence": "Lang/ReaderCheck.v rmismatches rcases = [] (reader model vs. the tree the listener built, via the printer's tree)",
                                                                     "text": text, "disagreement": LCODES[7]},
                   "%s: %s — rule text: %s" % (pid, LCODES[7], text.replace("\n", " | ")[:300]), no_input=True)
    return [m for m in mism if m[1] != 7]


def evaluate_reader(tag, rcases, shard=200):
    """rcases: list of Coq rcase terms -> ([(id, code)], number outside the model domain)"""
    parts = [rcases[i::max(1, (len(rcases) + shard - 1) // shard)] for i in range(max(1, (len(rcases) + shard - 1) // shard))]

    def one(ip):
        i, part = ip
        body = "Definition rcases : list rcase := %s.\nDefinition RM := rmismatches rcases.\nDefinition RU := runsup rcases.\n" % coq_list(part, per_line=True)
        res = coq_eval_cases("cases_%s_rd%d" % (tag, i), HEADER, body, ["RM", "RU"])
        return [tuple(t) for t in parse_nat_tuples(res["RM"])], int(re.findall(r"\d+", res["RU"])[0])
    mm, unsup = [], 0
    for r, u in parallel_map(one, list(enumerate(parts))):
        mm += r
        unsup += u
    return mm, unsup



def coq_lcase(c, o, fixed_pos=True):
    em = CoqEmit(fixed_pos)
    meta = c["meta"]
    cls = {"ok": "OOk", "error": "OError", "panic": "OPanic"}[o["class"]]
    if o.get("hasret"):
        ret = "(Some None)" if o["ret"]["t"] == "nil" else "(Some (Some %s))" % coq_value(o["ret"])
    else:
        ret = "None"
    cites = coq_list(["(%d%%nat, %d%%nat)" % (a, b) for a, b in o["cites"]])
    calls = coq_list(["(%s, %s)" % (coq_str(cl["fn"]), coq_list([coq_value(a) for a in cl["args"]])) for cl in o["calls"]])
    dumps = {d["name"]: d for d in o["store"]}
    store = coq_list(["(%s, %s)" % (coq_str(d["name"]), coq_hobj(d, dumps.get(d["name"]))) for d in c["inject"]
                      if d["kind"] not in ("func", "val", "structv", "nilptr")])
    inj = coq_list(["(%s, %s)" % (coq_str(d["name"]), coq_hobj(d)) for d in c["inject"]])
    return "mkLC %s (mkMeta %s %s %s) %s %s %s %s %s %s %s" % (
        coq_nat(c["id"]), coq_str(meta["name"]), coq_str(meta["desc"] or ""), coq_z(meta["sal"] or 0),
        em.block(c["body"]), inj, cls, ret, cites, calls, store)


def run_lang(cases, timeout=150):
    payload = [{k: c[k] for k in ("id", "text", "rule", "inject", "tree")} for c in cases]
    for p, c in zip(payload, cases):
        if c.get("twice"):
            p["twice"] = True
        if c.get("reinject"):
            p["reinject"] = True
        if c.get("inject2"):
            p["inject2"] = c["inject2"]
        if c.get("withdraw"):
            p["withdraw"] = c["withdraw"]
        if c.get("hold"):
            p["hold"] = c["hold"]
        if c.get("model"):
            p["model"] = c["model"]
    shards = [payload[i::NCPU] for i in range(NCPU)]
    shards = [s for s in shards if s]

    def one(shard):
        st, out, err = run_harness_child("lang", shard, timeout=timeout)
        if st == "ok":
            return out
        res = []
        for c in shard:
            st1, out1, err1 = run_harness_child("lang", [c], timeout=25)
            if st1 == "ok":
                res += out1
            else:
                res.append({"id": c["id"], "class": "panic", "crash": st1, "errmsg": err1[-800:], "cites": [], "hasret": False,
                            "results": {}, "calls": [], "store": [], "tree": ""})
        return res
    outs = parallel_map(one, shards)
    return sorted([o for out in outs for o in out], key=lambda o: o["id"])


LCODES = {0: "the listener-built tree (shape, operators, operands or source positions) differs from the grammar's reading of the text",
          1: "outcome class differs (value / error / panic)",
          2: "returned value differs",
          3: "positions cited by the error message differ",
          4: "calls received by the injected functions (order, arguments, dynamic argument types) differ",
          5: "host objects after the call differ",
          6: "the text does not compile",
          7: "the reader model (Lang/Reader.v: lexer, grammar and listener checks evaluated inside Coq on the text itself) reads the text differently from the listener"}


def evaluate_lang(tag, cases, obs, fixed_pos=True, contained=True):
    """Returns list of (id, code). code 0 = tree mismatch (python side), 1..5 from Coq."""
    byid = {o["id"]: o for o in obs}
    out = []
    ok_cases = []
    for c in cases:
        o = byid[c["id"]]
        if o.get("compile"):
            out.append((c["id"], 6))
            continue
        if c.get("tree") and not o.get("crash") and o.get("tree") != c["expect_tree"]:
            out.append((c["id"], 0))
        if len(o.get("calls") or []) > 600:
            c["oversize"] = True      # run-away loop with thousands of recorded calls: class compared by the driver only
            continue
        ok_cases.append(c)
    shard = max(40, min(250, (len(ok_cases) + NCPU - 1) // NCPU))
    nparts = max(1, (len(ok_cases) + shard - 1) // shard)
    parts = [ok_cases[i::nparts] for i in range(nparts)]      # striped: big texts cluster at the end of the generators' output

    def one(ip):
        i, part = ip
        body = "Definition cases : list lcase := %s.\nDefinition M := mismatches %s cases.\n" % (
            coq_list(["(" + coq_lcase(c, byid[c["id"]], fixed_pos) + ")" for c in part], per_line=True), coq_bool(contained))
        # the same texts read by the reader model: its tree must be the printer's (= the listener's, code 0)
        rc = [coq_rcase(c["id"], c["text"], ("tree", c["rules_ast"])) for c in part if c.get("rules_ast") and not c.get("reinjected")]
        body += "Definition rcases : list rcase := %s.\nDefinition RM := rmismatches rcases.\n" % coq_list(rc, per_line=True)
        res = coq_eval_cases("cases_%s_%d" % (tag, i), HEADER, body, ["M", "RM"])
        return [tuple(t) for t in parse_nat_tuples(res["M"])] + [(cid, 7) for cid, _ in parse_nat_tuples(res["RM"])]
    for r in parallel_map(one, list(enumerate(parts))):
        out += r
    return out


# ---------------------------------------------------------------- tree builders that respect the grammar
MPREC = {"+": 1, "-": 1, "*": 2, "/": 2}


def mk_mbin(op, l, r):
    """MBin whose children are wrapped in explicit parentheses exactly when the grammar needs them."""
    if l["t"] == "mbin" and MPREC[l["op"]] < MPREC[op]:
        l = mparen(l)
    if r["t"] == "mbin" and MPREC[r["op"]] <= MPREC[op]:
        r = mparen(r)
    return mbin(op, l, r)


def paren_e(e, neg=False):
    """( e ) as the grammar reads it: a parenthesised math expression is a MathExpression node."""
    if e["t"] == "emath" and not neg:
        return emath(mparen(e["m"]))
    return eparen(neg, e)


def mk_ecmp(op, l, r):
    if l["t"] == "elogic":
        l = paren_e(l)
    if r["t"] in ("ecmp", "elogic"):
        r = paren_e(r)
    return ecmp(op, l, r)


def mk_elogic(op, l, r):
    if r["t"] == "elogic":
        r = paren_e(r)
    return elogic(op, l, r)


def as_arg(e):
    """functionArgs alternatives: constant | variable | call | mapVar | expression (first that matches)."""
    if e["t"] == "emath" and e["m"]["t"] == "matom":
        a = e["m"]["a"]
        return {"var": ("var", a[1]), "const": ("const", a[1]), "call": ("call", a[1]), "mapvar": ("mapvar", a[1])}[a[0]]
    return ("expr", e)


def flat_to_tree(operands, ops):
    """Reads `o0 op0 o1 op1 o2 ...` (operands are atoms) the way the grammar does: * / bind tighter than
    + -, arithmetic tighter than comparison, comparison tighter than && || (one level), all left-assoc."""
    def level(op):
        return 4 if op in "*/" else 3 if op in "+-" else 2 if op in COP else 1

    def split(lo, hi):
        # operands lo..hi joined by ops lo..hi-1 ; split at the LAST operator of the LOWEST level
        best, bl = None, 99
        for i in range(lo, hi):
            if level(ops[i]) <= bl:
                best, bl = i, level(ops[i])
        return best

    def rec(lo, hi):
        if lo == hi:
            return ("m", matom(operands[lo]))
        i = split(lo, hi)
        op = ops[i]
        l, r = rec(lo, i), rec(i + 1, hi)
        if level(op) >= 3:
            return ("m", mbin(op, l[1], r[1]))
        le = l[1] if l[0] == "e" else emath(l[1])
        re_ = r[1] if r[0] == "e" else emath(r[1])
        return ("e", ecmp(op, le, re_) if op in COP else elogic(op, le, re_))
    k, t = rec(0, len(operands) - 1)
    return t if k == "e" else emath(t)


# ---------------------------------------------------------------- random typed expressions
BOUNDARY_INTS = [0, 1, -1, 2, 7, -7, 255, 256, 2 ** 31 - 1, 2 ** 31, -2 ** 31, 2 ** 53, 2 ** 53 + 1, 2 ** 63 - 1, -2 ** 63, 2 ** 62, 3037000500]
REALS = ["0.5", "2.25", "1.5", "0.1", "100.0", "3.0", "1e3", "0.001", "7.75", "1e18", "0.0000000005", "1e-10", "1e-300"]
STRS = ["", "a", "ab", "b", "abc", "zz", "a b", "10", "9"]


def rand_scalar(rng, t):
    if t in INT_T:
        b = BITS[t]
        cands = [z for z in BOUNDARY_INTS if -2 ** (b - 1) <= z < 2 ** (b - 1)] + [rng.randint(-2 ** (b - 1), 2 ** (b - 1) - 1), -2 ** (b - 1), 2 ** (b - 1) - 1]
        return tv_int(t, rng.choice(cands))
    if t in UINT_T:
        b = BITS[t]
        cands = [z for z in BOUNDARY_INTS if 0 <= z < 2 ** b] + [rng.randint(0, 2 ** b - 1), 2 ** b - 1]
        return tv_int(t, rng.choice(cands))
    if t == "f64":
        return tv_float(t, rng.choice([0.0, -0.0, 0.5, -2.25, 0.1, 1e308, 9007199254740993.0, 1e-3, 3.0, -7.75, 2.5e-10, -1e-12, 5e-324, 1e-300, float(rng.randint(-1000, 1000)) / 8]))
    if t == "f32":
        return tv_float(t, rng.choice([0.0, 0.5, -2.25, 3.0, 1024.0, -7.75, 2.0 ** -40, -(2.0 ** -100), float(rng.randint(-1000, 1000)) / 8]))
    if t == "s":
        return tv_str(rng.choice(STRS))
    return tv_bool(rng.random() < 0.5)


class ExprGen:
    """Random, mostly well-typed expression trees over a set of injected scalars."""

    def __init__(self, rng, illtyped=0.08):
        self.rng = rng
        self.ill = illtyped
        self.vars = {}          # name -> typed value
        self.funcs = set()
        self.n = 0

    def fresh(self, t):
        self.n += 1
        name = "v%d" % self.n
        self.vars[name] = rand_scalar(self.rng, t)
        return name

    def num_atom(self):
        r = self.rng
        x = r.random()
        if x < 0.3:
            return const(kint(r.choice(BOUNDARY_INTS + [r.randint(-50, 50)] * 6)))
        if x < 0.4:
            return const(kreal(r.choice(REALS)))
        if x < 0.9:
            return var(self.fresh(r.choice(INT_T + UINT_T + FLOAT_T)))
        t = r.choice(INT_T + UINT_T + FLOAT_T)
        fn = "Id" + t.upper()
        self.funcs.add(fn)
        # arguments stay small and dyadic: float -> integer / float32 parameter conversions are only
        # defined (and only promised by C03) for representable values
        return acall(call("func", fn, [as_arg(emath(self.small_num(1)))]))

    def small_num(self, depth):
        r = self.rng
        if depth <= 0 or r.random() < 0.4:
            x = r.random()
            if x < 0.5:
                return matom(const(kint(r.randint(0, 9))))
            if x < 0.7:
                return matom(const(kreal(r.choice(["0.5", "2.25", "1.5", "3.0", "7.75"]))))
            t = r.choice(["i8", "u8", "i32", "f32"])
            self.n += 1
            name = "s%d" % self.n
            self.vars[name] = tv_int(t, r.randint(0, 9)) if t != "f32" else tv_float("f32", r.choice([0.5, 2.0, 3.25]))
            return matom(var(name))
        return mk_mbin(r.choice("+*+"), self.small_num(depth - 1), self.small_num(depth - 1))

    def num(self, depth):
        r = self.rng
        if r.random() < self.ill:
            return matom(r.choice([const(kstr("s")), const(kbool(True)), var(self.fresh("s")), var(self.fresh("b"))]))
        if depth <= 0 or r.random() < 0.25:
            return matom(self.num_atom())
        m = mk_mbin(r.choice("+-*/+-*"), self.num(depth - 1), self.num(depth - 1))
        return mparen(m) if r.random() < 0.12 else m

    def strm(self, depth):
        r = self.rng
        if depth <= 0 or r.random() < 0.5:
            return matom(const(kstr(r.choice(STRS))) if r.random() < 0.5 else var(self.fresh("s")))
        return mk_mbin("+", self.strm(depth - 1), self.strm(depth - 1))

    def boolean(self, depth):
        r = self.rng
        x = r.random()
        if depth <= 0 or x < 0.15:
            y = r.random()
            if y < 0.4:
                return emath(matom(const(kbool(r.random() < 0.5))))
            if y < 0.7:
                return emath(matom(var(self.fresh("b"))))
            return eatom(True, var(self.fresh("b")) if r.random() < 0.7 else const(kbool(r.random() < 0.5)))
        if x < 0.55:
            op = r.choice(list(COP))
            if r.random() < 0.2:
                return mk_ecmp(op, emath(self.strm(1)), emath(self.strm(1)))
            if r.random() < 0.1:
                return mk_ecmp(r.choice(["==", "!="]), self.boolean(depth - 1), self.boolean(depth - 1))
            return mk_ecmp(op, emath(self.num(depth - 1)), emath(self.num(depth - 1)))
        if x < 0.9:
            return mk_elogic(r.choice(["&&", "||"]), self.boolean(depth - 1), self.boolean(depth - 1))
        return paren_e(self.boolean(depth - 1), neg=r.random() < 0.7)

    def any(self, depth):
        x = self.rng.random()
        if x < 0.45:
            return emath(self.num(depth))
        if x < 0.9:
            return self.boolean(depth)
        return emath(self.strm(2))

    def inject(self):
        return [inj_val(n, tv) for n, tv in self.vars.items()] + [inj_func(f) for f in sorted(self.funcs)]


# ---------------------------------------------------------------- random statement trees
def mint(z):
    return matom(const(kint(z)))


def mvar(n):
    return matom(var(n))


class StmtGen:
    """Random rule bodies: nested if / else-if / else, for, forRange, break, continue, return at any
    depth, plain and compound assignments to locals and injected targets; a Mark(i) call after every
    statement makes the executed path observable."""

    def __init__(self, rng, wild=0.05):
        self.rng = rng
        self.wild = wild
        self.mark = 0
        self.locals = []
        self.loopvar = 0

    def inject(self):
        return [inj_func("Mark"), inj_func("IdI64"),
                inj_struct("h", fields={"I64": tv_int("i64", 5), "I8": tv_int("i8", 3), "U8": tv_int("u8", 200), "F64": tv_float("f64", 1.5)},
                           sub={"N": tv_int("i64", 40)}, m={"k": 10, "j": 2}, sl=[4, 5, 6]),
                inj_map("mp", "s", "i64", [(tv_str("a"), tv_int("i64", 1)), (tv_str("b"), tv_int("i64", 2)), (tv_str("c"), tv_int("i64", 3))]),
                inj_seq("sq", "i32", [tv_int("i32", 7), tv_int("i32", 8), tv_int("i32", 9)]),
                inj_val("c5", tv_int("i64", 5)), inj_val("tt", tv_bool(True)), inj_ptr("pc", tv_int("i32", 1))]

    def mk(self):
        self.mark += 1
        return scall(call("func", "Mark", [("const", kint(self.mark))]))

    def num(self, depth=1):
        r = self.rng
        if depth <= 0 or r.random() < 0.4:
            x = r.random()
            if x < 0.4 or not self.locals:
                return mint(r.randint(-3, 9))
            if x < 0.8:
                return mvar(r.choice(self.locals))
            return mvar(r.choice(["h.I64", "c5", "h.Sub.N", "h.I8"]))
        return mk_mbin(r.choice("+-*"), self.num(depth - 1), self.num(depth - 1))

    def cond(self):
        r = self.rng
        x = r.random()
        if x < 0.1:
            return emath(matom(const(kbool(r.random() < 0.5))))
        if x < 0.15:
            return emath(mvar("tt"))
        if x < 0.15 + self.wild:
            return emath(mint(5))                      # non-boolean condition
        c = mk_ecmp(r.choice(list(COP)), emath(self.num(1)), emath(self.num(1)))
        if r.random() < 0.2:
            c = mk_elogic(r.choice(["&&", "||"]), c, mk_ecmp(r.choice(list(COP)), emath(self.num(0)), emath(self.num(0))))
        if r.random() < 0.1:
            c = paren_e(c, neg=True)
        return c

    def target(self):
        r = self.rng
        x = r.random()
        if x < 0.6:
            if self.locals and r.random() < 0.6:
                return ("var", r.choice(self.locals))
            n = "l%d" % r.randint(1, 4)
            if n not in self.locals:
                self.locals.append(n)
            return ("var", n)
        if x < 0.75:
            return ("var", r.choice(["h.I64", "h.Sub.N", "h.I8", "h.U8", "h.PSub.N", "pc"]))
        if x < 0.9:
            return ("map", mapvar(r.choice(["mp", "h.M"]), ("str", r.choice(["a", "k", "new"]))))
        return ("map", mapvar(r.choice(["sq", "h.SL"]), ("int", r.randint(0, 3))))

    def assignment(self, compound_ok=True):
        r = self.rng
        defined = list(self.locals)
        tg = self.target()
        op = r.choice(["=", "=", ":=", "+=", "-=", "*=", "/="]) if compound_ok else "="
        if op not in ("=", ":=") and tg[0] == "var" and tg[1] not in defined and "." not in tg[1] and tg[1] != "pc" and r.random() > self.wild:
            op = "="
        return assign(tg, op, ("math", self.num(1)))

    def stmt(self, depth, in_loop):
        r = self.rng
        x = r.random()
        if depth <= 0 or x < 0.35:
            return self.assignment()
        if x < 0.55:
            elifs = [(self.cond(), self.blk(depth - 1, in_loop)) for _ in range(r.choice([0, 0, 1, 2]))]
            el = self.blk(depth - 1, in_loop) if r.random() < 0.5 else None
            return sif(self.cond(), self.blk(depth - 1, in_loop), elifs, el)
        if x < 0.72:
            self.loopvar += 1
            iv = "i%d" % self.loopvar
            k = r.choice([0, 1, 2, 3, 3, 4])
            if r.random() < 0.3:
                # the loop variable is an injected target: init, test and step are observable in the host store
                iv = r.choice(["h.I64", "h.Sub.N", "pc", "h.PSub.N"])
                tgt = ("var", iv)
                return sfor(assign(tgt, "=", ("math", mint(0))), mk_ecmp("<", emath(mvar(iv)), emath(mint(k))),
                            assign(tgt, "+=", ("math", mint(1))), self.blk(depth - 1, True))
            self.locals.append(iv)
            return sfor(assign(("var", iv), "=", ("math", mint(0))), mk_ecmp("<", emath(mvar(iv)), emath(mint(k))),
                        assign(("var", iv), "+=", ("math", mint(1))), self.blk(depth - 1, True))
        if x < 0.82:
            self.loopvar += 1
            kv = "k%d" % self.loopvar
            self.locals.append(kv)
            return sforrange(kv, r.choice(["sq", "sq", "h.SL", "mp1"]) if r.random() < 0.9 else r.choice(["c5", "nope", "h"]), self.blk(depth - 1, True))
        if x < 0.88 and (in_loop or r.random() < self.wild):
            return sbreak()
        if x < 0.94 and (in_loop or r.random() < self.wild):
            return scontinue()
        if x < 0.97:
            return scall(call("func", "IdI64", [as_arg(emath(self.num(1)))]))
        return self.assignment()

    def blk(self, depth, in_loop, top=False):
        r = self.rng
        stmts = []
        for _ in range(r.randint(0 if not top else 1, 3 if not top else 5)):
            s = self.stmt(depth, in_loop)
            stmts.append(s)
            if s["s"] not in ("break", "continue"):
                stmts.append(self.mk())
        ret = None
        p = 0.5 if top else 0.12
        if r.random() < p:
            ret = ("bare",) if r.random() < 0.25 else ("expr", emath(self.num(1)))
        return block(stmts, ret)


# ---------------------------------------------------------------- common check flow for the rule-level family
SYMPTOM_L = {0: "tree", 1: "class", 2: "value", 3: "cites", 4: "calls", 5: "store", 6: "compile", 7: "reader"}


def lang_check(run, pid, make_cases, rule_text, assumptions, nontrivial, focus_codes=None, classify=None, extra=None):
    """build, prove, run the campaign, compare inside Coq, report.
    nontrivial(case, obs) -> hashable key or None; focus_codes: the disagreement codes that decide THIS property
    (other codes are still reported: any model/implementation disagreement means the theorems no longer describe the code)."""
    build_harness()
    ok, log = proof_obligations(run, pid, extra_obligations=1 + (1 if extra else 0),
                                extra_names=["correspondence_%s: Lang/Check.v mismatches cases = [] and listener tree = grammar reading of the text" % pid] + ([extra[0]] if extra else []))
    rng = random.Random(run.seed)
    cases = make_cases(rng, run.tier)
    corpus_dir = os.path.join(ROOT, "corpus", pid)
    run.log("running %d rule texts on the implementation" % len(cases))
    obs = run_lang(cases)
    # re-injection: the second execution (fresh objects bound to the same names in the same data context) is one more case
    # with the same expected behaviour as a first execution
    next_id = max([c["id"] for c in cases] + [0]) + 1          # ids stay small: they are nat numerals inside Coq
    for c, o in list(zip(cases, obs)):
        if c.get("reinject") and o.get("second") and not o.get("compile"):
            c2 = dict(c, id=next_id, reinject=False, tree=False, reinjected=True, inject=c.get("inject2") or c["inject"], inject2=None, first_inject=c["inject"])
            next_id += 1
            cases.append(c2)
            obs.append(dict(o["second"], id=c2["id"]))
    mism = evaluate_lang(pid, cases, obs)
    byid = {c["id"]: c for c in cases}
    ob = {o["id"]: o for o in obs}
    run.log("compared inside Coq: %d disagreement(s)" % len(mism))
    reported = {}
    for cid, code in [m for m in mism if m[1] != 7]:
        c, o = byid[cid], ob[cid]
        sig = {"kind": "lang-case", "symptom": SYMPTOM_L[code]}
        if classify:
            sig.update(classify(c, o, code) or {})
        key = json.dumps(sig, sort_keys=True)
        reported[key] = reported.get(key, 0) + 1
        if reported[key] > 1 or len(reported) > 6:
            continue
        exp = ""
        if code == 0:
            a, b = o.get("tree", ""), c["expect_tree"]
            j = next((j for j in range(min(len(a), len(b))) if a[j] != b[j]), 0)
            exp = " | listener: ...%s... | grammar reading: ...%s..." % (a[max(0, j - 60):j + 60], b[max(0, j - 60):j + 60])
        if c.get("reinjected"):
            sig["second_execution"] = "fresh objects re-injected under the same names"
        run.report(sig, {"text": c["text"], "inject": c["inject"], "rule": c["rule"], "reinject": bool(c.get("reinjected")), "first_inject": c.get("first_inject"), "observation": {k: o.get(k) for k in ("class", "ret", "cites", "calls", "store", "errmsg", "compile")},
                         "disagreement": LCODES[code]},
                   "%s: %s — rule text: %s%s" % (pid, LCODES[code], c["text"].replace("\n", " | ")[:400], exp))
    report_reader(run, pid, mism, lambda i: byid[i]["text"])
    if pid in ("C02", "C03", "C09", "C11", "C15", "C18", "C20") and ok:
        interp_facts_report(run, pid, bool(run.violations))
    extra_cov = {}
    if extra:
        clean, extra_cov = extra[1](run)
        if clean:
            run.coverage["discharged"] += 1
    if not ok and not run.violations:
        run.report({"kind": "proof", "theorem": pid}, {"theorem": "Props/%s.v" % pid, "log": log[-3000:]},
                   "%s: the Coq development no longer builds and no failing input was found" % pid, no_input=True)
    cov = run.coverage
    if not mism:
        cov["discharged"] += 1
    cov.update(extra_cov)
    keys = set()
    classes = {}
    for c in cases:
        o = ob[c["id"]]
        classes[o["class"]] = classes.get(o["class"], 0) + 1
        k = nontrivial(c, o)
        if k is not None:
            keys.add(k)
    cov.update({"evaluations": len(cases), "distinct_nontrivial": len(keys), "rule": rule_text,
                "outcome_classes": classes, "oversize_skipped": sum(1 for c in cases if c.get("oversize")),
                "traces_validated_against_impl": len(cases), "disagreements": len(mism),
                "samples": [{"text": cases[len(cases) // 3]["text"], "inject": cases[len(cases) // 3]["inject"], "observed": {k: ob[cases[len(cases) // 3]["id"]].get(k) for k in ("class", "ret", "cites")}},
                            {"text": cases[-1]["text"], "observed": {k: ob[cases[-1]["id"]].get(k) for k in ("class", "ret", "cites")}}]})
    run.assumptions = assumptions + [
        "reflect primitives behave as the assumed table in Lang/Store.v (which receiver kinds panic); exercised, not proved",
        "float64 arithmetic is IEEE-754 binary64 round-to-nearest-even without fused operations; the model runs on Coq's primitive floats; float32 values only where exactly representable",
        "python's float() and Go's strconv.ParseFloat agree on the real literals used (both correctly rounded)",
        "the ANTLR-generated lexer/parser is covered only end to end: the tree the listener built is compared node by node (shape, operators, operands, positions) with the grammar's reading of the generated text"]
    return run.finish()


def replay_lang(run, data):
    build_harness()
    coq_make()
    rp = data["replay"]
    print("rule text:\n" + rp["text"])
    if rp.get("reinject"):      # the recorded observation is the SECOND execution, after fresh objects were bound to the same names
        obs = run_lang([{"id": 0, "text": rp["text"], "rule": rp["rule"], "inject": rp.get("first_inject") or rp["inject"], "inject2": rp["inject"], "reinject": True, "tree": False}])
        obs = [dict(obs[0].get("second") or {}, id=0)]
    else:
        obs = run_lang([{"id": 0, "text": rp["text"], "rule": rp["rule"], "inject": rp["inject"], "tree": False}])
    print("observation now:", json.dumps({k: obs[0].get(k) for k in ("class", "ret", "cites", "errmsg")})[:800])
    print("recorded        :", json.dumps({k: rp["observation"].get(k) for k in ("class", "ret", "cites")})[:800])
    same = all(obs[0].get(k) == rp["observation"].get(k) for k in ("class", "ret", "cites"))
    print("replay: implementation behaves as recorded:", same)
    return 1 if same else 0


def tree_shape_key(node, depth=0):
    """structural key of an AST (operators and node kinds, no literals)"""
    if isinstance(node, dict):
        return (node.get("t") or node.get("s") or "n", node.get("op"), tuple(tree_shape_key(v) for k, v in sorted(node.items()) if k not in ("pos", "apos", "op", "t", "s", "name")))
    if isinstance(node, (list, tuple)):
        return tuple(tree_shape_key(v) for v in node if not isinstance(v, (int, float, str, bool)) or v in ("var", "const", "call", "mapvar", "math", "expr", "bare"))
    return None


# ---------------------------------------------------------------- several rules per call (C15)
def make_multi_case(cid, rules, inject, rng=None, fancy=False, twice=False):
    """rules: list of (name, desc, sal, body) with pairwise distinct saliences."""
    pr = Printer(rng, fancy)
    for (n, d, s, b) in rules:
        pr.p_rule(n, d, s, b)
        fix_neg_atom_pos(b)
    order = sorted(rules, key=lambda r: -r[2])
    return {"id": cid, "text": pr.text(), "rule": order[0][0], "inject": inject, "tree": False, "multi": order, "twice": twice, "rules_ast": list(rules)}


def coq_mcase(c, o, init_dumps=None, cid=None):
    em = CoqEmit(True)
    rules = coq_list(["(mkMeta %s %s %s, %s)" % (coq_str(n), coq_str(d or ""), coq_z(s or 0), em.block(b)) for (n, d, s, b) in c["multi"]])
    cls = {"ok": "OOk", "error": "OError", "panic": "OPanic"}[o["class"]]
    rets = coq_list(["(%s, %s)" % (coq_str(k), "None" if v["t"] == "nil" else "(Some %s)" % coq_value(v)) for k, v in sorted(o["results"].items())])
    cites = coq_list(["(%d%%nat, %d%%nat)" % (a, b) for a, b in o["cites"]])
    calls = coq_list(["(%s, %s)" % (coq_str(cl["fn"]), coq_list([coq_value(a) for a in cl["args"]])) for cl in o["calls"] if cl["fn"] != "Unheld"])
    dumps = {d["name"]: d for d in o["store"]}
    store = coq_list(["(%s, %s)" % (coq_str(d["name"]), coq_hobj(d, dumps.get(d["name"]))) for d in c["inject"] if d["kind"] not in ("func", "val", "structv", "nilptr")])
    inj = coq_list(["(%s, %s)" % (coq_str(d["name"]), coq_hobj(d, (init_dumps or {}).get(d["name"]))) for d in c["inject"]])
    return "mkMC2 %s %s %s %s %s %s %s %s" % (coq_nat(c["id"] if cid is None else cid), rules, inj, cls, rets, cites, calls, store)


def evaluate_multi(tag, items):
    """items: list of Coq mcase terms."""
    shard = max(20, min(150, (len(items) + NCPU - 1) // NCPU))
    parts = [items[i:i + shard] for i in range(0, len(items), shard)] or [[]]

    def one(ip):
        i, part = ip
        body = "Definition cases : list mcase := %s.\nDefinition M := mmismatches cases.\n" % coq_list(["(" + x + ")" for x in part], per_line=True)
        res = coq_eval_cases("cases_%s_%d" % (tag, i), HEADER, body, ["M"])
        return [tuple(t) for t in parse_nat_tuples(res["M"])]
    out = []
    for r in parallel_map(one, list(enumerate(parts))):
        out += r
    return out
