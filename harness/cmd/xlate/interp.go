package main

// T4: internal/base/{rule_entity,statements,return_statment,conc_statement,for_stmt,function_call,method_call,
// three_level_call}.go -> gen/Gen_Interp.v
//
// The interpreter model (coq/theories/Lang/Sem.v, Conc/ConcBlock.v) is written by hand and tied to the code by the
// correspondence runs.  T4 adds the structural premises that the model ENCODES and that a correspondence campaign can miss
// when a refactoring breaks them only on a rare path: where the recover points are and what they cover, that locals are a
// fresh map per rule execution, the (value, error, returned) protocol of a statement list and of return, that a conc block
// starts one goroutine per child with its own copy of the loop variable, counts them all, waits for all and only then
// reports, that the iteration cap counts every evaluation of a for condition and that the step runs after continue.
// Purely syntactic (go/ast, statements compared as whitespace-free source text); part of the trusted base.

import (
	"bytes"
	"fmt"
	"go/ast"
	"go/parser"
	"go/printer"
	"go/token"
	"os"
	"path/filepath"
	"sort"
	"strings"
)

type ifact struct {
	name string
	ok   bool
	why  string
}

// whitespace-free source text of a node; statements on separate lines are joined with ';', comment lines dropped
func flat(x *xctx, n ast.Node) string {
	if n == nil {
		return ""
	}
	var b bytes.Buffer
	printer.Fprint(&b, x.fset, n) // comments are not attached to the parsed file (mode 0), so none are printed
	var lines []string
	for _, l := range strings.Split(b.String(), "\n") {
		if i := strings.Index(l, "//"); i >= 0 && !strings.Contains(l[:i], "\"") {
			l = l[:i]
		}
		l = strings.Join(strings.Fields(l), "")
		if l != "" {
			lines = append(lines, l)
		}
	}
	t := strings.Join(lines, ";")
	for _, r := range [][2]string{{"{;", "{"}, {";}", "}"}, {"(;", "("}, {",;", ","}, {";)", ")"}} {
		t = strings.ReplaceAll(t, r[0], r[1])
	}
	return t
}

func findMethod(f *ast.File, x *xctx, recvType, name string) *ast.FuncDecl {
	for _, d := range f.Decls {
		fd, ok := d.(*ast.FuncDecl)
		if !ok || fd.Body == nil || fd.Name.Name != name || fd.Recv == nil || len(fd.Recv.List) != 1 {
			continue
		}
		if flat(x, fd.Recv.List[0].Type) == "*"+recvType {
			return fd
		}
	}
	return nil
}

// defer func() { if <v> := recover(); <v> != nil { ... } }()
func isRecoverDefer(x *xctx, s ast.Stmt) (body []ast.Stmt, ok bool) {
	ds, isDefer := s.(*ast.DeferStmt)
	if !isDefer {
		return nil, false
	}
	fl, isLit := ds.Call.Fun.(*ast.FuncLit)
	if !isLit || len(fl.Body.List) != 1 {
		return nil, false
	}
	is, isIf := fl.Body.List[0].(*ast.IfStmt)
	if !isIf || is.Init == nil || is.Else != nil {
		return nil, false
	}
	init := flat(x, is.Init)
	if !strings.HasSuffix(init, ":=recover()") {
		return nil, false
	}
	v := strings.TrimSuffix(init, ":=recover()")
	if flat(x, is.Cond) != v+"!=nil" {
		return nil, false
	}
	return is.Body.List, true
}

func xlateInterp(args []string) error {
	root := "/repo"
	if len(args) > 0 {
		root = args[0]
	}
	dir := filepath.Join(root, "internal", "base")
	fset := token.NewFileSet()
	x := &xctx{fset: fset}
	parse := func(name string) (*ast.File, error) {
		return parser.ParseFile(fset, filepath.Join(dir, name), nil, 0)
	}
	var facts []ifact
	add := func(name string, ok bool, why string) { facts = append(facts, ifact{name, ok, why}) }

	// ---- rule_entity.go
	if f, err := parse("rule_entity.go"); err != nil {
		return err
	} else {
		fd := findMethod(f, x, "RuleEntity", "Execute")
		rec, fresh, noGlobals := false, false, true
		if fd != nil && len(fd.Body.List) >= 2 {
			if body, ok := isRecoverDefer(x, fd.Body.List[0]); ok {
				txt := ""
				for _, s := range body {
					txt += flat(x, s) + ";"
				}
				// the recovered panic becomes the rule's error; no value, not returned
				rec = strings.Contains(txt, "res,returned=nil,false;") && strings.Contains(txt, "err=errors.New(")
			}
			fresh = flat(x, fd.Body.List[1]) == "v,e,b:=r.RuleContent.Execute(dc,make(map[string]reflect.Value))"
		}
		// no package-level variable (e.g. a sync.Pool of maps) in the file
		for _, d := range f.Decls {
			if gd, ok := d.(*ast.GenDecl); ok && gd.Tok == token.VAR {
				noGlobals = false
			}
		}
		add("rule_execute_recovers", rec, "RuleEntity.Execute starts with defer/recover turning a panic into (nil, error, false)")
		add("rule_locals_fresh_map", fresh && noGlobals, "the locals of one rule execution are make(map[string]reflect.Value), allocated in the call; no package-level state in rule_entity.go")
	}

	// ---- statements.go / return_statment.go
	if f, err := parse("statements.go"); err != nil {
		return err
	} else {
		fd := findMethod(f, x, "Statements", "Evaluate")
		ok := false
		if fd != nil && len(fd.Body.List) == 3 {
			want0 := "for_,statement:=ranges.StatementList{v,err,b:=statement.Evaluate(dc,Vars);iferr!=nil{returnreflect.ValueOf(nil),err,false};ifb{returnv,nil,b}}"
			got0 := ""
			if rs, isRange := fd.Body.List[0].(*ast.RangeStmt); isRange {
				var parts []string
				for _, s := range rs.Body.List {
					parts = append(parts, flat(x, s))
				}
				got0 = "for_,statement:=ranges.StatementList{" + strings.Join(parts, ";") + "}"
				if flat(x, rs.Key) != "_" || flat(x, rs.Value) != "statement" || flat(x, rs.X) != "s.StatementList" {
					got0 = "?"
				}
			}
			ok = got0 == want0 &&
				flat(x, fd.Body.List[1]) == "ifs.ReturnStatement!=nil{returns.ReturnStatement.Evaluate(dc,Vars)}" &&
				flat(x, fd.Body.List[2]) == "returnreflect.ValueOf(nil),nil,false"
		}
		add("statements_protocol", ok, "a statement list stops at the first error (value nil, returned=false) or the first returned statement (error nil); then the return statement; else (nil, nil, false)")
	}
	if f, err := parse("return_statment.go"); err != nil {
		return err
	} else {
		fd := findMethod(f, x, "ReturnStatement", "Evaluate")
		ok := fd != nil && len(fd.Body.List) == 2 &&
			flat(x, fd.Body.List[0]) == "ifrs.Expression!=nil{value,e:=rs.Expression.Evaluate(dc,Vars);ife!=nil{returnreflect.ValueOf(nil),e,false};returnvalue,nil,true}" &&
			flat(x, fd.Body.List[1]) == "returnreflect.ValueOf(nil),nil,true"
		add("return_protocol", ok, "return sets the returned-flag only when its expression evaluated; a bare return returns (nil, nil, true)")
	}

	// ---- the three call nodes: the recover covers the evaluation of the arguments and the call
	for _, c := range [][3]string{{"function_call.go", "FunctionCall", "FunctionArgs"}, {"method_call.go", "MethodCall", "MethodArgs"}, {"three_level_call.go", "ThreeLevelCall", "MethodArgs"}} {
		f, err := parse(c[0])
		if err != nil {
			return err
		}
		fd := findMethod(f, x, c[1], "Evaluate")
		ok := false
		if fd != nil && len(fd.Body.List) >= 3 {
			if body, isRec := isRecoverDefer(x, fd.Body.List[0]); isRec {
				txt := ""
				for _, s := range body {
					txt += flat(x, s) + ";"
				}
				setsErr := strings.Contains(txt, "err=errors.New(eMsg);") && strings.Contains(txt, "LineNum") && strings.Contains(txt, "Column")
				// every later statement (argument evaluation, the call) comes after the defer; no go statement, no second defer
				clean := true
				for _, s := range fd.Body.List[1:] {
					ast.Inspect(s, func(n ast.Node) bool {
						switch n.(type) {
						case *ast.GoStmt, *ast.DeferStmt:
							clean = false
						}
						return true
					})
				}
				argsInside := false
				for _, s := range fd.Body.List[1:] {
					if strings.Contains(flat(x, s), "."+c[2]+".Evaluate(dc,Vars)") {
						argsInside = true
					}
				}
				ok = setsErr && clean && argsInside
			}
		}
		add("call_recover_covers_arguments_"+c[1], ok, c[1]+".Evaluate: defer/recover (cites LineNum, Column) is the first statement, the arguments are evaluated after it")
	}

	// ---- conc_statement.go
	if f, err := parse("conc_statement.go"); err != nil {
		return err
	} else {
		fd := findMethod(f, x, "ConcStatement", "Evaluate")
		counts, fanout, joins := false, false, false
		if fd != nil {
			var pre []string
			var elseBody []ast.Stmt
			for _, s := range fd.Body.List {
				if is, isIf := s.(*ast.IfStmt); isIf && flat(x, is.Cond) == "l<=0" {
					if eb, isBlock := is.Else.(*ast.BlockStmt); isBlock {
						elseBody = eb.List
					}
					break
				}
				pre = append(pre, flat(x, s))
			}
			counts = strings.Join(pre, ";") == "aLen:=len(cs.Assignments);fLen:=len(cs.FunctionCalls);mLen:=len(cs.MethodCalls);tLen:=len(cs.ThreeLevelCalls);l:=aLen+fLen+mLen+tLen"
			nAdd, nGroups, waitIdx, reportIdx := 0, 0, -1, -1
			slices := map[string]bool{}
			for i, s := range elseBody {
				t := flat(x, s)
				switch {
				case t == "wg.Add(l)":
					nAdd++
				case t == "wg.Wait()":
					waitIdx = i
				case strings.HasPrefix(t, "iflen(eMsg)>0{returnreflect.ValueOf(nil),errors.New("):
					reportIdx = i
				}
				gs, isGo := s.(*ast.GoStmt)
				if !isGo {
					continue
				}
				fl, isLit := gs.Call.Fun.(*ast.FuncLit)
				if !isLit || len(fl.Body.List) != 1 {
					continue
				}
				rs, isRange := fl.Body.List[0].(*ast.RangeStmt)
				if !isRange || flat(x, rs.Key) != "_" || len(rs.Body.List) != 2 {
					continue
				}
				loopVar := flat(x, rs.Value)
				cp, isAssign := rs.Body.List[0].(*ast.AssignStmt)
				if !isAssign || cp.Tok != token.DEFINE || len(cp.Lhs) != 1 || len(cp.Rhs) != 1 || flat(x, cp.Rhs[0]) != loopVar {
					continue
				}
				own := flat(x, cp.Lhs[0]) // the goroutine's own copy of the loop variable
				inner, isGo2 := rs.Body.List[1].(*ast.GoStmt)
				if !isGo2 {
					continue
				}
				il, isLit2 := inner.Call.Fun.(*ast.FuncLit)
				if !isLit2 || len(il.Body.List) != 3 {
					continue
				}
				if flat(x, il.Body.List[0]) == "_,e:="+own+".Evaluate(dc,Vars)" &&
					flat(x, il.Body.List[1]) == "ife!=nil{errLock.Lock();eMsg=append(eMsg,fmt.Sprintf(\"%+v\",e));errLock.Unlock()}" &&
					flat(x, il.Body.List[2]) == "wg.Done()" {
					nGroups++
					slices[flat(x, rs.X)] = true
				}
			}
			fanout = nAdd == 1 && nGroups == 4 && slices["cs.Assignments"] && slices["cs.FunctionCalls"] && slices["cs.MethodCalls"] && slices["cs.ThreeLevelCalls"]
			joins = waitIdx >= 0 && reportIdx == waitIdx+1 && reportIdx == len(elseBody)-1
		}
		add("conc_counts_every_child", counts, "the WaitGroup count is len(Assignments)+len(FunctionCalls)+len(MethodCalls)+len(ThreeLevelCalls)")
		add("conc_one_goroutine_per_child", fanout, "each of the four child lists: a goroutine per child with its own copy of the loop variable: Evaluate; record the error under errLock; wg.Done()")
		add("conc_joins_then_reports", joins, "wg.Wait() comes before the only error test, which is the last statement of the block")
	}

	// ---- for_stmt.go
	if f, err := parse("for_stmt.go"); err != nil {
		return err
	} else {
		capOK, stepOK, constOK := false, false, false
		for _, d := range f.Decls {
			if gd, ok := d.(*ast.GenDecl); ok && gd.Tok == token.CONST {
				for _, sp := range gd.Specs {
					if flat(x, sp) == "maxExecuteNum=10000" {
						constOK = true
					}
				}
			}
		}
		fd := findMethod(f, x, "ForStmt", "Evaluate")
		if fd != nil {
			ast.Inspect(fd.Body, func(n ast.Node) bool {
				fs, ok := n.(*ast.ForStmt)
				if !ok || fs.Cond != nil || fs.Init != nil || fs.Post != nil || len(fs.Body.List) < 3 {
					return true
				}
				// every pass of the Go loop — also one reached through `continue` — first counts, then tests the cap, then evaluates the condition
				capOK = flat(x, fs.Body.List[0]) == "iCount++" &&
					strings.HasPrefix(flat(x, fs.Body.List[1]), "ifiCount>maxExecuteNum{returnreflect.ValueOf(nil),fmt.Errorf(") &&
					flat(x, fs.Body.List[2]) == "it,err:=forStmt.Expression.Evaluate(dc,Vars)"
				ast.Inspect(fs.Body, func(m ast.Node) bool {
					is, ok := m.(*ast.IfStmt)
					if ok && flat(x, is.Cond) == "errStatement==CONTINUEFLAG" && len(is.Body.List) == 3 {
						stepOK = flat(x, is.Body.List[0]) == "_,err=forStmt.Assignments[1].Evaluate(dc,Vars)" &&
							flat(x, is.Body.List[1]) == "iferr!=nil{returnreflect.ValueOf(nil),err,false}" &&
							flat(x, is.Body.List[2]) == "continue"
					}
					return true
				})
				return false
			})
		}
		add("for_cap_counts_every_condition", capOK && constOK, "maxExecuteNum = 10000; each pass of the loop increments the counter and tests the cap before evaluating the condition")
		add("for_step_after_continue", stepOK, "on CONTINUEFLAG the step assignment is evaluated (its error returned) before the next pass")
	}

	// ---- every node type: the compiled tree is READ-ONLY at run time.  Pool instances share one compiled tree and a rule
	// named twice runs twice at once on it, so anything an Evaluate / Execute method stores in its own node is shared by
	// executions that must not see each other (C06, C15, C18, C19).  Checked: in every file of internal/base, no method whose
	// name starts with Evaluate or Execute (and no function literal inside one) assigns to, increments, or appends into a
	// field of its receiver, or takes its address.
	{
		entries, err := os.ReadDir(dir)
		if err != nil {
			return err
		}
		var offenders []string
		for _, e := range entries {
			if e.IsDir() || !strings.HasSuffix(e.Name(), ".go") || strings.HasSuffix(e.Name(), "_test.go") {
				continue
			}
			f, err := parse(e.Name())
			if err != nil {
				return err
			}
			for _, d := range f.Decls {
				fd, ok := d.(*ast.FuncDecl)
				if !ok || fd.Body == nil || fd.Recv == nil || len(fd.Recv.List) != 1 || len(fd.Recv.List[0].Names) != 1 {
					continue
				}
				if !strings.HasPrefix(fd.Name.Name, "Evaluate") && !strings.HasPrefix(fd.Name.Name, "Execute") && !strings.HasPrefix(fd.Name.Name, "evaluate") && !strings.HasPrefix(fd.Name.Name, "execute") {
					continue
				}
				recv := fd.Recv.List[0].Names[0].Name
				rooted := func(e ast.Expr) bool { // recv.f, recv.f[i], recv.f.g, *recv ...
					for {
						switch t := e.(type) {
						case *ast.SelectorExpr:
							if id, ok := t.X.(*ast.Ident); ok && id.Name == recv {
								return true
							}
							e = t.X
						case *ast.IndexExpr:
							e = t.X
						case *ast.StarExpr:
							e = t.X
						case *ast.ParenExpr:
							e = t.X
						default:
							return false
						}
					}
				}
				where := func(n ast.Node) string {
					return fmt.Sprintf("%s:%s:%d", e.Name(), fd.Name.Name, fset.Position(n.Pos()).Line)
				}
				ast.Inspect(fd.Body, func(n ast.Node) bool {
					switch t := n.(type) {
					case *ast.AssignStmt:
						if t.Tok != token.DEFINE {
							for _, l := range t.Lhs {
								if rooted(l) {
									offenders = append(offenders, where(l))
								}
							}
						}
					case *ast.IncDecStmt:
						if rooted(t.X) {
							offenders = append(offenders, where(t))
						}
					case *ast.UnaryExpr:
						if t.Op == token.AND && rooted(t.X) {
							offenders = append(offenders, where(t))
						}
					}
					return true
				})
			}
		}
		why := "no Evaluate*/Execute* method of internal/base assigns to, increments or takes the address of a field of its receiver: the compiled tree is read-only at run time"
		if len(offenders) > 0 {
			why += " — OFFENDING: " + strings.Join(offenders, ", ")
		}
		add("tree_read_only_at_run_time", len(offenders) == 0, why)
	}

	// ---- no package-level state: nothing survives a call in a package-level variable (a buffer pool, a cache, a busy table).
	// The evaluators of Sem.v are functions of (tree, data context, locals); a call's outcome cannot depend on what an EARLIER
	// call — a failed one in particular — left behind in the process.  Checked: the package-level `var` declarations of
	// internal/base, internal/core, engine, context and builder are the two sentinel errors BREAKFLAG / CONTINUEFLAG and the
	// read-only table TypeMap, and TypeMap is never stored into.
	{
		allowed := map[string]bool{"BREAKFLAG": true, "CONTINUEFLAG": true, "TypeMap": true}
		var offenders []string
		for _, rel := range []string{"internal/base", "internal/core", "engine", "context", "builder"} {
			d := filepath.Join(root, rel)
			entries, err := os.ReadDir(d)
			if err != nil {
				return err
			}
			for _, e := range entries {
				if e.IsDir() || !strings.HasSuffix(e.Name(), ".go") || strings.HasSuffix(e.Name(), "_test.go") {
					continue
				}
				f, err := parser.ParseFile(fset, filepath.Join(d, e.Name()), nil, 0)
				if err != nil {
					return err
				}
				for _, dcl := range f.Decls {
					gd, ok := dcl.(*ast.GenDecl)
					if !ok || gd.Tok != token.VAR {
						continue
					}
					for _, sp := range gd.Specs {
						if vs, ok := sp.(*ast.ValueSpec); ok {
							for _, n := range vs.Names {
								if !allowed[n.Name] && n.Name != "_" {
									offenders = append(offenders, fmt.Sprintf("%s/%s:%s", rel, e.Name(), n.Name))
								}
							}
						}
					}
				}
				ast.Inspect(f, func(n ast.Node) bool {
					if as, ok := n.(*ast.AssignStmt); ok {
						for _, l := range as.Lhs {
							if t := flat(x, l); t == "TypeMap" || strings.HasPrefix(t, "TypeMap[") || strings.HasSuffix(t, ".TypeMap") || strings.Contains(t, ".TypeMap[") {
								offenders = append(offenders, fmt.Sprintf("%s/%s:%d stores into TypeMap", rel, e.Name(), fset.Position(as.Pos()).Line))
							}
						}
					}
					return true
				})
			}
		}
		why := "the only package-level variables of internal/base, internal/core, engine, context and builder are BREAKFLAG, CONTINUEFLAG and the read-only TypeMap: nothing survives a call in package-level state"
		if len(offenders) > 0 {
			why += " — OFFENDING: " + strings.Join(offenders, ", ")
		}
		add("no_package_level_state", len(offenders) == 0, why)
	}

	// ---- the engine's own state: Engine/Spec.v gives an engine ONE piece of state, the result map of the current call (reset when
	// a call starts).  Checked: struct Gengine has exactly the fields lock and returnResult — no buffer, counter or flag in which
	// something of an earlier (failed, rejected) call could survive into the next.
	{
		f, err := parser.ParseFile(fset, filepath.Join(root, "engine", "gengine.go"), nil, 0)
		if err != nil {
			return err
		}
		var fields []string
		found := false
		for _, dcl := range f.Decls {
			gd, ok := dcl.(*ast.GenDecl)
			if !ok || gd.Tok != token.TYPE {
				continue
			}
			for _, sp := range gd.Specs {
				ts, ok := sp.(*ast.TypeSpec)
				if !ok || ts.Name.Name != "Gengine" {
					continue
				}
				if st, ok := ts.Type.(*ast.StructType); ok {
					found = true
					for _, fl := range st.Fields.List {
						if len(fl.Names) == 0 {
							fields = append(fields, "(embedded "+flat(x, fl.Type)+")")
						}
						for _, n := range fl.Names {
							fields = append(fields, n.Name)
						}
					}
				}
			}
		}
		sort.Strings(fields)
		okE := found && strings.Join(fields, ",") == "lock,returnResult"
		why := "struct Gengine has exactly the fields lock and returnResult: the result map is the only state an engine carries from call to call"
		if !okE {
			why += " — FOUND: " + strings.Join(fields, ",")
		}
		add("engine_state_is_the_result_map", okE, why)
	}

	sort.Slice(facts, func(i, j int) bool { return facts[i].name < facts[j].name })
	w := os.Stdout
	fmt.Fprintln(w, "(* GENERATED by harness/cmd/xlate (T4) from internal/base/*.go — do not edit. *)")
	fmt.Fprintln(w, "From Coq Require Import String List Bool.")
	fmt.Fprintln(w, "Import ListNotations.")
	fmt.Fprintln(w, "(* (fact, holds in the source now, what it says) *)")
	fmt.Fprintln(w, "Definition gen_interp_facts : list (string * bool * string) := [")
	for i, f := range facts {
		sep := ";"
		if i == len(facts)-1 {
			sep = ""
		}
		fmt.Fprintf(w, "  (%s, %v, %s)%s\n", coqStr(f.name), f.ok, coqStr(f.why), sep)
	}
	fmt.Fprintln(w, "].")
	return nil
}

func init() { xlators["interp"] = xlateInterp }
