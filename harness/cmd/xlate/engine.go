package main

// T1: engine/gengine.go  ->  gen/Gen_Engine.v
//
// Every method `func (g *Gengine) Execute*` is mapped, statement by statement, onto the
// skeleton IR of coq/theories/Engine/IR.v. Anything that is not recognised becomes
// `IUnknown "<source>"`, which no theorem accepts. The translator is purely syntactic
// (go/ast); it is part of the trusted base and is cross-checked by the trace
// acceptance run (real traces must be accepted by the generated skeleton's semantics).

import (
	"bytes"
	"fmt"
	"go/ast"
	"go/parser"
	"go/printer"
	"go/token"
	"os"
	"sort"
	"strings"
)

type xctx struct {
	fset     *token.FileSet
	nParam   string            // name of the first int parameter
	mParam   string            // name of the second int parameter
	bParam   string            // name of the bool parameter
	names    string            // name of the []string parameter
	dag      string            // name of the [][]string parameter
	stag     string            // name of the *Stag parameter
	alias    map[string]string // local slice variable -> "base|win"
	lenAlias map[string]string // local int variable -> slice variable it is the length of
	selected bool              // a selection loop has been seen
	pending  string            // argument text of the last <wg>.Add(...)
	wgName   string
}

func (x *xctx) src(n ast.Node) string {
	var b bytes.Buffer
	printer.Fprint(&b, x.fset, n)
	return strings.Join(strings.Fields(b.String()), " ")
}

func coqString(s string) string {
	s = strings.ReplaceAll(s, "\"", "'")
	if len(s) > 160 {
		s = s[:160]
	}
	return "\"" + s + "\"%string"
}

func unknown(x *xctx, n ast.Node) string { return "IUnknown " + coqString(x.src(n)) }

// ---- slice expressions: which base list and which window ----
func (x *xctx) sliceOf(e ast.Expr) (base, win string, ok bool) {
	s := x.src(e)
	switch s {
	case "rb.Kc.SortRules":
		return "BSorted", "WAll", true
	case "rb.Kc.RuleEntities":
		return "BEnts", "WAll", true
	case "rules":
		return "BLocal", "WAll", true
	}
	if a, found := x.alias[s]; found {
		p := strings.Split(a, "|")
		return p[0], p[1], true
	}
	// X[...] forms
	var inner string
	for _, b := range []struct{ pre, base string }{{"rb.Kc.SortRules", "BSorted"}, {"rules", "BLocal"}} {
		if strings.HasPrefix(s, b.pre+"[") {
			inner = s[len(b.pre):]
			base = b.base
			break
		}
	}
	if base == "" {
		return "", "", false
	}
	lenName := ""
	for k, v := range x.lenAlias {
		if v == "rules" && base == "BLocal" {
			lenName = k
		}
	}
	switch inner {
	case "[1:]":
		return base, "WFrom1", true
	case "[:" + x.nParam + "]":
		if x.nParam != "" {
			return base, "WFirstN", true
		}
	case "[" + x.nParam + ":][:" + x.mParam + "]":
		if x.nParam != "" && x.mParam != "" {
			return base, "WDropNTakeM", true
		}
	case "[:len(rules)-1]", "[:len(rules) - 1]":
		return base, "WButLast", true
	}
	if lenName != "" && (inner == "[:"+lenName+"-1]" || inner == "[:"+lenName+" - 1]") {
		return base, "WButLast", true
	}
	return "", "", false
}

// rules[0] / rules[length-1] as the receiver of .Execute
func (x *xctx) elemOf(e ast.Expr) (base, win string, ok bool) {
	s := x.src(e)
	if s == "rules[0]" {
		return "BLocal", "WIdx0", true
	}
	if s == "rules[len(rules)-1]" || s == "rules[len(rules) - 1]" {
		return "BLocal", "WLast", true
	}
	for k, v := range x.lenAlias {
		if v == "rules" && (s == "rules["+k+"-1]" || s == "rules["+k+" - 1]") {
			return "BLocal", "WLast", true
		}
	}
	return "", "", false
}

func (x *xctx) countOf(arg string, base string) (string, bool) {
	arg = strings.ReplaceAll(arg, " ", "")
	baseSrc := map[string][]string{"BSorted": {"len(rb.Kc.SortRules)"}, "BEnts": {"len(rb.Kc.RuleEntities)"}, "BLocal": {"len(rules)"}}[base]
	for k, v := range x.lenAlias {
		if v == "rules" && base == "BLocal" {
			baseSrc = append(baseSrc, k)
		}
	}
	for _, b := range baseSrc {
		if arg == b {
			return "CLen", true
		}
		if arg == b+"-1" {
			return "CLenMinus1", true
		}
	}
	if x.nParam != "" && arg == x.nParam {
		return "CParamN", true
	}
	if x.mParam != "" && arg == x.mParam {
		return "CParamM", true
	}
	return "", false
}

// ---- recognisers for the pieces of a rule execution ----

// v, e, bx := <recv>.Execute(rb.Dc)
func (x *xctx) isExecAssign(s ast.Stmt) (recv ast.Expr, errVar, flagVar string, ok bool) {
	recv, _, errVar, flagVar, ok = x.isExecAssignV(s)
	return
}

// same, also returning the variable that receives the rule's value
func (x *xctx) isExecAssignV(s ast.Stmt) (recv ast.Expr, valVar, errVar, flagVar string, ok bool) {
	as, isAs := s.(*ast.AssignStmt)
	// a DEFINITION (:=): the value, error and returned-flag of one rule execution are variables of their own — with a plain
	// assignment the goroutines of a fan-out would share the enclosing function's variables
	if !isAs || as.Tok != token.DEFINE || len(as.Lhs) != 3 || len(as.Rhs) != 1 {
		return
	}
	call, isCall := as.Rhs[0].(*ast.CallExpr)
	if !isCall {
		return
	}
	sel, isSel := call.Fun.(*ast.SelectorExpr)
	if !isSel || sel.Sel.Name != "Execute" || len(call.Args) != 1 || x.src(call.Args[0]) != "rb.Dc" {
		return
	}
	return sel.X, x.src(as.Lhs[0]), x.src(as.Lhs[1]), x.src(as.Lhs[2]), true
}

// if bx { g.addResult(<recv>.RuleName, <v>) } — the name of the rule that was just executed and the value it returned
func (x *xctx) isAddResult(s ast.Stmt, flagVar string, exec ast.Stmt) bool {
	is, ok := s.(*ast.IfStmt)
	if !ok || is.Init != nil || is.Else != nil || x.src(is.Cond) != flagVar || len(is.Body.List) != 1 {
		return false
	}
	recv, valVar, _, _, isExec := x.isExecAssignV(exec)
	if !isExec || valVar == "_" {
		return false
	}
	want := "g.addResult(" + strings.ReplaceAll(x.src(recv), " ", "") + ".RuleName," + valVar + ")"
	return strings.ReplaceAll(x.src(is.Body.List[0]), " ", "") == want
}

func isReturnErr(x *xctx, s ast.Stmt) bool {
	r, ok := s.(*ast.ReturnStmt)
	return ok && len(r.Results) == 1 && strings.HasPrefix(x.src(r.Results[0]), "errors.New(")
}

func isAppendErr(x *xctx, s ast.Stmt) bool {
	return strings.HasPrefix(x.src(s), "eMsg = append(eMsg,")
}

// the error-policy statement of a sequential loop -> pol
func (x *xctx) policy(s ast.Stmt, errVar string) (string, bool) {
	is, ok := s.(*ast.IfStmt)
	if !ok || is.Init != nil {
		return "", false
	}
	cond := x.src(is.Cond)
	if cond == errVar+" != nil" && is.Else == nil {
		if len(is.Body.List) != 1 {
			return "", false
		}
		in := is.Body.List[0]
		if isAppendErr(x, in) {
			return "Collect", true
		}
		if isReturnErr(x, in) {
			return "StopFirst", true
		}
		if r, ok := in.(*ast.ReturnStmt); ok && len(r.Results) == 1 && x.src(r.Results[0]) == errVar {
			return "StopFirst", true
		}
		// if b { append } else { return errors.New / return e }
		if ii, ok := in.(*ast.IfStmt); ok && x.bParam != "" && x.src(ii.Cond) == x.bParam && ii.Else != nil && len(ii.Body.List) == 1 && isAppendErr(x, ii.Body.List[0]) {
			if eb, ok := ii.Else.(*ast.BlockStmt); ok && len(eb.List) == 1 {
				if isReturnErr(x, eb.List[0]) {
					return "ByFlag", true
				}
				if r, ok := eb.List[0].(*ast.ReturnStmt); ok && len(r.Results) == 1 && x.src(r.Results[0]) == errVar {
					return "ByFlag", true
				}
			}
		}
		return "", false
	}
	// if b { if e != nil { append } } else { return e }       (the pinned N-M shape)
	if x.bParam != "" && cond == x.bParam && is.Else != nil && len(is.Body.List) == 1 {
		if ii, ok := is.Body.List[0].(*ast.IfStmt); ok && x.src(ii.Cond) == errVar+" != nil" && ii.Else == nil && len(ii.Body.List) == 1 && isAppendErr(x, ii.Body.List[0]) {
			if eb, ok := is.Else.(*ast.BlockStmt); ok && len(eb.List) == 1 {
				if r, ok := eb.List[0].(*ast.ReturnStmt); ok && len(r.Results) == 1 && x.src(r.Results[0]) == errVar {
					return "ReturnAlways", true
				}
				// else { if e != nil { return e } }  — a correct variant
				if ei, ok := eb.List[0].(*ast.IfStmt); ok && x.src(ei.Cond) == errVar+" != nil" && ei.Else == nil && len(ei.Body.List) == 1 {
					if r, ok := ei.Body.List[0].(*ast.ReturnStmt); ok && len(r.Results) == 1 && (x.src(r.Results[0]) == errVar || isReturnErr(x, r)) {
						return "ByFlag", true
					}
				}
			}
		}
	}
	return "", false
}

func (x *xctx) isStopBreak(s ast.Stmt) bool {
	is, ok := s.(*ast.IfStmt)
	if !ok || x.stag == "" || is.Else != nil || x.src(is.Cond) != x.stag+".StopTag" || len(is.Body.List) != 1 {
		return false
	}
	b, ok := is.Body.List[0].(*ast.BranchStmt)
	return ok && b.Tok == token.BREAK
}

// body of `for _, r := range X { ... }` executed sequentially
func (x *xctx) seqBody(loopVar string, body []ast.Stmt) (pol string, tag bool, ok bool) {
	i := 0
	cur := loopVar
	if i < len(body) { // optional rr := rule
		if as, isAs := body[i].(*ast.AssignStmt); isAs && len(as.Lhs) == 1 && len(as.Rhs) == 1 && x.src(as.Rhs[0]) == loopVar && as.Tok == token.DEFINE {
			cur = x.src(as.Lhs[0])
			i++
		}
	}
	if i >= len(body) {
		return
	}
	recv, errVar, flagVar, isExec := x.isExecAssign(body[i])
	if !isExec || x.src(recv) != cur {
		return
	}
	i++
	if i >= len(body) || !x.isAddResult(body[i], flagVar, body[i-1]) {
		return
	}
	i++
	if i >= len(body) {
		return
	}
	p, pok := x.policy(body[i], errVar)
	if !pok {
		return
	}
	i++
	if i < len(body) && x.isStopBreak(body[i]) {
		tag = true
		i++
	}
	if i != len(body) {
		return
	}
	return p, tag, true
}

// body of the goroutine of a fan-out:  v,e,bx := rr.Execute(rb.Dc); if bx {addResult};
// if e != nil { errLock.Lock(); eMsg = append(...); errLock.Unlock() }; <wg>.Done()
func (x *xctx) goBody(cur string, body []ast.Stmt) (wg string, ok bool) {
	if len(body) != 4 {
		return
	}
	recv, errVar, flagVar, isExec := x.isExecAssign(body[0])
	if !isExec || x.src(recv) != cur || !x.isAddResult(body[1], flagVar, body[0]) {
		return
	}
	is, isIf := body[2].(*ast.IfStmt)
	if !isIf || x.src(is.Cond) != errVar+" != nil" || is.Else != nil || len(is.Body.List) != 3 {
		return
	}
	if x.src(is.Body.List[0]) != "errLock.Lock()" || !isAppendErr(x, is.Body.List[1]) || x.src(is.Body.List[2]) != "errLock.Unlock()" {
		return
	}
	d := x.src(body[3])
	if !strings.HasSuffix(d, ".Done()") {
		return
	}
	return strings.TrimSuffix(d, ".Done()"), true
}

func lenCond(x *xctx, cond string) (string, bool) {
	c := strings.ReplaceAll(cond, " ", "")
	subjects := []string{"len(rules)"}
	for k, v := range x.lenAlias {
		if v == "rules" {
			subjects = append(subjects, k)
		}
	}
	for _, s := range subjects {
		switch c {
		case s + ">=2", "(" + s + "-1)>=1", s + "-1>=1", s + ">1":
			return "LenGe 2", true
		case s + ">0", s + ">=1":
			return "LenGe 1", true
		case s + "==1":
			return "LenEq 1", true
		case s + "==2":
			return "LenEq 2", true
		case s + "<=2":
			return "LenLe 2", true
		}
	}
	return "", false
}

func (x *xctx) block(stmts []ast.Stmt) []string {
	var out []string
	for i := 0; i < len(stmts); i++ {
		s := stmts[i]
		txt := x.src(s)
		switch st := s.(type) {
		case *ast.DeclStmt:
			// var rules []*base.RuleEntity ; var errLock sync.Mutex ; var eMsg []string ; var wg sync.WaitGroup
			if strings.HasPrefix(txt, "var rules []") || strings.HasPrefix(txt, "var errLock sync.Mutex") || strings.HasPrefix(txt, "var eMsg []string") || (strings.HasPrefix(txt, "var ") && strings.HasSuffix(txt, " sync.WaitGroup")) {
				continue
			}
			out = append(out, unknown(x, s))
		case *ast.ReturnStmt:
			if txt == "return nil" {
				out = append(out, "IRetNil")
			} else {
				out = append(out, unknown(x, s))
			}
		case *ast.AssignStmt:
			if txt == "g.returnResult = make(map[string]interface{})" {
				out = append(out, "IReset")
				continue
			}
			// rules := rb.Kc.SortRules
			if len(st.Lhs) == 1 && len(st.Rhs) == 1 && st.Tok == token.DEFINE {
				lhs, rhs := x.src(st.Lhs[0]), x.src(st.Rhs[0])
				if lhs == "rules" && rhs == "rb.Kc.SortRules" {
					out = append(out, "ILet BSorted")
					continue
				}
				if rhs == "len(rules)" {
					x.lenAlias[lhs] = "rules"
					continue
				}
				if b, w, ok := x.sliceOf(st.Rhs[0]); ok && lhs != "rules" {
					x.alias[lhs] = b + "|" + w
					continue
				}
			}
			// v, e, bx := rules[0].Execute(rb.Dc) ; if bx {...} ; if e != nil { return ... }   |  return e
			if recv, errVar, flagVar, ok := x.isExecAssign(s); ok {
				if b, w, ok2 := x.elemOf(recv); ok2 && i+2 < len(stmts) && x.isAddResult(stmts[i+1], flagVar, s) {
					if p, pok := x.policy(stmts[i+2], errVar); pok && p == "StopFirst" {
						out = append(out, fmt.Sprintf("ISeq %s %s StopFirst false", b, w))
						i += 2
						continue
					}
					if r, isRet := stmts[i+2].(*ast.ReturnStmt); isRet && len(r.Results) == 1 && x.src(r.Results[0]) == errVar {
						out = append(out, fmt.Sprintf("ISeq %s %s StopFirst false", b, w), "IRetNil")
						i += 2
						continue
					}
				}
			}
			out = append(out, unknown(x, s))
		case *ast.ExprStmt:
			if strings.HasSuffix(txt, ")") && strings.Contains(txt, ".Add(") && !strings.Contains(txt, "append") {
				p := strings.Index(txt, ".Add(")
				x.wgName = txt[:p]
				x.pending = txt[p+5 : len(txt)-1]
				continue
			}
			if strings.HasPrefix(txt, "sort.SliceStable(rules, func(i, j int) bool { return rules[i].Salience > rules[j].Salience })") {
				out = append(out, "ISort")
				continue
			}
			out = append(out, unknown(x, s))
		case *ast.RangeStmt:
			out = append(out, x.rangeStmt(st, stmts, &i))
		case *ast.ForStmt:
			// for i := 0; i < len(dag); i++ { ... }
			if x.dag != "" && st.Init != nil && st.Cond != nil && strings.ReplaceAll(x.src(st.Cond), " ", "") == "i<len("+x.dag+")" {
				body := x.block(st.Body.List)
				out = append(out, "IForLayers "+coqInstrList(body))
				continue
			}
			// for j := 0; j < len(dag[i]); j++ { if rule, ok := rb.Kc.RuleEntities[dag[i][j]]; ok { rules = append(rules, rule) } }
			if x.dag != "" && st.Cond != nil && strings.ReplaceAll(x.src(st.Cond), " ", "") == "j<len("+x.dag+"[i])" && len(st.Body.List) == 1 {
				if m, ok := x.lookup(st.Body.List[0], x.dag+"[i][j]"); ok {
					x.selected = true
					out = append(out, "ISelect "+m)
					continue
				}
			}
			out = append(out, unknown(x, s))
		case *ast.IfStmt:
			out = append(out, x.ifStmt(st))
		default:
			out = append(out, unknown(x, s))
		}
	}
	return out
}

// if r, ok := rb.Kc.RuleEntities[<key>]; ok { [rr := r;] rules = append(rules, r|rr) } [else {...}]
func (x *xctx) lookup(s ast.Stmt, key string) (string, bool) {
	is, ok := s.(*ast.IfStmt)
	if !ok || is.Init == nil || x.src(is.Cond) != "ok" {
		return "", false
	}
	as, ok := is.Init.(*ast.AssignStmt)
	if !ok || len(as.Lhs) != 2 || len(as.Rhs) != 1 || x.src(as.Rhs[0]) != "rb.Kc.RuleEntities["+key+"]" {
		return "", false
	}
	v := x.src(as.Lhs[0])
	body := is.Body.List
	cur := v
	if len(body) == 2 {
		if a2, ok := body[0].(*ast.AssignStmt); ok && len(a2.Lhs) == 1 && x.src(a2.Rhs[0]) == v {
			cur = x.src(a2.Lhs[0])
			body = body[1:]
		}
	}
	if len(body) != 1 || x.src(body[0]) != "rules = append(rules, "+cur+")" {
		return "", false
	}
	if is.Else == nil {
		return "MSkip", true
	}
	eb, ok := is.Else.(*ast.BlockStmt)
	if !ok || len(eb.List) != 1 {
		return "", false
	}
	et := x.src(eb.List[0])
	if strings.HasPrefix(et, "log.Errorf(") {
		return "MSkip", true
	}
	if r, ok := eb.List[0].(*ast.ReturnStmt); ok && len(r.Results) == 1 && strings.HasPrefix(x.src(r.Results[0]), "errors.New(") {
		// does the message dereference the (nil) lookup result?
		if strings.Contains(et, v+".") {
			return "MDerefNil", true
		}
		return "MFail", true
	}
	return "", false
}

func (x *xctx) rangeStmt(st *ast.RangeStmt, stmts []ast.Stmt, i *int) string {
	val := ""
	if st.Value != nil {
		val = x.src(st.Value)
	}
	// selection loop: for _, name := range names { if r, ok := rb.Kc.RuleEntities[name]; ok {...} else {...} }
	if x.names != "" && x.src(st.X) == x.names && len(st.Body.List) == 1 {
		if m, ok := x.lookup(st.Body.List[0], val); ok {
			x.selected = true
			return "ISelect " + m
		}
		return unknown(x, st)
	}
	base, win, ok := x.sliceOf(st.X)
	if !ok {
		return unknown(x, st)
	}
	body := st.Body.List
	// fan-out?  rr := r ; go func() {...}()
	if len(body) == 2 {
		if as, isAs := body[0].(*ast.AssignStmt); isAs && len(as.Lhs) == 1 && x.src(as.Rhs[0]) == val {
			if gs, isGo := body[1].(*ast.GoStmt); isGo {
				if fl, isLit := gs.Call.Fun.(*ast.FuncLit); isLit && len(gs.Call.Args) == 0 {
					wg, gok := x.goBody(x.src(as.Lhs[0]), fl.Body.List)
					if !gok || x.pending == "" || wg != x.wgName {
						return unknown(x, st)
					}
					cnt, cok := x.countOf(x.pending, base)
					x.pending = ""
					if !cok {
						return unknown(x, st)
					}
					waited := "false"
					if *i+1 < len(stmts) && x.src(stmts[*i+1]) == wg+".Wait()" {
						waited = "true"
						*i++
					}
					return fmt.Sprintf("IPar %s %s %s %s", base, win, cnt, waited)
				}
			}
		}
	}
	p, tag, sok := x.seqBody(val, body)
	if !sok {
		return unknown(x, st)
	}
	return fmt.Sprintf("ISeq %s %s %s %v", base, win, p, tag)
}

func (x *xctx) ifStmt(st *ast.IfStmt) string {
	if st.Init != nil {
		return unknown(x, st)
	}
	cond := strings.ReplaceAll(x.src(st.Cond), " ", "")
	retErr := st.Else == nil && len(st.Body.List) == 1 && isReturnErr(x, st.Body.List[0])
	if retErr {
		switch cond {
		case "rb==nil":
			return "IGuard GNilBuilder"
		case "len(rb.Kc.SortRules)==0":
			return "IGuard GEmptySorted"
		case "len(rb.Kc.RuleEntities)==0":
			return "IGuard GEmptyEnts"
		case "len(eMsg)>0":
			return "IFailIfErrs"
		}
		if x.nParam != "" && cond == x.nParam+"<=0" {
			return "IGuard GNle0"
		}
		if x.mParam != "" && cond == x.mParam+"<=0" {
			return "IGuard GMle0"
		}
		if x.nParam != "" && cond == x.nParam+"+"+x.mParam+">len(rb.Kc.SortRules)" {
			return "IGuard GSumGtLen"
		}
		if x.nParam != "" && x.names != "" && cond == x.nParam+"+"+x.mParam+"!=len("+x.names+")" {
			return "IGuard GSumNeNames"
		}
		empties := []string{"len(rules)<1", "len(rules)==0"}
		for k, v := range x.lenAlias {
			if v == "rules" {
				empties = append(empties, k+"==0", k+"<1")
			}
		}
		for _, e := range empties {
			if cond == e {
				if x.selected {
					return "IGuard GNoneSelected"
				}
				return "IGuard GEmptyLocal"
			}
		}
		return unknown(x, st)
	}
	if st.Else != nil {
		return unknown(x, st)
	}
	if x.bParam != "" && cond == "!"+x.bParam && len(st.Body.List) == 1 {
		if in, ok := st.Body.List[0].(*ast.IfStmt); ok && strings.ReplaceAll(x.src(in.Cond), " ", "") == "len(eMsg)>0" && in.Else == nil && len(in.Body.List) == 1 && isReturnErr(x, in.Body.List[0]) {
			return "IFailIfErrsUnlessB"
		}
	}
	if x.dag != "" && cond == "len("+x.dag+")==0" {
		return "ICond NoLayers " + coqInstrList(x.block(st.Body.List))
	}
	if x.stag != "" && cond == "!"+x.stag+".StopTag" {
		return "IIfNotStopped " + coqInstrList(x.block(st.Body.List))
	}
	if c, ok := lenCond(x, cond); ok {
		return "ICond (" + c + ") " + coqInstrList(x.block(st.Body.List))
	}
	return unknown(x, st)
}

func coqInstrList(l []string) string {
	return "[" + strings.Join(l, "; ") + "]"
}

func xlateEngine(args []string) error {
	path := "/repo/engine/gengine.go"
	if len(args) > 0 {
		path = args[0]
	}
	fset := token.NewFileSet()
	f, err := parser.ParseFile(fset, path, nil, 0)
	if err != nil {
		return err
	}
	progs := map[string]string{}
	helpers := map[string]bool{}
	for _, d := range f.Decls {
		fd, ok := d.(*ast.FuncDecl)
		if ok && fd.Recv != nil && fd.Body != nil && (fd.Name.Name == "addResult" || fd.Name.Name == "GetRulesResultMap") {
			hx := &xctx{fset: fset}
			var lines []string
			for _, st := range fd.Body.List {
				lines = append(lines, strings.ReplaceAll(hx.src(st), " ", ""))
			}
			sig := strings.ReplaceAll(hx.src(fd.Type), " ", "")
			body := strings.Join(lines, ";")
			switch fd.Name.Name {
			case "addResult": // one store of the value under the name, under the engine's lock
				helpers["addResult"] = sig == "func(namestring,returnResultinterface{})" && body == "g.lock.Lock();deferg.lock.Unlock();g.returnResult[name]=returnResult"
			case "GetRulesResultMap": // hands back the map itself
				helpers["GetRulesResultMap"] = body == "returng.returnResult,nil"
			}
			continue
		}
		if !ok || fd.Recv == nil || fd.Body == nil || !strings.HasPrefix(fd.Name.Name, "Execute") {
			continue
		}
		if len(fd.Recv.List) != 1 || strings.ReplaceAll((&xctx{fset: fset}).src(fd.Recv.List[0].Type), " ", "") != "*Gengine" {
			continue
		}
		x := &xctx{fset: fset, alias: map[string]string{}, lenAlias: map[string]string{}}
		var ints []string
		for _, p := range fd.Type.Params.List {
			t := x.src(p.Type)
			for _, n := range p.Names {
				switch t {
				case "int":
					ints = append(ints, n.Name)
				case "bool":
					x.bParam = n.Name
				case "[]string":
					x.names = n.Name
				case "[][]string":
					x.dag = n.Name
				case "*Stag":
					x.stag = n.Name
				}
			}
		}
		if len(ints) >= 2 {
			x.nParam, x.mParam = ints[0], ints[1]
		}
		progs[fd.Name.Name] = coqInstrList(x.block(fd.Body.List))
	}
	var names []string
	for n := range progs {
		names = append(names, n)
	}
	sort.Strings(names)
	w := os.Stdout
	fmt.Fprintln(w, "(* GENERATED by harness/cmd/xlate (T1) from engine/gengine.go — do not edit. *)")
	fmt.Fprintln(w, "From Coq Require Import String List ZArith Bool.")
	fmt.Fprintln(w, "From GV Require Import Engine.IR Engine.Hand.")
	fmt.Fprintln(w, "Import ListNotations.")
	for _, n := range names {
		fmt.Fprintf(w, "Definition %s : list instr :=\n  %s.\n", n, progs[n])
	}
	fmt.Fprintf(w, "(* addResult is exactly { lock; defer unlock; returnResult[name] = value } and GetRulesResultMap returns the map itself *)\nDefinition gen_result_helpers_ok : bool := %v.\n", helpers["addResult"] && helpers["GetRulesResultMap"])
	fmt.Fprintln(w, "Definition gen (e : entry) : list instr :=\n  match e with")
	for _, n := range allEntries {
		if _, ok := progs[n]; ok {
			fmt.Fprintf(w, "  | E%s => %s\n", n, n)
		} else {
			fmt.Fprintf(w, "  | E%s => [IUnknown \"entry point %s not found in the source\"%%string]\n", n, n)
		}
	}
	fmt.Fprintln(w, "  end.")
	var extra []string
	for _, n := range names {
		found := false
		for _, e := range allEntries {
			if e == n {
				found = true
			}
		}
		if !found {
			extra = append(extra, n)
		}
	}
	fmt.Fprintf(w, "(* entry points in the source that the model does not know: %v *)\n", extra)
	fmt.Fprintf(w, "Definition unknown_entry_points : nat := %d.\n", len(extra))
	return nil
}

var allEntries = []string{
	"Execute", "ExecuteWithStopTagDirect", "ExecuteConcurrent", "ExecuteMixModel",
	"ExecuteMixModelWithStopTagDirect", "ExecuteSelectedRules", "ExecuteSelectedRulesWithControl",
	"ExecuteSelectedRulesWithControlAsGivenSortedName", "ExecuteSelectedRulesWithControlAndStopTag",
	"ExecuteSelectedRulesWithControlAndStopTagAsGivenSortedName", "ExecuteSelectedRulesConcurrent",
	"ExecuteSelectedRulesMixModel", "ExecuteInverseMixModel", "ExecuteSelectedRulesInverseMixModel",
	"ExecuteNSortMConcurrent", "ExecuteNConcurrentMSort", "ExecuteNConcurrentMConcurrent",
	"ExecuteSelectedNSortMConcurrent", "ExecuteSelectedNConcurrentMSort",
	"ExecuteSelectedNConcurrentMConcurrent", "ExecuteDAGModel",
}

func init() { xlators["engine"] = xlateEngine }
