package main

// xlate ops (T5): internal/core/math.go -> gen/Gen_Ops.v
// The four arithmetic functions core.Add / Sub / Mul / Div are decision tables over the reflect.Kind names of the two
// operands.  Each is translated, statement by statement, into a list of `gstmt` (Lang/OpTable.v):
//
//	if strings.HasPrefix(akind, P) { if strings.HasPrefix(bkind, Q) { return E, nil } ... }   ->  GCase (KPre P) (KPre Q) E   (one per inner if)
//	if akind == S && bkind == T { return E, nil }                                             ->  GCase (KEq S) (KEq T) E
//	if strings.HasPrefix(bkind, Q) { v := b.Acc(); if v == 0 { return nil, errors.New(..) } }  ->  GZero (KPre Q) Acc
//	return nil, errors.New(..)     (last statement)                                            ->  end of the list
//
// E is a Go expression over a.Int() a.Uint() a.Float() a.String() (and b's), the conversions int64() uint64() float64(),
// + - * / and fmt.Sprintf("%s%s", x, y).  Anything else is listed in gen_ops_unrecognised, which the obligation requires to be empty.
// The obligation (coq/obligations/GenOpsOk.v) then PROVES, for every pair of values of the modelled domain, that running the
// translated table gives exactly what the hand-written operator model (Lang/Sem.v arith) gives.

import (
	"fmt"
	"go/ast"
	"go/parser"
	"go/token"
	"os"
	"path/filepath"
	"strconv"
	"strings"
)

type opsx struct {
	fset  *token.FileSet
	src   []byte
	kinds map[string]string // akind -> a
	bad   []string
}

func (o *opsx) text(n ast.Node) string {
	return string(o.src[o.fset.Position(n.Pos()).Offset:o.fset.Position(n.End()).Offset])
}

func (o *opsx) fail(fn string, n ast.Node, why string) {
	t := strings.Join(strings.Fields(o.text(n)), " ")
	if len(t) > 90 {
		t = t[:90] + "..."
	}
	o.bad = append(o.bad, fmt.Sprintf("%s line %d: %s: %s", fn, o.fset.Position(n.Pos()).Line, why, t))
}

func opStr(s string) string { return "\"" + strings.ReplaceAll(s, "\"", "\"\"") + "\"" }

// kind test on one operand: returns (operand "a"/"b", coq ktest)
func (o *opsx) ktest(e ast.Expr) (string, string, bool) {
	switch c := e.(type) {
	case *ast.ParenExpr:
		return o.ktest(c.X)
	case *ast.CallExpr:
		if sel, ok := c.Fun.(*ast.SelectorExpr); ok && len(c.Args) == 2 {
			if x, ok := sel.X.(*ast.Ident); ok && x.Name == "strings" && sel.Sel.Name == "HasPrefix" {
				if id, ok := c.Args[0].(*ast.Ident); ok {
					if lit, ok := c.Args[1].(*ast.BasicLit); ok && lit.Kind == token.STRING {
						if who, ok := o.kinds[id.Name]; ok {
							s, _ := strconv.Unquote(lit.Value)
							return who, "(KPre " + opStr(s) + ")", true
						}
					}
				}
			}
		}
	case *ast.BinaryExpr:
		if c.Op == token.EQL {
			if id, ok := c.X.(*ast.Ident); ok {
				if lit, ok := c.Y.(*ast.BasicLit); ok && lit.Kind == token.STRING {
					if who, ok := o.kinds[id.Name]; ok {
						s, _ := strconv.Unquote(lit.Value)
						return who, "(KEq " + opStr(s) + ")", true
					}
				}
			}
		}
	}
	return "", "", false
}

var accName = map[string]string{"Int": "AInt", "Uint": "AUint", "Float": "AFloat", "String": "AStr"}
var convName = map[string]string{"int64": "TInt64", "uint64": "TUint64", "float64": "TFloat64"}
var binName = map[token.Token]string{token.ADD: "GAdd", token.SUB: "GSub", token.MUL: "GMul", token.QUO: "GDiv"}

// accessor call a.Int() / b.Float() ...: returns operand and accessor
func accessor(e ast.Expr) (string, string, bool) {
	c, ok := e.(*ast.CallExpr)
	if !ok || len(c.Args) != 0 {
		return "", "", false
	}
	sel, ok := c.Fun.(*ast.SelectorExpr)
	if !ok {
		return "", "", false
	}
	id, ok := sel.X.(*ast.Ident)
	if !ok || (id.Name != "a" && id.Name != "b") {
		return "", "", false
	}
	acc, ok := accName[sel.Sel.Name]
	return id.Name, acc, ok
}

func (o *opsx) gexp(e ast.Expr) (string, bool) {
	switch c := e.(type) {
	case *ast.ParenExpr:
		return o.gexp(c.X)
	case *ast.BinaryExpr:
		op, ok := binName[c.Op]
		if !ok {
			return "", false
		}
		l, ok1 := o.gexp(c.X)
		r, ok2 := o.gexp(c.Y)
		return "(GBin " + op + " " + l + " " + r + ")", ok1 && ok2
	case *ast.CallExpr:
		if who, acc, ok := accessor(c); ok {
			return "(GGet " + map[string]string{"a": "false", "b": "true"}[who] + " " + acc + ")", true
		}
		if id, ok := c.Fun.(*ast.Ident); ok && len(c.Args) == 1 {
			if t, ok := convName[id.Name]; ok {
				x, ok := o.gexp(c.Args[0])
				return "(GConv " + t + " " + x + ")", ok
			}
		}
		if sel, ok := c.Fun.(*ast.SelectorExpr); ok && len(c.Args) == 3 {
			if x, ok := sel.X.(*ast.Ident); ok && x.Name == "fmt" && sel.Sel.Name == "Sprintf" {
				if lit, ok := c.Args[0].(*ast.BasicLit); ok && lit.Value == "\"%s%s\"" {
					l, ok1 := o.gexp(c.Args[1])
					r, ok2 := o.gexp(c.Args[2])
					return "(GConcat " + l + " " + r + ")", ok1 && ok2
				}
			}
		}
	}
	return "", false
}

// `return E, nil`
func (o *opsx) okReturn(s ast.Stmt) (string, bool) {
	r, ok := s.(*ast.ReturnStmt)
	if !ok || len(r.Results) != 2 {
		return "", false
	}
	if id, ok := r.Results[1].(*ast.Ident); !ok || id.Name != "nil" {
		return "", false
	}
	return o.gexp(r.Results[0])
}

// `return nil, errors.New(...)`
func (o *opsx) errReturn(s ast.Stmt) bool {
	r, ok := s.(*ast.ReturnStmt)
	if !ok || len(r.Results) != 2 {
		return false
	}
	if id, ok := r.Results[0].(*ast.Ident); !ok || id.Name != "nil" {
		return false
	}
	c, ok := r.Results[1].(*ast.CallExpr)
	if !ok {
		return false
	}
	t := strings.ReplaceAll(o.text(c.Fun), " ", "")
	return t == "errors.New" || t == "fmt.Errorf"
}

func isZeroLit(e ast.Expr) bool {
	lit, ok := e.(*ast.BasicLit)
	if !ok {
		return false
	}
	f, err := strconv.ParseFloat(lit.Value, 64)
	return err == nil && f == 0
}

func (o *opsx) function(fd *ast.FuncDecl) []string {
	fn := fd.Name.Name
	var out []string
	o.kinds = map[string]string{}
	n := len(fd.Body.List)
	for i, s := range fd.Body.List {
		switch st := s.(type) {
		case *ast.AssignStmt:
			// akind := a.Kind().String()
			t := strings.ReplaceAll(o.text(st), " ", "")
			if st.Tok == token.DEFINE && len(st.Lhs) == 1 && (strings.HasSuffix(t, ":=a.Kind().String()") || strings.HasSuffix(t, ":=b.Kind().String()")) {
				o.kinds[st.Lhs[0].(*ast.Ident).Name] = t[strings.Index(t, ":=")+2 : strings.Index(t, ":=")+3]
				continue
			}
			o.fail(fn, s, "unrecognised assignment")
		case *ast.IfStmt:
			if st.Init != nil || st.Else != nil {
				o.fail(fn, s, "if with init or else")
				continue
			}
			// akind == S && bkind == T { return E, nil }
			if be, ok := st.Cond.(*ast.BinaryExpr); ok && be.Op == token.LAND {
				wa, ta, ok1 := o.ktest(be.X)
				wb, tb, ok2 := o.ktest(be.Y)
				if ok1 && ok2 && wa == "a" && wb == "b" && len(st.Body.List) == 1 {
					if e, ok := o.okReturn(st.Body.List[0]); ok {
						out = append(out, "GCase "+ta+" "+tb+" "+e)
						continue
					}
				}
				o.fail(fn, s, "unrecognised conjunction")
				continue
			}
			who, t, ok := o.ktest(st.Cond)
			if !ok {
				o.fail(fn, s, "unrecognised condition")
				continue
			}
			if who == "a" {
				for _, in := range st.Body.List {
					is, ok := in.(*ast.IfStmt)
					if !ok || is.Init != nil || is.Else != nil || len(is.Body.List) != 1 {
						o.fail(fn, in, "unrecognised statement under a test of the left operand")
						continue
					}
					wb, tb, ok := o.ktest(is.Cond)
					e, ok2 := o.okReturn(is.Body.List[0])
					if !ok || wb != "b" || !ok2 {
						o.fail(fn, in, "unrecognised case")
						continue
					}
					out = append(out, "GCase "+t+" "+tb+" "+e)
				}
				continue
			}
			// zero guard on the right operand: v := b.Acc(); if v == 0 { return nil, err }
			if len(st.Body.List) == 2 {
				as, ok1 := st.Body.List[0].(*ast.AssignStmt)
				is, ok2 := st.Body.List[1].(*ast.IfStmt)
				if ok1 && ok2 && as.Tok == token.DEFINE && len(as.Lhs) == 1 && len(as.Rhs) == 1 && is.Init == nil && is.Else == nil && len(is.Body.List) == 1 {
					wv, acc, ok3 := accessor(as.Rhs[0])
					ce, ok4 := is.Cond.(*ast.BinaryExpr)
					if ok3 && wv == "b" && ok4 && ce.Op == token.EQL && o.text(ce.X) == as.Lhs[0].(*ast.Ident).Name && isZeroLit(ce.Y) && o.errReturn(is.Body.List[0]) {
						out = append(out, "GZero "+t+" "+acc)
						continue
					}
				}
			}
			o.fail(fn, s, "unrecognised statement under a test of the right operand")
		case *ast.ReturnStmt:
			if i == n-1 && o.errReturn(s) {
				continue
			}
			o.fail(fn, s, "unrecognised return")
		default:
			o.fail(fn, s, "unrecognised statement")
		}
	}
	if n == 0 || !o.errReturn(fd.Body.List[n-1]) {
		o.bad = append(o.bad, fn+": the function does not end with `return nil, <error>`")
	}
	return out
}

func xlateOps(args []string) error {
	if len(args) < 1 {
		return fmt.Errorf("usage: xlate ops <repo>")
	}
	path := filepath.Join(args[0], "internal", "core", "math.go")
	src, err := os.ReadFile(path)
	if err != nil {
		return err
	}
	o := &opsx{fset: token.NewFileSet(), src: src}
	f, err := parser.ParseFile(o.fset, path, src, 0)
	if err != nil {
		return err
	}
	tables := map[string][]string{}
	for _, d := range f.Decls {
		fd, ok := d.(*ast.FuncDecl)
		if !ok || fd.Recv != nil || fd.Body == nil {
			continue
		}
		switch fd.Name.Name {
		case "Add", "Sub", "Mul", "Div":
			ps := strings.ReplaceAll(o.text(fd.Type.Params), " ", "")
			if ps != "(a,breflect.Value)" {
				o.bad = append(o.bad, fd.Name.Name+": parameters are not (a, b reflect.Value): "+ps)
			}
			tables[fd.Name.Name] = o.function(fd)
		}
	}
	fmt.Println("(* GENERATED by `xlate ops` (T5) from internal/core/math.go — do not edit. *)")
	fmt.Println("From Coq Require Import String List.")
	fmt.Println("From GV Require Import Lang.OpTable.")
	fmt.Println("Import ListNotations.")
	fmt.Println("Local Open Scope string_scope.")
	for _, name := range []string{"Add", "Sub", "Mul", "Div"} {
		t, ok := tables[name]
		if !ok {
			o.bad = append(o.bad, "core."+name+" not found")
		}
		fmt.Printf("\nDefinition gen_%s : gfun :=\n  [", name)
		for i, c := range t {
			if i > 0 {
				fmt.Print(";\n   ")
			}
			fmt.Print(c)
		}
		fmt.Println("].")
	}
	fmt.Print("\nDefinition gen_ops_unrecognised : list string :=\n  [")
	for i, b := range o.bad {
		if i > 0 {
			fmt.Print(";\n   ")
		}
		fmt.Print(opStr(b))
	}
	fmt.Println("].")
	return nil
}

func init() { xlators["ops"] = xlateOps }
