package main

// T2: lock/access table of gengine's own shared state -> gen/Gen_Locks.v
//
// For every function of the five files anchored by C19 a flow-insensitive-in-expressions,
// flow-sensitive-in-statements walk records each access to a tracked piece of shared state
// together with the set of mutexes syntactically held at that point:
//   X.Lock() adds X; X.Unlock() removes X; `defer X.Unlock()` keeps X until the function ends;
//   after an if/else the held set is the intersection over the branches that fall through;
//   the body of `go func(){..}()` starts a new thread with an empty held set.
// The discipline (which mutex must guard which state, which functions are constructors,
// which state is confined) is stated in Coq (Race/Checker.v); this translator only reports.

import (
	"fmt"
	"go/ast"
	"go/parser"
	"go/token"
	"os"
	"sort"
	"strings"
)

type access struct {
	file, fn, state string
	write, inGo     bool
	held            []string
	line            int
}

type callRec struct {
	caller, callee string
	held           []string
}

var callsites []callRec

// pool-level waiting discipline (C17, Pool/Progress.v): every call from a function of gengine_pool.go to a method of the pool
// or to the engine's Execute*, and every lock acquisition in that file, with the locks held at that point
var poolcalls []callRec

type acqRec struct {
	fn, lock string
	held     []string
}

var poolacqs []acqRec

// a mutex taken by Lock()/RLock() and still held when the function returns, with no deferred Unlock registered for it: the
// next acquisition waits for ever
type leakRec struct {
	fn, lock string
	line     int
}

var lockleaks []leakRec

func sortedSet(m map[string]bool) []string {
	var hs []string
	for k := range m {
		hs = append(hs, k)
	}
	sort.Strings(hs)
	return hs
}

type lockWalker struct {
	x        *xctx
	file, fn string
	recv     string
	out      *[]access
	deferred map[string]bool // mutexes with a deferred Unlock in this function
	inLit    int             // depth of function literals (their returns do not leave the function)
}

func (w *lockWalker) leakCheck(held map[string]bool, line int) {
	if w.inLit > 0 {
		return
	}
	for _, k := range sortedSet(held) {
		if !w.deferred[k] {
			lockleaks = append(lockleaks, leakRec{fn: w.fn, lock: k, line: line})
		}
	}
}

// tracked state: returns a canonical name for an expression, or "" (receiver names are normalised to "R")
func (w *lockWalker) stateOf(e ast.Expr) string {
	s := strings.ReplaceAll(w.x.src(e), " ", "")
	if w.recv != "" && strings.HasPrefix(s, w.recv+".") {
		s = "R." + s[len(w.recv)+1:]
	}
	switch s {
	case "R.freeGengines", "R.additionGengines", "R.ruleBuilder", "R.clear", "R.execModel", "R.base", "R.returnResult", "R.Kc":
		return w.file + ":" + s[2:]
	}
	if strings.HasPrefix(s, "gp.rbSlice[") && strings.HasSuffix(s, "].Kc") {
		return w.file + ":rbSlice[].Kc"
	}
	if s == "rb.Kc" && w.file == "gengine_pool.go" {
		return w.file + ":rbSlice[].Kc" // for _, rb := range gp.rbSlice
	}
	if strings.HasPrefix(s, "Vars[") && w.file == "data_context.go" {
		return w.file + ":Vars" // only element accesses: passing the map reference on is no access
	}
	if s == "eMsg" {
		return w.file + ":eMsg"
	}
	return ""
}

func copySet(m map[string]bool) map[string]bool {
	o := map[string]bool{}
	for k := range m {
		o[k] = true
	}
	return o
}

func (w *lockWalker) record(e ast.Expr, write bool, held map[string]bool, inGo bool) {
	st := w.stateOf(e)
	if st == "" {
		return
	}
	var hs []string
	for k := range held {
		hs = append(hs, k)
	}
	sort.Strings(hs)
	*w.out = append(*w.out, access{file: w.file, fn: w.fn, state: st, write: write, inGo: inGo, held: hs, line: w.x.fset.Position(e.Pos()).Line})
}

// reads inside an expression (not descending into function literals)
func (w *lockWalker) reads(e ast.Node, held map[string]bool, inGo bool) {
	if e == nil {
		return
	}
	ast.Inspect(e, func(n ast.Node) bool {
		switch t := n.(type) {
		case *ast.FuncLit:
			return false
		case *ast.CallExpr:
			c := strings.ReplaceAll(w.x.src(t.Fun), " ", "")
			if w.file == "gengine_pool.go" {
				// builder methods that replace the receiver's rule container
				for _, m := range []string{".RemoveRules", ".BuildRuleFromString", ".BuildRuleWithIncremental"} {
					if strings.HasSuffix(c, m) {
						recv := strings.TrimSuffix(c, m)
						st := ""
						if recv == "rb" || strings.HasPrefix(recv, "gp.rbSlice[") {
							st = w.file + ":rbSlice[].Kc"
						} else if recv == "gp.ruleBuilder" {
							st = w.file + ":ruleBuilder"
						}
						if st != "" {
							var hs []string
							for k := range held {
								hs = append(hs, k)
							}
							sort.Strings(hs)
							*w.out = append(*w.out, access{file: w.file, fn: w.fn, state: st, write: true, inGo: inGo, held: hs, line: w.x.fset.Position(t.Pos()).Line})
						}
					}
				}
				if w.recv != "" && strings.HasPrefix(c, w.recv+".") && strings.Count(c, ".") == 1 {
					poolcalls = append(poolcalls, callRec{caller: w.fn, callee: c[len(w.recv)+1:], held: sortedSet(held)})
				} else if strings.HasPrefix(c, "gw.gengine.Execute") {
					poolcalls = append(poolcalls, callRec{caller: w.fn, callee: "engine.Execute", held: sortedSet(held)})
				} else if !strings.Contains(c, ".") && c != "make" && c != "len" && c != "append" && c != "delete" && c != "panic" && c != "recover" && c != "int" && c != "int64" {
					poolcalls = append(poolcalls, callRec{caller: w.fn, callee: c, held: sortedSet(held)})
				}
				if c == "updateIncremental" {
					var hs []string
					for k := range held {
						hs = append(hs, k)
					}
					sort.Strings(hs)
					callsites = append(callsites, callRec{caller: w.fn, callee: c, held: hs})
				}
			}
		case *ast.IndexExpr:
			if w.stateOf(t) != "" {
				w.record(t, false, held, inGo)
				return false
			}
		case *ast.SelectorExpr:
			if w.stateOf(t) != "" {
				w.record(t, false, held, inGo)
				return false
			}
		case *ast.Ident:
			if w.stateOf(t) != "" {
				w.record(t, false, held, inGo)
			}
		}
		return true
	})
}

func (w *lockWalker) lhs(e ast.Expr, held map[string]bool, inGo bool) {
	// x.f = .. | x.f[i] = .. | Vars[k] = ..
	base := e
	if ix, ok := e.(*ast.IndexExpr); ok {
		if w.stateOf(ix) != "" { // Vars[k] = v
			w.record(ix, true, held, inGo)
			return
		}
		base = ix.X
		w.reads(ix.Index, held, inGo)
	}
	if w.stateOf(base) != "" {
		w.record(base, true, held, inGo)
		return
	}
	w.reads(e, held, inGo)
}

func lockCall(x *xctx, s ast.Stmt) (name string, lock bool, ok bool) {
	es, isE := s.(*ast.ExprStmt)
	if !isE {
		return
	}
	t := strings.ReplaceAll(x.src(es), " ", "")
	if strings.HasSuffix(t, ".RLock()") { // a read lock: enough for reads, not for writes
		return strings.TrimSuffix(t, ".RLock()") + "#r", true, true
	}
	if strings.HasSuffix(t, ".RUnlock()") {
		return strings.TrimSuffix(t, ".RUnlock()") + "#r", false, true
	}
	if strings.HasSuffix(t, ".Lock()") {
		return strings.TrimSuffix(t, ".Lock()"), true, true
	}
	if strings.HasSuffix(t, ".Unlock()") {
		return strings.TrimSuffix(t, ".Unlock()"), false, true
	}
	return
}

func (w *lockWalker) normLock(n string) string {
	if w.recv != "" && strings.HasPrefix(n, w.recv+".") {
		return "R." + n[len(w.recv)+1:]
	}
	return n
}

// returns the held set after the block and whether control can fall through
func (w *lockWalker) block(list []ast.Stmt, held map[string]bool, inGo bool) (map[string]bool, bool) {
	held = copySet(held)
	for _, s := range list {
		if n, lock, ok := lockCall(w.x, s); ok {
			if lock {
				if w.file == "gengine_pool.go" {
					poolacqs = append(poolacqs, acqRec{fn: w.fn, lock: w.normLock(n), held: sortedSet(held)})
				}
				held[w.normLock(n)] = true
			} else {
				delete(held, w.normLock(n))
			}
			continue
		}
		switch t := s.(type) {
		case *ast.DeferStmt:
			c := strings.ReplaceAll(w.x.src(t.Call), " ", "")
			if strings.HasSuffix(c, ".Unlock()") || strings.HasSuffix(c, ".RUnlock()") {
				if w.deferred == nil {
					w.deferred = map[string]bool{}
				}
				if strings.HasSuffix(c, ".RUnlock()") {
					w.deferred[w.normLock(strings.TrimSuffix(c, ".RUnlock()")+"#r")] = true
				} else {
					w.deferred[w.normLock(strings.TrimSuffix(c, ".Unlock()"))] = true
				}
				continue // held until the end of the function
			}
			if fl, ok := t.Call.Fun.(*ast.FuncLit); ok {
				w.inLit++
				w.block(fl.Body.List, held, inGo)
				w.inLit--
				continue
			}
			w.reads(t.Call, held, inGo)
		case *ast.GoStmt:
			if fl, ok := t.Call.Fun.(*ast.FuncLit); ok {
				w.inLit++
				w.block(fl.Body.List, map[string]bool{}, true)
				w.inLit--
			}
		case *ast.AssignStmt:
			for _, r := range t.Rhs {
				w.reads(r, held, inGo)
				if fl, ok := r.(*ast.FuncLit); ok {
					w.inLit++
					w.block(fl.Body.List, held, inGo)
					w.inLit--
				}
			}
			for _, l := range t.Lhs {
				if t.Tok == token.DEFINE {
					continue
				}
				w.lhs(l, held, inGo)
			}
		case *ast.ExprStmt:
			// delete(x.f, k) writes x.f ; a call of a function literal runs inline
			if call, ok := t.X.(*ast.CallExpr); ok {
				if id, ok := call.Fun.(*ast.Ident); ok && id.Name == "delete" && len(call.Args) == 2 {
					w.lhs(call.Args[0], held, inGo)
					w.reads(call.Args[1], held, inGo)
					continue
				}
			}
			w.reads(t.X, held, inGo)
		case *ast.IfStmt:
			if t.Init != nil {
				held, _ = w.block([]ast.Stmt{t.Init}, held, inGo)
			}
			w.reads(t.Cond, held, inGo)
			h1, f1 := w.block(t.Body.List, held, inGo)
			h2, f2 := copySet(held), true
			if t.Else != nil {
				switch e := t.Else.(type) {
				case *ast.BlockStmt:
					h2, f2 = w.block(e.List, held, inGo)
				case *ast.IfStmt:
					h2, f2 = w.block([]ast.Stmt{e}, held, inGo)
				}
			}
			switch {
			case f1 && f2:
				for k := range h1 {
					if !h2[k] {
						delete(h1, k)
					}
				}
				held = h1
			case f1:
				held = h1
			case f2:
				held = h2
			default:
				return held, false
			}
		case *ast.ForStmt:
			if t.Init != nil {
				held, _ = w.block([]ast.Stmt{t.Init}, held, inGo)
			}
			w.reads(t.Cond, held, inGo)
			w.block(t.Body.List, held, inGo)
			if t.Post != nil {
				w.block([]ast.Stmt{t.Post}, held, inGo)
			}
		case *ast.RangeStmt:
			w.reads(t.X, held, inGo)
			w.block(t.Body.List, held, inGo)
		case *ast.SwitchStmt:
			w.reads(t.Tag, held, inGo)
			for _, c := range t.Body.List {
				if cc, ok := c.(*ast.CaseClause); ok {
					w.block(cc.Body, held, inGo)
				}
			}
		case *ast.BlockStmt:
			held, _ = w.block(t.List, held, inGo)
		case *ast.ReturnStmt:
			for _, r := range t.Results {
				w.reads(r, held, inGo)
			}
			w.leakCheck(held, w.x.fset.Position(t.Pos()).Line)
			return held, false
		case *ast.IncDecStmt:
			w.lhs(t.X, held, inGo)
		case *ast.DeclStmt:
			w.reads(t, held, inGo)
		case *ast.BranchStmt:
			if t.Tok == token.CONTINUE || t.Tok == token.BREAK || t.Tok == token.GOTO {
				return held, false
			}
		case *ast.LabeledStmt:
			held, _ = w.block([]ast.Stmt{t.Stmt}, held, inGo)
		}
	}
	return held, true
}

func xlateLocks(args []string) error {
	root := "/repo"
	if len(args) > 0 {
		root = args[0]
	}
	files := []string{"engine/gengine.go", "engine/gengine_pool.go", "context/data_context.go", "internal/base/conc_statement.go", "builder/rule_builder.go"}
	var out []access
	for _, rel := range files {
		fset := token.NewFileSet()
		f, err := parser.ParseFile(fset, root+"/"+rel, nil, 0)
		if err != nil {
			return err
		}
		x := &xctx{fset: fset}
		base := rel[strings.LastIndex(rel, "/")+1:]
		for _, d := range f.Decls {
			fd, ok := d.(*ast.FuncDecl)
			if !ok || fd.Body == nil {
				continue
			}
			w := &lockWalker{x: x, file: base, fn: fd.Name.Name, out: &out}
			if fd.Recv != nil && len(fd.Recv.List) == 1 && len(fd.Recv.List[0].Names) == 1 {
				w.recv = fd.Recv.List[0].Names[0].Name
			}
			held := map[string]bool{}
			// deferred unlocks registered at the head keep the lock for the whole body
			if end, falls := w.block(fd.Body.List, held, false); falls {
				w.leakCheck(end, fset.Position(fd.Body.Rbrace).Line)
			}
		}
	}
	o := os.Stdout
	fmt.Fprintln(o, "(* GENERATED by harness/cmd/xlate (T2): accesses to gengine's shared state with the mutexes held. Do not edit. *)")
	fmt.Fprintln(o, "From Coq Require Import String List Bool.")
	fmt.Fprintln(o, "From GV Require Import Race.Checker.")
	fmt.Fprintln(o, "Import ListNotations.")
	fmt.Fprintln(o, "Definition gen_accesses : list access := [")
	for i, a := range out {
		var hs []string
		for _, h := range a.held {
			hs = append(hs, coqStr(h))
		}
		sep := ";"
		if i == len(out)-1 {
			sep = ""
		}
		fmt.Fprintf(o, "  mkAcc %s %s %s %s [%s] %d%s\n", coqStr(a.fn), coqStr(a.state), boolc(a.write), boolc(a.inGo), strings.Join(hs, "; "), a.line, sep)
	}
	fmt.Fprintln(o, "].")
	fmt.Fprintln(o, "Definition gen_callsites : list callsite := [")
	for i, c := range callsites {
		var hs []string
		for _, h := range c.held {
			hs = append(hs, coqStr(h))
		}
		sep := ";"
		if i == len(callsites)-1 {
			sep = ""
		}
		fmt.Fprintf(o, "  mkCall %s %s [%s]%s\n", coqStr(c.caller), coqStr(c.callee), strings.Join(hs, "; "), sep)
	}
	fmt.Fprintln(o, "].")
	strs := func(l []string) string {
		var hs []string
		for _, h := range l {
			hs = append(hs, coqStr(h))
		}
		return strings.Join(hs, "; ")
	}
	fmt.Fprintln(o, "Definition gen_poolcalls : list callsite := [")
	for i, c := range poolcalls {
		sep := ";"
		if i == len(poolcalls)-1 {
			sep = ""
		}
		fmt.Fprintf(o, "  mkCall %s %s [%s]%s\n", coqStr(c.caller), coqStr(c.callee), strs(c.held), sep)
	}
	fmt.Fprintln(o, "].")
	fmt.Fprintln(o, "Definition gen_lockleaks : list (string * string * nat) := [")
	for i, l := range lockleaks {
		sep := ";"
		if i == len(lockleaks)-1 {
			sep = ""
		}
		fmt.Fprintf(o, "  (%s, %s, %d)%s\n", coqStr(l.fn), coqStr(l.lock), l.line, sep)
	}
	fmt.Fprintln(o, "].")
	fmt.Fprintln(o, "Definition gen_poolacqs : list acq := [")
	for i, a := range poolacqs {
		sep := ";"
		if i == len(poolacqs)-1 {
			sep = ""
		}
		fmt.Fprintf(o, "  mkAcq %s %s [%s]%s\n", coqStr(a.fn), coqStr(a.lock), strs(a.held), sep)
	}
	fmt.Fprintln(o, "].")
	return nil
}

func init() { xlators["locks"] = xlateLocks }
