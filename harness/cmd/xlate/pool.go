package main

// T3: engine/gengine_pool.go -> gen/Gen_Pool.v
//
// Extracts (a) the shape of every exported GenginePool.Execute* wrapper, (b) what the two
// prepare functions inject and how they obtain the rule container, (c) the locking /
// publication structure of the management methods and of updateIncremental, (d) which
// diagnostics each of the compile paths inspects (shared with C10: see compile.go).
// Purely syntactic (go/ast); part of the trusted base.

import (
	"fmt"
	"go/ast"
	"go/parser"
	"go/token"
	"os"
	"sort"
	"strings"
)

type wrapShape struct {
	name, entry, prepare        string
	clearedFirst, deferDelOK    bool
	deferPut, deferBeforeCall   bool
	returnsEngineMap, checksErr bool
}

func boolc(b bool) string {
	if b {
		return "true"
	}
	return "false"
}

func coqStr(s string) string { return "\"" + strings.ReplaceAll(s, "\"", "'") + "\"%string" }

func xlatePool(args []string) error {
	path := "/repo/engine/gengine_pool.go"
	if len(args) > 0 {
		path = args[0]
	}
	fset := token.NewFileSet()
	f, err := parser.ParseFile(fset, path, nil, 0)
	if err != nil {
		return err
	}
	x := &xctx{fset: fset}
	var wraps []wrapShape
	prep := map[string][]string{} // prepare function -> facts
	upd := map[string][]string{}
	for _, d := range f.Decls {
		fd, ok := d.(*ast.FuncDecl)
		if !ok || fd.Body == nil {
			continue
		}
		isMethod := fd.Recv != nil && len(fd.Recv.List) == 1 && strings.ReplaceAll(x.src(fd.Recv.List[0].Type), " ", "") == "*GenginePool"
		name := fd.Name.Name
		body := fd.Body.List
		switch {
		case isMethod && strings.HasPrefix(name, "Execute"):
			w := wrapShape{name: name}
			callIdx, deferIdx := -1, -1
			for i, s := range body {
				t := x.src(s)
				c := strings.ReplaceAll(t, " ", "")
				if is, ok := s.(*ast.IfStmt); ok && i <= 1 {
					cond := strings.ReplaceAll(x.src(is.Cond), " ", "")
					if (cond == "gp.clear" || cond == "gp.cleared()" || cond == "gp.isCleared()") && len(is.Body.List) == 1 && strings.HasPrefix(x.src(is.Body.List[0]), "return nil,") {
						w.clearedFirst = true
					}
				}
				if strings.HasPrefix(c, "gw,e:=gp.prepare(") {
					w.prepare = "prepare"
					if i+1 < len(body) {
						if is, ok := body[i+1].(*ast.IfStmt); ok && strings.ReplaceAll(x.src(is.Cond), " ", "") == "e!=nil" && len(is.Body.List) == 1 && strings.HasPrefix(x.src(is.Body.List[0]), "return e,") {
							w.checksErr = true
						}
					}
				}
				if strings.HasPrefix(c, "gw,e:=gp.prepareWithMultiInput(data)") {
					w.prepare = "prepareWithMultiInput"
					if i+1 < len(body) {
						if is, ok := body[i+1].(*ast.IfStmt); ok && strings.ReplaceAll(x.src(is.Cond), " ", "") == "e!=nil" && len(is.Body.List) == 1 && strings.HasPrefix(x.src(is.Body.List[0]), "return e,") {
							w.checksErr = true
						}
					}
				}
				if ds, ok := s.(*ast.DeferStmt); ok && deferIdx < 0 {
					deferIdx = i
					if fl, ok := ds.Call.Fun.(*ast.FuncLit); ok && len(fl.Body.List) == 2 {
						a := strings.ReplaceAll(x.src(fl.Body.List[0]), " ", "")
						b := strings.ReplaceAll(x.src(fl.Body.List[1]), " ", "")
						w.deferPut = b == "gp.putGengineLocked(gw)"
						if w.prepare == "prepare" {
							w.deferDelOK = a == "gw.rulebuilder.Dc.Del(reqName,respName)" || a == "gw.clearInjected(reqName,respName)"
						} else {
							w.deferDelOK = a == "gw.clearInjected(getKeys(data)...)"
						}
					}
				}
				if callIdx < 0 && strings.Contains(c, "gw.gengine.Execute") {
					callIdx = i
				}
			}
			w.deferBeforeCall = deferIdx >= 0 && callIdx > deferIdx
			// engine calls: collect every gw.gengine.<M>( ... ) followed by returnResultMap, _ = gw.gengine.GetRulesResultMap() and return e, returnResultMap
			var entries []string
			allTriples := true
			var visit func(list []ast.Stmt)
			visit = func(list []ast.Stmt) {
				for i, s := range list {
					c := strings.ReplaceAll(x.src(s), " ", "")
					if p := strings.Index(c, "gw.gengine.Execute"); p >= 0 && !strings.HasPrefix(c, "if") {
						m := c[p+len("gw.gengine."):]
						m = m[:strings.Index(m, "(")]
						entries = append(entries, m)
						ok := i+2 < len(list) && strings.ReplaceAll(x.src(list[i+1]), " ", "") == "returnResultMap,_=gw.gengine.GetRulesResultMap()" && strings.ReplaceAll(x.src(list[i+2]), " ", "") == "returne,returnResultMap"
						if !ok {
							allTriples = false
						}
					}
					if is, ok := s.(*ast.IfStmt); ok {
						visit(is.Body.List)
					}
				}
			}
			visit(body)
			w.returnsEngineMap = allTriples && len(entries) > 0
			w.entry = strings.Join(entries, "+")
			wraps = append(wraps, w)
		case isMethod && (name == "prepare" || name == "prepareWithMultiInput"):
			var facts []string
			for _, s := range body {
				c := strings.ReplaceAll(x.src(s), " ", "")
				if c == "gw.rulebuilder=gp.snapshotRuleBuilder(gw.tag)" {
					facts = append(facts, "snapshot")
				}
				if c == "gw.rulebuilder=gp.rbSlice[gw.tag]" {
					facts = append(facts, "shared")
				}
				if strings.HasPrefix(c, "gw,e:=gp.getGengine()") {
					facts = append(facts, "get")
				}
			}
			prep[name] = facts
		case isMethod && name == "snapshotRuleBuilder":
			ok := len(body) == 4 && ((strings.ReplaceAll(x.src(body[0]), " ", "") == "gp.updateLock.Lock()" && strings.ReplaceAll(x.src(body[1]), " ", "") == "defergp.updateLock.Unlock()") ||
				(strings.ReplaceAll(x.src(body[0]), " ", "") == "gp.stateLock.RLock()" && strings.ReplaceAll(x.src(body[1]), " ", "") == "defergp.stateLock.RUnlock()")) &&
				strings.ReplaceAll(x.src(body[2]), " ", "") == "src:=gp.rbSlice[tag]" && strings.ReplaceAll(x.src(body[3]), " ", "") == "return&builder.RuleBuilder{Kc:src.Kc,Dc:src.Dc}"
			if ok {
				prep["snapshotRuleBuilder"] = []string{"locked-one-read"}
			} else {
				prep["snapshotRuleBuilder"] = []string{"other"}
			}
		case (isMethod && (name == "UpdatePooledRules" || name == "UpdatePooledRulesIncremental" || name == "RemoveRules" || name == "ClearPoolRules" || name == "SetExecModel")) || name == "updateIncremental":
			var facts []string
			if len(body) >= 2 && strings.ReplaceAll(x.src(body[0]), " ", "") == "gp.updateLock.Lock()" && strings.ReplaceAll(x.src(body[1]), " ", "") == "defergp.updateLock.Unlock()" {
				facts = append(facts, "locked")
			}
			ast.Inspect(fd.Body, func(n ast.Node) bool {
				if as, ok := n.(*ast.AssignStmt); ok {
					for _, l := range as.Lhs {
						t := strings.ReplaceAll(x.src(l), " ", "")
						if strings.Contains(t, ".Kc.") { // a store into a field of a (possibly published) container
							facts = append(facts, "inplace:"+t)
						}
					}
				}
				if es, ok := n.(*ast.ExprStmt); ok {
					t := strings.ReplaceAll(x.src(es), " ", "")
					if strings.Contains(t, ".Kc.ClearRules()") {
						facts = append(facts, "inplace:"+t)
					}
				}
				if fs, ok := n.(*ast.ForStmt); ok && fs.Cond != nil && strings.ReplaceAll(x.src(fs.Cond), " ", "") == "i<int(gp.max)" {
					facts = append(facts, "all-instances")
				}
				if rs, ok := n.(*ast.RangeStmt); ok && strings.ReplaceAll(x.src(rs.X), " ", "") == "gp.rbSlice" {
					facts = append(facts, "all-instances")
				}
				return true
			})
			upd[name] = facts
		}
	}
	sort.Slice(wraps, func(i, j int) bool { return wraps[i].name < wraps[j].name })
	w := os.Stdout
	fmt.Fprintln(w, "(* GENERATED by harness/cmd/xlate (T3) from engine/gengine_pool.go — do not edit. *)")
	fmt.Fprintln(w, "From Coq Require Import String List Bool.")
	fmt.Fprintln(w, "From GV Require Import Pool.Shape.")
	fmt.Fprintln(w, "Import ListNotations.")
	fmt.Fprintln(w, "Definition gen_wrappers : list wrapper := [")
	for i, ws := range wraps {
		sep := ";"
		if i == len(wraps)-1 {
			sep = ""
		}
		fmt.Fprintf(w, "  mkW %s %s %s %s %s %s %s %s %s%s\n", coqStr(ws.name), coqStr(ws.entry), coqStr(ws.prepare), boolc(ws.clearedFirst), boolc(ws.checksErr),
			boolc(ws.deferDelOK), boolc(ws.deferPut), boolc(ws.deferBeforeCall), boolc(ws.returnsEngineMap), sep)
	}
	fmt.Fprintln(w, "].")
	has := func(l []string, s string) bool {
		for _, x := range l {
			if x == s {
				return true
			}
		}
		return false
	}
	inplace := func(l []string) string {
		var out []string
		for _, x := range l {
			if strings.HasPrefix(x, "inplace:") {
				out = append(out, coqStr(x[8:]))
			}
		}
		return "[" + strings.Join(out, "; ") + "]"
	}
	fmt.Fprintf(w, "Definition gen_prepare_snapshots : bool := %s.\n", boolc(has(prep["prepare"], "snapshot") && has(prep["prepareWithMultiInput"], "snapshot") && !has(prep["prepare"], "shared") && !has(prep["prepareWithMultiInput"], "shared")))
	fmt.Fprintf(w, "Definition gen_snapshot_locked_one_read : bool := %s.\n", boolc(has(prep["snapshotRuleBuilder"], "locked-one-read")))
	fmt.Fprintln(w, "Definition gen_updates : list update_shape := [")
	names := []string{"UpdatePooledRules", "UpdatePooledRulesIncremental", "RemoveRules", "ClearPoolRules", "SetExecModel", "updateIncremental"}
	for i, n := range names {
		sep := ";"
		if i == len(names)-1 {
			sep = ""
		}
		_, found := upd[n]
		fmt.Fprintf(w, "  mkU %s %s %s %s %s%s\n", coqStr(n), boolc(found), boolc(has(upd[n], "locked")), boolc(has(upd[n], "all-instances")), inplace(upd[n]), sep)
	}
	fmt.Fprintln(w, "].")
	return nil
}

func init() { xlators["pool"] = xlatePool }
