// Command xlate holds the source-to-model translators (go/ast based).
// Usage: xlate <subcommand> [args]   (output: Coq source on stdout)
package main

import (
	"fmt"
	"os"
)

type xl func(args []string) error

var xlators = map[string]xl{}

func main() {
	if len(os.Args) < 2 {
		fmt.Fprintln(os.Stderr, "usage: xlate <subcommand>")
		os.Exit(2)
	}
	f, ok := xlators[os.Args[1]]
	if !ok {
		fmt.Fprintln(os.Stderr, "unknown subcommand", os.Args[1])
		os.Exit(2)
	}
	if err := f(os.Args[2:]); err != nil {
		fmt.Fprintln(os.Stderr, "xlate error:", err)
		os.Exit(2)
	}
}
