package main

import (
	"encoding/json"
	"fmt"
	"regexp"
	"sort"
	"strings"
	"sync"
	"time"

	"github.com/bilibili/gengine/builder"
	"github.com/bilibili/gengine/context"
	"github.com/bilibili/gengine/engine"
)

// ---- engine-level campaigns (C04 C05 C11 C12 C13 C14 and the engine part of C09) ----
//
// Every rule of a case is an observer rule:
//   Obs.S("n")  Gate.Hold("n")  [Tag.StopTag = true]  Obs.E("n")  [zz = undefined_name]  [return <ver>]
// Obs stamps a global sequence under one mutex; Gate blocks the rule named by the
// case's "hold" until the adversary releases it (after a quiet period in which
// everything the implementation is willing to run concurrently has shown up).

type eRule struct {
	Name string `json:"name"`
	Sal  int64  `json:"sal"`
	Kind string `json:"kind"` // plain | ret | fail | retfail (fails inside the return expression) | bare (bare return)
	Stop bool   `json:"stop"`
	Ver  int64  `json:"ver"`
}

type eCase struct {
	ID      int        `json:"id"`
	Entry   string     `json:"entry"`
	Via     string     `json:"via"` // engine | pool
	Rules   []eRule    `json:"rules"`
	B       bool       `json:"b"`
	N       int        `json:"n"`
	M       int        `json:"m"`
	Names   []string   `json:"names"`
	Layers  [][]string `json:"layers"`
	Stop0   bool       `json:"stop0"`
	Prev    string     `json:"prev"`    // fresh | stale
	Hold    string     `json:"hold"`    // name of the rule held at its gate ("" = none)
	History []eHistOp  `json:"history"` // when present, the rule set is built by this sequence of builder operations (C04)
	Again   bool       `json:"again"`   // make the same call once BEFORE the observed one, with the very same argument values (name list, layers): a call must not change its caller's arguments
	Warm    bool       `json:"warm"`    // execute the entry point once on the same engine and builder BEFORE the last history operation
	QuietMs int        `json:"quiet_ms"`
}

type eHistOp struct {
	Kind  string   `json:"kind"` // full | incr | remove
	Rules []eRule  `json:"rules"`
	Names []string `json:"names"`
}

type eObs struct {
	PrimeKeys []string               `json:"prime_keys"` // keys of the map handed back by the priming call, read again after the call under test
	ID        int                    `json:"id"`
	Order     []string               `json:"order"` // rb.Kc.SortRules names as installed
	Events    [][2]string            `json:"events"`
	Err       bool                   `json:"err"`
	ErrMsg    string                 `json:"errmsg,omitempty"`
	Result    map[string]interface{} `json:"result"`
	NilMap    bool                   `json:"nilmap"`
	Panic     string                 `json:"panic,omitempty"`
	Hang      bool                   `json:"hang"`
	Held      bool                   `json:"held"`      // the held rule did reach its gate
	During    int                    `json:"during"`    // events recorded while the rule was held
	Late      int                    `json:"late"`      // events recorded AFTER the call had returned
	ErrRules  []string               `json:"err_rules"` // the rule names the returned error mentions (taken from the full text)
	Compile   string                 `json:"compile,omitempty"`
	TagAfter  bool                   `json:"tag_after"` // the caller's stop tag when the call has returned
}

var errRuleRe = regexp.MustCompile(`rule:? "([^"]*)" executed`)

type observer struct {
	mu     sync.Mutex
	events [][2]string
	priv   int64 // an unexported field: a rule can read it, but reflect refuses to hand the value out of Execute
	flaky  map[string]*flakyState
}

func (o *observer) S(n string) {
	o.mu.Lock()
	o.events = append(o.events, [2]string{"S", n})
	o.mu.Unlock()
}
func (o *observer) E(n string) {
	o.mu.Lock()
	o.events = append(o.events, [2]string{"E", n})
	o.mu.Unlock()
}

// BigBoom panics with a very large value: whatever formats or copies the resulting error takes milliseconds, which widens
// every window between "this rule is done" and "its failure is recorded"
var bigText = strings.Repeat("x", 2<<20)

func (o *observer) BigBoom() { panic(bigText) }

// Flaky fails (panics) for the FIRST caller per rule name and succeeds for every later one — after the first has failed and a
// little later still, so that of two simultaneous executions of one rule the successful one finishes last.  Stagger delays
// every caller but the first; Slow delays the first.  With them one occurrence of a repeated rule fails early while the other
// is still running (or has not yet reached the same statement).
type flakyState struct {
	calls, stag, slow int
	failed            chan struct{}
}

func (o *observer) fstate(n string) *flakyState {
	if o.flaky == nil {
		o.flaky = map[string]*flakyState{}
	}
	st := o.flaky[n]
	if st == nil {
		st = &flakyState{failed: make(chan struct{})}
		o.flaky[n] = st
	}
	return st
}
func (o *observer) resetFlaky() {
	o.mu.Lock()
	o.flaky = nil
	o.mu.Unlock()
}
func (o *observer) Flaky(n string) {
	o.mu.Lock()
	st := o.fstate(n)
	st.calls++
	first := st.calls == 1
	o.mu.Unlock()
	if first {
		close(st.failed)
		panic("flaky: first execution of " + n)
	}
	<-st.failed
	time.Sleep(60 * time.Millisecond)
}
func (o *observer) Stagger(n string) {
	o.mu.Lock()
	st := o.fstate(n)
	st.stag++
	later := st.stag > 1
	o.mu.Unlock()
	if later {
		time.Sleep(80 * time.Millisecond)
	}
}
func (o *observer) Slow(n string) {
	o.mu.Lock()
	st := o.fstate(n)
	st.slow++
	first := st.slow == 1
	o.mu.Unlock()
	if first {
		time.Sleep(200 * time.Millisecond)
	}
}

func (o *observer) count() int {
	o.mu.Lock()
	defer o.mu.Unlock()
	return len(o.events)
}
func (o *observer) snapshot() [][2]string {
	o.mu.Lock()
	defer o.mu.Unlock()
	out := make([][2]string, len(o.events))
	copy(out, o.events)
	return out
}

type gate struct {
	hold    string
	reached chan struct{}
	release chan struct{}
	once    sync.Once
}

func newGate(hold string) *gate {
	return &gate{hold: hold, reached: make(chan struct{}), release: make(chan struct{})}
}

func (g *gate) Hold(n string) {
	if g.hold == "" || n != g.hold {
		return
	}
	first := false
	g.once.Do(func() { first = true; close(g.reached) })
	if !first {
		return // only the first occurrence is held
	}
	select {
	case <-g.release:
	case <-time.After(5 * time.Second):
	}
}

func eRuleText(r eRule) string {
	var sb strings.Builder
	fmt.Fprintf(&sb, "rule \"%s\" salience %d begin\n", r.Name, r.Sal)
	fmt.Fprintf(&sb, "  Obs.S(\"%s\")\n  Gate.Hold(\"%s\")\n", r.Name, r.Name)
	if r.Stop {
		sb.WriteString("  Tag.StopTag = true\n")
	}
	fmt.Fprintf(&sb, "  Obs.E(\"%s\")\n", r.Name)
	switch r.Kind {
	case "fail":
		sb.WriteString("  zz = undefined_name_q\n")
	case "ret":
		fmt.Fprintf(&sb, "  return %d\n", r.Ver)
	case "retfail":
		sb.WriteString("  return 1/0\n")
	case "bare":
		sb.WriteString("  return\n")
	case "panic1": // non-boolean condition: reflect panics inside IfStmt
		sb.WriteString("  if 5 {\n    zz = 1\n  }\n")
	case "panic2": // ! on a non-boolean in the return expression
		sb.WriteString("  return !5\n")
	case "loop": // unbounded for loop: cut off after maxExecuteNum iterations
		sb.WriteString("  for i = 0; true; i += 1 {\n  }\n")
	case "bigfail": // fails with a 2 MiB error text
		sb.WriteString("  Obs.BigBoom()\n")
	case "retpriv": // the return expression evaluates, but the value cannot leave the rule (Interface() panics): the rule FAILED
		sb.WriteString("  return Obs.priv\n")
	case "flaky": // fails in its first execution only (a repeated name: one occurrence fails, the other succeeds later)
		fmt.Fprintf(&sb, "  Obs.Flaky(\"%s\")\n", r.Name)
	case "concflaky": // the same inside a conc block, whose other child is still running when the second execution enters the block
		fmt.Fprintf(&sb, "  Obs.Stagger(\"%s\")\n  conc {\n    Obs.Flaky(\"%s\")\n    Obs.Slow(\"%s\")\n  }\n", r.Name, r.Name, r.Name)
	case "brk": // a break that is in no loop (grammatically legal): the rule fails, it has NOT returned
		sb.WriteString("  if 1 == 1 {\n    break\n  }\n")
	case "cont": // a continue that is in no loop
		sb.WriteString("  continue\n")
	}
	sb.WriteString("end\n")
	return sb.String()
}

var kcCache = struct {
	sync.Mutex
	m map[string]*builder.RuleBuilder
}{m: map[string]*builder.RuleBuilder{}}

func compiledRules(rules []eRule) (*builder.RuleBuilder, string, error) {
	var sb strings.Builder
	for _, r := range rules {
		sb.WriteString(eRuleText(r))
	}
	text := sb.String()
	kcCache.Lock()
	defer kcCache.Unlock()
	if rb, ok := kcCache.m[text]; ok {
		return rb, text, nil
	}
	rb := builder.NewRuleBuilder(context.NewDataContext())
	if len(rules) > 0 {
		if err := rb.BuildRuleFromString(text); err != nil {
			return nil, text, err
		}
	}
	kcCache.m[text] = rb
	return rb, text, nil
}

func callEntry(g *engine.Gengine, rb *builder.RuleBuilder, c *eCase, tag *engine.Stag) error {
	switch c.Entry {
	case "Execute":
		return g.Execute(rb, c.B)
	case "ExecuteWithStopTagDirect":
		return g.ExecuteWithStopTagDirect(rb, c.B, tag)
	case "ExecuteConcurrent":
		return g.ExecuteConcurrent(rb)
	case "ExecuteMixModel":
		return g.ExecuteMixModel(rb)
	case "ExecuteMixModelWithStopTagDirect":
		return g.ExecuteMixModelWithStopTagDirect(rb, tag)
	case "ExecuteSelectedRules":
		return g.ExecuteSelectedRules(rb, c.Names)
	case "ExecuteSelectedRulesWithControl":
		return g.ExecuteSelectedRulesWithControl(rb, c.B, c.Names)
	case "ExecuteSelectedRulesWithControlAsGivenSortedName":
		return g.ExecuteSelectedRulesWithControlAsGivenSortedName(rb, c.B, c.Names)
	case "ExecuteSelectedRulesWithControlAndStopTag":
		return g.ExecuteSelectedRulesWithControlAndStopTag(rb, c.B, tag, c.Names)
	case "ExecuteSelectedRulesWithControlAndStopTagAsGivenSortedName":
		return g.ExecuteSelectedRulesWithControlAndStopTagAsGivenSortedName(rb, c.B, tag, c.Names)
	case "ExecuteSelectedRulesConcurrent":
		return g.ExecuteSelectedRulesConcurrent(rb, c.Names)
	case "ExecuteSelectedRulesMixModel":
		return g.ExecuteSelectedRulesMixModel(rb, c.Names)
	case "ExecuteInverseMixModel":
		return g.ExecuteInverseMixModel(rb)
	case "ExecuteSelectedRulesInverseMixModel":
		return g.ExecuteSelectedRulesInverseMixModel(rb, c.Names)
	case "ExecuteNSortMConcurrent":
		return g.ExecuteNSortMConcurrent(c.N, c.M, rb, c.B)
	case "ExecuteNConcurrentMSort":
		return g.ExecuteNConcurrentMSort(c.N, c.M, rb, c.B)
	case "ExecuteNConcurrentMConcurrent":
		return g.ExecuteNConcurrentMConcurrent(c.N, c.M, rb, c.B)
	case "ExecuteSelectedNSortMConcurrent":
		return g.ExecuteSelectedNSortMConcurrent(c.N, c.M, rb, c.B, c.Names)
	case "ExecuteSelectedNConcurrentMSort":
		return g.ExecuteSelectedNConcurrentMSort(c.N, c.M, rb, c.B, c.Names)
	case "ExecuteSelectedNConcurrentMConcurrent":
		return g.ExecuteSelectedNConcurrentMConcurrent(c.N, c.M, rb, c.B, c.Names)
	case "ExecuteDAGModel":
		return g.ExecuteDAGModel(rb, c.Layers)
	}
	panic("harness: unknown entry " + c.Entry)
}

func runEngineCase(c *eCase) eObs {
	obs := eObs{ID: c.ID, Result: map[string]interface{}{}}
	var err error
	ob := &observer{}
	gt := newGate(c.Hold)
	tag := &engine.Stag{StopTag: c.Stop0}
	dc := context.NewDataContext()
	dc.Add("Obs", ob)
	dc.Add("Gate", gt)
	dc.Add("Tag", tag)
	rb := builder.NewRuleBuilder(dc)
	g := engine.NewGengine()
	if len(c.History) > 0 {
		// the history is applied to the builder the call will use; with Warm the same engine executes the same entry point once
		// BEFORE the last operation (result discarded), so that anything the engine or the builder remembers from an earlier
		// call on an earlier rule set is in place when the observed call runs
		for i, op := range c.History {
			if c.Warm && i == len(c.History)-1 && i > 0 {
				dc.Add("Gate", newGate(""))
				func() {
					defer func() { _ = recover() }()
					_ = callEntry(g, rb, c, tag)
				}()
				tag.StopTag = c.Stop0 // the rules of the warm call may have set the tag: the observed call starts as specified
				dc.Add("Gate", gt)
				ob.mu.Lock()
				ob.events = nil
				ob.mu.Unlock()
				ob.resetFlaky()
			}
			var sb strings.Builder
			for _, r := range op.Rules {
				sb.WriteString(eRuleText(r))
			}
			func() {
				defer func() {
					if r := recover(); r != nil {
						err = fmt.Errorf("history operation %s panicked: %v", op.Kind, r)
					}
				}()
				switch op.Kind {
				case "full":
					err = rb.BuildRuleFromString(sb.String())
				case "incr":
					err = rb.BuildRuleWithIncremental(sb.String())
				case "remove":
					err = rb.RemoveRules(op.Names)
				}
			}()
			if err != nil {
				break
			}
		}
	} else {
		var master *builder.RuleBuilder
		master, _, err = compiledRules(c.Rules)
		if err == nil {
			rb.Kc = master.Kc
		}
	}
	if err != nil {
		obs.Compile = err.Error()
		return obs
	}
	for _, r := range rb.Kc.SortRules {
		obs.Order = append(obs.Order, r.RuleName)
	}
	if obs.Order == nil {
		obs.Order = []string{}
	}

	var primeMap map[string]interface{}
	if c.Prev == "stale" || c.Prev == "stale-empty" {
		prime := builder.NewRuleBuilder(context.NewDataContext())
		text := "rule \"old__\" begin return 1 end"
		if c.Prev == "stale-empty" { // the earlier call's rules return nothing: its caller holds an EMPTY map
			text = "rule \"old__\" begin x = 1 end"
		}
		if e := prime.BuildRuleFromString(text); e != nil {
			obs.Compile = "prime: " + e.Error()
			return obs
		}
		_ = g.Execute(prime, true)
		primeMap, _ = g.GetRulesResultMap()
	}

	if c.Again {
		dc.Add("Gate", newGate(""))
		func() {
			defer func() { _ = recover() }()
			_ = callEntry(g, rb, c, tag)
		}()
		tag.StopTag = c.Stop0
		dc.Add("Gate", gt)
		ob.mu.Lock()
		ob.events = nil
		ob.mu.Unlock()
		ob.resetFlaky()
	}
	type done struct {
		err error
		pan string
	}
	ch := make(chan done, 1)
	go func() {
		var d done
		defer func() {
			if r := recover(); r != nil {
				d.pan = fmt.Sprint(r)
			}
			ch <- d
		}()
		d.err = callEntry(g, rb, c, tag)
	}()

	quiet := time.Duration(c.QuietMs) * time.Millisecond
	if quiet <= 0 {
		quiet = 25 * time.Millisecond
	}
	finished := false
	var d done
	if c.Hold != "" {
		select {
		case <-gt.reached:
			obs.Held = true
			before := ob.count()
			// wait until nothing new has been recorded for one quiet period
			last := before
			for {
				time.Sleep(quiet)
				now := ob.count()
				if now == last {
					break
				}
				last = now
			}
			obs.During = last - before
			close(gt.release)
		case d = <-ch:
			finished = true
		case <-time.After(8 * time.Second):
		}
	}
	if !finished {
		select {
		case d = <-ch:
		case <-time.After(10 * time.Second):
			obs.Hang = true
		}
	}
	if !obs.Held && c.Hold != "" {
		select {
		case <-gt.reached:
		default:
			close(gt.release)
		}
	}
	// the call has returned: nothing of it may still be running.  Watch for one more quiet period (events recorded after the
	// return are rules that the call did not wait for, or started although it had already given up)
	if !obs.Hang {
		atReturn := ob.count()
		last := atReturn
		for i := 0; i < 20; i++ {
			time.Sleep(quiet / 2)
			now := ob.count()
			if now == last {
				break
			}
			last = now
		}
		obs.Late = last - atReturn
	}
	obs.Events = ob.snapshot()
	obs.TagAfter = tag.StopTag
	if obs.Events == nil {
		obs.Events = [][2]string{}
	}
	obs.Panic = d.pan
	if d.err != nil {
		obs.Err = true
		obs.ErrMsg = d.err.Error()
		seen := map[string]bool{}
		for _, m := range errRuleRe.FindAllStringSubmatch(obs.ErrMsg, -1) { // from the FULL text, before it is cut
			if !seen[m[1]] {
				seen[m[1]] = true
				obs.ErrRules = append(obs.ErrRules, m[1])
			}
		}
		sort.Strings(obs.ErrRules)
		if len(obs.ErrMsg) > 3000 {
			obs.ErrMsg = obs.ErrMsg[:3000]
		}
	}
	obs.PrimeKeys = []string{}
	for k := range primeMap {
		obs.PrimeKeys = append(obs.PrimeKeys, k)
	}
	sort.Strings(obs.PrimeKeys)
	if !obs.Hang {
		m, _ := g.GetRulesResultMap()
		if m == nil {
			obs.NilMap = true
		}
		for k, v := range m {
			obs.Result[k] = v
		}
	}
	return obs
}

func init() {
	register("engine", func(raw []byte) (interface{}, error) {
		var cases []eCase
		if err := json.Unmarshal(raw, &cases); err != nil {
			return nil, err
		}
		out := make([]eObs, len(cases))
		// cases with a held rule spend their time sleeping: run them concurrently
		var wg sync.WaitGroup
		sem := make(chan struct{}, 32)
		for i := range cases {
			wg.Add(1)
			sem <- struct{}{}
			go func(i int) {
				defer wg.Done()
				defer func() { <-sem }()
				out[i] = runEngineCase(&cases[i])
			}(i)
		}
		wg.Wait()
		sort.Slice(out, func(i, j int) bool { return out[i].ID < out[j].ID })
		return out, nil
	})
}
