// Command harness runs cases on the gengine implementation taken from /repo's
// working tree (go.mod replace) and prints observations as JSON.
// Usage: harness <subcommand> < cases.json > observations.json
package main

import (
	"encoding/json"
	"fmt"
	"io/ioutil"
	"os"
)

type handler func(raw []byte) (interface{}, error)

var handlers = map[string]handler{}

func register(name string, h handler) { handlers[name] = h }

func main() {
	if len(os.Args) < 2 {
		fmt.Fprintln(os.Stderr, "usage: harness <subcommand>")
		os.Exit(2)
	}
	h, ok := handlers[os.Args[1]]
	if !ok {
		fmt.Fprintln(os.Stderr, "unknown subcommand", os.Args[1])
		os.Exit(2)
	}
	raw, err := ioutil.ReadAll(os.Stdin)
	if err != nil {
		fmt.Fprintln(os.Stderr, err)
		os.Exit(2)
	}
	out, err := h(raw)
	if err != nil {
		fmt.Fprintln(os.Stderr, "harness error:", err)
		os.Exit(2)
	}
	enc := json.NewEncoder(os.Stdout)
	if err := enc.Encode(out); err != nil {
		fmt.Fprintln(os.Stderr, err)
		os.Exit(2)
	}
}
