package main

import (
	"encoding/json"
	"fmt"
	"math"
	"reflect"
	"regexp"
	"sort"
	"strconv"
	"strings"
	"sync"
	"time"

	"github.com/bilibili/gengine/builder"
	"github.com/bilibili/gengine/context"
	"github.com/bilibili/gengine/engine"
)

// ---- rule-level campaigns (C01 C02 C03 C09 C11 C15 C18 C20) ----
//
// A case = one rule text + a description of the injected objects. The harness compiles the
// text, runs the sort model, and reports: outcome class, returned value (typed), positions
// cited by the error, the calls received by the injected catalogue functions (with the
// dynamic types of the arguments), the host store afterwards, and a dump of the
// listener-built tree (shape, operators, positions) obtained by reflection.

type tval struct {
	T string `json:"t"`           // i i8 i16 i32 i64 u u8 u16 u32 u64 f32 f64 s b nil other
	Z string `json:"z,omitempty"` // integers, decimal
	C string `json:"c,omitempty"` // floats: fin | nan | +inf | -inf | +0 | -0
	M string `json:"m,omitempty"` // floats: mantissa (integer) and exponent: value = m * 2^e
	E int    `json:"e,omitempty"`
	S string `json:"s,omitempty"`
	B bool   `json:"b,omitempty"`
	K string `json:"k,omitempty"` // other: kind name
}

func floatTV(t string, f float64) tval {
	switch {
	case math.IsNaN(f):
		return tval{T: t, C: "nan"}
	case math.IsInf(f, 1):
		return tval{T: t, C: "+inf"}
	case math.IsInf(f, -1):
		return tval{T: t, C: "-inf"}
	case f == 0:
		if math.Signbit(f) {
			return tval{T: t, C: "-0"}
		}
		return tval{T: t, C: "+0"}
	}
	fr, ex := math.Frexp(f) // f = fr * 2^ex, 0.5 <= |fr| < 1
	m := int64(fr * (1 << 53))
	return tval{T: t, C: "fin", M: strconv.FormatInt(m, 10), E: ex - 53}
}

func toTV(v reflect.Value) tval {
	if !v.IsValid() {
		return tval{T: "nil"}
	}
	switch v.Kind() {
	case reflect.Int:
		return tval{T: "i", Z: strconv.FormatInt(v.Int(), 10)}
	case reflect.Int8:
		return tval{T: "i8", Z: strconv.FormatInt(v.Int(), 10)}
	case reflect.Int16:
		return tval{T: "i16", Z: strconv.FormatInt(v.Int(), 10)}
	case reflect.Int32:
		return tval{T: "i32", Z: strconv.FormatInt(v.Int(), 10)}
	case reflect.Int64:
		return tval{T: "i64", Z: strconv.FormatInt(v.Int(), 10)}
	case reflect.Uint:
		return tval{T: "u", Z: strconv.FormatUint(v.Uint(), 10)}
	case reflect.Uint8:
		return tval{T: "u8", Z: strconv.FormatUint(v.Uint(), 10)}
	case reflect.Uint16:
		return tval{T: "u16", Z: strconv.FormatUint(v.Uint(), 10)}
	case reflect.Uint32:
		return tval{T: "u32", Z: strconv.FormatUint(v.Uint(), 10)}
	case reflect.Uint64:
		return tval{T: "u64", Z: strconv.FormatUint(v.Uint(), 10)}
	case reflect.Float32:
		return floatTV("f32", v.Float())
	case reflect.Float64:
		return floatTV("f64", v.Float())
	case reflect.String:
		return tval{T: "s", S: v.String()}
	case reflect.Bool:
		return tval{T: "b", B: v.Bool()}
	}
	return tval{T: "other", K: v.Kind().String()}
}

func fromTV(t tval) (reflect.Value, error) {
	pi := func() int64 { x, _ := strconv.ParseInt(t.Z, 10, 64); return x }
	pu := func() uint64 { x, _ := strconv.ParseUint(t.Z, 10, 64); return x }
	pf := func() float64 {
		switch t.C {
		case "nan":
			return math.NaN()
		case "+inf":
			return math.Inf(1)
		case "-inf":
			return math.Inf(-1)
		case "+0":
			return 0
		case "-0":
			return math.Copysign(0, -1)
		}
		m, _ := strconv.ParseInt(t.M, 10, 64)
		return math.Ldexp(float64(m), t.E)
	}
	switch t.T {
	case "i":
		return reflect.ValueOf(int(pi())), nil
	case "i8":
		return reflect.ValueOf(int8(pi())), nil
	case "i16":
		return reflect.ValueOf(int16(pi())), nil
	case "i32":
		return reflect.ValueOf(int32(pi())), nil
	case "i64":
		return reflect.ValueOf(pi()), nil
	case "u":
		return reflect.ValueOf(uint(pu())), nil
	case "u8":
		return reflect.ValueOf(uint8(pu())), nil
	case "u16":
		return reflect.ValueOf(uint16(pu())), nil
	case "u32":
		return reflect.ValueOf(uint32(pu())), nil
	case "u64":
		return reflect.ValueOf(pu()), nil
	case "f32":
		return reflect.ValueOf(float32(pf())), nil
	case "f64":
		return reflect.ValueOf(pf()), nil
	case "s":
		return reflect.ValueOf(t.S), nil
	case "b":
		return reflect.ValueOf(t.B), nil
	}
	return reflect.Value{}, fmt.Errorf("fromTV: bad type %q", t.T)
}

var styType = map[string]reflect.Type{
	"i": reflect.TypeOf(int(0)), "i8": reflect.TypeOf(int8(0)), "i16": reflect.TypeOf(int16(0)), "i32": reflect.TypeOf(int32(0)), "i64": reflect.TypeOf(int64(0)),
	"u": reflect.TypeOf(uint(0)), "u8": reflect.TypeOf(uint8(0)), "u16": reflect.TypeOf(uint16(0)), "u32": reflect.TypeOf(uint32(0)), "u64": reflect.TypeOf(uint64(0)),
	"f32": reflect.TypeOf(float32(0)), "f64": reflect.TypeOf(float64(0)), "s": reflect.TypeOf(""), "b": reflect.TypeOf(false),
}

// ---- host objects ----

type Sub struct {
	N   int64
	F   float64
	S   string
	U8  uint8
	rec *recorder
}

type Host struct {
	I8   int8
	I32  int32
	I64  int64
	U8   uint8
	U64  uint64
	F32  float32
	F64  float64
	S    string
	B    bool
	Sub  Sub
	PSub *Sub
	M    map[string]int64
	SL   []int32
	AR   [3]uint8
	rec  *recorder
}

type recorder struct {
	mu    sync.Mutex
	calls []callRec
	gate  *gate
	dc    *context.DataContext // the data context of the running case: Publish injects into it WHILE a rule runs
}

// Counter: an object a rule can obtain as a LOCAL (NewC) and the host can later inject under the same name (Publish):
// calls through that name must then reach the injected one (Id 2), never the local (Id 1)
type Counter struct {
	Id  int64
	N   int64
	In  *Counter
	rec *recorder
}

func (c *Counter) Add(n int64) int64 { c.N += n; c.rec.add("CAdd", c.Id, n); return c.N }
type callRec struct {
	Fn   string `json:"fn"`
	Args []tval `json:"args"`
}

func (r *recorder) add(fn string, args ...interface{}) {
	c := callRec{Fn: fn, Args: []tval{}}
	for _, a := range args {
		c.Args = append(c.Args, toTV(reflect.ValueOf(a)))
	}
	r.mu.Lock()
	r.calls = append(r.calls, c)
	r.mu.Unlock()
}

// methods of *Host (a.M(..)) and of Sub (a.Sub.M(..) / a.PSub.M(..))
func (h *Host) Mark(i int64)            { h.rec.add("Mark", i) }
func (h *Host) Id64(x int64) int64      { h.rec.add("Id64", x); return x }
func (h *Host) IdU8(x uint8) uint8      { h.rec.add("IdU8", x); return x }
func (h *Host) IdF64(x float64) float64 { h.rec.add("IdF64", x); return x }
func (h *Host) Boom()                   { panic("Host.Boom") }
func (s *Sub) GetN(k int32) int32       { s.rec.add("GetN", k); return k }

// value-receiver methods: in the method set of the struct AND of the pointer to it (at different indexes)
// PushSL grows the slice field the rule may be ranging over (a worklist): forRange visits the indexes present when it started
func (h *Host) PushSL(x int32) { h.rec.add("PushSL", x); h.SL = append(h.SL, x) }

// Slot hands out a pointer INTO the host (to h.I64): a local bound to it and then re-assigned must be rebound, never written through
func (h *Host) Slot() *int64 { h.rec.add("Slot"); return &h.I64 }

// ShrinkSL cuts the slice field the rule may be ranging over down to its first element: forRange still visits every index
// that existed when it started
func (h *Host) ShrinkSL() { h.rec.add("ShrinkSL"); if len(h.SL) > 1 { h.SL = h.SL[:1] } }

// BumpM / BumpI change the very target a compound assignment is about to update, from inside its right-hand side:
// `t op= e` evaluates e first and then reads t (so the update by e is seen)
func (h *Host) BumpM() int64 { h.rec.add("BumpM"); h.M["k"] = 10; return 3 }
func (h *Host) BumpI() int64 { h.rec.add("BumpI"); h.I64 = 100; return 1 }

// HoldM is Hold as a METHOD: a method-call child of a conc block that the adversary keeps inside the call
func (h *Host) HoldM(n string) {
	h.rec.add("HoldM", n)
	if h.rec.gate != nil {
		h.rec.gate.Hold(n)
	}
	h.rec.add("Unheld", n)
}

func (h Host) Echo(x int64) int64 { h.rec.add("Echo", x); return x }
func (s Sub) EchoN(k int32) int32 { s.rec.add("EchoN", k); return k }

// the function catalogue, injected by name
func catalogue(rec *recorder) map[string]interface{} {
	return map[string]interface{}{
		"Mark":  func(i int64) { rec.add("Mark", i) },
		"IdI":   func(x int) int { rec.add("IdI", x); return x },
		"IdI8":  func(x int8) int8 { rec.add("IdI8", x); return x },
		"IdI16": func(x int16) int16 { rec.add("IdI16", x); return x },
		"IdI32": func(x int32) int32 { rec.add("IdI32", x); return x },
		"IdI64": func(x int64) int64 { rec.add("IdI64", x); return x },
		"IdU":   func(x uint) uint { rec.add("IdU", x); return x },
		"IdU8":  func(x uint8) uint8 { rec.add("IdU8", x); return x },
		"IdU16": func(x uint16) uint16 { rec.add("IdU16", x); return x },
		"IdU32": func(x uint32) uint32 { rec.add("IdU32", x); return x },
		"IdU64": func(x uint64) uint64 { rec.add("IdU64", x); return x },
		"IdF32": func(x float32) float32 { rec.add("IdF32", x); return x },
		"IdF64": func(x float64) float64 { rec.add("IdF64", x); return x },
		"IdS":   func(x string) string { rec.add("IdS", x); return x },
		"IdB":   func(x bool) bool { rec.add("IdB", x); return x },
		"Two":   func(a int64, b float64) int64 { rec.add("Two", a, b); return a },
		"Mix3":  func(a uint8, s string, c int32) int32 { rec.add("Mix3", a, s, c); return c },
		"NoRet": func() { rec.add("NoRet") },
		// a local object / function for the rule, and the host injecting objects under the SAME names while the rule runs
		"NewC": func() *Counter { rec.add("NewC"); return &Counter{Id: 1, rec: rec, In: &Counter{Id: 11, rec: rec}} },
		"NewF": func() func(int64) int64 {
			rec.add("NewF")
			return func(x int64) int64 { rec.add("LocalF", x); return x + 1000 }
		},
		"Publish": func() {
			rec.add("Publish")
			if rec.dc != nil {
				rec.dc.Add("acc", &Counter{Id: 2, rec: rec, In: &Counter{Id: 22, rec: rec}})
				rec.dc.Add("fn", func(x int64) int64 { rec.add("HostF", x); return x + 1 })
				rec.dc.Add("k", int64(2))
			}
		},
		"Boom":  func() { panic("catalogue Boom") },
		// panics whose VALUE is an error: an explicit panic(err), and a runtime error raised inside the Go function
		"BoomErr": func() { panic(fmt.Errorf("catalogue BoomErr")) },
		// a failure that arrives LATE and is EXPENSIVE to turn into an error message: whoever waits for the children of a conc block
		// must wait until the message has been recorded, not only until the child's function has returned
		"BigBoom": func() {
			time.Sleep(5 * time.Millisecond)
			panic(strings.Repeat("x", 8<<20))
		},
		"BoomRT": func() int64 {
			var a []int64
			return a[3]
		},
		"Gate": func(n string) { // Hold without the second record: one call recorded whatever the interleaving
			rec.add("Gate", n)
			if rec.gate != nil {
				rec.gate.Hold(n)
			}
		},
		"After": func(n string) { // returns once gate n has been reached by another goroutine (recorded then: after that goroutine's own record)
			if rec.gate != nil && rec.gate.hold == n {
				select {
				case <-rec.gate.reached:
				case <-time.After(10 * time.Second):
				}
			}
			rec.add("After", n)
		},
		"Hold": func(n string) {
			rec.add("Hold", n)
			if rec.gate != nil {
				rec.gate.Hold(n)
			}
			rec.add("Unheld", n)
		},
	}
}

type injDesc struct {
	Name   string            `json:"name"`
	Kind   string            `json:"kind"` // val ptr struct structv map pmap seq pseq arr parr func nilptr
	Sty    string            `json:"sty,omitempty"`
	V      *tval             `json:"v,omitempty"`
	Fields map[string]tval   `json:"fields,omitempty"` // scalar fields of Host
	Sub    map[string]tval   `json:"sub,omitempty"`    // fields of Host.Sub
	PSub   map[string]tval   `json:"psub,omitempty"`   // fields of *Host.PSub (nil if absent)
	KT     string            `json:"kt,omitempty"`
	ET     string            `json:"et,omitempty"`
	Keys   []tval            `json:"keys,omitempty"`
	Elems  []tval            `json:"elems,omitempty"`
	M      map[string]string `json:"m,omitempty"`  // Host.M
	SL     []string          `json:"sl,omitempty"` // Host.SL
	AR     []string          `json:"ar,omitempty"` // Host.AR
	Fn     string            `json:"fn,omitempty"`
}

func setFields(dst reflect.Value, fields map[string]tval) error {
	for k, tv := range fields {
		f := dst.FieldByName(k)
		if !f.IsValid() {
			return fmt.Errorf("no field %s", k)
		}
		v, err := fromTV(tv)
		if err != nil {
			return err
		}
		f.Set(v)
	}
	return nil
}

type built struct {
	obj   interface{}
	desc  injDesc
	hostp *Host
	ptr   reflect.Value // for ptr scalars, pmap, pseq, parr: the pointer; for map/seq: the value itself
}

func buildInj(d injDesc, rec *recorder) (*built, error) {
	b := &built{desc: d}
	switch d.Kind {
	case "val":
		v, err := fromTV(*d.V)
		if err != nil {
			return nil, err
		}
		b.obj = v.Interface()
	case "ptr":
		v, err := fromTV(*d.V)
		if err != nil {
			return nil, err
		}
		p := reflect.New(v.Type())
		p.Elem().Set(v)
		b.ptr = p
		b.obj = p.Interface()
	case "nilptr":
		var h *Host
		b.obj = h
	case "struct", "structv":
		h := &Host{rec: rec, M: map[string]int64{}}
		if err := setFields(reflect.ValueOf(h).Elem(), d.Fields); err != nil {
			return nil, err
		}
		if err := setFields(reflect.ValueOf(&h.Sub).Elem(), d.Sub); err != nil {
			return nil, err
		}
		h.Sub.rec = rec
		if d.PSub != nil {
			h.PSub = &Sub{rec: rec}
			if err := setFields(reflect.ValueOf(h.PSub).Elem(), d.PSub); err != nil {
				return nil, err
			}
		}
		for k, z := range d.M {
			x, _ := strconv.ParseInt(z, 10, 64)
			h.M[k] = x
		}
		for _, z := range d.SL {
			x, _ := strconv.ParseInt(z, 10, 32)
			h.SL = append(h.SL, int32(x))
		}
		for i, z := range d.AR {
			x, _ := strconv.ParseUint(z, 10, 8)
			if i < 3 {
				h.AR[i] = uint8(x)
			}
		}
		b.hostp = h
		if d.Kind == "struct" {
			b.obj = h
		} else {
			b.obj = *h
		}
	case "map", "pmap":
		mt := reflect.MapOf(styType[d.KT], styType[d.ET])
		m := reflect.MakeMap(mt)
		for i := range d.Keys {
			k, _ := fromTV(d.Keys[i])
			v, _ := fromTV(d.Elems[i])
			m.SetMapIndex(k, v)
		}
		if d.Kind == "pmap" {
			p := reflect.New(mt)
			p.Elem().Set(m)
			b.ptr = p
			b.obj = p.Interface()
		} else {
			b.ptr = m
			b.obj = m.Interface()
		}
	case "seq", "pseq", "arr", "parr":
		var s reflect.Value
		if d.Kind == "seq" || d.Kind == "pseq" {
			s = reflect.MakeSlice(reflect.SliceOf(styType[d.ET]), len(d.Elems), len(d.Elems))
		} else {
			s = reflect.New(reflect.ArrayOf(len(d.Elems), styType[d.ET])).Elem()
		}
		for i := range d.Elems {
			v, _ := fromTV(d.Elems[i])
			s.Index(i).Set(v)
		}
		if d.Kind == "pseq" || d.Kind == "parr" {
			p := reflect.New(s.Type())
			p.Elem().Set(s)
			b.ptr = p
			b.obj = p.Interface()
		} else {
			b.ptr = s
			b.obj = s.Interface()
		}
	case "func":
		f, ok := catalogue(rec)[d.Fn]
		if !ok {
			return nil, fmt.Errorf("no catalogue function %s", d.Fn)
		}
		b.obj = f
	default:
		return nil, fmt.Errorf("bad inject kind %q", d.Kind)
	}
	return b, nil
}

// the host store after the call, in the same vocabulary as the description
type injDump struct {
	Name   string          `json:"name"`
	V      *tval           `json:"v,omitempty"`
	Fields map[string]tval `json:"fields,omitempty"`
	Sub    map[string]tval `json:"sub,omitempty"`
	PSub   map[string]tval `json:"psub,omitempty"`
	Keys   []tval          `json:"keys,omitempty"`
	Elems  []tval          `json:"elems,omitempty"`
	M      [][2]string     `json:"m,omitempty"`
	SL     []string        `json:"sl,omitempty"`
	AR     []string        `json:"ar,omitempty"`
}

func structFields(v reflect.Value) map[string]tval {
	out := map[string]tval{}
	for i := 0; i < v.NumField(); i++ {
		f := v.Field(i)
		n := v.Type().Field(i).Name
		if v.Type().Field(i).PkgPath != "" {
			continue
		}
		switch f.Kind() {
		case reflect.Struct, reflect.Ptr, reflect.Map, reflect.Slice, reflect.Array:
			continue
		}
		out[n] = toTV(f)
	}
	return out
}

func dumpInj(b *built) injDump {
	d := injDump{Name: b.desc.Name}
	switch b.desc.Kind {
	case "ptr":
		tv := toTV(b.ptr.Elem())
		d.V = &tv
	case "struct":
		h := b.hostp
		d.Fields = structFields(reflect.ValueOf(h).Elem())
		d.Sub = structFields(reflect.ValueOf(h.Sub))
		if h.PSub != nil {
			d.PSub = structFields(reflect.ValueOf(*h.PSub))
		}
		var keys []string
		for k := range h.M {
			keys = append(keys, k)
		}
		sort.Strings(keys)
		for _, k := range keys {
			d.M = append(d.M, [2]string{k, strconv.FormatInt(h.M[k], 10)})
		}
		for _, x := range h.SL {
			d.SL = append(d.SL, strconv.FormatInt(int64(x), 10))
		}
		for _, x := range h.AR {
			d.AR = append(d.AR, strconv.FormatUint(uint64(x), 10))
		}
	case "map", "pmap":
		m := b.ptr
		if b.desc.Kind == "pmap" {
			m = m.Elem()
		}
		type kv struct{ k, v tval }
		var kvs []kv
		for _, k := range m.MapKeys() {
			kvs = append(kvs, kv{toTV(k), toTV(m.MapIndex(k))})
		}
		sort.Slice(kvs, func(i, j int) bool {
			a, c := kvs[i].k, kvs[j].k
			if a.T == "s" {
				return a.S < c.S
			}
			x, _ := strconv.ParseInt(a.Z, 10, 64)
			y, _ := strconv.ParseInt(c.Z, 10, 64)
			return x < y
		})
		for _, e := range kvs {
			d.Keys = append(d.Keys, e.k)
			d.Elems = append(d.Elems, e.v)
		}
	case "seq", "pseq", "arr", "parr":
		s := b.ptr
		if b.desc.Kind == "pseq" || b.desc.Kind == "parr" {
			s = s.Elem()
		}
		for i := 0; i < s.Len(); i++ {
			d.Elems = append(d.Elems, toTV(s.Index(i)))
		}
	}
	return d
}

// ---- tree dump by reflection ----
func dumpNode(v reflect.Value, sb *strings.Builder) {
	if !v.IsValid() {
		sb.WriteString("nil")
		return
	}
	switch v.Kind() {
	case reflect.Ptr:
		if v.IsNil() {
			sb.WriteString("nil")
			return
		}
		dumpNode(v.Elem(), sb)
	case reflect.Slice:
		sb.WriteString("[")
		for i := 0; i < v.Len(); i++ {
			if i > 0 {
				sb.WriteString(" ")
			}
			dumpNode(v.Index(i), sb)
		}
		sb.WriteString("]")
	case reflect.Struct:
		t := v.Type()
		if t.Name() == "Value" && t.PkgPath() == "reflect" {
			// Constant.ConstantValue : a reflect.Value stored in the node
			rv, ok := v.Interface().(reflect.Value)
			if !ok {
				sb.WriteString("<?>")
				return
			}
			tv := toTV(rv)
			switch {
			case tv.Z != "":
				sb.WriteString("<" + tv.T + ":" + tv.Z + ">")
			case tv.T == "s":
				sb.WriteString("<s:" + tv.S + ">")
			case tv.T == "b":
				fmt.Fprintf(sb, "<b:%v>", tv.B)
			case tv.C == "fin":
				fmt.Fprintf(sb, "<%s:%s*2^%d>", tv.T, tv.M, tv.E)
			default:
				sb.WriteString("<" + tv.T + ":" + tv.C + ">")
			}
			return
		}
		sb.WriteString("(" + t.Name())
		for i := 0; i < t.NumField(); i++ {
			f := v.Field(i)
			ft := t.Field(i)
			if f.Kind() == reflect.Struct && ft.Type.PkgPath() == "sync" {
				continue // a lock is not part of the tree
			}
			if ft.Name == "SourceCode" {
				fmt.Fprintf(sb, " @%d:%d", f.FieldByName("LineNum").Int(), f.FieldByName("Column").Int())
				continue
			}
			switch f.Kind() {
			case reflect.String:
				if f.String() != "" {
					fmt.Fprintf(sb, " %s=%s", ft.Name, f.String())
				}
			case reflect.Int64, reflect.Int:
				if f.Int() != 0 {
					fmt.Fprintf(sb, " %s=%d", ft.Name, f.Int())
				}
			case reflect.Ptr, reflect.Slice:
				if f.IsNil() || (f.Kind() == reflect.Slice && f.Len() == 0) {
					continue
				}
				sb.WriteString(" " + ft.Name + ":")
				dumpNode(f, sb)
			case reflect.Struct:
				sb.WriteString(" " + ft.Name + ":")
				dumpNode(f, sb)
			}
		}
		sb.WriteString(")")
	default:
		sb.WriteString("?")
	}
}

type lCase struct {
	ID       int       `json:"id"`
	Text     string    `json:"text"`
	Rule     string    `json:"rule"` // name of the rule to report on (the text may hold several)
	Inject   []injDesc `json:"inject"`
	Tree     bool      `json:"tree"`
	Twice    bool      `json:"twice"`    // execute the rule set twice on the same builder/engine (C15)
	Inject2  []injDesc `json:"inject2"`  // with Reinject: the objects of the second execution (default: fresh copies of Inject)
	Reinject bool      `json:"reinject"` // then inject FRESH objects under the same names into the same data context and execute again (C03)
	Withdraw []string  `json:"withdraw"` // with Reinject: names taken out of the data context first, the way the pool's two-object wrapper does it: Del("", names...)
	Hold     string    `json:"hold"`     // Hold("<name>") blocks until the adversary releases it (C18)
	Model    string    `json:"model"`    // "" = sort model; "concurrent" = ExecuteConcurrent (C15: overlapping executions of several rules)
}

type lObs struct {
	ID      int             `json:"id"`
	Compile string          `json:"compile,omitempty"`
	Class   string          `json:"class"` // ok | error | panic
	ErrMsg  string          `json:"errmsg,omitempty"`
	Cites   [][2]int        `json:"cites"`
	HasRet  bool            `json:"hasret"`
	Held    bool            `json:"held"`
	During  int             `json:"during"` // calls recorded while the child was held
	Ret     *tval           `json:"ret,omitempty"`
	Results map[string]tval `json:"results"`
	Calls   []callRec       `json:"calls"`
	Store   []injDump       `json:"store"`
	Tree    string          `json:"tree,omitempty"`
	Second  *lObs           `json:"second,omitempty"`
}

var citeRe = regexp.MustCompile(`line (\d+), column:? ?(\d+)`)

func runLangOnce(rb *builder.RuleBuilder, c *lCase, rec *recorder, builts []*built, obs *lObs) {
	g := engine.NewGengine()
	var err error
	run := func() {
		defer func() {
			if r := recover(); r != nil {
				obs.Class = "panic"
				obs.ErrMsg = fmt.Sprint(r)
			}
		}()
		if c.Model == "concurrent" {
			err = g.ExecuteConcurrent(rb)
		} else {
			err = g.Execute(rb, true)
		}
	}
	if c.Hold == "" {
		run()
	} else {
		gt := newGate(c.Hold)
		rec.gate = gt
		done := make(chan struct{})
		go func() { run(); close(done) }()
		select {
		case <-gt.reached:
			obs.Held = true
			count := func() int { rec.mu.Lock(); defer rec.mu.Unlock(); return len(rec.calls) }
			before, last := count(), count()
			for {
				time.Sleep(25 * time.Millisecond)
				now := count()
				if now == last {
					break
				}
				last = now
			}
			obs.During = last - before
			close(gt.release)
		case <-done:
		case <-time.After(5 * time.Second):
		}
		select {
		case <-done:
		case <-time.After(8 * time.Second):
			obs.Class = "panic"
			obs.ErrMsg = "harness: the call did not return"
		}
	}
	if obs.Class != "panic" {
		if err != nil {
			obs.Class = "error"
			obs.ErrMsg = err.Error()
			for _, m := range citeRe.FindAllStringSubmatch(obs.ErrMsg, -1) {
				a, _ := strconv.Atoi(m[1])
				b, _ := strconv.Atoi(m[2])
				obs.Cites = append(obs.Cites, [2]int{a, b})
			}
			if len(obs.ErrMsg) > 600 {
				obs.ErrMsg = obs.ErrMsg[:600]
			}
		} else {
			obs.Class = "ok"
		}
		m, _ := g.GetRulesResultMap()
		for k, v := range m {
			if v == nil {
				obs.Results[k] = tval{T: "nil"}
			} else {
				obs.Results[k] = toTV(reflect.ValueOf(v))
			}
			if k == c.Rule {
				obs.HasRet = true
				tv := obs.Results[k]
				obs.Ret = &tv
			}
		}
	}
	rec.mu.Lock()
	obs.Calls = append([]callRec{}, rec.calls...)
	rec.calls = nil
	rec.mu.Unlock()
	for _, b := range builts {
		obs.Store = append(obs.Store, dumpInj(b))
	}
}

func runLangCase(c *lCase) lObs {
	obs := lObs{ID: c.ID, Cites: [][2]int{}, Results: map[string]tval{}, Calls: []callRec{}, Store: []injDump{}}
	rec := &recorder{}
	dc := context.NewDataContext()
	rec.dc = dc
	var builts []*built
	for _, d := range c.Inject {
		b, err := buildInj(d, rec)
		if err != nil {
			obs.Compile = "inject: " + err.Error()
			return obs
		}
		builts = append(builts, b)
		dc.Add(d.Name, b.obj)
	}
	rb := builder.NewRuleBuilder(dc)
	if err := rb.BuildRuleFromString(c.Text); err != nil {
		obs.Compile = err.Error()
		return obs
	}
	if c.Tree {
		if re, ok := rb.Kc.RuleEntities[c.Rule]; ok {
			var sb strings.Builder
			dumpNode(reflect.ValueOf(re.RuleContent), &sb)
			obs.Tree = sb.String()
		}
	}
	runLangOnce(rb, c, rec, builts, &obs)
	if c.Twice {
		second := lObs{ID: c.ID, Cites: [][2]int{}, Results: map[string]tval{}, Calls: []callRec{}, Store: []injDump{}}
		runLangOnce(rb, c, rec, builts, &second)
		obs.Second = &second
	}
	if c.Reinject {
		second := lObs{ID: c.ID, Cites: [][2]int{}, Results: map[string]tval{}, Calls: []callRec{}, Store: []injDump{}}
		var fresh []*built
		second2 := c.Inject
		if len(c.Inject2) > 0 {
			second2 = c.Inject2
		}
		if len(c.Withdraw) > 0 {
			dc.Del(append([]string{""}, c.Withdraw...)...)
		}
		for _, d := range second2 {
			b, err := buildInj(d, rec)
			if err != nil {
				second.Compile = "inject: " + err.Error()
				break
			}
			fresh = append(fresh, b)
			dc.Add(d.Name, b.obj) // no Del in between: the host simply rebinds the name
		}
		if second.Compile == "" {
			runLangOnce(rb, c, rec, fresh, &second)
		}
		obs.Second = &second
	}
	return obs
}

func init() {
	register("lang", func(raw []byte) (interface{}, error) {
		var cases []lCase
		if err := json.Unmarshal(raw, &cases); err != nil {
			return nil, err
		}
		out := make([]lObs, len(cases))
		for i := range cases {
			out[i] = runLangCase(&cases[i])
		}
		return out, nil
	})
}
