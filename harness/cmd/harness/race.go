package main

import (
	"encoding/json"
	"fmt"
	"sync"
	"sync/atomic"
	"time"

	"github.com/bilibili/gengine/builder"
	"github.com/bilibili/gengine/context"
	"github.com/bilibili/gengine/engine"
)

// ---- C19: scenario set for the Go race detector (the binary is built with -race) ----
// Concurrent use of gengine within its contract: pool requests from many goroutines through
// every wrapper family, management calls concurrent with requests, concurrent / mixed / N-M /
// DAG models on a stand-alone engine, conc blocks. User data is per request (no sharing
// through injected objects), so every report is about gengine's own state.

type raceCfg struct {
	Ms      int `json:"ms"`
	Clients int `json:"clients"`
}

type RReq struct {
	Id  int64
	Out int64
}

type RTouch struct{ n int64 }

func (t *RTouch) Touch() int64 { return 1 }

// every rule: a local object obtained from an injected constructor, then a conc block mixing calls on that LOCAL
// object (method call resolved through the rule's local-variable store) with assignments to other locals
func raceRules(ver int) string {
	s := ""
	for i, n := range []string{"pa", "pb", "pc", "pd"} {
		s += fmt.Sprintf("rule \"%s\" \"v%d\" salience %d begin\n  loc = Req.Id\n  obj = Mk()\n  conc {\n    x = loc + 1\n    obj.Touch()\n    y = loc + 2\n    obj.Touch()\n    z = Req.Id\n    w = 3\n  }\n  return %d + x + y\nend\n", n, ver, 9-2*i, ver*1000)
	}
	return s
}

func init() {
	register("race", func(raw []byte) (interface{}, error) {
		var cfg raceCfg
		if err := json.Unmarshal(raw, &cfg); err != nil {
			return nil, err
		}
		if cfg.Ms == 0 {
			cfg.Ms = 1500
		}
		if cfg.Clients == 0 {
			cfg.Clients = 6
		}
		var calls int64
		stop := make(chan struct{})
		var wg sync.WaitGroup
		// (1) a pool: requests through the wrapper families, concurrent with management calls
		mk := func() *RTouch { return &RTouch{} }
		gp, err := engine.NewGenginePool(2, 4, 1, raceRules(1), map[string]interface{}{"Mk": mk})
		if err != nil {
			return nil, err
		}
		names := []string{"pa", "pb", "pc", "pd"}
		for c := 0; c < cfg.Clients; c++ {
			wg.Add(1)
			go func(c int) {
				defer wg.Done()
				i := 0
				for {
					select {
					case <-stop:
						return
					default:
					}
					i++
					data := map[string]interface{}{"Req": &RReq{Id: int64(c*100000 + i)}}
					switch i % 9 {
					case 0:
						gp.Execute(data, true)
					case 1:
						gp.ExecuteConcurrent(data)
					case 2:
						gp.ExecuteMixModel(data)
					case 3:
						gp.ExecuteInverseMixModel(data)
					case 4:
						gp.ExecuteNSortMConcurrent(1, 2, true, data)
					case 5:
						gp.ExecuteDAGModel([][]string{{"pa", "pb"}, {"pc"}}, data)
					case 6:
						gp.ExecuteSelectedRulesConcurrent(data, names)
					case 7:
						gp.ExecuteRulesWithMultiInputWithSpecifiedEM(data)
					case 8:
						gp.ExecuteSelectedWithSpecifiedEM(data, names)
					}
					atomic.AddInt64(&calls, 1)
				}
			}(c)
		}
		wg.Add(1)
		go func() {
			defer wg.Done()
			v := 1
			for {
				select {
				case <-stop:
					return
				default:
				}
				v++
				switch v % 6 {
				case 0:
					gp.UpdatePooledRules(raceRules(v))
				case 1:
					gp.UpdatePooledRulesIncremental(raceRules(v))
				case 2:
					gp.SetExecModel(1 + v%4)
				case 3:
					gp.RemoveRules([]string{"pd"})
				case 4:
					gp.ClearPoolRules()
					gp.UpdatePooledRules(raceRules(v))
				case 5:
					gp.IsExist(names)
					gp.GetRulesNumber()
					gp.GetExecModel()
				}
				time.Sleep(2 * time.Millisecond)
			}
		}()
		// (2) a stand-alone engine per goroutine sharing one rule builder's compiled rules (read-only)
		master := builder.NewRuleBuilder(context.NewDataContext())
		if err := master.BuildRuleFromString(raceRules(7)); err != nil {
			return nil, err
		}
		for c := 0; c < 2; c++ {
			wg.Add(1)
			go func(c int) {
				defer wg.Done()
				for i := 0; ; i++ {
					select {
					case <-stop:
						return
					default:
					}
					dc := context.NewDataContext()
					dc.Add("Req", &RReq{Id: int64(i)})
					dc.Add("Mk", mk)
					rb := builder.NewRuleBuilder(dc)
					rb.Kc = master.Kc
					g := engine.NewGengine()
					switch i % 4 {
					case 0:
						g.ExecuteConcurrent(rb)
					case 1:
						g.ExecuteMixModel(rb)
					case 2:
						g.ExecuteNConcurrentMConcurrent(2, 2, rb, true)
					case 3:
						g.ExecuteDAGModel(rb, [][]string{{"pa", "pb", "pc"}, {"pd"}})
					}
					g.GetRulesResultMap()
					atomic.AddInt64(&calls, 1)
				}
			}(c)
		}
		time.Sleep(time.Duration(cfg.Ms) * time.Millisecond)
		close(stop)
		wg.Wait()
		return map[string]interface{}{"calls": atomic.LoadInt64(&calls)}, nil
	})
}
