package main

import (
	"encoding/json"
	"fmt"
	"sync"
	"sync/atomic"
	"time"

	"github.com/bilibili/gengine/builder"
	"github.com/bilibili/gengine/context"
	"github.com/bilibili/gengine/engine"
)

// ---- C19: scenario set for the Go race detector (the binary is built with -race) ----
// Concurrent use of gengine within its contract: pool requests from many goroutines through
// every wrapper family, management calls concurrent with requests, concurrent / mixed / N-M /
// DAG models on a stand-alone engine, conc blocks. User data is per request (no sharing
// through injected objects), so every report is about gengine's own state.

type raceCfg struct {
	Ms      int `json:"ms"`
	Clients int `json:"clients"`
}

type RReq struct {
	Id   int64
	Out  int64
	Flag bool // the rules return only for requests that ask for it: other requests are handed an EMPTY result map
}

type RTouch struct {
	N  int64 // read by the rules' conc blocks through the LOCAL obj (obj.N): a two-level read resolved in the rule's local store
	n  int64
	In *RTouch // a nested object: obj.In.Touch() is a three-level call whose first part is a rule LOCAL
}

func (t *RTouch) Touch() int64 { return 1 }

// every rule: a local object obtained from an injected constructor, then a conc block mixing calls on that LOCAL
// object (method call resolved through the rule's local-variable store) with assignments to other locals
func raceRules(ver int) string {
	s := ""
	for i, n := range []string{"pa", "pb", "pc", "pd"} {
		s += fmt.Sprintf("rule \"%s\" \"v%d\" salience %d begin\n  loc = Req.Id\n  obj = Mk()\n  sm = Sum2(loc, Req.Id)\n  conc {\n    x = loc + 1\n    obj.Touch()\n    y = loc + 2 + obj.N\n    obj.In.Touch()\n    z = Req.Id\n    obj.In.Touch()\n    w = 3\n  }\n  if Req.Flag {\n    return %d + x + y\n  }\nend\n", n, ver, 9-2*i, ver*1000)
	}
	return s
}

func init() {
	register("race", func(raw []byte) (interface{}, error) {
		var cfg raceCfg
		if err := json.Unmarshal(raw, &cfg); err != nil {
			return nil, err
		}
		if cfg.Ms == 0 {
			cfg.Ms = 1500
		}
		if cfg.Clients == 0 {
			cfg.Clients = 6
		}
		var calls int64
		stop := make(chan struct{})
		var wg sync.WaitGroup
		// (1) a pool: requests through the wrapper families, concurrent with management calls
		mk := func() *RTouch { return &RTouch{In: &RTouch{}} }
		sum2 := func(a, b int64) int64 { return a + b } // a call WITH arguments: its argument list is evaluated by every execution of the rule
		gp, err := engine.NewGenginePool(2, 4, 1, raceRules(1), map[string]interface{}{"Mk": mk, "Sum2": sum2})
		if err != nil {
			return nil, err
		}
		names := []string{"pa", "pb", "pc", "pd"}
		for c := 0; c < cfg.Clients; c++ {
			wg.Add(1)
			go func(c int) {
				defer wg.Done()
				i := 0
				// the maps handed back belong to this client: it keeps the last few and reads them again and again
				var held []map[string]interface{}
				var m map[string]interface{}
				for {
					select {
					case <-stop:
						return
					default:
					}
					i++
					data := map[string]interface{}{"Req": &RReq{Id: int64(c*100000 + i), Flag: i%3 != 0}}
					if i%11 == 0 {
						data = map[string]interface{}{} // a request that injects nothing (its rules fail on Req): it still gets a snapshot of its own
					} else if i%13 == 0 {
						data = nil
					}
					m = nil
					if i%17 == 0 {
						// a request the wrapper REJECTS (nothing selected, no such rule, a window that does not fit, an empty dag): whatever
						// the wrapper does on that path, the instance is handed back once and the requests that follow do not share one
						none, ghost := []string{}, []string{"zz"}
						switch (i / 17) % 14 {
						case 0:
							gp.ExecuteSelectedRules(data, none)
						case 1:
							gp.ExecuteSelectedRulesConcurrent(data, none)
						case 2:
							gp.ExecuteSelectedRulesMixModel(data, none)
						case 3:
							gp.ExecuteSelectedRulesInverseMixModel(data, none)
						case 4:
							gp.ExecuteSelectedRulesWithControl(data, true, none)
						case 5:
							gp.ExecuteSelectedRulesInverseMixModel(data, ghost)
						case 6:
							gp.ExecuteSelectedNSortMConcurrent(1, 1, true, none, data)
						case 7:
							gp.ExecuteNSortMConcurrent(0, 1, true, data)
						case 8:
							gp.ExecuteDAGModel([][]string{}, data)
						case 9:
							gp.ExecuteSelectedWithSpecifiedEM(data, none)
						case 10:
							gp.ExecuteSelectedRulesWithControlAsGivenSortedName(data, true, none)
						case 11:
							gp.ExecuteSelectedNConcurrentMConcurrent(2, 2, true, ghost, data)
						case 12:
							gp.ExecuteSelectedRulesMixModel(data, ghost)
						case 13:
							gp.ExecuteSelectedNConcurrentMSort(1, 3, false, names[:2], data)
						}
						atomic.AddInt64(&calls, 1)
						continue
					}
					switch i % 9 {
					case 0:
						_, m = gp.Execute(data, true)
					case 1:
						_, m = gp.ExecuteConcurrent(data)
					case 2:
						_, m = gp.ExecuteMixModel(data)
					case 3:
						_, m = gp.ExecuteInverseMixModel(data)
					case 4:
						_, m = gp.ExecuteNSortMConcurrent(1, 2, true, data)
					case 5:
						_, m = gp.ExecuteDAGModel([][]string{{"pa", "pb"}, {"pc"}}, data)
					case 6:
						_, m = gp.ExecuteSelectedRulesConcurrent(data, names)
					case 7:
						_, m = gp.ExecuteRulesWithMultiInputWithSpecifiedEM(data)
					case 8:
						_, m = gp.ExecuteSelectedWithSpecifiedEM(data, names)
					}
					atomic.AddInt64(&calls, 1)
					if m != nil {
						held = append(held, m)
						if len(held) > 6 {
							held = held[1:]
						}
					}
					n := 0
					for _, hm := range held {
						for range hm {
							n++
						}
					}
					_ = n
				}
			}(c)
		}
		wg.Add(1)
		go func() {
			defer wg.Done()
			v := 1
			for {
				select {
				case <-stop:
					return
				default:
				}
				v++
				switch v % 8 {
				case 0:
					gp.UpdatePooledRules(raceRules(v))
				case 1:
					gp.UpdatePooledRulesIncremental(raceRules(v))
				case 2:
					gp.SetExecModel(1 + v%4)
				case 3:
					gp.RemoveRules([]string{"pd"})
				case 4, 6, 7: // clearing is the rarest operation in practice and the one that touches every published pointer: three of eight here
					gp.ClearPoolRules()
					gp.UpdatePooledRules(raceRules(v))
				case 5:
					gp.IsExist(names)
					gp.GetRulesNumber()
					gp.GetExecModel()
				}
				time.Sleep(time.Millisecond)
			}
		}()
		// (2) a stand-alone engine per goroutine sharing one rule builder's compiled rules (read-only)
		master := builder.NewRuleBuilder(context.NewDataContext())
		if err := master.BuildRuleFromString(raceRules(7)); err != nil {
			return nil, err
		}
		for c := 0; c < 2; c++ {
			wg.Add(1)
			go func(c int) {
				defer wg.Done()
				for i := 0; ; i++ {
					select {
					case <-stop:
						return
					default:
					}
					dc := context.NewDataContext()
					dc.Add("Req", &RReq{Id: int64(i)})
					dc.Add("Mk", mk)
					dc.Add("Sum2", sum2)
					rb := builder.NewRuleBuilder(dc)
					rb.Kc = master.Kc
					g := engine.NewGengine()
					switch i % 4 {
					case 0:
						g.ExecuteConcurrent(rb)
					case 1:
						g.ExecuteMixModel(rb)
					case 2:
						g.ExecuteNConcurrentMConcurrent(2, 2, rb, true)
					case 3:
						g.ExecuteDAGModel(rb, [][]string{{"pa", "pb", "pc"}, {"pd"}})
					}
					g.GetRulesResultMap()
					atomic.AddInt64(&calls, 1)
				}
			}(c)
		}
		time.Sleep(time.Duration(cfg.Ms) * time.Millisecond)
		close(stop)
		wg.Wait()
		return map[string]interface{}{"calls": atomic.LoadInt64(&calls)}, nil
	})
}
