package main

// "parse": compile `rule "p" begin return <expr> end` and print the SHAPE of the tree the listener
// built for <expr> (which node is the root, its children, explicit parentheses, negations), in the
// vocabulary of coq/theories/Lang/Parse.v.  Used by C01's reading correspondence.

import (
	"encoding/json"
	"fmt"
	"reflect"
	"strings"

	"github.com/bilibili/gengine/builder"
	"github.com/bilibili/gengine/context"
)

type rdCase struct {
	ID   int    `json:"id"`
	Text string `json:"text"`
	Ctx  string `json:"ctx"` // return | if | assign | arg
}

type rdObs struct {
	ID      int    `json:"id"`
	Compile string `json:"compile,omitempty"`
	Shape   string `json:"shape,omitempty"`
	Panic   string `json:"panic,omitempty"`
}

func atomName(v reflect.Value) string { // *ExpressionAtom
	if v.IsNil() {
		return "?"
	}
	a := v.Elem()
	if s := a.FieldByName("Variable").String(); s != "" {
		return s
	}
	return "?"
}

func mathShape(v reflect.Value, sb *strings.Builder) { // *MathExpression
	m := v.Elem()
	l, r, a := m.FieldByName("MathExpressionLeft"), m.FieldByName("MathExpressionRight"), m.FieldByName("ExpressionAtom")
	op := m.FieldByName("MathPmOperator").String() + m.FieldByName("MathMdOperator").String()
	switch {
	case !a.IsNil() && l.IsNil() && r.IsNil() && op == "":
		sb.WriteString("L(0," + atomName(a) + ")")
	case !l.IsNil() && r.IsNil() && a.IsNil() && op == "":
		sb.WriteString("P(0,")
		mathShape(l, sb)
		sb.WriteString(")")
	case !l.IsNil() && !r.IsNil() && a.IsNil() && len(op) == 1:
		sb.WriteString("N(" + op + ",")
		mathShape(l, sb)
		sb.WriteString(",")
		mathShape(r, sb)
		sb.WriteString(")")
	default:
		sb.WriteString("?math")
	}
}

func exprShape(v reflect.Value, sb *strings.Builder) { // *Expression
	e := v.Elem()
	l, r, a, m := e.FieldByName("ExpressionLeft"), e.FieldByName("ExpressionRight"), e.FieldByName("ExpressionAtom"), e.FieldByName("MathExpression")
	op := e.FieldByName("LogicalOperator").String() + e.FieldByName("ComparisonOperator").String()
	neg := "0"
	switch e.FieldByName("NotOperator").String() {
	case "":
	case "!":
		neg = "1"
	default:
		neg = "?"
	}
	switch {
	case !m.IsNil() && l.IsNil() && r.IsNil() && a.IsNil() && op == "" && neg == "0":
		mathShape(m, sb)
	case !a.IsNil() && l.IsNil() && r.IsNil() && m.IsNil() && op == "":
		sb.WriteString("L(" + neg + "," + atomName(a) + ")")
	case !l.IsNil() && r.IsNil() && a.IsNil() && m.IsNil() && op == "":
		sb.WriteString("P(" + neg + ",")
		exprShape(l, sb)
		sb.WriteString(")")
	case !l.IsNil() && !r.IsNil() && a.IsNil() && m.IsNil() && op != "" && neg == "0":
		sb.WriteString("N(" + op + ",")
		exprShape(l, sb)
		sb.WriteString(",")
		exprShape(r, sb)
		sb.WriteString(")")
	default:
		sb.WriteString("?expr")
	}
}

func runParseCase(c *rdCase) (obs rdObs) {
	obs.ID = c.ID
	defer func() {
		if r := recover(); r != nil {
			obs.Panic = fmt.Sprint(r)
		}
	}()
	rb := builder.NewRuleBuilder(context.NewDataContext())
	if err := rb.BuildRuleFromString(c.Text); err != nil {
		obs.Compile = err.Error()
		if len(obs.Compile) > 300 {
			obs.Compile = obs.Compile[:300]
		}
		return
	}
	re, ok := rb.Kc.RuleEntities["p"]
	if !ok {
		obs.Compile = "harness: rule p missing"
		return
	}
	stmts := reflect.ValueOf(re.RuleContent).Elem().FieldByName("Statements").Elem()
	var sb strings.Builder
	switch c.Ctx {
	case "return":
		exprShape(stmts.FieldByName("ReturnStatement").Elem().FieldByName("Expression"), &sb)
	case "if":
		st := stmts.FieldByName("StatementList").Index(0).Elem()
		exprShape(st.FieldByName("IfStmt").Elem().FieldByName("Expression"), &sb)
	case "assign":
		as := stmts.FieldByName("StatementList").Index(0).Elem().FieldByName("Assignment").Elem()
		if m := as.FieldByName("MathExpression"); !m.IsNil() {
			mathShape(m, &sb)
		} else {
			exprShape(as.FieldByName("Expression"), &sb)
		}
	}
	obs.Shape = sb.String()
	return
}

func init() {
	register("parse", func(raw []byte) (interface{}, error) {
		var cases []rdCase
		if err := json.Unmarshal(raw, &cases); err != nil {
			return nil, err
		}
		out := make([]rdObs, len(cases))
		for i := range cases {
			out[i] = runParseCase(&cases[i])
		}
		return out, nil
	})
}
