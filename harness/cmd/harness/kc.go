package main

import (
	"encoding/json"
	"fmt"
	"sort"

	"github.com/bilibili/gengine/builder"
	"github.com/bilibili/gengine/context"
	"github.com/bilibili/gengine/engine"
)

// ---- C08: histories of builder operations, container dumped after every step ----

type kcOp struct {
	Kind  string   `json:"kind"` // full | incr | remove
	Text  string   `json:"text"`
	Names []string `json:"names"`
}

type ruleDump struct {
	Name string `json:"name"`
	Sal  int64  `json:"sal"`
	Desc string `json:"desc"`
	Body int64  `json:"body"` // value returned by the rule body (-1: none)
}

type kcStepObs struct {
	Err     bool           `json:"err"`
	Panic   string         `json:"panic,omitempty"`
	Sorted  []ruleDump     `json:"sorted"`
	Ents    []ruleDump     `json:"ents"`  // sorted by key
	Keys    []string       `json:"keys"`  // map keys (sorted) — must equal names in Ents
	Index   map[string]int `json:"index"` // SortRulesIndexMap
	Exist   []bool         `json:"exist"` // IsExist(probe names)
	ExecSeq []string       `json:"exec_seq"`
}

type kcCase struct {
	ID    int      `json:"id"`
	Ops   []kcOp   `json:"ops"`
	Probe []string `json:"probe"`
}

type kcObs struct {
	ID    int         `json:"id"`
	Steps []kcStepObs `json:"steps"`
}

func dumpBuilder(rb *builder.RuleBuilder, probe []string) kcStepObs {
	var o kcStepObs
	o.Index = map[string]int{}
	// body ids: execute the sort model and read the result map
	bodies := map[string]int64{}
	if len(rb.Kc.SortRules) > 0 {
		g := engine.NewGengine()
		_ = g.Execute(rb, true)
		m, _ := g.GetRulesResultMap()
		for k, v := range m {
			if iv, ok := v.(int64); ok {
				bodies[k] = iv
			}
		}
	}
	body := func(n string) int64 {
		if b, ok := bodies[n]; ok {
			return b
		}
		return -1
	}
	for _, r := range rb.Kc.SortRules {
		o.Sorted = append(o.Sorted, ruleDump{r.RuleName, r.Salience, r.RuleDescription, body(r.RuleName)})
	}
	for k, r := range rb.Kc.RuleEntities {
		o.Keys = append(o.Keys, k)
		o.Ents = append(o.Ents, ruleDump{r.RuleName, r.Salience, r.RuleDescription, body(r.RuleName)})
	}
	sort.Strings(o.Keys)
	sort.Slice(o.Ents, func(i, j int) bool { return o.Ents[i].Name < o.Ents[j].Name })
	for k, v := range rb.Kc.SortRulesIndexMap {
		o.Index[k] = v
	}
	o.Exist = rb.IsExist(probe)
	if o.Sorted == nil {
		o.Sorted = []ruleDump{}
	}
	if o.Ents == nil {
		o.Ents = []ruleDump{}
	}
	if o.Keys == nil {
		o.Keys = []string{}
	}
	if o.Exist == nil {
		o.Exist = []bool{}
	}
	return o
}

func applyKcOp(rb *builder.RuleBuilder, op kcOp) (err error, pan string) {
	defer func() {
		if r := recover(); r != nil {
			pan = fmt.Sprint(r)
		}
	}()
	switch op.Kind {
	case "full":
		err = rb.BuildRuleFromString(op.Text)
	case "incr":
		err = rb.BuildRuleWithIncremental(op.Text)
	case "remove":
		before := append([]string{}, op.Names...)
		err = rb.RemoveRules(op.Names)
		if fmt.Sprint(before) != fmt.Sprint(op.Names) { // the list belongs to the caller, who may hand it in again
			pan = fmt.Sprintf("RemoveRules changed the name list it was handed: %v -> %v", before, op.Names)
		}
	default:
		err = fmt.Errorf("unknown op kind %q", op.Kind)
	}
	return
}

func init() {
	register("kc", func(raw []byte) (interface{}, error) {
		var cases []kcCase
		if err := json.Unmarshal(raw, &cases); err != nil {
			return nil, err
		}
		out := make([]kcObs, 0, len(cases))
		for _, c := range cases {
			rb := builder.NewRuleBuilder(context.NewDataContext())
			obs := kcObs{ID: c.ID}
			for _, op := range c.Ops {
				err, pan := applyKcOp(rb, op)
				st := dumpBuilder(rb, c.Probe)
				st.Err = err != nil
				st.Panic = pan
				obs.Steps = append(obs.Steps, st)
			}
			out = append(out, obs)
		}
		return out, nil
	})
}
