package main

import (
	"crypto/sha1"
	"encoding/hex"
	"encoding/json"
	"fmt"
	"reflect"
	"sort"
	"strings"

	"github.com/bilibili/gengine/builder"
	"github.com/bilibili/gengine/context"
	"github.com/bilibili/gengine/engine"
)

// ---- C10: every text through the five compile entry points, from a known state ----

type cCase struct {
	ID      int      `json:"id"`
	Base    string   `json:"base"` // the rule set installed before the text is submitted
	Mid     string   `json:"mid"`  // optional: an incremental text applied after Base and before the text (so Base may equal the text)
	Text    string   `json:"text"`
	Reclear bool     `json:"reclear,omitempty"` // pool entries: clear the pool AGAIN after Mid (clear ; Mid ; clear ; text); builder entries: a fresh builder, Mid skipped
	Rm      []string `json:"rm,omitempty"`      // optional: names removed after Base / Mid and before the text is submitted
}

type cEntryObs struct {
	Entry   string            `json:"entry"`
	Panic   string            `json:"panic,omitempty"`
	Err     bool              `json:"err"`
	ErrMsg  string            `json:"errmsg,omitempty"`
	Before  []string          `json:"before"`
	After   []string          `json:"after"`
	IndexOK bool              `json:"index_ok"`
	Trees   map[string]string `json:"trees,omitempty"` // rule name -> digest of its compiled tree (node kinds, operators, operands, source positions)
}

type cObs struct {
	ID      int         `json:"id"`
	Entries []cEntryObs `json:"entries"`
}

// treeDigests: for every installed rule a digest of the tree the listener built for it, positions included
func treeDigests(kc reflect.Value) (out map[string]string) {
	out = map[string]string{}
	defer func() { _ = recover() }()
	if kc.IsNil() {
		return
	}
	ents := kc.Elem().FieldByName("RuleEntities")
	for _, k := range ents.MapKeys() {
		var sb strings.Builder
		dumpNode(ents.MapIndex(k).Elem().FieldByName("RuleContent"), &sb)
		sum := sha1.Sum([]byte(sb.String()))
		out[k.String()] = hex.EncodeToString(sum[:6])
	}
	return
}

func poolTrees(gp *engine.GenginePool) map[string]string {
	v := reflect.ValueOf(gp).Elem()
	rb := expose(v.FieldByName("ruleBuilder"))
	if rb.IsNil() {
		return map[string]string{}
	}
	return treeDigests(rb.Elem().FieldByName("Kc"))
}

func builderRules(rb *builder.RuleBuilder) ([]string, bool) {
	out := []string{}
	ok := len(rb.Kc.SortRules) == len(rb.Kc.RuleEntities) && len(rb.Kc.SortRulesIndexMap) == len(rb.Kc.SortRules)
	for name := range rb.Kc.RuleEntities {
		if ex := rb.IsExist([]string{name}); len(ex) != 1 || !ex[0] {
			ok = false
		}
	}
	for i, r := range rb.Kc.SortRules {
		out = append(out, fmt.Sprintf("%s|%d|%s", r.RuleName, r.Salience, r.RuleDescription))
		if rb.Kc.SortRulesIndexMap[r.RuleName] != i {
			ok = false
		}
	}
	return out, ok
}

func poolRules(gp *engine.GenginePool) []string {
	v := reflect.ValueOf(gp).Elem()
	rb := expose(v.FieldByName("ruleBuilder"))
	if rb.IsNil() {
		return []string{}
	}
	master := kcRules(rb.Elem().FieldByName("Kc"))
	rbs := expose(v.FieldByName("rbSlice"))
	for i := 0; i < rbs.Len(); i++ {
		inst := kcRules(rbs.Index(i).Elem().FieldByName("Kc"))
		a, b := append([]string{}, master...), append([]string{}, inst...)
		sort.Strings(a)
		sort.Strings(b)
		if fmt.Sprint(a) != fmt.Sprint(b) {
			return append(master, "!instance-differs")
		}
	}
	return master
}

func guard(f func() error) (err error, pan string) {
	defer func() {
		if r := recover(); r != nil {
			pan = fmt.Sprint(r)
		}
	}()
	err = f()
	return
}

func short(e error) string {
	if e == nil {
		return ""
	}
	s := e.Error()
	if len(s) > 160 {
		s = s[:160]
	}
	return s
}

func runCompileCase(c *cCase) cObs {
	obs := cObs{ID: c.ID}
	add := func(o cEntryObs) { obs.Entries = append(obs.Entries, o) }
	// 1, 2: stand-alone builder
	for _, entry := range []string{"builder-full", "builder-incremental"} {
		rb := builder.NewRuleBuilder(context.NewDataContext())
		if c.Base != "" {
			if e := rb.BuildRuleFromString(c.Base); e != nil {
				add(cEntryObs{Entry: entry, Panic: "base does not compile: " + e.Error()})
				continue
			}
		}
		if c.Mid != "" && !c.Reclear {
			if e := rb.BuildRuleWithIncremental(c.Mid); e != nil {
				add(cEntryObs{Entry: entry, Panic: "mid does not compile: " + e.Error()})
				continue
			}
		}
		if len(c.Rm) > 0 {
			if e, p := guard(func() error { return rb.RemoveRules(c.Rm) }); e != nil || p != "" {
				add(cEntryObs{Entry: entry, Panic: "removal failed: " + short(e) + p})
				continue
			}
		}
		o := cEntryObs{Entry: entry}
		o.Before, _ = builderRules(rb)
		e, p := guard(func() error {
			if entry == "builder-full" {
				return rb.BuildRuleFromString(c.Text)
			}
			return rb.BuildRuleWithIncremental(c.Text)
		})
		o.Err, o.ErrMsg, o.Panic = e != nil, short(e), p
		o.After, o.IndexOK = builderRules(rb)
		o.Trees = treeDigests(reflect.ValueOf(rb.Kc))
		add(o)
	}
	// 3: pool construction
	{
		o := cEntryObs{Entry: "pool-construction", Before: []string{}, After: []string{}, IndexOK: true}
		var gp *engine.GenginePool
		e, p := guard(func() error {
			var err error
			gp, err = engine.NewGenginePool(1, 2, 1, c.Text, map[string]interface{}{})
			return err
		})
		o.Err, o.ErrMsg, o.Panic = e != nil, short(e), p
		if gp != nil && e == nil {
			o.After = poolRules(gp)
			o.Trees = poolTrees(gp)
		}
		add(o)
	}
	// 4, 5: pool updates
	for _, entry := range []string{"pool-full-update", "pool-incremental-update"} {
		base := c.Base
		if base == "" { // an empty pool: construct with a placeholder rule, then clear
			base = "rule \"placeholder__\" begin end"
		}
		gp, e0 := engine.NewGenginePool(1, 2, 1, base, map[string]interface{}{})
		if e0 != nil {
			add(cEntryObs{Entry: entry, Panic: "base does not compile: " + e0.Error()})
			continue
		}
		if c.Base == "" {
			gp.ClearPoolRules()
		}
		if c.Mid != "" {
			if e := gp.UpdatePooledRulesIncremental(c.Mid); e != nil {
				add(cEntryObs{Entry: entry, Panic: "mid does not compile: " + e.Error()})
				continue
			}
		}
		if c.Reclear {
			gp.ClearPoolRules()
		}
		if len(c.Rm) > 0 {
			if e, p := guard(func() error { return gp.RemoveRules(c.Rm) }); e != nil || p != "" {
				add(cEntryObs{Entry: entry, Panic: "removal failed: " + short(e) + p})
				continue
			}
		}
		o := cEntryObs{Entry: entry, IndexOK: true}
		o.Before = poolRules(gp)
		e, p := guard(func() error {
			if entry == "pool-full-update" {
				return gp.UpdatePooledRules(c.Text)
			}
			return gp.UpdatePooledRulesIncremental(c.Text)
		})
		o.Err, o.ErrMsg, o.Panic = e != nil, short(e), p
		o.After = poolRules(gp)
		o.Trees = poolTrees(gp)
		add(o)
	}
	return obs
}

func init() {
	register("compile", func(raw []byte) (interface{}, error) {
		var cases []cCase
		if err := json.Unmarshal(raw, &cases); err != nil {
			return nil, err
		}
		out := make([]cObs, len(cases))
		for i := range cases {
			out[i] = runCompileCase(&cases[i])
		}
		return out, nil
	})
}
