package main

import (
	"encoding/json"
	"fmt"
	"reflect"
	"sort"
	"strings"
	"sync"
	"time"
	"unsafe"

	"github.com/bilibili/gengine/engine"
)

// ---- pool campaigns (C06 C07 C16 C17; pool halves of C10 C11 C15) ----
//
// A scenario is a script: start requests (optionally held at a gate inside one of their
// rules), release them, run management operations, take snapshots. Rules are probe rules:
//   P.Enter(Req.Id, "<rule>")  P.Hold(Req.Id, "<rule>")  P.Do(Req.Id, "<rule>")
//   [loc = P.Do(..)  tmp = P.Pick(loc, P.MidV(Req.Id,"<rule>"))  Req.Out = loc + tmp - Req.Id]  P.Exit(Req.Id, "<rule>")  [fail|panic]  return <ver>*1000000 + Req.Id
// P is injected through the pool's api map (shared), Req through the request's own data.

type pRule struct {
	Name string `json:"name"`
	Sal  int64  `json:"sal"`
	Desc string `json:"desc"`
	Kind string `json:"kind"` // ret | plain | fail | panic | cond | stop
	Ver  int64  `json:"ver"`
}

func pRuleText(r pRule) string {
	var sb strings.Builder
	fmt.Fprintf(&sb, "rule \"%s\" \"%s\" salience %d begin\n", r.Name, r.Desc, r.Sal)
	// the gate sits INSIDE the evaluation of an argument list (HoldV is the second argument of Do): a request held there has
	// evaluated `Req.Id` already, so anything shared between requests at this call site would hand Do another request's id
	fmt.Fprintf(&sb, "  P.Enter(Req.Id, \"%s\")\n  loc = P.Do(Req.Id, P.HoldV(Req.Id, \"%s\"))\n", r.Name, r.Name)
	// the second gate sits in an argument list too, AFTER the local has been evaluated as the first argument: the value the call
	// receives must be this execution's local, whatever other executions of the same rule evaluate meanwhile; Req.Out is loc iff
	// both the value passed (tmp) and the value read back afterwards (loc) are the request's own
	fmt.Fprintf(&sb, "  tmp = P.Pick(loc, P.MidV(Req.Id, \"%s\"))\n  Req.Out = loc + tmp - Req.Id\n", r.Name)
	fmt.Fprintf(&sb, "  P.Exit(Req.Id, \"%s\")\n", r.Name)
	switch r.Kind {
	case "fail":
		sb.WriteString("  zz = undefined_name_q\n")
	case "panic":
		sb.WriteString("  if 5 {\n    zz = 1\n  }\n")
	case "ret":
		fmt.Fprintf(&sb, "  return %d + Req.Id\n", r.Ver*1000000)
	case "stop": // sets the stop tag the request passed (data key "stag": the same object the wrapper receives), then returns
		fmt.Fprintf(&sb, "  stag.StopTag = true\n  return %d + Req.Id\n", r.Ver*1000000)
	case "cond": // returns only for requests that ask for it: some requests get an EMPTY result map
		fmt.Fprintf(&sb, "  if Req.Flag {\n    return %d + Req.Id\n  }\n", r.Ver*1000000)
	}
	sb.WriteString("end\n")
	return sb.String()
}

func pRulesText(rs []pRule) string {
	var sb strings.Builder
	for _, r := range rs {
		sb.WriteString(pRuleText(r))
	}
	return sb.String()
}

type ReqObj struct {
	Id   int64
	Out  int64
	Flag bool
}

type pEvent struct {
	Seq  int    `json:"seq"`
	Kind string `json:"kind"` // enter mid exit | req-begin req-end | op-begin op-end
	Req  int64  `json:"req"`
	Rule string `json:"rule,omitempty"`
}

type probe struct {
	mu      sync.Mutex
	events  []pEvent
	holds   map[string]chan struct{} // "req/rule" -> release channel
	reached map[string]chan struct{}
	closed  map[string]bool
	actions map[string]func()
	inside  int
	maxIn   int
	quiet   bool // burst rounds: thousands of requests whose events are not recorded (only the pool's bookkeeping is of interest)
}

func (p *probe) rec(kind string, req int64, rule string) {
	p.mu.Lock()
	if p.quiet {
		p.mu.Unlock()
		return
	}
	p.events = append(p.events, pEvent{Seq: len(p.events), Kind: kind, Req: req, Rule: rule})
	p.mu.Unlock()
}
func (p *probe) Enter(req int64, rule string) {
	p.mu.Lock()
	p.inside++
	if p.inside > p.maxIn {
		p.maxIn = p.inside
	}
	if !p.quiet {
		p.events = append(p.events, pEvent{Seq: len(p.events), Kind: "enter", Req: req, Rule: rule})
	}
	p.mu.Unlock()
}
func (p *probe) Mid(req int64, rule string) {
	p.rec("mid", req, rule)
	p.Hold(req, rule+"@mid") // a second gate between the write and the read of the rule's local (C15)
}
func (p *probe) Exit(req int64, rule string) {
	p.mu.Lock()
	p.inside--
	if !p.quiet {
		p.events = append(p.events, pEvent{Seq: len(p.events), Kind: "exit", Req: req, Rule: rule})
	}
	p.mu.Unlock()
}
func (p *probe) Hold(req int64, rule string) {
	k := fmt.Sprintf("%d/%s", req, rule)
	p.mu.Lock()
	rel, ok := p.holds[k]
	if !ok { // "<req>/*": hold at whichever rule the request enters first
		k = fmt.Sprintf("%d/*", req)
		rel, ok = p.holds[k]
	}
	rch := p.reached[k]
	if ok && rch != nil && !p.closed[k] { // several rules of one request may arrive here at the same time (concurrent models)
		p.closed[k] = true
		close(rch)
	}
	p.mu.Unlock()
	if !ok {
		return
	}
	select {
	case <-rel:
	case <-time.After(8 * time.Second):
	}
}
func (p *probe) Do(req int64, rule string) int64 {
	k := fmt.Sprintf("%d/%s", req, rule)
	p.mu.Lock()
	f := p.actions[k]
	delete(p.actions, k)
	p.mu.Unlock()
	if f != nil {
		f()
	}
	return req
}

// MidV is Mid as a value, Pick hands its first argument back
func (p *probe) MidV(req int64, rule string) string {
	p.Mid(req, rule)
	return rule
}
func (p *probe) Pick(v int64, _ string) int64 { return v }

// HoldV is Hold as a value: usable as an argument, so that the gate is reached in the middle of an argument list.
func (p *probe) HoldV(req int64, rule string) string {
	p.Hold(req, rule)
	return rule
}

type pStep struct {
	Op       string     `json:"op"` // req | release | wait | update | incr | remove | clear | setmodel | snapshot | sleep
	ID       int64      `json:"id"`
	Method   string     `json:"method"`
	HoldAt   string     `json:"hold_at"` // rule at which the request is held ("" = not held)
	Names    []string   `json:"names"`
	Layers   [][]string `json:"layers"`
	B        bool       `json:"b"`
	N        int        `json:"n"`
	M        int        `json:"m"`
	Rules    []pRule    `json:"rules"`
	Text     string     `json:"text"`     // raw text instead of Rules (C10)
	BadTail  bool       `json:"bad_tail"` // the text of Rules followed by a rule that does not compile: the whole text must be rejected, nothing of it installed — now or later
	Model    int        `json:"model"`
	Probe    []string   `json:"probe"`     // names for IsExist / salience / desc queries
	Async    bool       `json:"async"`     // run this management operation concurrently with the following steps
	Inside   *pStep     `json:"inside"`    // a management op performed from inside rule HoldAt of this request (P.Do)
	Extra    []string   `json:"extra"`     // extra keys injected with the request (C06)
	Flag     bool       `json:"flag"`      // Req.Flag: rules of kind "cond" return only when it is set
	NilTag   bool       `json:"nil_tag"`   // the *StopTag* wrappers are handed a nil tag: the engine dereferences it and panics INSIDE the pooled call
	RespOnly bool       `json:"resp_only"` // ExecuteRulesWithSpecifiedEM("", nil, "Req", req): no request object, the response slot carries the data
	WaitMs   int        `json:"wait_ms"`
}

type pReqObs struct {
	ID       int64            `json:"id"`
	Err      bool             `json:"err"`
	ErrMsg   string           `json:"errmsg,omitempty"`
	Panic    string           `json:"panic,omitempty"`
	Result   map[string]int64 `json:"result"`
	Nil      []string         `json:"nil_entries"`
	Out      int64            `json:"out"`
	Done     bool             `json:"done"`
	Later    map[string]int64 `json:"result_reread"` // the same map read again at the end of the scenario
	BeginSeq int              `json:"begin_seq"`
	EndSeq   int              `json:"end_seq"`
}

type pInst struct {
	Tag    int64    `json:"tag"`
	KcID   int      `json:"kc_id"` // identity class of the rule container pointer
	Rules  []string `json:"rules"` // "name|salience|desc" sorted as SortRules
	DcKeys []string `json:"dc_keys"`
	ReqIDs []int64  `json:"req_ids"` // ids of the request objects (any key) found in this instance's data context
}

type pSnap struct {
	Step      int      `json:"step"`
	Free      []int64  `json:"free"`
	Addl      []int64  `json:"addl"`
	Clear     bool     `json:"clear"`
	Model     int      `json:"model"`
	MasterNil bool     `json:"master_nil"`
	MasterKc  int      `json:"master_kc"`
	Master    []string `json:"master_rules"`
	Insts     []pInst  `json:"insts"`
	IndexOK   bool     `json:"index_ok"` // master and every instance: index map consistent with the sorted slice
	Exist     []bool   `json:"exist"`
	Number    int      `json:"number"`
	Sal       []int64  `json:"sal"`
	SalErr    []bool   `json:"sal_err"`
	Desc      []string `json:"desc"`
	DescErr   []bool   `json:"desc_err"`
	GetModel  int      `json:"get_model"`
	Panic     string   `json:"panic,omitempty"`
}

type pOpObs struct {
	Step     int    `json:"step"`
	Op       string `json:"op"`
	Err      bool   `json:"err"`
	Panic    string `json:"panic,omitempty"`
	BeginSeq int    `json:"begin_seq"`
	EndSeq   int    `json:"end_seq"`
}

type pScenario struct {
	ID    int     `json:"id"`
	Min   int64   `json:"min"`
	Max   int64   `json:"max"`
	Model int     `json:"model"`
	Rules []pRule `json:"rules"`
	Steps []pStep `json:"steps"`
}

type pObs struct {
	ID     int       `json:"id"`
	NewErr string    `json:"new_err,omitempty"`
	Events []pEvent  `json:"events"`
	Reqs   []pReqObs `json:"reqs"`
	Ops    []pOpObs  `json:"ops"`
	Snaps  []pSnap   `json:"snaps"`
	MaxIn  int       `json:"max_inside"`
	Stuck  []int64   `json:"stuck"` // requests that did not finish
}

func expose(v reflect.Value) reflect.Value {
	if v.CanAddr() {
		return reflect.NewAt(v.Type(), unsafe.Pointer(v.UnsafeAddr())).Elem()
	}
	return v
}

// does SortRulesIndexMap map every rule of SortRules to its position (and nothing else)?
func kcIndexOK(kc reflect.Value) bool {
	if kc.IsNil() {
		return true
	}
	sr := kc.Elem().FieldByName("SortRules")
	im := kc.Elem().FieldByName("SortRulesIndexMap")
	ents := kc.Elem().FieldByName("RuleEntities")
	if im.Len() != sr.Len() || ents.Len() != sr.Len() {
		return false
	}
	for i := 0; i < sr.Len(); i++ {
		v := im.MapIndex(sr.Index(i).Elem().FieldByName("RuleName"))
		if !v.IsValid() || int(v.Int()) != i {
			return false
		}
	}
	return true
}

func kcRules(kc reflect.Value) []string {
	out := []string{}
	if kc.IsNil() {
		return out
	}
	sr := kc.Elem().FieldByName("SortRules")
	for i := 0; i < sr.Len(); i++ {
		r := sr.Index(i).Elem()
		out = append(out, fmt.Sprintf("%s|%d|%s", r.FieldByName("RuleName").String(), r.FieldByName("Salience").Int(), r.FieldByName("RuleDescription").String()))
	}
	return out
}

func snapshot(gp *engine.GenginePool, step int, probeNames []string) (s pSnap) {
	s.Step = step
	defer func() {
		if r := recover(); r != nil {
			s.Panic = fmt.Sprint(r)
		}
	}()
	v := reflect.ValueOf(gp).Elem()
	tags := func(field string) []int64 {
		f := expose(v.FieldByName(field))
		out := []int64{}
		for i := 0; i < f.Len(); i++ {
			out = append(out, expose(f.Index(i).Elem().FieldByName("tag")).Int())
		}
		return out
	}
	s.Free = tags("freeGengines")
	s.Addl = tags("additionGengines")
	s.Clear = expose(v.FieldByName("clear")).Bool()
	s.Model = int(expose(v.FieldByName("execModel")).Int())
	ids := map[uintptr]int{}
	idOf := func(p uintptr) int {
		if id, ok := ids[p]; ok {
			return id
		}
		ids[p] = len(ids)
		return ids[p]
	}
	s.IndexOK = true
	rb := expose(v.FieldByName("ruleBuilder"))
	if rb.IsNil() {
		s.MasterNil = true
		s.Master = []string{}
	} else {
		kc := rb.Elem().FieldByName("Kc")
		s.MasterKc = idOf(kc.Pointer())
		s.Master = kcRules(kc)
		s.IndexOK = s.IndexOK && kcIndexOK(kc)
	}
	rbs := expose(v.FieldByName("rbSlice"))
	for i := 0; i < rbs.Len(); i++ {
		r := rbs.Index(i).Elem()
		kc := r.FieldByName("Kc")
		in := pInst{Tag: int64(i), KcID: idOf(kc.Pointer()), Rules: kcRules(kc), DcKeys: []string{}}
		s.IndexOK = s.IndexOK && kcIndexOK(kc)
		base := expose(r.FieldByName("Dc").Elem().FieldByName("base"))
		in.ReqIDs = []int64{}
		for _, k := range base.MapKeys() {
			in.DcKeys = append(in.DcKeys, k.String())
			func() {
				defer func() { _ = recover() }()
				if rv, ok := base.MapIndex(k).Interface().(reflect.Value); ok && rv.IsValid() && rv.CanInterface() {
					if ro, ok2 := rv.Interface().(*ReqObj); ok2 && ro != nil {
						in.ReqIDs = append(in.ReqIDs, ro.Id)
					}
				}
			}()
		}
		sort.Strings(in.DcKeys)
		s.Insts = append(s.Insts, in)
	}
	s.Exist = gp.IsExist(probeNames)
	if s.Exist == nil {
		s.Exist = []bool{}
	}
	s.Number = gp.GetRulesNumber()
	for _, n := range probeNames {
		x, e := gp.GetRuleSalience(n)
		s.Sal = append(s.Sal, x)
		s.SalErr = append(s.SalErr, e != nil)
		d, e2 := gp.GetRuleDesc(n)
		s.Desc = append(s.Desc, d)
		s.DescErr = append(s.DescErr, e2 != nil)
	}
	s.GetModel = gp.GetExecModel()
	return
}

func callPool(gp *engine.GenginePool, st *pStep, data map[string]interface{}, tag *engine.Stag) (error, map[string]interface{}) {
	switch st.Method {
	case "ExecuteRulesWithSpecifiedEM":
		if st.ID%4 == 0 || st.RespOnly { // no request object at all: the response slot carries the data
			return gp.ExecuteRulesWithSpecifiedEM("", nil, "Req", data["Req"])
		}
		if len(st.Extra) > 0 {
			return gp.ExecuteRulesWithSpecifiedEM("Req", data["Req"], st.Extra[0], data[st.Extra[0]])
		}
		return gp.ExecuteRulesWithSpecifiedEM("Req", data["Req"], "", nil)
	case "ExecuteRulesWithMultiInputWithSpecifiedEM":
		return gp.ExecuteRulesWithMultiInputWithSpecifiedEM(data)
	case "ExecuteSelectedWithSpecifiedEM":
		return gp.ExecuteSelectedWithSpecifiedEM(data, st.Names)
	case "Execute":
		return gp.Execute(data, st.B)
	case "ExecuteWithStopTagDirect":
		return gp.ExecuteWithStopTagDirect(data, st.B, tag)
	case "ExecuteConcurrent":
		return gp.ExecuteConcurrent(data)
	case "ExecuteMixModel":
		return gp.ExecuteMixModel(data)
	case "ExecuteMixModelWithStopTagDirect":
		return gp.ExecuteMixModelWithStopTagDirect(data, tag)
	case "ExecuteSelectedRules":
		return gp.ExecuteSelectedRules(data, st.Names)
	case "ExecuteSelectedRulesWithControl":
		return gp.ExecuteSelectedRulesWithControl(data, st.B, st.Names)
	case "ExecuteSelectedRulesWithControlAsGivenSortedName":
		return gp.ExecuteSelectedRulesWithControlAsGivenSortedName(data, st.B, st.Names)
	case "ExecuteSelectedRulesWithControlAndStopTag":
		return gp.ExecuteSelectedRulesWithControlAndStopTag(data, st.B, tag, st.Names)
	case "ExecuteSelectedRulesWithControlAndStopTagAsGivenSortedName":
		return gp.ExecuteSelectedRulesWithControlAndStopTagAsGivenSortedName(data, st.B, tag, st.Names)
	case "ExecuteSelectedRulesConcurrent":
		return gp.ExecuteSelectedRulesConcurrent(data, st.Names)
	case "ExecuteSelectedRulesMixModel":
		return gp.ExecuteSelectedRulesMixModel(data, st.Names)
	case "ExecuteInverseMixModel":
		return gp.ExecuteInverseMixModel(data)
	case "ExecuteSelectedRulesInverseMixModel":
		return gp.ExecuteSelectedRulesInverseMixModel(data, st.Names)
	case "ExecuteNSortMConcurrent":
		return gp.ExecuteNSortMConcurrent(st.N, st.M, st.B, data)
	case "ExecuteNConcurrentMSort":
		return gp.ExecuteNConcurrentMSort(st.N, st.M, st.B, data)
	case "ExecuteNConcurrentMConcurrent":
		return gp.ExecuteNConcurrentMConcurrent(st.N, st.M, st.B, data)
	case "ExecuteSelectedNSortMConcurrent":
		return gp.ExecuteSelectedNSortMConcurrent(st.N, st.M, st.B, st.Names, data)
	case "ExecuteSelectedNConcurrentMSort":
		return gp.ExecuteSelectedNConcurrentMSort(st.N, st.M, st.B, st.Names, data)
	case "ExecuteSelectedNConcurrentMConcurrent":
		return gp.ExecuteSelectedNConcurrentMConcurrent(st.N, st.M, st.B, st.Names, data)
	case "ExecuteDAGModel":
		return gp.ExecuteDAGModel(st.Layers, data)
	}
	panic("harness: unknown pool method " + st.Method)
}

func mgmt(gp *engine.GenginePool, st *pStep) (err error, pan string) {
	defer func() {
		if r := recover(); r != nil {
			pan = fmt.Sprint(r)
		}
	}()
	text := st.Text
	if text == "" {
		text = pRulesText(st.Rules)
	}
	if st.BadTail {
		text += "rule \"zz_broken\" \"never\" salience 1 begin\n  x = ( 1 +\nend\n"
	}
	switch st.Op {
	case "update":
		err = gp.UpdatePooledRules(text)
	case "incr":
		err = gp.UpdatePooledRulesIncremental(text)
	case "remove":
		err = gp.RemoveRules(st.Names)
	case "churn": // removals of names that do not exist, back to back for WaitMs milliseconds: the write locks are taken again and again
		until := time.Now().Add(time.Duration(st.WaitMs) * time.Millisecond)
		for time.Now().Before(until) {
			_ = gp.RemoveRules(st.Names)
		}
	case "clear":
		gp.ClearPoolRules()
	case "setmodel":
		err = gp.SetExecModel(st.Model)
	}
	return
}

func runPoolScenario(sc *pScenario) pObs {
	obs := pObs{ID: sc.ID, Events: []pEvent{}, Reqs: []pReqObs{}, Ops: []pOpObs{}, Snaps: []pSnap{}, Stuck: []int64{}}
	var asyncOps sync.WaitGroup
	pr := &probe{holds: map[string]chan struct{}{}, reached: map[string]chan struct{}{}, closed: map[string]bool{}, actions: map[string]func(){}}
	// "Tn": a second api every instance is built with; some requests inject their own object under the same name (C06)
	apis := map[string]interface{}{"P": pr, "Tn": &struct{ Note string }{"pool api"}}
	gp, err := engine.NewGenginePool(sc.Min, sc.Max, sc.Model, pRulesText(sc.Rules), apis)
	if err != nil {
		obs.NewErr = err.Error()
		return obs
	}
	type live struct {
		done  chan struct{}
		obs   *pReqObs
		raw   map[string]interface{}
		holdK string
	}
	lives := map[int64]*live{}
	var lmu sync.Mutex
	seqNow := func() int { pr.mu.Lock(); defer pr.mu.Unlock(); return len(pr.events) }
	conv := func(m map[string]interface{}, ro *pReqObs, into *map[string]int64) {
		*into = map[string]int64{}
		for k, v := range m {
			if iv, ok := v.(int64); ok {
				(*into)[k] = iv
			} else if v == nil {
				if ro != nil {
					ro.Nil = append(ro.Nil, k)
				}
			} else {
				(*into)[k] = -1
			}
		}
	}
	quiet := func(ms int) { time.Sleep(time.Duration(ms) * time.Millisecond) }
	for i := range sc.Steps {
		st := &sc.Steps[i]
		switch st.Op {
		case "req":
			ro := &pReqObs{ID: st.ID, Result: map[string]int64{}, Nil: []string{}}
			lv := &live{done: make(chan struct{}), obs: ro}
			if st.HoldAt != "" {
				lv.holdK = fmt.Sprintf("%d/%s", st.ID, st.HoldAt)
				pr.mu.Lock()
				pr.holds[lv.holdK] = make(chan struct{})
				pr.reached[lv.holdK] = make(chan struct{})
				pr.mu.Unlock()
			}
			if st.Inside != nil {
				in := st.Inside
				k := fmt.Sprintf("%d/%s", st.ID, in.HoldAt)
				stepNo := i
				pr.mu.Lock()
				pr.actions[k] = func() {
					oo := pOpObs{Step: stepNo, Op: "inside-" + in.Op, BeginSeq: seqNow()}
					e, p := mgmt(gp, in)
					oo.Err, oo.Panic, oo.EndSeq = e != nil, p, seqNow()
					lmu.Lock()
					obs.Ops = append(obs.Ops, oo)
					lmu.Unlock()
				}
				pr.mu.Unlock()
			}
			lmu.Lock()
			lives[st.ID] = lv
			lmu.Unlock()
			req := &ReqObj{Id: st.ID, Flag: st.Flag}
			data := map[string]interface{}{"Req": req}
			for _, k := range st.Extra {
				data[k] = &ReqObj{Id: st.ID}
			}
			// entries the pool must skip when injecting (nil value, empty name) — and must still clean up around
			if st.ID%3 == 0 {
				data["opt"] = nil
			}
			if st.ID%5 == 0 {
				data[""] = &ReqObj{Id: st.ID}
			}
			tag := &engine.Stag{}
			data["stag"] = tag // rules of kind "stop" set it; only the *StopTag* wrappers look at it
			if st.NilTag {
				tag = nil
			}
			stc := *st
			go func() {
				defer close(lv.done)
				defer func() {
					if r := recover(); r != nil {
						ro.Panic = fmt.Sprint(r)
					}
				}()
				ro.BeginSeq = seqNow()
				pr.rec("req-begin", stc.ID, "")
				e, m := callPool(gp, &stc, data, tag)
				pr.rec("req-end", stc.ID, "")
				ro.EndSeq = seqNow()
				if e != nil {
					ro.Err = true
					ro.ErrMsg = e.Error()
					if len(ro.ErrMsg) > 200 {
						ro.ErrMsg = ro.ErrMsg[:200]
					}
				}
				lv.raw = m
				conv(m, ro, &ro.Result)
				ro.Out = req.Out
				ro.Done = true
			}()
			if lv.holdK != "" {
				pr.mu.Lock()
				rch := pr.reached[lv.holdK]
				pr.mu.Unlock()
				select {
				case <-rch:
				case <-lv.done:
				case <-time.After(time.Duration(300+st.WaitMs) * time.Millisecond):
					// not reached: the request is queued behind busy instances (or does not run that rule)
				}
			} else if st.WaitMs >= 0 {
				select {
				case <-lv.done:
				case <-time.After(time.Duration(3000+st.WaitMs) * time.Millisecond):
				}
			}
		case "burst":
			// st.N rounds; in each, st.M requests are started, every one is held inside its first rule until ALL of them are there,
			// then all gates open at once: the requests finish — and hand their instances back — at the same instant.  Nothing is
			// recorded; the snapshot that follows shows whether every instance came back.
			pr.mu.Lock()
			pr.quiet = true
			pr.mu.Unlock()
			base := st.ID
			for round := 0; round < st.N && len(obs.Stuck) == 0; round++ {
				var wg sync.WaitGroup
				keys := make([]string, st.M)
				for j := 0; j < st.M; j++ {
					id := base + int64(round*st.M+j)
					k := fmt.Sprintf("%d/*", id)
					keys[j] = k
					pr.mu.Lock()
					pr.holds[k] = make(chan struct{})
					pr.reached[k] = make(chan struct{})
					pr.mu.Unlock()
					wg.Add(1)
					go func(id int64) {
						defer wg.Done()
						defer func() { _ = recover() }()
						gp.Execute(map[string]interface{}{"Req": &ReqObj{Id: id, Flag: true}}, true)
					}(id)
				}
				ok := true
				for _, k := range keys {
					pr.mu.Lock()
					rch := pr.reached[k]
					pr.mu.Unlock()
					select {
					case <-rch:
					case <-time.After(5 * time.Second):
						ok = false // fewer than st.M requests can be inside a rule together: an instance is missing
					}
				}
				pr.mu.Lock()
				for _, k := range keys {
					close(pr.holds[k])
					delete(pr.holds, k)
					delete(pr.reached, k)
					delete(pr.closed, k)
				}
				pr.mu.Unlock()
				wg.Wait()
				if !ok {
					obs.Stuck = append(obs.Stuck, base+int64(round))
				}
			}
			pr.mu.Lock()
			pr.quiet = false
			pr.mu.Unlock()
		case "release", "wait":
			lmu.Lock()
			lv := lives[st.ID]
			lmu.Unlock()
			if lv == nil {
				continue
			}
			if st.Op == "release" && lv.holdK != "" {
				pr.mu.Lock()
				ch := pr.holds[lv.holdK]
				delete(pr.holds, lv.holdK)
				pr.mu.Unlock()
				if ch != nil {
					close(ch)
				}
			}
			if st.WaitMs >= 0 {
				select {
				case <-lv.done:
				case <-time.After(6 * time.Second):
					if st.Op == "wait" { // the script says this request can finish NOW (an instance was handed back): it did not
						obs.Stuck = append(obs.Stuck, st.ID)
					}
				}
			}
		case "update", "incr", "remove", "clear", "setmodel", "churn":
			do := func(i int, st *pStep) {
				oo := pOpObs{Step: i, Op: st.Op, BeginSeq: seqNow()}
				e, p := mgmt(gp, st)
				oo.Err, oo.Panic, oo.EndSeq = e != nil, p, seqNow()
				lmu.Lock()
				obs.Ops = append(obs.Ops, oo)
				lmu.Unlock()
			}
			if st.Async { // a management call running concurrently with the following steps (it holds the pool's write locks meanwhile)
				asyncOps.Add(1)
				stc := *st
				go func(i int) { defer asyncOps.Done(); do(i, &stc) }(i)
				time.Sleep(2 * time.Millisecond)
			} else {
				do(i, st)
			}
		case "snapshot":
			quiet(15 + st.WaitMs) // let the asynchronous puts land
			sn := snapshot(gp, i, st.Probe)
			// an instance is handed back by a goroutine started when the call returns: under load that goroutine may not have
			// run yet.  Wait (up to 3 s) until free + additional + requests still in flight accounts for every instance; if it
			// never does, the snapshot is reported as it is (an instance really is lost).
			for tries := 0; tries < 600 && sn.Panic == ""; tries++ {
				entered := map[int64]bool{} // requests that have started a rule: they hold an instance (a waiter does not)
				pr.mu.Lock()
				for _, e := range pr.events {
					if e.Kind == "enter" {
						entered[e.Req] = true
					}
				}
				pr.mu.Unlock()
				inflight := 0
				lmu.Lock()
				for id, lv := range lives {
					select {
					case <-lv.done:
					default:
						if entered[id] {
							inflight++
						}
					}
				}
				lmu.Unlock()
				if len(sn.Free)+len(sn.Addl)+inflight >= int(sc.Max) {
					break
				}
				time.Sleep(5 * time.Millisecond)
				sn = snapshot(gp, i, st.Probe)
			}
			obs.Snaps = append(obs.Snaps, sn)
		case "sleep":
			quiet(st.WaitMs)
		}
	}
	asyncOps.Wait()
	// release everything still held, wait for stragglers
	pr.mu.Lock()
	for k, ch := range pr.holds {
		close(ch)
		delete(pr.holds, k)
	}
	pr.mu.Unlock()
	ids := []int64{}
	for id := range lives {
		ids = append(ids, id)
	}
	sort.Slice(ids, func(i, j int) bool { return ids[i] < ids[j] })
	for _, id := range ids {
		lv := lives[id]
		select {
		case <-lv.done:
		case <-time.After(5 * time.Second):
			obs.Stuck = append(obs.Stuck, id)
		}
	}
	time.Sleep(10 * time.Millisecond)
	for _, id := range ids {
		lv := lives[id]
		if lv.obs.Done {
			conv(lv.raw, nil, &lv.obs.Later)
		}
		obs.Reqs = append(obs.Reqs, *lv.obs)
	}
	pr.mu.Lock()
	obs.Events = append(obs.Events, pr.events...)
	obs.MaxIn = pr.maxIn
	pr.mu.Unlock()
	sort.Slice(obs.Ops, func(i, j int) bool { return obs.Ops[i].BeginSeq < obs.Ops[j].BeginSeq })
	return obs
}

func init() {
	register("pool", func(raw []byte) (interface{}, error) {
		var scs []pScenario
		if err := json.Unmarshal(raw, &scs); err != nil {
			return nil, err
		}
		out := make([]pObs, len(scs))
		var wg sync.WaitGroup
		sem := make(chan struct{}, 8)
		for i := range scs {
			wg.Add(1)
			sem <- struct{}{}
			go func(i int) {
				defer wg.Done()
				defer func() { <-sem }()
				out[i] = runPoolScenario(&scs[i])
			}(i)
		}
		wg.Wait()
		return out, nil
	})
}
