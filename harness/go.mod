module verifharness

go 1.13

require github.com/bilibili/gengine v0.0.0

replace github.com/bilibili/gengine => /repo
