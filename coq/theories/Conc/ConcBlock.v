(* Conc/ConcBlock.v — containment of faults (C09) and the conc block (C18):
   - the recover points: a rule executed with its entry recover, an assignment and a call
     never let a panic out;
   - [conc_run] runs every child exactly once, whatever the others do, and fails after
     all of them iff one of them failed ([conc_fold], [conc_run_spec]);
   - trace level: in every interleaving of the children each child has started and ended
     before the statement after the block starts;
   - the effects of commuting children do not depend on the order they are run in. *)
From Coq Require Import Ascii String List ZArith Bool Lia ZifyBool Permutation.
From GV Require Import Lang.Value Lang.Syntax Lang.Store Lang.Sem Lang.SemFacts.
From GV Require Import Engine.Trace Engine.TraceFacts.
Import ListNotations.

(* ================================================================== *)
(* trace level: independent of the float operations                   *)
(* ================================================================== *)

Inductive cev := CStart (i : nat) | CEnd (i : nat) | After.
Definition child_evs (i : nat) : list cev := [CStart i; CEnd i].

(* the traces of a conc block with n children followed by the next statement: any
   interleaving of the children's start/end pairs, then [After] (WaitGroup.Wait returned) *)
Definition conc_traces (n : nat) (t : list cev) : Prop :=
  exists t1, t = t1 ++ [After] /\ Interleave (map child_evs (seq 0 n)) t1.

Lemma subseq_app : forall A (a b t u : list A), Subseq a t -> Subseq b u -> Subseq (a ++ b) (t ++ u).
Proof.
  intros A a b t u H. revert b u. induction H; intros b u Hb; cbn.
  - exact Hb.
  - apply Sub_skip. apply IHSubseq, Hb.
  - apply Sub_take. apply IHSubseq, Hb.
Qed.

Lemma subseq_refl : forall A (l : list A), Subseq l l.
Proof. induction l; constructor; assumption. Qed.

Lemma conc_join_before_next : forall n t,
  conc_traces n t -> forall i, (i < n)%nat -> Subseq [CStart i; CEnd i; After] t.
Proof.
  intros n t (t1 & -> & Hi) i Hlt.
  apply interleave_subseq in Hi. rewrite Forall_forall in Hi.
  assert (Hs : Subseq (child_evs i) t1).
  { apply Hi. apply in_map. apply in_seq. lia. }
  change [CStart i; CEnd i; After] with (child_evs i ++ [After]).
  apply subseq_app; [exact Hs | apply subseq_refl].
Qed.

Lemma conc_each_child_once : forall n t,
  conc_traces n t -> Permutation t (concat (map child_evs (seq 0 n)) ++ [After]).
Proof.
  intros n t (t1 & -> & Hi). apply Permutation_app_tail. apply interleave_perm, Hi.
Qed.

Lemma conc_traces_exist : forall n, exists t, conc_traces n t.
Proof.
  intros n. exists (concat (map child_evs (seq 0 n)) ++ [After]).
  eexists. split; [reflexivity | apply interleave_concat].
Qed.

(* the events of a trace are exactly: one start and one end per child, one After *)
Lemma conc_trace_length : forall n t, conc_traces n t -> length t = (2 * n + 1)%nat.
Proof.
  intros n t H. apply conc_each_child_once in H. apply Permutation_length in H. rewrite H.
  rewrite app_length. cbn [length].
  assert (L : forall k s, length (concat (map child_evs (seq s k))) = (2 * k)%nat).
  { induction k as [|k IH]; intros s; [reflexivity|]. cbn [seq map concat]. rewrite app_length, IH. cbn. lia. }
  rewrite L. lia.
Qed.

Definition is_ok {A} (r : res A) : bool := match r with Ok _ => true | _ => false end.

Section ConcBlock.
  Variable fo : float_ops.
  Variable meta : rule_meta.
  Variable real_of : Z -> Z -> fl fo.
  Notation value := (value fo).
  Notation env := (env fo).
  Notation flow := (flow fo).
  Notation St := (Sem.S fo).
  Notation eval_call := (eval_call fo meta real_of).
  Notation eval_expr := (eval_expr fo meta real_of).
  Notation exec_assign := (exec_assign fo meta real_of).
  Notation on_cond := (on_cond fo meta real_of).
  Notation for_loop := (for_loop fo meta real_of).
  Notation conc_child := (conc_child fo meta real_of).
  Notation conc_run := (conc_run fo meta real_of).
  Notation exec_stmt := (exec_stmt fo meta real_of).
  Notation exec_block := (exec_block fo meta real_of).
  Notation exec_rule := (exec_rule fo meta real_of).

  (* ================= C09: containment ================= *)

  Lemma rule_never_panics : forall body inj tr, fst (exec_rule true body inj tr) <> RRPanic.
  Proof.
    intros body inj tr. unfold Sem.exec_rule.
    destruct (exec_block body (mkEnv inj [] tr)) as [[ | v | | | cs | ] e]; cbn; discriminate.
  Qed.

  (* the body [if 5 { }]: reflect's Bool() on an int64 panics *)
  Definition if5_body (p : pos) : block :=
    Block (SCons (SIf (EMath p (MAtom p (AConst (KInt 5)))) (Block SNil None) ENil None) SNil) None.

  Lemma uncontained_can_panic : forall p inj tr, fst (exec_rule false (if5_body p) inj tr) = RRPanic.
  Proof. reflexivity. Qed.
  Lemma contained_same_body_is_error : forall p inj tr, fst (exec_rule true (if5_body p) inj tr) = RRError [].
  Proof. reflexivity. Qed.

  Lemma evaluation_is_total : forall c body inj tr, exists r e, exec_rule c body inj tr = (r, e).
  Proof. intros. destruct (exec_rule c body inj tr) as [r e]. eauto. Qed.

  Lemma for_loop_cut_off : forall c step body e, for_loop c step body O e = (Failed [], e).
  Proof. reflexivity. Qed.

  (* one unfolding = at most one evaluation of the condition, one execution of the body and
     one of the step, then the loop with one unit of fuel less *)
  Lemma for_loop_step : forall c step body fuel e,
    for_loop c step body (Datatypes.S fuel) e =
    on_cond c (fun b =>
      if b then
        fun e => match body e with
                 | (Normal, e') | (Cont, e') =>
                   (match exec_assign step e' with
                    | (Ok _, e'') => for_loop c step body fuel e''
                    | (Err cs, e'') => (Failed cs, e'')
                    | (Panic, e'') => (Panicked, e'')
                    end)
                 | (Brk, e') => (Normal, e')
                 | other => other
                 end
      else fun e => (Normal, e)) e.
  Proof. reflexivity. Qed.

  (* number of condition evaluations performed by [for_loop ... fuel e] (same recursion) *)
  Fixpoint for_iters (c : expr) (step : assignment) (body : St) (fuel : nat) (e : env) {struct fuel} : nat :=
    match fuel with
    | O => O
    | Datatypes.S fuel' =>
      match mbind fo (eval_expr c) (fun v => lift fo (as_bool fo v)) e with
      | (Ok true, e1) =>
        match body e1 with
        | (Normal, e2) | (Cont, e2) =>
          match exec_assign step e2 with
          | (Ok _, e3) => Datatypes.S (for_iters c step body fuel' e3)
          | _ => 1%nat
          end
        | _ => 1%nat
        end
      | _ => 1%nat
      end
    end.

  Lemma for_iters_le_fuel : forall c step body fuel e, (for_iters c step body fuel e <= fuel)%nat.
  Proof.
    intros c step body. induction fuel as [|fuel IH]; intros e; cbn [for_iters]; [lia|].
    destruct (mbind fo (eval_expr c) (fun v => lift fo (as_bool fo v)) e) as [[[|]|cs|] e1]; try lia.
    destruct (body e1) as [[ | v | | | cs | ] e2]; try lia;
      (destruct (exec_assign step e2) as [[u|cs|] e3]; [specialize (IH e3)|..]; lia).
  Qed.

  (* the statement: at most maxExecuteNum condition evaluations *)
  Lemma for_stmt_bounded : forall c step body e,
    (Z.of_nat (for_iters c step body max_execute_num e) <= 10000)%Z.
  Proof.
    intros. pose proof (for_iters_le_fuel c step body max_execute_num e) as H.
    remember (for_iters c step body max_execute_num e) as k. clear Heqk.
    unfold max_execute_num in H. lia.
  Qed.

  Lemma mrecover_no_panic : forall A p (m : M fo A) e, fst (mrecover fo p m e) <> Panic.
  Proof. intros A p m e. unfold mrecover. destruct (m e) as [[a|c|] e1]; cbn; discriminate. Qed.

  Lemma exec_assign_no_panic : forall a e, fst (exec_assign a e) <> Panic.
  Proof. intros a e. unfold Sem.exec_assign. apply mrecover_no_panic. Qed.

  Lemma eval_call_no_panic : forall c e, fst (eval_call c e) <> Panic.
  Proof. intros [k p name a] e. rewrite eval_call_eq. apply mrecover_no_panic. Qed.

  Lemma conc_child_no_panic : forall c e, fst (conc_child c e) <> Panic.
  Proof.
    intros [a|cl] e; cbn [Sem.conc_child].
    - apply exec_assign_no_panic.
    - generalize (eval_call_no_panic cl e). unfold mbind.
      destruct (eval_call cl e) as [[v|c|] e1]; cbn; congruence.
  Qed.

  (* ================= C18: every child runs, the block fails afterwards ================= *)

  (* any-failed flag, concatenated cites, final environment *)
  Fixpoint conc_fold (cs : list cchild) (e : env) : bool * list pos * env :=
    match cs with
    | [] => (false, [], e)
    | c :: rest =>
      let '(r, e1) := conc_child c e in
      let '(f, cites, e2) := conc_fold rest e1 in
      (negb (is_ok r) || f, match r with Err c' => c' ++ cites | _ => cites end, e2)
    end.

  Lemma conc_run_spec : forall cs failed acc e,
    conc_run cs failed acc e =
    (let '(f, cites, e') := conc_fold cs e in
     (if failed || f then Failed (acc ++ cites) else Normal, e')).
  Proof.
    induction cs as [|c rest IH]; intros failed acc e.
    - cbn [Sem.conc_run conc_fold]. rewrite orb_false_r, app_nil_r. reflexivity.
    - cbn [Sem.conc_run conc_fold].
      destruct (conc_child c e) as [[u|c'|] e1]; rewrite IH;
        destruct (conc_fold rest e1) as [[f cites] e2]; cbn [is_ok negb orb].
      + reflexivity.
      + rewrite orb_true_r. cbn [orb]. rewrite app_assoc. reflexivity.
      + rewrite orb_true_r. reflexivity.
  Qed.

  Definition run_env (cs : list cchild) (e : env) : env :=
    fold_left (fun e c => snd (conc_child c e)) cs e.

  Lemma conc_fold_env : forall cs e, snd (conc_fold cs e) = run_env cs e.
  Proof.
    induction cs as [|c rest IH]; intros e; [reflexivity|].
    cbn [conc_fold run_env fold_left]. specialize (IH (snd (conc_child c e))).
    destruct (conc_child c e) as [r e1]. cbn [snd] in *.
    destruct (conc_fold rest e1) as [[f cites] e2]. exact IH.
  Qed.

  Lemma every_child_runs_once : forall cs failed acc e,
    snd (conc_run cs failed acc e) = fold_left (fun e c => snd (conc_child c e)) cs e.
  Proof.
    intros. rewrite conc_run_spec. pose proof (conc_fold_env cs e) as H. unfold run_env in H.
    rewrite <- H. clear H. destruct (conc_fold cs e) as [[f cites] e2]. reflexivity.
  Qed.

  (* the flag of [conc_fold]: some child, run in the environment the previous ones left, failed *)
  Lemma conc_fold_flag : forall cs e,
    fst (fst (conc_fold cs e)) = true <->
    exists pre c post, cs = pre ++ c :: post /\ is_ok (fst (conc_child c (run_env pre e))) = false.
  Proof.
    induction cs as [|c rest IH]; intros e.
    - cbn. split; [discriminate|]. intros (pre & c & post & H & _). destruct pre; discriminate.
    - cbn [conc_fold]. specialize (IH (snd (conc_child c e))).
      destruct (conc_child c e) as [r e1] eqn:E. cbn [snd] in IH.
      destruct (conc_fold rest e1) as [[f cites] e2]. cbn [fst] in *.
      split.
      + intros H. apply orb_true_iff in H. destruct H as [H|H].
        * exists [], c, rest. split; [reflexivity|]. cbn [run_env fold_left]. rewrite E. cbn [fst].
          destruct (is_ok r); [discriminate|reflexivity].
        * apply IH in H. destruct H as (pre & c0 & post & -> & H).
          exists (c :: pre), c0, post. split; [reflexivity|].
          cbn [run_env fold_left]. rewrite E. exact H.
      + intros (pre & c0 & post & Hcs & H). apply orb_true_iff. destruct pre as [|x pre].
        * cbn in Hcs. injection Hcs as <- <-. cbn [run_env fold_left] in H. rewrite E in H. cbn [fst] in H.
          left. rewrite H. reflexivity.
        * cbn in Hcs. injection Hcs as <- ->. right. apply IH.
          exists pre, c0, post. split; [reflexivity|].
          cbn [run_env fold_left] in H. rewrite E in H. exact H.
  Qed.

  Lemma block_fails_iff_a_child_failed : forall cs e,
    (exists cites, fst (conc_run cs false [] e) = Failed cites) <->
    exists pre c post, cs = pre ++ c :: post /\ is_ok (fst (conc_child c (run_env pre e))) = false.
  Proof.
    intros cs e. rewrite <- conc_fold_flag. rewrite conc_run_spec.
    destruct (conc_fold cs e) as [[f cites] e2]. cbn [orb fst app].
    destruct f; split.
    - reflexivity.
    - intros _. eexists. reflexivity.
    - intros [c H]. discriminate.
    - discriminate.
  Qed.

  (* otherwise it ends normally: the two outcomes are the only ones *)
  Lemma block_outcome : forall cs e,
    fst (conc_run cs false [] e) = Normal \/ exists cites, fst (conc_run cs false [] e) = Failed cites.
  Proof.
    intros cs e. rewrite conc_run_spec. destruct (conc_fold cs e) as [[f cites] e2]. cbn [orb fst].
    destruct f; [right; eexists; reflexivity | left; reflexivity].
  Qed.

  Lemma conc_never_panics : forall cs failed acc e, fst (conc_run cs failed acc e) <> Panicked.
  Proof.
    intros. rewrite conc_run_spec. destruct (conc_fold cs e) as [[f cites] e2].
    destruct (failed || f); cbn; discriminate.
  Qed.

  (* the statement form *)
  Lemma conc_stmt_spec : forall cs e,
    exec_stmt (SConc cs) e =
    (let '(f, cites, e') := conc_fold cs e in (if f then Failed cites else Normal, e')).
  Proof. intros. rewrite exec_stmt_conc, conc_run_spec. reflexivity. Qed.

  (* ================= C18: order independence for commuting children ================= *)
  Definition run1 (c : cchild) (e : env) : res unit * env := conc_child c e.

  Fixpoint any_failed (cs : list cchild) (e : env) : bool :=
    match cs with
    | [] => false
    | c :: rest => negb (is_ok (fst (run1 c e))) || any_failed rest (snd (run1 c e))
    end.

  Lemma conc_fold_any_failed : forall cs e, fst (fst (conc_fold cs e)) = any_failed cs e.
  Proof.
    induction cs as [|c rest IH]; intros e; [reflexivity|].
    cbn [conc_fold any_failed]. unfold run1. specialize (IH (snd (conc_child c e))).
    destruct (conc_child c e) as [r e1]. cbn [fst snd] in *.
    destruct (conc_fold rest e1) as [[f cites] e2]. cbn [fst] in *. rewrite IH. reflexivity.
  Qed.

  Lemma run_env_cons : forall c cs e, run_env (c :: cs) e = run_env cs (snd (run1 c e)).
  Proof. reflexivity. Qed.

  Section Order.
    (* any partial equivalence on environments (it may carry an invariant) *)
    Variable R : env -> env -> Prop.
    Hypothesis Rsym : forall a b, R a b -> R b a.
    Hypothesis Rtrans : forall a b c, R a b -> R b c -> R a c.

    Definition respects (cs : list cchild) : Prop :=
      forall c, In c cs -> forall e e', R e e' ->
        is_ok (fst (run1 c e)) = is_ok (fst (run1 c e')) /\ R (snd (run1 c e)) (snd (run1 c e')).

    Definition commute (cs : list cchild) : Prop :=
      forall c1 c2, In c1 cs -> In c2 cs -> forall e, R e e ->
        R (snd (run1 c2 (snd (run1 c1 e)))) (snd (run1 c1 (snd (run1 c2 e)))) /\
        is_ok (fst (run1 c1 e)) = is_ok (fst (run1 c1 (snd (run1 c2 e)))) /\
        is_ok (fst (run1 c2 e)) = is_ok (fst (run1 c2 (snd (run1 c1 e)))).

    Lemma respects_incl : forall cs cs', (forall c, In c cs' -> In c cs) -> respects cs -> respects cs'.
    Proof. intros cs cs' Hi H c Hc. apply H, Hi, Hc. Qed.
    Lemma commute_incl : forall cs cs', (forall c, In c cs' -> In c cs) -> commute cs -> commute cs'.
    Proof. intros cs cs' Hi H c1 c2 H1 H2. apply H; apply Hi; assumption. Qed.

    Lemma same_list_related : forall cs, respects cs -> forall e e', R e e' ->
      any_failed cs e = any_failed cs e' /\ R (run_env cs e) (run_env cs e').
    Proof.
      induction cs as [|c rest IH]; intros H1 e e' Hr.
      - split; [reflexivity | exact Hr].
      - destruct (H1 c (or_introl eq_refl) e e' Hr) as [Hok Hr1].
        assert (H1' : respects rest) by (eapply respects_incl; [|exact H1]; intros; right; assumption).
        destruct (IH H1' _ _ Hr1) as [Hf Hr2].
        cbn [any_failed]. rewrite !run_env_cons. rewrite Hok, Hf. split; [reflexivity | exact Hr2].
    Qed.

    Lemma order_independent_gen : forall cs cs', Permutation cs cs' ->
      respects cs -> commute cs -> forall e e', R e e' ->
      any_failed cs e = any_failed cs' e' /\ R (run_env cs e) (run_env cs' e').
    Proof.
      intros cs cs' HP. induction HP as [|x l l' HP IH|x y l|l l' l'' HP1 IH1 HP2 IH2]; intros H1 H2 e e' Hr.
      - split; [reflexivity | exact Hr].
      - destruct (H1 x (or_introl eq_refl) e e' Hr) as [Hok Hr1].
        assert (H1' : respects l) by (eapply respects_incl; [|exact H1]; intros; right; assumption).
        assert (H2' : commute l) by (eapply commute_incl; [|exact H2]; intros; right; assumption).
        destruct (IH H1' H2' _ _ Hr1) as [Hf Hr2].
        cbn [any_failed]. rewrite !run_env_cons. rewrite Hok, Hf. split; [reflexivity | exact Hr2].
      - (* y :: x :: l  versus  x :: y :: l *)
        assert (Iy : In y (y :: x :: l)) by (left; reflexivity).
        assert (Ix : In x (y :: x :: l)) by (right; left; reflexivity).
        assert (Ree : R e e) by (eapply Rtrans; [exact Hr | apply Rsym, Hr]).
        destruct (H2 y x Iy Ix e Ree) as (Hc & Hoky & Hokx).
        destruct (H1 x Ix e e' Hr) as [Hx1 Hrx].
        destruct (H1 y Iy _ _ Hrx) as [Hy2 Hrxy].
        assert (Hrest : R (snd (run1 x (snd (run1 y e)))) (snd (run1 y (snd (run1 x e')))))
          by (eapply Rtrans; [exact Hc | exact Hrxy]).
        assert (H1' : respects l) by (eapply respects_incl; [|exact H1]; intros; right; right; assumption).
        destruct (same_list_related l H1' _ _ Hrest) as [Hf Hr2].
        cbn [any_failed]. rewrite !run_env_cons. split; [|exact Hr2].
        rewrite Hf, <- Hokx, Hx1, Hoky, Hy2.
        destruct (is_ok (fst (run1 x e'))), (is_ok (fst (run1 y (snd (run1 x e'))))); reflexivity.
      - assert (Ree' : R e' e') by (eapply Rtrans; [apply Rsym, Hr | exact Hr]).
        assert (Hi : forall c, In c l' -> In c l) by (intros c; apply Permutation_in, Permutation_sym, HP1).
        destruct (IH1 H1 H2 e e' Hr) as [Hf1 Hr1].
        destruct (IH2 (respects_incl l l' Hi H1) (commute_incl l l' Hi H2) e' e' Ree') as [Hf2 Hr2].
        split; [congruence | eapply Rtrans; eassumption].
    Qed.
  End Order.

  (* --- instance 1: the same injected table and the same locals (the trace may differ) --- *)
  Definition same_state (e e' : env) : Prop := e_inj e = e_inj e' /\ e_loc e = e_loc e'.

  Lemma same_state_refl : forall e, same_state e e.
  Proof. intros e. split; reflexivity. Qed.
  Lemma same_state_sym : forall a b, same_state a b -> same_state b a.
  Proof. intros a b [H1 H2]. split; congruence. Qed.
  Lemma same_state_trans : forall a b c, same_state a b -> same_state b c -> same_state a c.
  Proof. intros a b c [H1 H2] [H3 H4]. split; congruence. Qed.

  Theorem effects_independent_of_order : forall cs,
    (forall c, In c cs -> forall e e', same_state e e' ->
       is_ok (fst (run1 c e)) = is_ok (fst (run1 c e')) /\ same_state (snd (run1 c e)) (snd (run1 c e'))) ->
    (forall c1 c2, In c1 cs -> In c2 cs -> forall e,
       same_state (snd (run1 c2 (snd (run1 c1 e)))) (snd (run1 c1 (snd (run1 c2 e)))) /\
       is_ok (fst (run1 c1 e)) = is_ok (fst (run1 c1 (snd (run1 c2 e)))) /\
       is_ok (fst (run1 c2 e)) = is_ok (fst (run1 c2 (snd (run1 c1 e))))) ->
    forall cs', Permutation cs cs' -> forall e,
      let '(f, _, e1) := conc_fold cs e in
      let '(f', _, e2) := conc_fold cs' e in
      f = f' /\ same_state e1 e2.
  Proof.
    intros cs H1 H2 cs' HP e.
    pose proof (order_independent_gen same_state same_state_sym same_state_trans cs cs' HP) as G.
    specialize (G H1). unfold commute in G.
    specialize (G (fun c1 c2 I1 I2 e _ => H2 c1 c2 I1 I2 e) e e (same_state_refl e)).
    rewrite <- !conc_fold_any_failed, <- !conc_fold_env in G.
    destruct (conc_fold cs e) as [[f c1] e1], (conc_fold cs' e) as [[f' c2] e2]. exact G.
  Qed.

  (* --- instance 2: pointwise-equal lookups of the locals, names of [ns] not injected ---
     ([aset] appends new names, so two orders of first assignments give locals lists that
     differ as lists and agree as maps) *)
  Definition same_locals (ns : list string) (e e' : env) : Prop :=
    (forall n, In n ns -> alookup n (e_inj e) = None) /\
    e_inj e = e_inj e' /\
    (forall n, alookup n (e_loc e) = alookup n (e_loc e')).

  Lemma same_locals_sym : forall ns a b, same_locals ns a b -> same_locals ns b a.
  Proof. intros ns a b (H1 & H2 & H3). repeat split; [rewrite <- H2; exact H1 | congruence | intros; symmetry; apply H3]. Qed.
  Lemma same_locals_trans : forall ns a b c, same_locals ns a b -> same_locals ns b c -> same_locals ns a c.
  Proof.
    intros ns a b c (H1 & H2 & H3) (H4 & H5 & H6). repeat split; [exact H1 | congruence |].
    intros n. rewrite H3. apply H6.
  Qed.

  Theorem effects_independent_of_order_lookups : forall ns cs,
    respects (same_locals ns) cs -> commute (same_locals ns) cs ->
    forall cs', Permutation cs cs' -> forall e, same_locals ns e e ->
      let '(f, _, e1) := conc_fold cs e in
      let '(f', _, e2) := conc_fold cs' e in
      f = f' /\ same_locals ns e1 e2.
  Proof.
    intros ns cs H1 H2 cs' HP e He.
    pose proof (order_independent_gen (same_locals ns) (same_locals_sym ns) (same_locals_trans ns)
                  cs cs' HP H1 H2 e e He) as G.
    rewrite <- !conc_fold_any_failed, <- !conc_fold_env in G.
    destruct (conc_fold cs e) as [[f c1] e1], (conc_fold cs' e) as [[f' c2] e2]. exact G.
  Qed.

  (* non-vacuity: assignments of integer constants to distinct, non-injected simple names *)
  Definition const_asg (p : pos) (n : string) (z : Z) : cchild :=
    CCAsg (mkAsg p (TVar n) AsSet (RMath (MAtom p (AConst (KInt z))))).

  Lemma alookup_aset_if : forall V n n' (v : V) m,
    alookup n' (aset n v m) = if String.eqb n n' then Some v else alookup n' m.
  Proof.
    intros. destruct (String.eqb_spec n n') as [<-|Hn].
    - apply alookup_aset_same.
    - apply alookup_aset_other. congruence.
  Qed.

  Lemma const_asg_local : forall p n z e,
    path_of n = [n] -> alookup n (e_inj e) = None ->
    run1 (const_asg p n z) e = (Ok tt, mkEnv (e_inj e) (aset n (VInt KI64 z) (e_loc e)) (e_trace e)).
  Proof.
    intros p n z e Hp Hi. unfold run1, const_asg. cbn [Sem.conc_child]. unfold Sem.exec_assign.
    cbn [as_pos as_rhs as_op as_target aop_of]. unfold mrecover, mbind.
    cbn [Sem.eval_rhs Sem.eval_mexpr Sem.eval_atom ret konst eval_const].
    rewrite (set_local fo e n (VInt KI64 z) Hp Hi). reflexivity.
  Qed.

  Lemma const_asg_respects : forall ns p n z,
    In n ns -> path_of n = [n] ->
    forall e e', same_locals ns e e' ->
      is_ok (fst (run1 (const_asg p n z) e)) = is_ok (fst (run1 (const_asg p n z) e')) /\
      same_locals ns (snd (run1 (const_asg p n z) e)) (snd (run1 (const_asg p n z) e')).
  Proof.
    intros ns p n z Hin Hp e e' (H1 & H2 & H3).
    rewrite (const_asg_local p n z e Hp (H1 n Hin)).
    rewrite (const_asg_local p n z e' Hp) by (rewrite <- H2; apply H1, Hin).
    cbn [fst snd is_ok]. split; [reflexivity|]. repeat split; cbn [e_inj e_loc]; [exact H1 | exact H2 |].
    intros m. rewrite !alookup_aset_if. destruct (String.eqb n m); [reflexivity | apply H3].
  Qed.

  Lemma const_asg_commute : forall ns p1 n1 z1 p2 n2 z2,
    In n1 ns -> In n2 ns -> path_of n1 = [n1] -> path_of n2 = [n2] ->
    n1 <> n2 \/ z1 = z2 ->
    forall e, same_locals ns e e ->
      let c1 := const_asg p1 n1 z1 in let c2 := const_asg p2 n2 z2 in
      same_locals ns (snd (run1 c2 (snd (run1 c1 e)))) (snd (run1 c1 (snd (run1 c2 e)))) /\
      is_ok (fst (run1 c1 e)) = is_ok (fst (run1 c1 (snd (run1 c2 e)))) /\
      is_ok (fst (run1 c2 e)) = is_ok (fst (run1 c2 (snd (run1 c1 e)))).
  Proof.
    intros ns p1 n1 z1 p2 n2 z2 I1 I2 P1 P2 Hd e (H1 & _ & _). cbv zeta.
    rewrite (const_asg_local p1 n1 z1 e P1 (H1 n1 I1)).
    rewrite (const_asg_local p2 n2 z2 e P2 (H1 n2 I2)). cbn [fst snd].
    rewrite (const_asg_local p2 n2 z2 _ P2) by (cbn [e_inj]; apply H1, I2).
    rewrite (const_asg_local p1 n1 z1 _ P1) by (cbn [e_inj]; apply H1, I1).
    cbn [fst snd is_ok e_inj e_loc e_trace]. split; [|split; reflexivity].
    repeat split; cbn [e_inj e_loc]; [exact H1|].
    intros m. rewrite !alookup_aset_if.
    destruct (String.eqb_spec n1 m) as [E1|E1], (String.eqb_spec n2 m) as [E2|E2]; try reflexivity.
    destruct Hd as [Hd|Hd]; [congruence | subst; reflexivity].
  Qed.

  (* x = z1 and y = z2 in either order: same outcome, same locals as maps *)
  Theorem two_assignments_commute : forall p1 p2 x y z1 z2 e,
    path_of x = [x] -> path_of y = [y] -> x <> y ->
    alookup x (e_inj e) = None -> alookup y (e_inj e) = None ->
    let '(f, _, e1) := conc_fold [const_asg p1 x z1; const_asg p2 y z2] e in
    let '(f', _, e2) := conc_fold [const_asg p2 y z2; const_asg p1 x z1] e in
    f = f' /\ e_inj e1 = e_inj e2 /\ forall n, alookup n (e_loc e1) = alookup n (e_loc e2).
  Proof.
    intros p1 p2 x y z1 z2 e Px Py Hxy Hx Hy.
    assert (He : same_locals [x; y] e e).
    { repeat split. intros n [<-|[<-|[]]]; assumption. }
    pose proof (effects_independent_of_order_lookups [x; y] [const_asg p1 x z1; const_asg p2 y z2]) as G.
    assert (R1 : respects (same_locals [x; y]) [const_asg p1 x z1; const_asg p2 y z2]).
    { intros c [<-|[<-|[]]]; apply const_asg_respects; cbn; auto. }
    assert (R2 : commute (same_locals [x; y]) [const_asg p1 x z1; const_asg p2 y z2]).
    { intros c1 c2 [<-|[<-|[]]] [<-|[<-|[]]] e0 He0;
        apply (const_asg_commute [x; y]); cbn; auto. }
    specialize (G R1 R2 _ (perm_swap _ _ _) e He).
    destruct (conc_fold [const_asg p1 x z1; const_asg p2 y z2] e) as [[f c1] e1].
    destruct (conc_fold [const_asg p2 y z2; const_asg p1 x z1] e) as [[f' c2] e2].
    destruct G as (Gf & _ & Gi & Gl). auto.
  Qed.

  (* and the locals lists do differ as lists: this is why the syntactic [same_state] is too
     fine for first assignments *)
  Lemma two_assignments_lists_differ : forall p1 p2 x y z1 z2 inj tr,
    path_of x = [x] -> path_of y = [y] -> x <> y ->
    alookup x inj = None -> alookup y inj = None ->
    e_loc (run_env [const_asg p1 x z1; const_asg p2 y z2] (mkEnv inj [] tr)) = [(x, VInt KI64 z1); (y, VInt KI64 z2)] /\
    e_loc (run_env [const_asg p2 y z2; const_asg p1 x z1] (mkEnv inj [] tr)) = [(y, VInt KI64 z2); (x, VInt KI64 z1)].
  Proof.
    intros p1 p2 x y z1 z2 inj tr Px Py Hxy Hx Hy. unfold run_env. cbn [fold_left].
    change (Sem.conc_child fo meta real_of) with run1.
    rewrite (const_asg_local p1 x z1 (mkEnv inj [] tr) Px Hx), (const_asg_local p2 y z2 (mkEnv inj [] tr) Py Hy).
    cbn [snd e_inj e_loc e_trace].
    rewrite (const_asg_local p2 y z2 (mkEnv inj (aset x (VInt KI64 z1) []) tr) Py Hy).
    rewrite (const_asg_local p1 x z1 (mkEnv inj (aset y (VInt KI64 z2) []) tr) Px Hx).
    cbn [snd e_loc e_inj aset].
    destruct (String.eqb_spec x y); [congruence|]. destruct (String.eqb_spec y x); [congruence|]. split; reflexivity.
  Qed.
End ConcBlock.
