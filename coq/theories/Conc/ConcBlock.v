(* Conc/ConcBlock.v — containment of faults (C09) and the conc block (C18):
   - the recover points: a rule executed with its entry recover, an assignment and a call
     never let a panic out;
   - [conc_run] runs every child exactly once, whatever the others do, and fails after
     all of them iff one of them failed ([conc_fold], [conc_run_spec]);
   - trace level: in every interleaving of the children each child has started and ended
     before the statement after the block starts;
   - the effects of commuting children do not depend on the order they are run in. *)
From Coq Require Import Ascii String List ZArith Bool Lia ZifyBool Permutation.
From GV Require Import Lang.Value Lang.Syntax Lang.Store Lang.Sem Lang.SemFacts.
From GV Require Import Engine.Trace Engine.TraceFacts.
Import ListNotations.

(* ================================================================== *)
(* trace level: independent of the float operations                   *)
(* ================================================================== *)

Inductive cev := CStart (i : nat) | CEnd (i : nat) | After.
Definition child_evs (i : nat) : list cev := [CStart i; CEnd i].

(* the traces of a conc block with n children followed by the next statement: any
   interleaving of the children's start/end pairs, then [After] (WaitGroup.Wait returned) *)
Definition conc_traces (n : nat) (t : list cev) : Prop :=
  exists t1, t = t1 ++ [After] /\ Interleave (map child_evs (seq 0 n)) t1.

Lemma subseq_app : forall A (a b t u : list A), Subseq a t -> Subseq b u -> Subseq (a ++ b) (t ++ u).
Proof.
  intros A a b t u H. revert b u. induction H; intros b u Hb; cbn.
  - exact Hb.
  - apply Sub_skip. apply IHSubseq, Hb.
  - apply Sub_take. apply IHSubseq, Hb.
Qed.

Lemma subseq_refl : forall A (l : list A), Subseq l l.
Proof. induction l; constructor; assumption. Qed.

Lemma conc_join_before_next : forall n t,
  conc_traces n t -> forall i, (i < n)%nat -> Subseq [CStart i; CEnd i; After] t.
Proof.
  intros n t (t1 & -> & Hi) i Hlt.
  apply interleave_subseq in Hi. rewrite Forall_forall in Hi.
  assert (Hs : Subseq (child_evs i) t1).
  { apply Hi. apply in_map. apply in_seq. lia. }
  change [CStart i; CEnd i; After] with (child_evs i ++ [After]).
  apply subseq_app; [exact Hs | apply subseq_refl].
Qed.

Lemma conc_each_child_once : forall n t,
  conc_traces n t -> Permutation t (concat (map child_evs (seq 0 n)) ++ [After]).
Proof.
  intros n t (t1 & -> & Hi). apply Permutation_app_tail. apply interleave_perm, Hi.
Qed.

Lemma conc_traces_exist : forall n, exists t, conc_traces n t.
Proof.
  intros n. exists (concat (map child_evs (seq 0 n)) ++ [After]).
  eexists. split; [reflexivity | apply interleave_concat].
Qed.

(* the events of a trace are exactly: one start and one end per child, one After *)
Lemma conc_trace_length : forall n t, conc_traces n t -> length t = (2 * n + 1)%nat.
Proof.
  intros n t H. apply conc_each_child_once in H. apply Permutation_length in H. rewrite H.
  rewrite app_length. cbn [length].
  assert (L : forall k s, length (concat (map child_evs (seq s k))) = (2 * k)%nat).
  { induction k as [|k IH]; intros s; [reflexivity|]. cbn [seq map concat]. rewrite app_length, IH. cbn. lia. }
  rewrite L. lia.
Qed.

Definition is_ok {A} (r : res A) : bool := match r with Ok _ => true | _ => false end.

Section ConcBlock.
  Variable fo : float_ops.
  Variable meta : rule_meta.
  Variable real_of : Z -> Z -> fl fo.
  Notation value := (value fo).
  Notation env := (env fo).
  Notation flow := (flow fo).
  Notation St := (Sem.S fo).
  Notation eval_call := (eval_call fo meta real_of).
  Notation eval_expr := (eval_expr fo meta real_of).
  Notation exec_assign := (exec_assign fo meta real_of).
  Notation on_cond := (on_cond fo meta real_of).
  Notation for_loop := (for_loop fo meta real_of).
  Notation conc_child := (conc_child fo meta real_of).
  Notation conc_run := (conc_run fo meta real_of).
  Notation exec_stmt := (exec_stmt fo meta real_of).
  Notation exec_block := (exec_block fo meta real_of).
  Notation exec_rule := (exec_rule fo meta real_of).

  (* ================= C09: containment ================= *)

  Lemma rule_never_panics : forall body inj tr, fst (exec_rule true body inj tr) <> RRPanic.
  Proof.
    intros body inj tr. unfold Sem.exec_rule.
    destruct (exec_block body (mkEnv inj [] tr)) as [[ | v | | | cs | ] e]; cbn; discriminate.
  Qed.

  (* the body [if 5 { }]: reflect's Bool() on an int64 panics *)
  Definition if5_body (p : pos) : block :=
    Block (SCons (SIf (EMath p (MAtom p (AConst (KInt 5)))) (Block SNil None) ENil None) SNil) None.

  Lemma uncontained_can_panic : forall p inj tr, fst (exec_rule false (if5_body p) inj tr) = RRPanic.
  Proof. reflexivity. Qed.
  Lemma contained_same_body_is_error : forall p inj tr, fst (exec_rule true (if5_body p) inj tr) = RRError [].
  Proof. reflexivity. Qed.

  Lemma evaluation_is_total : forall c body inj tr, exists r e, exec_rule c body inj tr = (r, e).
  Proof. intros. destruct (exec_rule c body inj tr) as [r e]. eauto. Qed.

  Lemma for_loop_cut_off : forall c step body e, for_loop c step body O e = (Failed [], e).
  Proof. reflexivity. Qed.

  (* one unfolding = at most one evaluation of the condition, one execution of the body and
     one of the step, then the loop with one unit of fuel less *)
  Lemma for_loop_step : forall c step body fuel e,
    for_loop c step body (Datatypes.S fuel) e =
    on_cond c (fun b =>
      if b then
        fun e => match body e with
                 | (Normal, e') | (Cont, e') =>
                   (match exec_assign step e' with
                    | (Ok _, e'') => for_loop c step body fuel e''
                    | (Err cs, e'') => (Failed cs, e'')
                    | (Panic, e'') => (Panicked, e'')
                    end)
                 | (Brk, e') => (Normal, e')
                 | other => other
                 end
      else fun e => (Normal, e)) e.
  Proof. reflexivity. Qed.

  (* number of condition evaluations performed by [for_loop ... fuel e] (same recursion) *)
  Fixpoint for_iters (c : expr) (step : assignment) (body : St) (fuel : nat) (e : env) {struct fuel} : nat :=
    match fuel with
    | O => O
    | Datatypes.S fuel' =>
      match mbind fo (eval_expr c) (fun v => lift fo (as_bool fo v)) e with
      | (Ok true, e1) =>
        match body e1 with
        | (Normal, e2) | (Cont, e2) =>
          match exec_assign step e2 with
          | (Ok _, e3) => Datatypes.S (for_iters c step body fuel' e3)
          | _ => 1%nat
          end
        | _ => 1%nat
        end
      | _ => 1%nat
      end
    end.

  Lemma for_iters_le_fuel : forall c step body fuel e, (for_iters c step body fuel e <= fuel)%nat.
  Proof.
    intros c step body. induction fuel as [|fuel IH]; intros e; cbn [for_iters]; [lia|].
    destruct (mbind fo (eval_expr c) (fun v => lift fo (as_bool fo v)) e) as [[[|]|cs|] e1]; try lia.
    destruct (body e1) as [[ | v | | | cs | ] e2]; try lia;
      (destruct (exec_assign step e2) as [[u|cs|] e3]; [specialize (IH e3)|..]; lia).
  Qed.

  (* the statement: at most maxExecuteNum condition evaluations *)
  Lemma for_stmt_bounded : forall c step body e,
    (for_iters c step body max_execute_num e <= 10000)%nat.
  Proof.
    intros. generalize (for_iters_le_fuel c step body max_execute_num e).
    assert (max_execute_num = 10000%nat) as -> by (unfold max_execute_num; lia). auto.
  Qed.

  Lemma mrecover_no_panic : forall A p (m : M fo A) e, fst (mrecover fo p m e) <> Panic.
  Proof. intros A p m e. unfold mrecover. destruct (m e) as [[a|c|] e1]; cbn; discriminate. Qed.

  Lemma exec_assign_no_panic : forall a e, fst (exec_assign a e) <> Panic.
  Proof. intros a e. unfold Sem.exec_assign. apply mrecover_no_panic. Qed.

  Lemma eval_call_no_panic : forall c e, fst (eval_call c e) <> Panic.
  Proof. intros [k p name a] e. rewrite eval_call_eq. apply mrecover_no_panic. Qed.

  Lemma conc_child_no_panic : forall c e, fst (conc_child c e) <> Panic.
  Proof.
    intros [a|cl] e; cbn [Sem.conc_child].
    - apply exec_assign_no_panic.
    - generalize (eval_call_no_panic cl e). unfold mbind.
      destruct (eval_call cl e) as [[v|c|] e1]; cbn; congruence.
  Qed.

  (* ================= C18: every child runs, the block fails afterwards ================= *)

  (* any-failed flag, concatenated cites, final environment *)
  Fixpoint conc_fold (cs : list cchild) (e : env) : bool * list pos * env :=
    match cs with
    | [] => (false, [], e)
    | c :: rest =>
      let '(r, e1) := conc_child c e in
      let '(f, cites, e2) := conc_fold rest e1 in
      (negb (is_ok r) || f, match r with Err c' => c' ++ cites | _ => cites end, e2)
    end.

  Lemma conc_run_spec : forall cs failed acc e,
    conc_run cs failed acc e =
    (let '(f, cites, e') := conc_fold cs e in
     (if failed || f then Failed (acc ++ cites) else Normal, e')).
  Proof.
    induction cs as [|c rest IH]; intros failed acc e.
    - cbn [Sem.conc_run conc_fold]. rewrite orb_false_r, app_nil_r. reflexivity.
    - cbn [Sem.conc_run conc_fold].
      destruct (conc_child c e) as [[u|c'|] e1]; rewrite IH;
        destruct (conc_fold rest e1) as [[f cites] e2]; cbn [is_ok negb orb].
      + reflexivity.
      + rewrite orb_true_r. cbn [orb]. rewrite app_assoc. reflexivity.
      + rewrite orb_true_r. reflexivity.
  Qed.

  Definition run_env (cs : list cchild) (e : env) : env :=
    fold_left (fun e c => snd (conc_child c e)) cs e.

  Lemma conc_fold_env : forall cs e, snd (conc_fold cs e) = run_env cs e.
  Proof.
    induction cs as [|c rest IH]; intros e; [reflexivity|].
    cbn [conc_fold run_env fold_left]. specialize (IH (snd (conc_child c e))).
    destruct (conc_child c e) as [r e1]. cbn [snd] in *.
    destruct (conc_fold rest e1) as [[f cites] e2]. exact IH.
  Qed.

  Lemma every_child_runs_once : forall cs failed acc e,
    snd (conc_run cs failed acc e) = fold_left (fun e c => snd (conc_child c e)) cs e.
  Proof.
    intros. rewrite conc_run_spec. rewrite <- (conc_fold_env cs e).
    destruct (conc_fold cs e) as [[f cites] e2]. reflexivity.
  Qed.

  (* the flag of [conc_fold]: some child, run in the environment the previous ones left, failed *)
  Lemma conc_fold_flag : forall cs e,
    fst (fst (conc_fold cs e)) = true <->
    exists pre c post, cs = pre ++ c :: post /\ is_ok (fst (conc_child c (run_env pre e))) = false.
  Proof.
    induction cs as [|c rest IH]; intros e.
    - cbn. split; [discriminate|]. intros (pre & c & post & H & _). destruct pre; discriminate.
    - cbn [conc_fold]. specialize (IH (snd (conc_child c e))).
      destruct (conc_child c e) as [r e1] eqn:E. cbn [snd] in IH.
      destruct (conc_fold rest e1) as [[f cites] e2]. cbn [fst] in *.
      split.
      + intros H. apply orb_true_iff in H. destruct H as [H|H].
        * exists [], c, rest. split; [reflexivity|]. cbn [run_env fold_left]. rewrite E. cbn [fst].
          destruct (is_ok r); [discriminate|reflexivity].
        * apply IH in H. destruct H as (pre & c0 & post & -> & H).
          exists (c :: pre), c0, post. split; [reflexivity|].
          cbn [run_env fold_left]. rewrite E. exact H.
      + intros (pre & c0 & post & Hcs & H). apply orb_true_iff. destruct pre as [|x pre].
        * cbn in Hcs. injection Hcs as <- <-. cbn [run_env fold_left] in H. rewrite E in H. cbn [fst] in H.
          left. rewrite H. reflexivity.
        * cbn in Hcs. injection Hcs as <- ->. right. apply IH.
          exists pre, c0, post. split; [reflexivity|].
          cbn [run_env fold_left] in H. rewrite E in H. exact H.
  Qed.

  Lemma block_fails_iff_a_child_failed : forall cs e,
    (exists cites, fst (conc_run cs false [] e) = Failed cites) <->
    exists pre c post, cs = pre ++ c :: post /\ is_ok (fst (conc_child c (run_env pre e))) = false.
  Proof.
    intros cs e. rewrite <- conc_fold_flag. rewrite conc_run_spec.
    destruct (conc_fold cs e) as [[f cites] e2]. cbn [orb fst app].
    destruct f; split.
    - reflexivity.
    - intros _. eexists. reflexivity.
    - intros [c H]. discriminate.
    - discriminate.
  Qed.

  (* otherwise it ends normally: the two outcomes are the only ones *)
  Lemma block_outcome : forall cs e,
    fst (conc_run cs false [] e) = Normal \/ exists cites, fst (conc_run cs false [] e) = Failed cites.
  Proof.
    intros cs e. rewrite conc_run_spec. destruct (conc_fold cs e) as [[f cites] e2]. cbn [orb fst].
    destruct f; [right; eexists; reflexivity | left; reflexivity].
  Qed.

  Lemma conc_never_panics : forall cs failed acc e, fst (conc_run cs failed acc e) <> Panicked.
  Proof.
    intros. rewrite conc_run_spec. destruct (conc_fold cs e) as [[f cites] e2].
    destruct (failed || f); cbn; discriminate.
  Qed.

  (* the statement form *)
  Lemma conc_stmt_spec : forall cs e,
    exec_stmt (SConc cs) e =
    (let '(f, cites, e') := conc_fold cs e in (if f then Failed cites else Normal, e')).
  Proof. intros. rewrite exec_stmt_conc, conc_run_spec. reflexivity. Qed.
End ConcBlock.
