(* Props/C03.v — injected data is read, written and called faithfully.
   Statements only; the proofs are in Lang/StoreFacts.v.  Names are taken in one of the three
   shapes the grammar allows ([path_of n = [a]], [[a; b]], [[a; b; c]]); the three examples
   show the shapes on concrete names. *)
From Coq Require Import Ascii String List ZArith Bool.
From GV Require Import Lang.Value Lang.Syntax Lang.Store Lang.StoreFacts.
Import ListNotations.
Local Open Scope string_scope.
Local Open Scope Z_scope.

Example C03_path_simple : path_of "h" = ["h"].
Proof. reflexivity. Qed.
Example C03_path_dotted : path_of "h.I64" = ["h"; "I64"].
Proof. reflexivity. Qed.
Example C03_path_double_dotted : path_of "h.Sub.N" = ["h"; "Sub"; "N"].
Proof. reflexivity. Qed.

(* ================= 1. reads ================= *)
Theorem C03_read_injected_scalar : forall fo (e : env fo) n v,
  path_of n = [n] -> alookup n (e_inj e) = Some (HVal v) -> get_value fo e n = Ok v.
Proof. exact read_injected_scalar. Qed.
Print Assumptions C03_read_injected_scalar.

Theorem C03_read_field : forall fo (e : env fo) n a b p fs ms v,
  path_of n = [a; b] -> alookup a (e_inj e) = Some (HStruct p fs ms) -> flookup fo b fs = Some (HVal v) ->
  get_value fo e n = Ok v.
Proof. exact read_field. Qed.
Print Assumptions C03_read_field.

Theorem C03_read_nested_field : forall fo (e : env fo) n a b c p fs ms p2 fs2 ms2 v,
  path_of n = [a; b; c] -> alookup a (e_inj e) = Some (HStruct p fs ms) ->
  flookup fo b fs = Some (HStruct p2 fs2 ms2) -> flookup fo c fs2 = Some (HVal v) ->
  get_value fo e n = Ok v.
Proof. exact read_nested_field. Qed.
Print Assumptions C03_read_nested_field.

Theorem C03_read_missing_field_is_invalid_value : forall fo (e : env fo) n a b p fs ms,
  path_of n = [a; b] -> alookup a (e_inj e) = Some (HStruct p fs ms) -> flookup fo b fs = None ->
  get_value fo e n = Ok VNil.
Proof. exact read_missing_field. Qed.
Print Assumptions C03_read_missing_field_is_invalid_value.

(* how a (possibly dotted) name resolves to a container *)
Theorem C03_resolve_injected : forall fo (e : env fo) n o,
  path_of n = [n] -> alookup n (e_inj e) = Some o -> resolve fo e n = Ok (RObj o).
Proof. exact resolve_top. Qed.
Print Assumptions C03_resolve_injected.

Theorem C03_resolve_field : forall fo (e : env fo) n a b p fs ms o,
  path_of n = [a; b] -> alookup a (e_inj e) = Some (HStruct p fs ms) -> flookup fo b fs = Some o ->
  resolve fo e n = Ok (RObj o).
Proof. exact resolve_field. Qed.
Print Assumptions C03_resolve_field.

Theorem C03_read_map_string_key : forall fo (e : env fo) pos name s p et entries,
  resolve fo e name = Ok (RObj (HMap p TS et entries)) ->
  mapvar_get fo e (mkMV pos name (MKStr s)) =
  Ok (match map_get fo (VStr s) entries with Some v => v | None => zero_of fo et end).
Proof. exact read_map_string_key. Qed.
Print Assumptions C03_read_map_string_key.

Theorem C03_read_map_entry : forall fo (e : env fo) pos name s p et entries v,
  resolve fo e name = Ok (RObj (HMap p TS et entries)) -> map_get fo (VStr s) entries = Some v ->
  mapvar_get fo e (mkMV pos name (MKStr s)) = Ok v.
Proof. exact read_map_entry. Qed.
Print Assumptions C03_read_map_entry.

Theorem C03_read_missing_map_key_is_zero : forall fo (e : env fo) pos name s p et entries,
  resolve fo e name = Ok (RObj (HMap p TS et entries)) -> map_get fo (VStr s) entries = None ->
  mapvar_get fo e (mkMV pos name (MKStr s)) = Ok (zero_of fo et).
Proof. exact read_missing_map_key_is_zero. Qed.
Print Assumptions C03_read_missing_map_key_is_zero.

Theorem C03_read_map_int_key : forall fo (e : env fo) pos name z p et entries,
  resolve fo e name = Ok (RObj (HMap p (TI KI64) et entries)) ->
  mapvar_get fo e (mkMV pos name (MKInt z)) =
  Ok (match map_get fo (VInt KI64 z) entries with Some v => v | None => zero_of fo et end).
Proof. exact read_map_int_key. Qed.
Print Assumptions C03_read_map_int_key.

Theorem C03_read_slice_element : forall fo (e : env fo) pos name z p isarr et elems,
  resolve fo e name = Ok (RObj (HSeq p isarr et elems)) ->
  0 <= z < Z.of_nat (length elems) ->
  exists v, nth_error elems (Z.to_nat z) = Some v /\ mapvar_get fo e (mkMV pos name (MKInt z)) = Ok v.
Proof. exact read_slice_in_range. Qed.
Print Assumptions C03_read_slice_element.

(* ================= 2. the conversion guard ================= *)
(* [representable fo t v] (Lang/StoreFacts.v): the number v carries fits kind t — int/uint
   values in the target range, a float whose truncation exists and is in range, any number
   into a float kind, string into string, bool into bool.  [converted fo t v] is the value of
   kind t carrying the same number. *)
Theorem C03_set_conv_representable : forall fo t v,
  representable fo t v ->
  exists nv, set_conv fo t v = Ok nv /\ sty_of fo nv = Some t /\ converted fo t v = Some nv.
Proof. exact set_conv_representable. Qed.
Print Assumptions C03_set_conv_representable.

Theorem C03_set_conv_int_from_int : forall fo k k' z,
  in_irange k z = true -> set_conv fo (TI k) (VInt k' z) = Ok (VInt k z).
Proof. exact set_conv_int_int. Qed.
Print Assumptions C03_set_conv_int_from_int.

Theorem C03_set_conv_int_from_uint : forall fo k k' z,
  in_irange k z = true -> set_conv fo (TI k) (VUint k' z) = Ok (VInt k z).
Proof. exact set_conv_int_uint. Qed.
Print Assumptions C03_set_conv_int_from_uint.

Theorem C03_set_conv_uint_from_int : forall fo k k' z,
  in_urange k z = true -> set_conv fo (TU k) (VInt k' z) = Ok (VUint k z).
Proof. exact set_conv_uint_int. Qed.
Print Assumptions C03_set_conv_uint_from_int.

Theorem C03_set_conv_uint_from_uint : forall fo k k' z,
  in_urange k z = true -> set_conv fo (TU k) (VUint k' z) = Ok (VUint k z).
Proof. exact set_conv_uint_uint. Qed.
Print Assumptions C03_set_conv_uint_from_uint.

Theorem C03_set_conv_float_from_int : forall fo k k' z,
  set_conv fo (TF k) (VInt k' z) = Ok (VFloat k (f_of_Z fo z)).
Proof. exact set_conv_float_int. Qed.
Print Assumptions C03_set_conv_float_from_int.

Theorem C03_set_conv_float_from_uint : forall fo k k' z,
  set_conv fo (TF k) (VUint k' z) = Ok (VFloat k (f_of_Z fo z)).
Proof. exact set_conv_float_uint. Qed.
Print Assumptions C03_set_conv_float_from_uint.

Theorem C03_set_conv_int_from_float : forall fo k k' f z,
  f_trunc fo f = Some z -> in_irange k z = true -> set_conv fo (TI k) (VFloat k' f) = Ok (VInt k z).
Proof. exact set_conv_int_float. Qed.
Print Assumptions C03_set_conv_int_from_float.

Theorem C03_set_conv_uint_from_float : forall fo k k' f z,
  f_trunc fo f = Some z -> in_urange k z = true -> set_conv fo (TU k) (VFloat k' f) = Ok (VUint k z).
Proof. exact set_conv_uint_float. Qed.
Print Assumptions C03_set_conv_uint_from_float.

Theorem C03_wrap_is_identity_in_range : forall k z, in_irange k z = true -> swrap (ibits k) z = z.
Proof. exact swrap_id. Qed.
Print Assumptions C03_wrap_is_identity_in_range.

Theorem C03_uwrap_is_identity_in_range : forall k z, in_urange k z = true -> uwrap (ubits k) z = z.
Proof. exact uwrap_id. Qed.
Print Assumptions C03_uwrap_is_identity_in_range.

(* outside the guard: panics, silent wrap-around, silent zero *)
Theorem C03_guard_needed_negative_to_unsigned : forall fo k k' z,
  z < 0 -> set_conv fo (TU k) (VInt k' z) = Panic.
Proof. exact guard_needed_negative_to_unsigned. Qed.
Print Assumptions C03_guard_needed_negative_to_unsigned.

Theorem C03_guard_needed_string_to_int : forall fo k s, set_conv fo (TI k) (VStr s) = Panic.
Proof. exact guard_needed_string_to_int. Qed.
Print Assumptions C03_guard_needed_string_to_int.

Theorem C03_guard_needed_wraps : forall fo, set_conv fo (TI KI8) (VInt KI64 300) = Ok (VInt KI8 44).
Proof. exact guard_needed_wraps. Qed.
Print Assumptions C03_guard_needed_wraps.

Example C03_guard_needed_wraps_primfo : set_conv primfo (TI KI8) (VInt KI64 300) = Ok (VInt KI8 44).
Proof. exact (guard_needed_wraps primfo). Qed.

Theorem C03_guard_needed_unsigned_wraps : forall fo, set_conv fo (TU KU8) (VUint KU64 256) = Ok (VUint KU8 0).
Proof. exact guard_needed_unsigned_wraps. Qed.
Print Assumptions C03_guard_needed_unsigned_wraps.

Theorem C03_guard_needed_nonfinite_float : forall fo k k' f,
  f_trunc fo f = None -> set_conv fo (TI k) (VFloat k' f) = Ok (VInt k 0).
Proof. exact guard_needed_nonfinite_float. Qed.
Print Assumptions C03_guard_needed_nonfinite_float.

(* ================= 3. writes and their frame ================= *)
Theorem C03_write_field : forall fo (e : env fo) n a b fs ms cur t v nv,
  path_of n = [a; b] -> alookup a (e_inj e) = Some (HStruct true fs ms) ->
  flookup fo b fs = Some (HVal cur) -> sty_of fo cur = Some t -> sty_of fo v <> None ->
  set_conv fo t v = Ok nv ->
  set_value fo e n v =
  Ok (mkEnv (aset a (HStruct true (fset fo b (HVal nv) fs) ms) (e_inj e)) (e_loc e) (e_trace e)).
Proof. exact write_field. Qed.
Print Assumptions C03_write_field.

Theorem C03_write_field_representable : forall fo (e : env fo) n a b fs ms cur t v,
  path_of n = [a; b] -> alookup a (e_inj e) = Some (HStruct true fs ms) ->
  flookup fo b fs = Some (HVal cur) -> sty_of fo cur = Some t -> representable fo t v ->
  exists nv, converted fo t v = Some nv /\
    set_value fo e n v =
    Ok (mkEnv (aset a (HStruct true (fset fo b (HVal nv) fs) ms) (e_inj e)) (e_loc e) (e_trace e)).
Proof. exact write_field_representable. Qed.
Print Assumptions C03_write_field_representable.

Theorem C03_write_nested_field : forall fo (e : env fo) n a b c p fs ms p2 fs2 ms2 cur t v nv,
  path_of n = [a; b; c] -> alookup a (e_inj e) = Some (HStruct p fs ms) ->
  flookup fo b fs = Some (HStruct p2 fs2 ms2) ->
  (if p then true else p2) = true ->
  flookup fo c fs2 = Some (HVal cur) -> sty_of fo cur = Some t -> sty_of fo v <> None ->
  set_conv fo t v = Ok nv ->
  set_value fo e n v =
  Ok (mkEnv (aset a (HStruct p (fset fo b (HStruct p2 (fset fo c (HVal nv) fs2) ms2) fs) ms) (e_inj e))
            (e_loc e) (e_trace e)).
Proof. exact write_nested_field. Qed.
Print Assumptions C03_write_nested_field.

Theorem C03_write_field_by_value_is_error : forall fo (e : env fo) n a b fs ms o v,
  path_of n = [a; b] -> alookup a (e_inj e) = Some (HStruct false fs ms) ->
  flookup fo b fs = Some o -> set_value fo e n v = Err [].
Proof. exact write_field_by_value_is_error. Qed.
Print Assumptions C03_write_field_by_value_is_error.

Theorem C03_read_after_write_field : forall fo (e : env fo) n a b fs ms cur nv,
  path_of n = [a; b] -> flookup fo b fs = Some cur ->
  get_value fo (mkEnv (aset a (HStruct true (fset fo b (HVal nv) fs) ms) (e_inj e)) (e_loc e) (e_trace e)) n = Ok nv.
Proof. exact read_after_write_field. Qed.
Print Assumptions C03_read_after_write_field.

(* frame: the other injected names and the other fields are untouched (locals and trace are
   visibly the same in the statements above) *)
Theorem C03_frame_other_names : forall V a a' (o : V) m, a' <> a -> alookup a' (aset a o m) = alookup a' m.
Proof. exact aset_frame. Qed.
Print Assumptions C03_frame_other_names.

Theorem C03_frame_other_fields : forall fo b b' (o : hobj fo) fs,
  b' <> b -> flookup fo b' (fset fo b o fs) = flookup fo b' fs.
Proof. exact fset_frame. Qed.
Print Assumptions C03_frame_other_fields.

Theorem C03_write_ptr_scalar : forall fo (e : env fo) n t cur v nv,
  path_of n = [n] -> alookup n (e_inj e) = Some (HPtr t cur) -> set_single fo t v = Ok nv ->
  set_value fo e n v = Ok (mkEnv (aset n (HPtr t nv) (e_inj e)) (e_loc e) (e_trace e)).
Proof. exact write_ptr_scalar. Qed.
Print Assumptions C03_write_ptr_scalar.

Theorem C03_set_single_agrees_on_representable : forall fo t v,
  representable fo t v -> set_single fo t v = set_conv fo t v.
Proof. exact set_single_agrees_set_conv. Qed.
Print Assumptions C03_set_single_agrees_on_representable.

Theorem C03_write_ptr_scalar_representable : forall fo (e : env fo) n t cur v,
  path_of n = [n] -> alookup n (e_inj e) = Some (HPtr t cur) -> representable fo t v ->
  exists nv, converted fo t v = Some nv /\
    set_value fo e n v = Ok (mkEnv (aset n (HPtr t nv) (e_inj e)) (e_loc e) (e_trace e)).
Proof. exact write_ptr_scalar_representable. Qed.
Print Assumptions C03_write_ptr_scalar_representable.

(* outside the guard the two differ: an error instead of a panic *)
Theorem C03_set_single_negative_to_unsigned_is_error : forall fo k k' z,
  z < 0 -> set_single fo (TU k) (VInt k' z) = Err [].
Proof. exact set_single_negative_to_unsigned. Qed.
Print Assumptions C03_set_single_negative_to_unsigned_is_error.

Theorem C03_write_map_entry : forall fo (e : env fo) pos name s p et entries v wv,
  resolve fo e name = Ok (RObj (HMap p TS et entries)) ->
  wanted fo et v = Ok wv -> assignable fo et wv = true ->
  mapvar_set fo e (mkMV pos name (MKStr s)) v =
  Ok (update_obj fo e name (HMap p TS et (map_set fo (VStr s) wv entries))).
Proof. exact write_map_entry. Qed.
Print Assumptions C03_write_map_entry.

Theorem C03_write_map_entry_top : forall fo (e : env fo) pos a s p et entries v wv,
  path_of a = [a] -> alookup a (e_inj e) = Some (HMap p TS et entries) ->
  wanted fo et v = Ok wv -> assignable fo et wv = true ->
  mapvar_set fo e (mkMV pos a (MKStr s)) v =
  Ok (mkEnv (aset a (HMap p TS et (map_set fo (VStr s) wv entries)) (e_inj e)) (e_loc e) (e_trace e)).
Proof. exact write_map_entry_top. Qed.
Print Assumptions C03_write_map_entry_top.

Theorem C03_write_slice_element : forall fo (e : env fo) pos name z p isarr et elems v wv,
  resolve fo e name = Ok (RObj (HSeq p isarr et elems)) ->
  0 <= z < Z.of_nat (length elems) ->
  wanted fo et v = Ok wv -> assignable fo et wv = true -> (isarr && negb p)%bool = false ->
  mapvar_set fo e (mkMV pos name (MKInt z)) v =
  Ok (update_obj fo e name (HSeq p isarr et (list_set (Z.to_nat z) wv elems))).
Proof. exact write_slice_element. Qed.
Print Assumptions C03_write_slice_element.

Theorem C03_write_slice_element_top : forall fo (e : env fo) pos a z p isarr et elems v wv,
  path_of a = [a] -> alookup a (e_inj e) = Some (HSeq p isarr et elems) ->
  0 <= z < Z.of_nat (length elems) ->
  wanted fo et v = Ok wv -> assignable fo et wv = true -> (isarr && negb p)%bool = false ->
  mapvar_set fo e (mkMV pos a (MKInt z)) v =
  Ok (mkEnv (aset a (HSeq p isarr et (list_set (Z.to_nat z) wv elems)) (e_inj e)) (e_loc e) (e_trace e)).
Proof. exact write_slice_element_top. Qed.
Print Assumptions C03_write_slice_element_top.

(* a container inside a struct field: the struct is rebuilt with that one field replaced *)
Theorem C03_update_container_in_field : forall fo (e : env fo) name a b p fs ms o,
  path_of name = [a; b] -> alookup a (e_inj e) = Some (HStruct p fs ms) ->
  update_obj fo e name o = mkEnv (aset a (HStruct p (fset fo b o fs) ms) (e_inj e)) (e_loc e) (e_trace e).
Proof. exact update_obj_field. Qed.
Print Assumptions C03_update_container_in_field.

Theorem C03_update_container_frame : forall fo (e : env fo) name o,
  e_loc (update_obj fo e name o) = e_loc e /\ e_trace (update_obj fo e name o) = e_trace e.
Proof. exact update_obj_frame. Qed.
Print Assumptions C03_update_container_frame.

Theorem C03_element_of_exact_type_stored_unchanged : forall fo t v,
  sty_of fo v = Some t -> wanted fo t v = Ok v /\ assignable fo t v = true.
Proof. exact wanted_same_type. Qed.
Print Assumptions C03_element_of_exact_type_stored_unchanged.

(* exactly that one entry / element changes *)
Theorem C03_map_entry_written : forall fo s v m, map_get fo (VStr s) (map_set fo (VStr s) v m) = Some v.
Proof. exact map_get_set_same. Qed.
Print Assumptions C03_map_entry_written.

Theorem C03_map_other_entries_kept : forall fo s s' v m,
  s' <> s -> map_get fo (VStr s') (map_set fo (VStr s) v m) = map_get fo (VStr s') m.
Proof. exact map_get_set_other. Qed.
Print Assumptions C03_map_other_entries_kept.

Theorem C03_slice_element_written : forall A i (x : A) l,
  (i < length l)%nat -> nth_error (list_set i x l) i = Some x.
Proof. exact list_set_same. Qed.
Print Assumptions C03_slice_element_written.

Theorem C03_slice_other_elements_kept : forall A i j (x : A) l,
  i <> j -> nth_error (list_set i x l) j = nth_error l j.
Proof. exact list_set_other. Qed.
Print Assumptions C03_slice_other_elements_kept.

Theorem C03_slice_length_kept : forall A i (x : A) l, length (list_set i x l) = length l.
Proof. exact list_set_length. Qed.
Print Assumptions C03_slice_length_kept.

(* ================= 4. calls ================= *)
(* [after_call e id args]: e with (id, args) appended to the trace of received calls *)
Theorem C03_call_converts_arguments : forall fo (e : env fo) id ps beh vs args,
  convert_args fo ps vs = Ok args -> length args = length ps ->
  forallb (fun tv => assignable fo (fst tv) (snd tv)) (combine ps args) = true ->
  invoke fo e (mkF id ps beh) vs =
  match beh with
  | BNone => Ok (VNil, mkEnv (e_inj e) (e_loc e) (e_trace e ++ [(id, args)]))
  | BEcho i => Ok (nth i args VNil, mkEnv (e_inj e) (e_loc e) (e_trace e ++ [(id, args)]))
  | BPanic => Panic
  | BConst v => Ok (v, mkEnv (e_inj e) (e_loc e) (e_trace e ++ [(id, args)]))
  end.
Proof. exact call_converts_arguments. Qed.
Print Assumptions C03_call_converts_arguments.

Theorem C03_call_first_result : forall fo (e : env fo) id ps vs a0 rest,
  convert_args fo ps vs = Ok (a0 :: rest) -> length (a0 :: rest) = length ps ->
  forallb (fun tv => assignable fo (fst tv) (snd tv)) (combine ps (a0 :: rest)) = true ->
  invoke fo e (mkF id ps (BEcho 0)) vs =
  Ok (a0, mkEnv (e_inj e) (e_loc e) (e_trace e ++ [(id, a0 :: rest)])).
Proof. exact call_echo_first. Qed.
Print Assumptions C03_call_first_result.

(* numeric arguments for numeric parameters, strings for strings, bools for bools, as many as
   declared: the checks of reflect.Call pass and the function receives the converted list *)
Theorem C03_call_well_typed : forall fo (e : env fo) id ps beh vs,
  Forall2 (param_ok fo) ps vs ->
  exists args, convert_args fo ps vs = Ok args /\
    invoke fo e (mkF id ps beh) vs =
    match beh with
    | BNone => Ok (VNil, mkEnv (e_inj e) (e_loc e) (e_trace e ++ [(id, args)]))
    | BEcho i => Ok (nth i args VNil, mkEnv (e_inj e) (e_loc e) (e_trace e ++ [(id, args)]))
    | BPanic => Panic
    | BConst v => Ok (v, mkEnv (e_inj e) (e_loc e) (e_trace e ++ [(id, args)]))
    end.
Proof. exact call_well_typed. Qed.
Print Assumptions C03_call_well_typed.

Theorem C03_convert_args_positional : forall fo ps (vs args : list (value fo)),
  convert_args fo ps vs = Ok args ->
  forall i t v, nth_error ps i = Some t -> nth_error vs i = Some v ->
  exists v', num_conv fo t v = Ok v' /\ nth_error args i = Some v'.
Proof. exact convert_args_nth. Qed.
Print Assumptions C03_convert_args_positional.

Theorem C03_convert_args_length : forall fo ps (vs args : list (value fo)),
  convert_args fo ps vs = Ok args -> length args = length vs /\ (length ps <= length vs)%nat.
Proof. exact convert_args_length. Qed.
Print Assumptions C03_convert_args_length.

Theorem C03_convert_args_extra_untouched : forall fo ps (vs args : list (value fo)),
  convert_args fo ps vs = Ok args ->
  forall i, (length ps <= i)%nat -> nth_error args i = nth_error vs i.
Proof. exact convert_args_extra. Qed.
Print Assumptions C03_convert_args_extra_untouched.

Theorem C03_param_conversion_keeps_number : forall fo t v,
  representable fo t v -> exists nv, num_conv fo t v = Ok nv /\ converted fo t v = Some nv.
Proof. exact num_conv_representable. Qed.
Print Assumptions C03_param_conversion_keeps_number.

Theorem C03_int_param_from_int : forall fo k k' z,
  in_irange k z = true -> num_conv fo (TI k) (VInt k' z) = Ok (VInt k z).
Proof. exact num_conv_int_from_int. Qed.
Print Assumptions C03_int_param_from_int.

Theorem C03_int_param_from_uint : forall fo k k' z,
  in_irange k z = true -> num_conv fo (TI k) (VUint k' z) = Ok (VInt k z).
Proof. exact num_conv_int_from_uint. Qed.
Print Assumptions C03_int_param_from_uint.

Theorem C03_int_param_from_float : forall fo k k' f z,
  f_trunc fo f = Some z -> in_irange k z = true -> num_conv fo (TI k) (VFloat k' f) = Ok (VInt k z).
Proof. exact num_conv_int_from_float. Qed.
Print Assumptions C03_int_param_from_float.

Theorem C03_uint_param_from_int : forall fo k k' z,
  in_urange k z = true -> num_conv fo (TU k) (VInt k' z) = Ok (VUint k z).
Proof. exact num_conv_uint_from_int. Qed.
Print Assumptions C03_uint_param_from_int.

Theorem C03_float_param_from_int : forall fo k k' z,
  num_conv fo (TF k) (VInt k' z) = Ok (VFloat k (f_of_Z fo z)).
Proof. exact num_conv_float_from_int. Qed.
Print Assumptions C03_float_param_from_int.

Theorem C03_string_param_unchanged : forall fo v, num_conv fo TS v = Ok v.
Proof. exact num_conv_string_param. Qed.
Print Assumptions C03_string_param_unchanged.

Theorem C03_bool_param_unchanged : forall fo v, num_conv fo TB v = Ok v.
Proof. exact num_conv_bool_param. Qed.
Print Assumptions C03_bool_param_unchanged.

Theorem C03_call_injected_function : forall fo (e : env fo) f fd vs,
  path_of f = [f] -> alookup f (e_inj e) = Some (HFunc fd) ->
  exec_call fo e CFunc f vs = invoke fo e fd vs.
Proof. exact call_injected_function. Qed.
Print Assumptions C03_call_injected_function.

Theorem C03_call_method : forall fo (e : env fo) n a m p fs ms fd vs,
  path_of n = [a; m] -> alookup a (e_inj e) = Some (HStruct p fs ms) -> find_method fo ms m = Some fd ->
  exec_call fo e CMethod n vs = invoke fo e fd vs.
Proof. exact call_method. Qed.
Print Assumptions C03_call_method.

(* ================= 5. injected names shadow locals ================= *)
Theorem C03_injected_name_shadows_local : forall fo (e : env fo) n o,
  path_of n = [n] -> alookup n (e_inj e) = Some o -> get_value fo e n = Ok (value_of_obj fo o).
Proof. exact injected_name_shadows_local. Qed.
Print Assumptions C03_injected_name_shadows_local.

Theorem C03_set_injected_keeps_locals : forall fo (e : env fo) n v,
  path_of n = [n] -> alookup n (e_inj e) <> None ->
  (exists c, set_value fo e n v = Err c) \/
  (exists e', set_value fo e n v = Ok e' /\ e_loc e' = e_loc e /\ e_trace e' = e_trace e).
Proof. exact set_injected_keeps_locals. Qed.
Print Assumptions C03_set_injected_keeps_locals.

Theorem C03_set_value_touches_locals_only_for_plain_local : forall fo (e : env fo) n v e',
  set_value fo e n v = Ok e' ->
  e_loc e' = e_loc e \/
  (exists a, path_of n = [a] /\ alookup a (e_inj e) = None /\ e_inj e' = e_inj e /\ e_loc e' = aset a v (e_loc e)).
Proof. exact set_value_locals. Qed.
Print Assumptions C03_set_value_touches_locals_only_for_plain_local.
