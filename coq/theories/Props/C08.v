(* Props/C08.v — property theorems only.
   C08: after ANY sequence of full builds, incremental builds and removals (and texts that
   do not compile) the installed rule set is exactly what the sequence denotes; names are
   unique; the sort model order is non-increasing in the current saliences; existence
   queries agree; a failed operation changes nothing.  Quantifiers: every finite history,
   every rule name/salience/description/body, every Go map-iteration order ([shuffle]). *)
From Coq Require Import String List ZArith Bool Permutation.
From GV Require Import Rules.KcModel Rules.KcProofs.
Import ListNotations.

Theorem C08_histories :
  forall (shuffle : nat -> list rule -> list rule),
    (forall n l, Permutation (shuffle n l) l) ->
    forall ops : list op,
      Inv (run shuffle ops) /\ (forall n, abs (run shuffle ops) n = denote ops n).
Proof. exact histories_ok. Qed.
Print Assumptions C08_histories.

Theorem C08_step_invariant :
  forall shuffle, (forall n l, Permutation (shuffle n l) l) ->
  forall k o, Inv k -> Inv (step shuffle k o) /\ (forall n, abs (step shuffle k o) n = apply_op (abs k) o n).
Proof. intros sh H k o Hk. split; [exact (step_inv sh H k o Hk) | exact (step_abs sh H k o Hk)]. Qed.
Print Assumptions C08_step_invariant.

(* names stay unique and the sort-model order is non-increasing in the CURRENT saliences *)
Theorem C08_names_unique_sorted :
  forall shuffle, (forall n l, Permutation (shuffle n l) l) ->
  forall ops, let k := run shuffle ops in
    NoDup (map rname (sorted k)) /\ sorted_desc (sorted k) /\ Permutation (sorted k) (map snd (ents k)).
Proof.
  intros sh H ops k. destruct (histories_ok sh H ops) as [Hinv _].
  split; [exact (inv_names_unique _ Hinv)|].
  destruct Hinv as (_ & _ & Hp & Hs & _). split; assumption.
Qed.
Print Assumptions C08_names_unique_sorted.

(* existence queries agree with the denoted set *)
Theorem C08_is_exist_agrees :
  forall shuffle, (forall n l, Permutation (shuffle n l) l) ->
  forall ops n, is_exist (run shuffle ops) n = true <-> denote ops n <> None.
Proof.
  intros sh H ops n. destruct (histories_ok sh H ops) as [_ Habs].
  unfold is_exist. specialize (Habs n). unfold abs in Habs. rewrite Habs.
  destruct (denote ops n); split; intro X; try congruence; try discriminate.
Qed.
Print Assumptions C08_is_exist_agrees.

(* an operation that reports an error leaves the container entirely unchanged *)
Theorem C08_error_unchanged :
  forall shuffle k o, step_err k o = true -> step shuffle k o = k.
Proof. exact err_unchanged. Qed.
Print Assumptions C08_error_unchanged.
