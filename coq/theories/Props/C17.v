(* Props/C17.v — the engine pool never runs more than its maximum number of executions, never
   loses or duplicates an instance, and a request that finds every instance busy waits and is
   served once one is handed back.  Statements only; the proofs are in Pool/Proofs.v.

   Vocabulary (Pool/Model.v): a pool state [cap] has the tags of the idle initial instances
   [free], of the idle additional instances [addl], the (request, instance) pairs in flight
   [infl], and the instances whose asynchronous hand-back has not completed yet [pend].
   [cstep s a = Some s'] — the atomic step a is enabled in s and leads to s'; [None] — not
   enabled (for [AGet]: the caller keeps waiting).  [csteps] runs a list of steps, i.e. ONE
   interleaving of the steps of any number of clients; a statement "forall acts" covers all. *)
From Coq Require Import String List ZArith Bool Permutation.
From GV Require Import Rules.KcModel Pool.Model Pool.Proofs.
Import ListNotations.

(* 0. the invariant holds initially and is preserved by every step *)
Theorem C17_invariant_initially : forall mn mx, mn <= mx -> CapInv (cap_init mn mx).
Proof. exact cap_inv_init. Qed.
Print Assumptions C17_invariant_initially.

Theorem C17_invariant_preserved : forall s a s',
  CapInv s -> cstep s a = Some s' -> CapInv s' /\ c_min s' = c_min s /\ c_max s' = c_max s.
Proof. intros s a s' HI H. split; [exact (cap_inv_step s a s' HI H)|exact (cstep_bounds s a s' H)]. Qed.
Print Assumptions C17_invariant_preserved.

Theorem C17_invariant_reachable : forall mn mx acts s,
  mn <= mx -> csteps (cap_init mn mx) acts = Some s -> CapInv s /\ c_min s = mn /\ c_max s = mx.
Proof. exact csteps_from_init. Qed.
Print Assumptions C17_invariant_reachable.

(* 1. instances are never lost or duplicated *)
Theorem C17_conservation : forall mn mx acts s,
  mn <= mx -> csteps (cap_init mn mx) acts = Some s ->
  Permutation (free s ++ addl s ++ map snd (infl s) ++ pend s) (seq 0 mx).
Proof. exact conservation. Qed.
Print Assumptions C17_conservation.

(* 2. at most max executions in flight; no instance serves two in-flight requests; no request
      holds two instances *)
Theorem C17_at_most_max : forall mn mx acts s,
  mn <= mx -> csteps (cap_init mn mx) acts = Some s ->
  length (infl s) <= mx /\ NoDup (map snd (infl s)) /\ NoDup (map fst (infl s)).
Proof. exact at_most_max. Qed.
Print Assumptions C17_at_most_max.

(* 3. a request is served exactly when some instance is idle: with all instances busy it waits *)
Theorem C17_get_enabled_iff : forall s q,
  CapInv s -> tag_of q (infl s) = None ->
  (cstep s (AGet q) <> None <-> free s ++ addl s <> []).
Proof. exact get_enabled_iff. Qed.
Print Assumptions C17_get_enabled_iff.

(* 4. the deferred hand-back of an in-flight request and the completion of a pending put are
      always enabled: nothing between Get and Done can disable the release *)
Theorem C17_release_always_enabled : forall s q t,
  CapInv s -> In (q, t) (infl s) -> exists s', cstep s (ADone q) = Some s'.
Proof. exact release_enabled. Qed.
Print Assumptions C17_release_always_enabled.

Theorem C17_put_always_enabled : forall s t,
  In t (pend s) -> exists s', cstep s (APut t) = Some s'.
Proof. exact put_enabled. Qed.
Print Assumptions C17_put_always_enabled.

(* 5. when nothing is idle some hand-back is outstanding, and a completed put makes an instance
      available: waiters can proceed *)
Theorem C17_waiters_eventually_can_proceed : forall s,
  CapInv s -> 0 < c_max s -> free s ++ addl s = [] -> infl s <> [] \/ pend s <> [].
Proof. exact busy_means_work_outstanding. Qed.
Print Assumptions C17_waiters_eventually_can_proceed.

Theorem C17_put_makes_instance_available : forall s t s',
  CapInv s -> cstep s (APut t) = Some s' -> free s' ++ addl s' <> [].
Proof. exact put_makes_available. Qed.
Print Assumptions C17_put_makes_instance_available.

(* 6. with no request in flight and no put pending the pool holds all its instances *)
Theorem C17_quiescent_pool_is_full : forall s,
  CapInv s -> infl s = [] -> pend s = [] ->
  length (free s ++ addl s) = c_max s /\ Permutation (free s ++ addl s) (seq 0 (c_max s)).
Proof. exact quiescent_full. Qed.
Print Assumptions C17_quiescent_pool_is_full.

(* 7. non-vacuity: a pool (min 1, max 2); two requests take both instances, a third is refused;
      after one is handed back a third request is served *)
Theorem C17_example_busy :
  exists s, csteps (cap_init 1 2) [AGet 7; AGet 8] = Some s /\ cstep s (AGet 9) = None.
Proof. exact cap_example_busy. Qed.
Print Assumptions C17_example_busy.
