(* Props/C17.v — the engine pool never runs more than its maximum number of executions, never
   loses or duplicates an instance, and a request that finds every instance busy waits and is
   served once one is handed back.  Statements only; the proofs are in Pool/Proofs.v.

   Vocabulary (Pool/Model.v): a pool state [cap] has the tags of the idle initial instances
   [free], of the idle additional instances [addl], the (request, instance) pairs in flight
   [infl], and the instances whose asynchronous hand-back has not completed yet [pend].
   [cstep s a = Some s'] — the atomic step a is enabled in s and leads to s'; [None] — not
   enabled (for [AGet]: the caller keeps waiting).  [csteps] runs a list of steps, i.e. ONE
   interleaving of the steps of any number of clients; a statement "forall acts" covers all. *)
From Coq Require Import String List ZArith Bool Permutation.
From GV Require Import Rules.KcModel Pool.Model Pool.Proofs.
From GV Require Pool.Progress Race.Checker Race.WaitFacts.
Import ListNotations.

(* 0. the invariant holds initially and is preserved by every step *)
Theorem C17_invariant_initially : forall mn mx, mn <= mx -> CapInv (cap_init mn mx).
Proof. exact cap_inv_init. Qed.
Print Assumptions C17_invariant_initially.

Theorem C17_invariant_preserved : forall s a s',
  CapInv s -> cstep s a = Some s' -> CapInv s' /\ c_min s' = c_min s /\ c_max s' = c_max s.
Proof. intros s a s' HI H. split; [exact (cap_inv_step s a s' HI H)|exact (cstep_bounds s a s' H)]. Qed.
Print Assumptions C17_invariant_preserved.

Theorem C17_invariant_reachable : forall mn mx acts s,
  mn <= mx -> csteps (cap_init mn mx) acts = Some s -> CapInv s /\ c_min s = mn /\ c_max s = mx.
Proof. exact csteps_from_init. Qed.
Print Assumptions C17_invariant_reachable.

(* 1. instances are never lost or duplicated *)
Theorem C17_conservation : forall mn mx acts s,
  mn <= mx -> csteps (cap_init mn mx) acts = Some s ->
  Permutation (free s ++ addl s ++ map snd (infl s) ++ pend s) (seq 0 mx).
Proof. exact conservation. Qed.
Print Assumptions C17_conservation.

(* 2. at most max executions in flight; no instance serves two in-flight requests; no request
      holds two instances *)
Theorem C17_at_most_max : forall mn mx acts s,
  mn <= mx -> csteps (cap_init mn mx) acts = Some s ->
  length (infl s) <= mx /\ NoDup (map snd (infl s)) /\ NoDup (map fst (infl s)).
Proof. exact at_most_max. Qed.
Print Assumptions C17_at_most_max.

(* 3. a request is served exactly when some instance is idle: with all instances busy it waits *)
Theorem C17_get_enabled_iff : forall s q,
  CapInv s -> tag_of q (infl s) = None ->
  (cstep s (AGet q) <> None <-> free s ++ addl s <> []).
Proof. exact get_enabled_iff. Qed.
Print Assumptions C17_get_enabled_iff.

(* 4. the deferred hand-back of an in-flight request and the completion of a pending put are
      always enabled: nothing between Get and Done can disable the release *)
Theorem C17_release_always_enabled : forall s q t,
  CapInv s -> In (q, t) (infl s) -> exists s', cstep s (ADone q) = Some s'.
Proof. exact release_enabled. Qed.
Print Assumptions C17_release_always_enabled.

Theorem C17_put_always_enabled : forall s t,
  In t (pend s) -> exists s', cstep s (APut t) = Some s'.
Proof. exact put_enabled. Qed.
Print Assumptions C17_put_always_enabled.

(* 5. when nothing is idle some hand-back is outstanding, and a completed put makes an instance
      available: waiters can proceed *)
Theorem C17_waiters_eventually_can_proceed : forall s,
  CapInv s -> 0 < c_max s -> free s ++ addl s = [] -> infl s <> [] \/ pend s <> [].
Proof. exact busy_means_work_outstanding. Qed.
Print Assumptions C17_waiters_eventually_can_proceed.

Theorem C17_put_makes_instance_available : forall s t s',
  CapInv s -> cstep s (APut t) = Some s' -> free s' ++ addl s' <> [].
Proof. exact put_makes_available. Qed.
Print Assumptions C17_put_makes_instance_available.

(* 6. with no request in flight and no put pending the pool holds all its instances *)
Theorem C17_quiescent_pool_is_full : forall s,
  CapInv s -> infl s = [] -> pend s = [] ->
  length (free s ++ addl s) = c_max s /\ Permutation (free s ++ addl s) (seq 0 (c_max s)).
Proof. exact quiescent_full. Qed.
Print Assumptions C17_quiescent_pool_is_full.

(* 7. non-vacuity: a pool (min 1, max 2); two requests take both instances, a third is refused;
      after one is handed back a third request is served *)
Theorem C17_example_busy :
  exists s, csteps (cap_init 1 2) [AGet 7; AGet 8] = Some s /\ cstep s (AGet 9) = None.
Proof. exact cap_example_busy. Qed.
Print Assumptions C17_example_busy.

(* 8. WAITING, with the locks in the picture (Pool/Progress.v): requests (isCleared ; wait for an instance holding
      nothing ; snapshot ; [read the model] ; rules, which may update the pool from inside b times ; hand-back),
      updates (updateLock ; stateLock) and queries (updateLock) as one transition system over any number of
      threads and M >= 1 instances, sync.RWMutex with writer preference.  [ts] lists where every thread is;
      the lock state is derived from it.  That the code has this shape — whoever may wait holds no mutex of the
      pool, one acquisition order, nothing acquired inside a read section — is the per-run obligation
      obligations/GenWaitOk.v on the table T2 regenerates from engine/gengine_pool.go.

      8a. in EVERY state in which some request, update or query is unfinished, somebody can move *)
Theorem C17_waiting_never_deadlocks : forall M ts,
  1 <= M -> existsb Progress.is_q2h ts = false -> Progress.all_done ts = false -> Progress.can_move M false ts = true.
Proof. exact Progress.progress. Qed.
Print Assumptions C17_waiting_never_deadlocks.

(*    8b. every step is work and the work is finite: no schedule runs for more than [total ts] steps *)
Theorem C17_no_schedule_runs_for_ever : forall M wl n ts ts',
  Progress.steps M wl n ts ts' -> n + Progress.total ts' <= Progress.total ts.
Proof. exact Progress.runs_are_bounded. Qed.
Print Assumptions C17_no_schedule_runs_for_ever.

(*    8c. hence, along ANY schedule, a run either can be continued or has served everybody — waiters included *)
Theorem C17_every_schedule_serves_everyone : forall M n ts ts',
  1 <= M -> existsb Progress.is_q2h ts = false -> Progress.steps M false n ts ts' ->
  n <= Progress.total ts /\ (Progress.all_done ts' = true \/ exists ts'', Progress.step M false ts' ts'').
Proof. exact Progress.every_schedule_serves_everyone. Qed.
Print Assumptions C17_every_schedule_serves_everyone.

Theorem C17_a_run_that_cannot_go_on_has_served_everyone : forall M n ts ts',
  1 <= M -> existsb Progress.is_q2h ts = false -> Progress.steps M false n ts ts' ->
  (forall ts'', ~ Progress.step M false ts' ts'') -> Progress.all_done ts' = true.
Proof. exact Progress.a_run_that_cannot_go_on_has_served_everyone. Qed.
Print Assumptions C17_a_run_that_cannot_go_on_has_served_everyone.

(*    8d. a waiter needs a free instance and nothing else: no lock can keep it waiting *)
Theorem C17_a_waiter_needs_only_a_free_instance : forall M ts b,
  In (Progress.Q2 b) ts -> Progress.inuse ts < M -> Progress.next M false ts (Progress.Q2 b) = [Progress.Q3 b].
Proof. exact Progress.waiter_needs_only_an_instance. Qed.
Print Assumptions C17_a_waiter_needs_only_a_free_instance.

(*    8e. the discipline matters: let the waiter hold the read lock while it waits for an instance, and one
          instance, one request whose rule updates the pool and one more request reach a state in which
          nobody can move and neither is finished; the code's system serves the same two requests *)
Theorem C17_waiter_holding_the_read_lock_deadlocks :
  exists ts, Progress.steps 1 true (length Progress.deadlock_schedule) [Progress.Q0 1; Progress.Q0 0] ts /\
             Progress.all_done ts = false /\ Progress.can_move 1 true ts = false.
Proof. exact Progress.deadlock_if_waiter_holds_rlock. Qed.
Print Assumptions C17_waiter_holding_the_read_lock_deadlocks.

Theorem C17_the_code_serves_those_requests :
  exists sched, Progress.exec 1 false [Progress.Q0 1; Progress.Q0 0] sched = Some [Progress.Q6; Progress.Q6].
Proof. exact Progress.same_requests_are_served_by_the_code. Qed.
Print Assumptions C17_the_code_serves_those_requests.

(*    8f. non-vacuity: a state with waiters, a pending writer, a reader-to-be and busy instances meets 8a's hypotheses *)
Theorem C17_progress_applies_somewhere :
  let ts := [Progress.Q2 0; Progress.Q2 1; Progress.Q3 0; Progress.QU1 2; Progress.Q0 0; Progress.P0; Progress.Q6; Progress.G0; Progress.Q3m 1] in
  existsb Progress.is_q2h ts = false /\ Progress.all_done ts = false /\ Progress.can_move 2 false ts = true.
Proof. exact Progress.progress_applies_somewhere. Qed.
Print Assumptions C17_progress_applies_somewhere.

(*    8g. the lock state derived from the program counters IS a lock state, and the instances are counted: in every state
          reachable — under either variant of the waiter — from requests, updates and queries that have not begun, at most M
          instances are in use, updateLock has at most one holder, stateLock at most one writer and no reader beside it *)
Theorem C17_lock_model_is_safe : forall M wl n ts ts',
  forallb Progress.fresh ts = true -> Progress.steps M wl n ts ts' ->
  Progress.inuse ts' <= M /\ Progress.uholders ts' <= 1 /\ Progress.writers ts' <= 1 /\ (Progress.writers ts' = 1 -> Progress.readers ts' = 0).
Proof. exact Progress.at_most_M_instances_in_use. Qed.
Print Assumptions C17_lock_model_is_safe.

(* 9. what the per-run discipline checks MEAN (Race/WaitFacts.v), for ANY table that passes them — in particular the one T2
      regenerates from engine/gengine_pool.go at every run (obligations/GenWaitOk.v):
      9a. the acquisition order has no cycle: along "held while acquiring" (directly or through calls) the rank of the mutexes
          strictly increases, so no chain of acquisitions closes — the classic sufficient condition for the mutexes alone
          never to deadlock *)
Theorem C17_acquisition_order_is_acyclic : forall cs qs, Checker.order_ok cs qs = true -> forall a, ~ WaitFacts.chain cs qs a a.
Proof. exact WaitFacts.acquisition_order_is_acyclic. Qed.
Print Assumptions C17_acquisition_order_is_acyclic.

Theorem C17_no_mutex_is_acquired_while_held : forall cs qs, Checker.order_ok cs qs = true ->
  forall q, In q (Checker.all_acqs 3 cs qs) -> ~ In (Checker.q_lock q) (WaitFacts.held_of q).
Proof. exact WaitFacts.no_self_acquisition. Qed.
Print Assumptions C17_no_mutex_is_acquired_while_held.

(*    9b. nothing is acquired inside a read section of stateLock (Progress.v: Q1 and Q4 always move) *)
Theorem C17_read_sections_acquire_nothing : forall cs qs, Checker.order_ok cs qs = true ->
  forall q, In q (Checker.all_acqs 3 cs qs) -> ~ In "R.stateLock#r"%string (WaitFacts.held_of q).
Proof. exact WaitFacts.read_sections_acquire_nothing. Qed.
Print Assumptions C17_read_sections_acquire_nothing.

(*    9c. whoever may wait — getGengine, the engine's Execute*, and their callers — is called with no mutex held
          (Progress.v: a thread in Q2 or Q5 holds no lock) *)
Theorem C17_waiters_hold_nothing : forall cs c,
  Checker.wait_ok cs = true -> In c cs -> Checker.mem (Checker.cs_callee c) (Checker.waiting 6 cs Checker.waits0) = true ->
  Checker.cs_held c = [] /\ Checker.caller_holds (Checker.cs_caller c) = [].
Proof. exact WaitFacts.waiters_hold_nothing. Qed.
Print Assumptions C17_waiters_hold_nothing.

Theorem C17_direct_callers_of_waiting_functions_wait : forall cs c,
  In c cs -> In (Checker.cs_callee c) Checker.waits0 -> Checker.mem (Checker.cs_caller c) (Checker.waiting 6 cs Checker.waits0) = true.
Proof. exact WaitFacts.direct_callers_wait. Qed.
Print Assumptions C17_direct_callers_of_waiting_functions_wait.
