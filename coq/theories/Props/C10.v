(* Props/C10.v — property theorems only.
   C10: compiling is all-or-nothing and identical across entry points.  The front end
   (ANTLR lexer, parser, listener) is a black box producing diagnostics [diag]; the theorems
   hold for every front end and every text.  That the five entry points of the CURRENT source
   are well-formed is the per-run obligation obligations/GenCompileOk.v over gen/Gen_Compile.v.
   Totality (every entry point returns normally for every byte string) is observed by the
   campaign, not proved. *)
From Coq Require Import String List Bool Arith.
From GV Require Import Rules.KcModel Compile.Model.

Theorem C10_error_leaves_everything_unchanged :
  forall shuffle e k d, ep_wf e = true -> snd (submit shuffle e k d) = true -> fst (submit shuffle e k d) = k.
Proof. exact reject_unchanged. Qed.
Print Assumptions C10_error_leaves_everything_unchanged.

Theorem C10_success_replaces_or_merges :
  forall shuffle e k d, accepts e d = true ->
    submit shuffle e k d =
    (match ep_install e with Replace => step shuffle k (Full 0 (d_rules d)) | Merge => step shuffle k (Incr 0 (d_rules d)) end, false).
Proof. exact accept_installs. Qed.
Print Assumptions C10_success_replaces_or_merges.

Theorem C10_entry_points_accept_the_same_language :
  forall e1 e2 d, ep_wf e1 = true -> ep_wf e2 = true -> accepts e1 d = accepts e2 d.
Proof. exact agree. Qed.
Print Assumptions C10_entry_points_accept_the_same_language.

Theorem C10_accepted_iff_clean :
  forall e d, ep_wf e = true -> d_blank d = false -> accepts e d = clean d.
Proof. exact wf_accept_is_clean. Qed.
Print Assumptions C10_accepted_iff_clean.

Theorem C10_duplicate_name_rejected :
  forall e d, ep_wf e = true -> 0 < d_listen d -> accepts e d = false.
Proof. exact duplicate_rejected. Qed.
Print Assumptions C10_duplicate_name_rejected.
