(* Props/C10.v — property theorems only.
   C10: compiling is all-or-nothing and identical across entry points.  The front end
   (ANTLR lexer, parser, listener) is a black box producing diagnostics [diag]; the theorems
   hold for every front end and every text.  That the five entry points of the CURRENT source
   are well-formed is the per-run obligation obligations/GenCompileOk.v over gen/Gen_Compile.v.
   Totality (every entry point returns normally for every byte string) is observed by the
   campaign, not proved. *)
From Coq Require Import String List Bool Arith.
From GV Require Import Rules.KcModel Compile.Model.

Theorem C10_error_leaves_everything_unchanged :
  forall shuffle e k d, ep_wf e = true -> snd (submit shuffle e k d) = true -> fst (submit shuffle e k d) = k.
Proof. exact reject_unchanged. Qed.
Print Assumptions C10_error_leaves_everything_unchanged.

Theorem C10_success_replaces_or_merges :
  forall shuffle e k d, accepts e d = true ->
    submit shuffle e k d =
    (match ep_install e with Replace => step shuffle k (Full 0 (d_rules d)) | Merge => step shuffle k (Incr 0 (d_rules d)) end, false).
Proof. exact accept_installs. Qed.
Print Assumptions C10_success_replaces_or_merges.

Theorem C10_entry_points_accept_the_same_language :
  forall e1 e2 d, ep_wf e1 = true -> ep_wf e2 = true -> accepts e1 d = accepts e2 d.
Proof. exact agree. Qed.
Print Assumptions C10_entry_points_accept_the_same_language.

Theorem C10_accepted_iff_clean :
  forall e d, ep_wf e = true -> d_blank d = false -> accepts e d = clean d.
Proof. exact wf_accept_is_clean. Qed.
Print Assumptions C10_accepted_iff_clean.

Theorem C10_duplicate_name_rejected :
  forall e d, ep_wf e = true -> 0 < d_listen d -> accepts e d = false.
Proof. exact duplicate_rejected. Qed.
Print Assumptions C10_duplicate_name_rejected.

(* ---------- the rule language itself (Lang/Reader.v: lexer + grammar + listener checks as a function of the text) ---------- *)
From GV Require Lang.Syntax Lang.Reader Lang.ReaderFacts.

(* a text that defines the same rule name twice is rejected: the rules of an accepted text have pairwise distinct names *)
Theorem C10_reader_rejects_duplicate_rule_names : forall reals s rs,
  Reader.read_text reals s = Reader.ROk rs -> NoDup (map (fun r => Syntax.m_name (Syntax.r_meta r)) rs).
Proof. exact ReaderFacts.read_text_names_unique. Qed.
Print Assumptions C10_reader_rejects_duplicate_rule_names.

(* an accepted text defines at least one rule, and no rule without a name *)
Theorem C10_reader_accepted_text_defines_named_rules : forall reals s rs,
  Reader.read_text reals s = Reader.ROk rs ->
  rs <> nil /\ Forall (fun r => Syntax.m_name (Syntax.r_meta r) <> EmptyString) rs.
Proof. exact ReaderFacts.read_text_nonempty. Qed.
Print Assumptions C10_reader_accepted_text_defines_named_rules.

(* every salience of an accepted text fits the int64 the rule container stores *)
Theorem C10_reader_saliences_fit_int64 : forall reals s rs,
  Reader.read_text reals s = Reader.ROk rs -> Forall (fun r => Reader.in_i64 (Syntax.m_sal (Syntax.r_meta r)) = true) rs.
Proof. exact ReaderFacts.read_text_saliences_in_range. Qed.
Print Assumptions C10_reader_saliences_fit_int64.

(* the compile MODEL is total: for every text the reader answers accept, reject or outside-the-domain — it never runs out of the
   fuel its entry points supply (a termination argument: every cycle of its mutually recursive functions consumes a token) *)
From GV Require Lang.ReaderTotal.
Theorem C10_reader_model_is_total : forall reals s, Reader.read_text reals s <> Reader.RFuel.
Proof. exact ReaderTotal.read_text_total. Qed.
Print Assumptions C10_reader_model_is_total.
