(* Props/C16.v — pool management (full / incremental update, removal, clear, execution model)
   leaves the master copy and EVERY engine instance with exactly the denoted rule set, and the
   queries answer from it.  Statements only; the proofs are in Pool/Proofs.v.

   Vocabulary (Pool/Model.v, Rules/KcModel.v): [mgmt] — master container, one container per
   instance (initial and additional), cleared flag, execution model.  [mstep shuffle s o] — the
   state after management operation o; [shuffle] stands for Go's map iteration order, an
   arbitrary permutation at every site.  [mdenote_step] — what the operation means on a triple
   (rule set as a finite map name -> rule, cleared flag, model).  [abs k] — the finite map a
   container holds.  [Inv k] — the container is consistent: unique names, sorted slice = the
   entities in descending priority order, index map = positions in the sorted slice. *)
From Coq Require Import String List ZArith Bool Permutation.
From GV Require Import Rules.KcModel Rules.KcCheck Rules.KcProofs Pool.Model Pool.Proofs Engine.IR Engine.Hand Engine.Spec Pool.Compose Pool.ComposeFacts Pool.ComposeModelFacts.
Import ListNotations.

(* 0. the invariant: master and instances consistent, every instance holds the master's rules *)
Theorem C16_invariant_meaning : forall s,
  MInv s <->
  Inv (m_master s) /\ Forall Inv (m_insts s) /\
  Forall (fun ki => forall n, abs ki n = abs (m_master s) n) (m_insts s).
Proof. intros; reflexivity. Qed.
Print Assumptions C16_invariant_meaning.

Theorem C16_invariant_initially : forall shuffle mx model rs,
  (forall n l, Permutation (shuffle n l) l) -> MInv (mgmt_init mx model rs shuffle).
Proof. intros shuffle mx model rs H. exact (minv_init shuffle H mx model rs). Qed.
Print Assumptions C16_invariant_initially.

Theorem C16_invariant_preserved : forall shuffle,
  (forall n l, Permutation (shuffle n l) l) ->
  forall s o, MInv s -> MInv (mstep shuffle s o).
Proof. exact minv_step. Qed.
Print Assumptions C16_invariant_preserved.

(* 1. after ANY sequence of management operations the master copy and every instance hold
      exactly the denoted rule set, consistently sorted, with the denoted cleared flag and
      model; the number of instances does not change *)
Theorem C16_agree : forall shuffle,
  (forall n l, Permutation (shuffle n l) l) ->
  forall mx model rs ops, compiles rs = true ->
  let s := mrun shuffle (mgmt_init mx model rs shuffle) ops in
  let '(den, cl, m) := fold_left mdenote_step ops (rs_of_list rs, false, model) in
  (forall n, abs (m_master s) n = den n) /\
  Forall (fun ki => forall n, abs ki n = den n) (m_insts s) /\
  Forall Inv (m_insts s) /\ m_clear s = cl /\ m_model s = m /\ length (m_insts s) = mx.
Proof. exact mgmt_agree. Qed.
Print Assumptions C16_agree.

Theorem C16_master_consistent : forall shuffle,
  (forall n l, Permutation (shuffle n l) l) ->
  forall mx model rs ops, compiles rs = true ->
  Inv (m_master (mrun shuffle (mgmt_init mx model rs shuffle) ops)).
Proof. exact mgmt_master_inv. Qed.
Print Assumptions C16_master_consistent.

(* 2. the queries answer from the denoted rule set; after a clear they report nothing *)
Theorem C16_queries_agree : forall shuffle,
  (forall n l, Permutation (shuffle n l) l) ->
  forall mx model rs ops, compiles rs = true ->
  let s := mrun shuffle (mgmt_init mx model rs shuffle) ops in
  let '(den, cl, m) := fold_left mdenote_step ops (rs_of_list rs, false, model) in
  (forall n,
     q_exist s n = (negb cl && match den n with Some _ => true | None => false end)%bool /\
     q_salience s n = (if cl then None else option_map rsal (den n)) /\
     q_desc s n = (if cl then None else option_map rdesc (den n))) /\
  q_number s = (if cl then 0 else length (ents (m_master s))) /\
  NoDup (map fst (ents (m_master s))).
Proof. exact mgmt_queries. Qed.
Print Assumptions C16_queries_agree.

(* 3. an update after a clear makes the pool usable again with exactly the new rules *)
Theorem C16_clear_then_incremental_restores : forall shuffle,
  (forall n l, Permutation (shuffle n l) l) ->
  forall s seed rs, compiles rs = true ->
  m_clear (mstep shuffle (mstep shuffle s MClear) (MIncr seed rs)) = false /\
  (forall n, abs (m_master (mstep shuffle (mstep shuffle s MClear) (MIncr seed rs))) n
             = rs_of_list rs n).
Proof. exact clear_then_incr. Qed.
Print Assumptions C16_clear_then_incremental_restores.

Theorem C16_clear_then_update_restores : forall shuffle,
  (forall n l, Permutation (shuffle n l) l) ->
  forall s seed rs, compiles rs = true ->
  m_clear (mstep shuffle (mstep shuffle s MClear) (MUpdate seed rs)) = false /\
  (forall n, abs (m_master (mstep shuffle (mstep shuffle s MClear) (MUpdate seed rs))) n
             = rs_of_list rs n).
Proof. exact clear_then_update. Qed.
Print Assumptions C16_clear_then_update_restores.

(* 4. an operation that reports an error changes nothing *)
Theorem C16_failed_operation_changes_nothing : forall shuffle s o,
  mstep_err s o = true -> mstep shuffle s o = s.
Proof. exact failed_op_unchanged. Qed.
Print Assumptions C16_failed_operation_changes_nothing.

(* 5. non-vacuity: two instances, rules a(10) b(5); add c(7), a bad text, remove a, set model 3,
      an invalid model; then clear *)
Theorem C16_example :
  let idsh : nat -> list rule -> list rule := fun _ l => l in
  let ra := mkRule "a" 10 "rule a" 1 in
  let rb := mkRule "b" 5 "rule b" 2 in
  let rc := mkRule "c" 7 "rule c" 3 in
  let s := mrun idsh (mgmt_init 2 1 [ra; rb] idsh)
                [MIncr 1 [rc]; MBadText true; MRemove 2 ["a"%string]; MSetModel 3; MSetModel 9] in
  map rname (sorted (m_master s)) = ["c"; "b"]%string /\
  map (fun k => map rname (sorted k)) (m_insts s) = [["c"; "b"]; ["c"; "b"]]%string /\
  q_exist s "a" = false /\ q_exist s "c" = true /\ q_number s = 2 /\
  q_salience s "c" = Some 7%Z /\ m_model s = 3 /\
  q_number (mstep idsh s MClear) = 0.
Proof. exact mgmt_example. Qed.
Print Assumptions C16_example.

(* ---------- the execution MODEL in use, made observable (Pool/Compose.v; proofs in Pool/ComposeModelFacts.v) ----------
   "the executions on every engine instance agree with the rule set AND MODEL that the sequence denotes": with a rule that
   always fails in the set, what an execution hands back depends on the model.  [expected_em_result fails s] is the result map
   Engine/Spec.v assigns to the entry point behind the *SpecifiedEM wrappers for the model of pool state s, on the container
   of s; the correspondence run compares it (Pool/Check.v code 29) with an execution forced onto every instance after
   every management operation. *)

Theorem C16_sort_model_returns_the_non_failing_rules : forall fails s x,
  m_clear s = false -> m_model s = 1 -> Inv (m_master s) -> sorted (m_master s) <> [] ->
  (In x (expected_em_result fails s) <->
   exists r, In r (sorted (m_master s)) /\ fails (rname r) = false /\ x = (rname r, rbody r)).
Proof. exact em_sort_model_returns_the_non_failing_rules. Qed.
Print Assumptions C16_sort_model_returns_the_non_failing_rules.

Theorem C16_concurrent_model_returns_the_non_failing_rules : forall fails s x,
  m_clear s = false -> m_model s = 2 -> Inv (m_master s) -> sorted (m_master s) <> [] ->
  (In x (expected_em_result fails s) <->
   exists r, In r (sorted (m_master s)) /\ fails (rname r) = false /\ x = (rname r, rbody r)).
Proof. exact em_concurrent_model_returns_the_non_failing_rules. Qed.
Print Assumptions C16_concurrent_model_returns_the_non_failing_rules.

Theorem C16_mix_model_top_failure_returns_nothing : forall fails s r rest,
  m_clear s = false -> m_model s = 3 -> sorted (m_master s) = r :: rest -> fails (rname r) = true ->
  expected_em_result fails s = [].
Proof. exact em_mix_model_top_failure_returns_nothing. Qed.
Print Assumptions C16_mix_model_top_failure_returns_nothing.

(* the check can tell the models apart: same rule set, top rule fails, another does not *)
Theorem C16_sort_and_mix_models_are_told_apart : forall fails s1 s3 r rest r',
  m_master s1 = m_master s3 -> m_clear s1 = false -> m_clear s3 = false -> m_model s1 = 1 -> m_model s3 = 3 ->
  Inv (m_master s1) -> sorted (m_master s1) = r :: rest -> fails (rname r) = true -> In r' rest -> fails (rname r') = false ->
  expected_em_result fails s1 <> expected_em_result fails s3.
Proof. exact em_sort_and_mix_differ. Qed.
Print Assumptions C16_sort_and_mix_models_are_told_apart.

Theorem C16_cleared_pool_returns_nothing_under_every_model : forall fails s, m_clear s = true -> expected_em_result fails s = [].
Proof. exact em_cleared_returns_nothing. Qed.
Print Assumptions C16_cleared_pool_returns_nothing_under_every_model.

(* non-vacuity: pd(9, fails) pa(5) pb(1): sort and concurrent return {pa, pb}, mix nothing, inverse-mix {pa} (pb, the lowest
   rule, does not run because pd failed) *)
Theorem C16_model_example :
  let rs := [mkRule "pd" 9 "v" 7; mkRule "pa" 5 "v" 7; mkRule "pb" 1 "v" 7] in
  let st m := mstep idshuffle (mgmt_init 2 1 rs idshuffle) (MSetModel m) in
  let fails n := String.eqb n "pd" in
  expected_em_result fails (st 1) = [("pa"%string, 7%Z); ("pb"%string, 7%Z)] /\
  expected_em_result fails (st 2) = [("pa"%string, 7%Z); ("pb"%string, 7%Z)] /\
  expected_em_result fails (st 3) = [] /\
  expected_em_result fails (st 4) = [("pa"%string, 7%Z)].
Proof. vm_compute. repeat split. Qed.
Print Assumptions C16_model_example.
