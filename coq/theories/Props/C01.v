(* Props/C01.v — expression semantics: operators on 64-bit integers wrap, integer division
   truncates, division by zero fails, floats promote, strings concatenate / compare
   lexicographically, integer comparison is exact over the whole 64-bit range (signed against
   unsigned included), ill-typed operands never produce a value, an expression has a value only
   if every operand had one and the operator applied; metadata constants.
   Statements only; the proofs are in Lang/OpsFacts.v and Lang/SemFacts.v.
   Every theorem holds for ALL float_ops records (and all rule metadata / literal decoders). *)
From Coq Require Import Ascii String List ZArith Bool.
From GV Require Import Lang.Value Lang.Syntax Lang.Store Lang.Sem Lang.OpsFacts Lang.SemFacts Lang.Parse Lang.ParseFacts.
Import ListNotations.
Local Open Scope Z_scope.

(* ---------- 1. the two wrap functions are reduction modulo 2^64 into the type's range ---------- *)
Theorem C01_wrap64_range : forall z, - 2 ^ 63 <= wrap64 z < 2 ^ 63.
Proof. exact wrap64_range. Qed.
Print Assumptions C01_wrap64_range.

Theorem C01_wrap64_congr : forall z, exists k, wrap64 z = z + k * 2 ^ 64.
Proof. exact wrap64_congr. Qed.
Print Assumptions C01_wrap64_congr.

Theorem C01_wrap64_id : forall z, - 2 ^ 63 <= z < 2 ^ 63 -> wrap64 z = z.
Proof. exact wrap64_id. Qed.
Print Assumptions C01_wrap64_id.

Theorem C01_uwrap64_range : forall z, 0 <= uwrap64 z < 2 ^ 64.
Proof. exact uwrap64_range. Qed.
Print Assumptions C01_uwrap64_range.

Theorem C01_uwrap64_congr : forall z, exists k, uwrap64 z = z + k * 2 ^ 64.
Proof. exact uwrap64_congr. Qed.
Print Assumptions C01_uwrap64_congr.

Theorem C01_uwrap64_id : forall z, 0 <= z < 2 ^ 64 -> uwrap64 z = z.
Proof. exact uwrap64_id. Qed.
Print Assumptions C01_uwrap64_id.

(* ---------- 2. + - * on integers: the mathematical result, wrapped ---------- *)
Theorem C01_int_arith_wraps : forall fo o k1 k2 x y, o <> ODiv ->
  arith fo o (VInt k1 x) (VInt k2 y) = Ok (VInt KI64 (wrap64 (zop o x y))).
Proof. exact int_arith_wraps. Qed.
Print Assumptions C01_int_arith_wraps.

Theorem C01_int_uint_arith_wraps : forall fo o k1 k2 x y, o <> ODiv ->
  arith fo o (VInt k1 x) (VUint k2 y) = Ok (VInt KI64 (wrap64 (zop o x y))).
Proof. exact int_uint_arith_wraps. Qed.
Print Assumptions C01_int_uint_arith_wraps.

Theorem C01_uint_int_arith_wraps : forall fo o k1 k2 x y, o <> ODiv ->
  arith fo o (VUint k1 x) (VInt k2 y) = Ok (VInt KI64 (wrap64 (zop o x y))).
Proof. exact uint_int_arith_wraps. Qed.
Print Assumptions C01_uint_int_arith_wraps.

Theorem C01_uint_arith_wraps : forall fo o k1 k2 x y, o <> ODiv ->
  arith fo o (VUint k1 x) (VUint k2 y) = Ok (VUint KU64 (uwrap64 (zop o x y))).
Proof. exact uint_arith_wraps. Qed.
Print Assumptions C01_uint_arith_wraps.

(* ---------- 3. division ---------- *)
Theorem C01_int_division_truncates : forall fo k1 k2 x y, y <> 0 ->
  arith fo ODiv (VInt k1 x) (VInt k2 y) = Ok (VInt KI64 (wrap64 (Z.quot x y))).
Proof. exact int_division_truncates. Qed.
Print Assumptions C01_int_division_truncates.

Theorem C01_uint_division : forall fo k1 k2 x y, y <> 0 ->
  arith fo ODiv (VUint k1 x) (VUint k2 y) = Ok (VUint KU64 (Z.div x y)).
Proof. exact uint_division_floor. Qed.
Print Assumptions C01_uint_division.

Theorem C01_division_by_zero_fails : forall fo (a b : value fo),
  ((exists k, b = VInt k 0) \/ (exists k, b = VUint k 0) \/
   (exists k f, b = VFloat k f /\ f_is_zero fo f = true)) ->
  arith fo ODiv a b = Err [].
Proof. exact division_by_zero_fails. Qed.
Print Assumptions C01_division_by_zero_fails.

(* ---------- 4. a float operand promotes the operation to float64 ---------- *)
Theorem C01_float_promotes : forall fo o (a b : value fo) x y,
  to_float fo a = Some x -> to_float fo b = Some y ->
  (class_of a = CFloat \/ class_of b = CFloat) ->
  (o = ODiv -> div_zero b = false) ->
  arith fo o a b = Ok (VFloat KF64 (fop fo o x y)).
Proof. exact float_promotes. Qed.
Print Assumptions C01_float_promotes.

(* ---------- 5. + on strings ---------- *)
Theorem C01_string_concat : forall fo x y,
  arith fo OAdd (VStr x) (VStr y) = Ok (@VStr fo (x ++ y)%string).
Proof. exact string_concat. Qed.
Print Assumptions C01_string_concat.

(* ---------- 6. ill-typed operands never give a value (nor a panic, nor a citation) ---------- *)
Theorem C01_illtyped_arith_never_a_value : forall fo o (a b v : value fo),
  arith fo o a b = Ok v ->
  (is_num a = true /\ is_num b = true) \/ (o = OAdd /\ exists x y, a = VStr x /\ b = VStr y).
Proof. exact illtyped_arith_never_a_value. Qed.
Print Assumptions C01_illtyped_arith_never_a_value.

Theorem C01_arith_failure_is_plain_error : forall fo o (a b : value fo),
  arith fo o a b <> Panic /\ forall c, arith fo o a b = Err c -> c = [].
Proof. intros; split; [apply arith_no_panic | apply arith_err_nil]. Qed.
Print Assumptions C01_arith_failure_is_plain_error.

(* ---------- 7. integer comparison is the mathematical one ---------- *)
Theorem C01_int_compare_exact : forall fo o (a b : value fo) x y,
  int_value a = Some x -> int_value b = Some y -> compare fo o a b = Some (zcmp o x y).
Proof. exact int_compare_exact. Qed.
Print Assumptions C01_int_compare_exact.

Theorem C01_zcmp_is_mathematical : forall o x y,
  zcmp o x y = true <->
  match o with
  | CEq => x = y | CNe => x <> y | CLt => x < y | CLe => x <= y | CGt => x > y | CGe => x >= y
  end.
Proof. exact zcmp_spec. Qed.
Print Assumptions C01_zcmp_is_mathematical.

(* ---------- 8. the other comparisons ---------- *)
Theorem C01_float_compare : forall fo o (a b : value fo) x y,
  to_float fo a = Some x -> to_float fo b = Some y ->
  (class_of a = CFloat \/ class_of b = CFloat) ->
  compare fo o a b = Some (cmp_of (feqb fo) (fltb fo) (fleb fo) o x y).
Proof. exact float_compare. Qed.
Print Assumptions C01_float_compare.

Theorem C01_string_compare : forall fo o x y,
  compare fo o (VStr x) (VStr y) = Some (cmp_of String.eqb String.ltb String.leb o x y).
Proof. exact string_compare. Qed.
Print Assumptions C01_string_compare.

Theorem C01_bool_compare : forall fo o x y,
  compare fo o (VBool x) (VBool y) =
  match o with CEq => Some (Bool.eqb x y) | CNe => Some (negb (Bool.eqb x y)) | _ => None end.
Proof. exact bool_compare. Qed.
Print Assumptions C01_bool_compare.

Theorem C01_illtyped_compare_none : forall fo o (a b : value fo) r,
  compare fo o a b = Some r ->
  (is_num a = true /\ is_num b = true) \/
  (exists x y, a = VStr x /\ b = VStr y) \/
  ((o = CEq \/ o = CNe) /\ exists x y, a = VBool x /\ b = VBool y).
Proof. exact illtyped_compare_none. Qed.
Print Assumptions C01_illtyped_compare_none.

(* ---------- 9. && || ! ---------- *)
Theorem C01_logic : forall fo o x y,
  logic fo o (VBool x) (VBool y) = Some (match o with LAnd => x && y | LOr => x || y end).
Proof. exact logic_bools. Qed.
Print Assumptions C01_logic.

Theorem C01_logic_only_bools : forall fo o (a b : value fo) r,
  logic fo o a b = Some r -> exists x y, a = VBool x /\ b = VBool y.
Proof. exact logic_some_inv. Qed.
Print Assumptions C01_logic_only_bools.

Theorem C01_not : forall fo p b, finish fo p true (VBool b) = Ok (@VBool fo (negb b)).
Proof. exact not_bool. Qed.
Print Assumptions C01_not.

Theorem C01_not_only_bools : forall fo p (v r : value fo),
  finish fo p true v = Ok r -> exists b, v = VBool b.
Proof. exact not_ok_inv. Qed.
Print Assumptions C01_not_only_bools.

(* ---------- 11. metadata constants ---------- *)
Theorem C01_metadata : forall fo meta real_of,
  konst fo meta real_of KAtName = VStr (m_name meta) /\
  konst fo meta real_of KAtDesc = VStr (m_desc meta) /\
  konst fo meta real_of KAtSal = VInt KI64 (m_sal meta) /\
  konst fo meta real_of KAtId =
    VInt KI64 (match parse_int64 (trim_spaces (m_name meta)) with Some z => z | None => 0 end).
Proof. intros; repeat split. Qed.
Print Assumptions C01_metadata.

Theorem C01_at_id_in_int64_range : forall s z, parse_int64 s = Some z -> - 2 ^ 63 <= z < 2 ^ 63.
Proof. exact parse_int64_range. Qed.
Print Assumptions C01_at_id_in_int64_range.

Theorem C01_at_id_examples :
  parse_int64 (trim_spaces "17") = Some 17 /\
  parse_int64 (trim_spaces " 42 ") = Some 42 /\
  parse_int64 (trim_spaces "-5") = Some (-5) /\
  parse_int64 (trim_spaces "x9") = None /\
  parse_int64 (trim_spaces "9223372036854775807") = Some 9223372036854775807 /\
  parse_int64 (trim_spaces "9223372036854775808") = None /\
  parse_int64 (trim_spaces "-9223372036854775808") = Some (-9223372036854775808) /\
  parse_int64 (trim_spaces "") = None /\
  parse_int64 (trim_spaces "-") = None.
Proof. exact parse_int64_examples. Qed.
Print Assumptions C01_at_id_examples.

(* ---------- 12. non-vacuity: for every float_ops record, in particular the IEEE binary64
   instance primfo (stated generically so that no primitive-float constant is assumed) ---------- *)
Theorem C01_example_add_wraps : forall fo,
  arith fo OAdd (VInt KI64 (2 ^ 63 - 1)) (VInt KI64 1) = Ok (VInt KI64 (- 2 ^ 63)).
Proof. exact ex_add_wraps. Qed.
Print Assumptions C01_example_add_wraps.

Theorem C01_example_compare_exact_above_2_53 : forall fo,
  compare fo CEq (VInt KI64 (2 ^ 53 + 1)) (VInt KI64 (2 ^ 53)) = Some false.
Proof. exact ex_compare_exact_above_2_53. Qed.
Print Assumptions C01_example_compare_exact_above_2_53.

Theorem C01_example_div_truncates : forall fo,
  arith fo ODiv (VInt KI64 (-7)) (VInt KI64 2) = Ok (VInt KI64 (-3)).
Proof. exact ex_div_truncates. Qed.
Print Assumptions C01_example_div_truncates.

Theorem C01_example_signed_below_unsigned : forall fo,
  compare fo CLt (VInt KI64 (-1)) (VUint KU64 (2 ^ 64 - 1)) = Some true.
Proof. exact ex_mixed_compare. Qed.
Print Assumptions C01_example_signed_below_unsigned.

(* ---------- 10. compositionality: an expression has a value only if every operand had one and
   the operator applied; both operands are always evaluated, the left one first; an operand's
   error is the expression's error ---------- *)
Theorem C01_arith_node_value : forall fo meta real_of p o l r e v e',
  eval_mexpr fo meta real_of (MBin p o l r) e = (Ok v, e') ->
  exists lv rv e1, eval_mexpr fo meta real_of l e = (Ok lv, e1) /\
                   eval_mexpr fo meta real_of r e1 = (Ok rv, e') /\ arith fo o lv rv = Ok v.
Proof. exact eval_mexpr_bin_ok. Qed.
Print Assumptions C01_arith_node_value.

Theorem C01_compare_node_value : forall fo meta real_of p o l r e v e',
  eval_expr fo meta real_of (ECmp p o l r) e = (Ok v, e') ->
  exists lv rv e1 b, eval_expr fo meta real_of l e = (Ok lv, e1) /\
                     eval_expr fo meta real_of r e1 = (Ok rv, e') /\
                     compare fo o lv rv = Some b /\ v = VBool b.
Proof. exact eval_expr_cmp_ok. Qed.
Print Assumptions C01_compare_node_value.

Theorem C01_logic_node_value : forall fo meta real_of p o l r e v e',
  eval_expr fo meta real_of (ELogic p o l r) e = (Ok v, e') ->
  exists lv rv e1 b, eval_expr fo meta real_of l e = (Ok lv, e1) /\
                     eval_expr fo meta real_of r e1 = (Ok rv, e') /\
                     logic fo o lv rv = Some b /\ v = VBool b.
Proof. exact eval_expr_logic_ok. Qed.
Print Assumptions C01_logic_node_value.

Theorem C01_math_node_value : forall fo meta real_of p m e v e',
  eval_expr fo meta real_of (EMath p m) e = (Ok v, e') ->
  eval_mexpr fo meta real_of m e = (Ok v, e') /\ v <> VNil.
Proof. exact eval_expr_math_ok. Qed.
Print Assumptions C01_math_node_value.

Theorem C01_paren_node_value : forall fo meta real_of p neg x e v e',
  eval_expr fo meta real_of (EParen p neg x) e = (Ok v, e') ->
  exists w, eval_expr fo meta real_of x e = (Ok w, e') /\ finish fo p neg w = Ok v.
Proof. exact eval_expr_paren_ok. Qed.
Print Assumptions C01_paren_node_value.

Theorem C01_atom_node_value : forall fo meta real_of p neg a e v e',
  eval_expr fo meta real_of (EAtom p neg a) e = (Ok v, e') ->
  exists w, eval_atom fo meta real_of a e = (Ok w, e') /\ finish fo p neg w = Ok v.
Proof. exact eval_expr_atom_ok. Qed.
Print Assumptions C01_atom_node_value.

Theorem C01_arith_node_applies_operator : forall fo meta real_of p o l r e lv e1 rv e2,
  eval_mexpr fo meta real_of l e = (Ok lv, e1) -> eval_mexpr fo meta real_of r e1 = (Ok rv, e2) ->
  eval_mexpr fo meta real_of (MBin p o l r) e = (wrap p (arith fo o lv rv), e2).
Proof. exact eval_mexpr_bin_step. Qed.
Print Assumptions C01_arith_node_applies_operator.

Theorem C01_compare_node_applies_operator : forall fo meta real_of p o l r e lv e1 rv e2,
  eval_expr fo meta real_of l e = (Ok lv, e1) -> eval_expr fo meta real_of r e1 = (Ok rv, e2) ->
  eval_expr fo meta real_of (ECmp p o l r) e =
  (match compare fo o lv rv with Some b => Ok (VBool b) | None => Err [p] end, e2).
Proof. exact eval_expr_cmp_step. Qed.
Print Assumptions C01_compare_node_applies_operator.

Theorem C01_logic_node_applies_operator : forall fo meta real_of p o l r e lv e1 rv e2,
  eval_expr fo meta real_of l e = (Ok lv, e1) -> eval_expr fo meta real_of r e1 = (Ok rv, e2) ->
  eval_expr fo meta real_of (ELogic p o l r) e =
  (match logic fo o lv rv with Some b => Ok (VBool b) | None => Err [p] end, e2).
Proof. exact eval_expr_logic_step. Qed.
Print Assumptions C01_logic_node_applies_operator.

Theorem C01_error_propagates_left : forall fo meta real_of p o l r e c e1,
  eval_mexpr fo meta real_of l e = (Err c, e1) ->
  eval_mexpr fo meta real_of (MBin p o l r) e = (Err c, e1).
Proof. exact mexpr_error_left. Qed.
Print Assumptions C01_error_propagates_left.

Theorem C01_error_propagates_right : forall fo meta real_of p o l r e lv e1 c e2,
  eval_mexpr fo meta real_of l e = (Ok lv, e1) -> eval_mexpr fo meta real_of r e1 = (Err c, e2) ->
  eval_mexpr fo meta real_of (MBin p o l r) e = (Err c, e2).
Proof. exact mexpr_error_right. Qed.
Print Assumptions C01_error_propagates_right.

Theorem C01_compare_error_propagates_left : forall fo meta real_of p o l r e c e1,
  eval_expr fo meta real_of l e = (Err c, e1) ->
  eval_expr fo meta real_of (ECmp p o l r) e = (Err c, e1).
Proof. exact cmp_error_left. Qed.
Print Assumptions C01_compare_error_propagates_left.

Theorem C01_compare_error_propagates_right : forall fo meta real_of p o l r e lv e1 c e2,
  eval_expr fo meta real_of l e = (Ok lv, e1) -> eval_expr fo meta real_of r e1 = (Err c, e2) ->
  eval_expr fo meta real_of (ECmp p o l r) e = (Err c, e2).
Proof. exact cmp_error_right. Qed.
Print Assumptions C01_compare_error_propagates_right.

Theorem C01_logic_error_propagates_left : forall fo meta real_of p o l r e c e1,
  eval_expr fo meta real_of l e = (Err c, e1) ->
  eval_expr fo meta real_of (ELogic p o l r) e = (Err c, e1).
Proof. exact logic_error_left. Qed.
Print Assumptions C01_logic_error_propagates_left.

Theorem C01_logic_error_propagates_right : forall fo meta real_of p o l r e lv e1 c e2,
  eval_expr fo meta real_of l e = (Ok lv, e1) -> eval_expr fo meta real_of r e1 = (Err c, e2) ->
  eval_expr fo meta real_of (ELogic p o l r) e = (Err c, e2).
Proof. exact logic_error_right. Qed.
Print Assumptions C01_logic_error_propagates_right.

(* ---------- 9. READING: precedence, left associativity, parentheses (Lang/Parse.v; proofs in Lang/ParseFacts.v) ----------
   `parse` is the operator-precedence reader that the correspondence check ties to the generated
   ANTLR parser on every run (same shape, or both reject).  The theorems characterise it completely:
   it returns t exactly when t prints back to the token string, is well-sorted (arithmetic operands are
   mathExpressions) and is in canonical form — every left child binds at least as tightly as its parent,
   every right child strictly tighter — and there is at most one such tree. *)
Local Close Scope Z_scope.
Local Open Scope nat_scope.

Theorem C01_operator_levels :
  level (BA OMul) = level (BA ODiv) /\ level (BA OAdd) = level (BA OSub) /\ level (BA OAdd) < level (BA OMul) /\
  (forall c a, level (BC c) < level (BA a)) /\ (forall l c, level (BL l) < level (BC c)) /\ level (BL LAnd) = level (BL LOr).
Proof.
  repeat split; try reflexivity.
  - cbn; auto.
  - intros c a; destruct a; cbn; auto.
  - intros l c; cbn; auto.
Qed.
Print Assumptions C01_operator_levels.

Theorem C01_reading_is_exactly_the_canonical_tree : forall ts t,
  parse ts = Some t <-> (print t = ts /\ canon t /\ sorted t = true).
Proof. exact parse_iff. Qed.
Print Assumptions C01_reading_is_exactly_the_canonical_tree.

Theorem C01_reading_unique : forall t1 t2, canon t1 -> canon t2 -> sorted t1 = true -> sorted t2 = true ->
  print t1 = print t2 -> t1 = t2.
Proof. exact reading_unique. Qed.
Print Assumptions C01_reading_unique.

(* x o1 y o2 z with o2 binding tighter: y belongs to o2 *)
Theorem C01_tighter_operator_binds_first : forall o1 o2 x y z, top_level x = 5 -> top_level y = 5 -> top_level z = 5 ->
  canon x -> canon y -> canon z -> level o1 < level o2 ->
  sorted (SNode o1 x (SNode o2 y z)) = true ->
  parse (print x ++ TOp o1 :: print y ++ TOp o2 :: print z) = Some (SNode o1 x (SNode o2 y z)).
Proof. exact tighter_binds_first. Qed.
Print Assumptions C01_tighter_operator_binds_first.

(* x o1 y o2 z with o2 at the same level or looser: (x o1 y) o2 z — every binary operator associates to the left *)
Theorem C01_binary_operators_associate_left : forall o1 o2 x y z, top_level x = 5 -> top_level y = 5 -> top_level z = 5 ->
  canon x -> canon y -> canon z -> level o2 <= level o1 ->
  sorted (SNode o2 (SNode o1 x y) z) = true ->
  parse (print x ++ TOp o1 :: print y ++ TOp o2 :: print z) = Some (SNode o2 (SNode o1 x y) z).
Proof. exact same_or_looser_associates_left. Qed.
Print Assumptions C01_binary_operators_associate_left.

Theorem C01_parentheses_override : forall o1 o2 x y z, canon x -> canon y -> canon z ->
  top_level x = 5 -> level o1 <= top_level y -> level o1 < top_level z ->
  sorted (SNode o2 x (SParen false (SNode o1 y z))) = true ->
  parse (print x ++ TOp o2 :: TL :: print y ++ TOp o1 :: print z ++ [TR]) = Some (SNode o2 x (SParen false (SNode o1 y z))).
Proof. exact parentheses_override. Qed.
Print Assumptions C01_parentheses_override.

(* non-vacuity: a0 + a1 * a2 < a3 && !a4 ; a0 - a1 - a2 ; (a0 + a1) * a2 ; and a sort error *)
Theorem C01_reading_examples :
  parse [TAtom 0; TOp (BA OAdd); TAtom 1; TOp (BA OMul); TAtom 2; TOp (BC CLt); TAtom 3; TOp (BL LAnd); TNot; TAtom 4]
    = Some (SNode (BL LAnd) (SNode (BC CLt) (SNode (BA OAdd) (SLeaf false 0) (SNode (BA OMul) (SLeaf false 1) (SLeaf false 2))) (SLeaf false 3)) (SLeaf true 4)) /\
  parse [TAtom 0; TOp (BA OSub); TAtom 1; TOp (BA OSub); TAtom 2] = Some (SNode (BA OSub) (SNode (BA OSub) (SLeaf false 0) (SLeaf false 1)) (SLeaf false 2)) /\
  parse [TL; TAtom 0; TOp (BA OAdd); TAtom 1; TR; TOp (BA OMul); TAtom 2] = Some (SNode (BA OMul) (SParen false (SNode (BA OAdd) (SLeaf false 0) (SLeaf false 1))) (SLeaf false 2)) /\
  parse [TL; TAtom 0; TOp (BC CLt); TAtom 1; TR; TOp (BA OAdd); TAtom 2] = None.
Proof. vm_compute. repeat split. Qed.
Print Assumptions C01_reading_examples.

(* ---------- the reading, for real texts (Lang/Reader.v) ---------- *)
From GV Require Import Lang.Lexer Lang.Reader Lang.ReaderFacts Lang.ReaderPos.

(* whatever expression the reader model returns for a token list of a text, it is Parse.parse's reading of the operand /
   operator / bracket skeleton: canonical (precedence, left associativity), well-sorted, printing back to the skeleton —
   so the theorems above about `parse` are theorems about texts *)
Theorem C01_text_expressions_are_read_by_the_grammar : forall reals ts e rest,
  read_expr reals ts = ROk (e, rest) ->
  exists x sk, parse sk = Some (rw_shape x) /\ print (rw_shape x) = sk /\ canon (rw_shape x) /\ sorted (rw_shape x) = true /\
               erel (rw_atoms x) (rw_shape x) e.
Proof. exact read_expr_is_the_reading. Qed.
Print Assumptions C01_text_expressions_are_read_by_the_grammar.

(* the tree built for a shape is that shape: same nesting, operators and negations, atom i at leaf i, MathExpression nodes
   exactly where a mathExpression can stand *)
Theorem C01_tree_of_a_reading_has_its_shape : forall atoms t ps e r,
  conv_e atoms t ps = Some (e, r) -> erel atoms t e.
Proof. exact conv_e_shape. Qed.
Print Assumptions C01_tree_of_a_reading_has_its_shape.
