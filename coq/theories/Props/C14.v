(* Props/C14.v — the stop tag: a rule that sets it ends the sequential loop after itself; when
   nothing sets it the stop-tag variants behave exactly like the plain ones.
   Statements only; the proofs are in Engine/Meaning.v. *)
From Coq Require Import String List ZArith Bool Permutation.
From GV Require Import Engine.IR Engine.Hand Engine.Spec Engine.Trace Engine.Sound Engine.TraceFacts Engine.Meaning Engine.TagFacts.
Import ListNotations.

(* 20. tag unset at the start and set by no rule: the stop-tag variant IS the plain variant
       (same stages, same error, same status, same result map) *)
Theorem C14_unset_is_identity : forall c,
  c_stop0 c = false -> (forall r, In r (c_rules c) -> estop r = false) ->
  run_prog (hand EExecuteWithStopTagDirect) c = run_prog (hand EExecute) c.
Proof. exact stoptag_unset_execute. Qed.
Print Assumptions C14_unset_is_identity.

Theorem C14_unset_is_identity_mix : forall c,
  c_stop0 c = false -> (forall r, In r (c_rules c) -> estop r = false) ->
  run_prog (hand EExecuteMixModelWithStopTagDirect) c = run_prog (hand EExecuteMixModel) c.
Proof. exact stoptag_unset_mix. Qed.
Print Assumptions C14_unset_is_identity_mix.

Theorem C14_unset_is_identity_selected : forall c,
  c_stop0 c = false -> (forall r, In r (c_rules c) -> estop r = false) ->
  run_prog (hand EExecuteSelectedRulesWithControlAndStopTag) c =
  run_prog (hand EExecuteSelectedRulesWithControl) c.
Proof. exact stoptag_unset_selected. Qed.
Print Assumptions C14_unset_is_identity_selected.

Theorem C14_unset_is_identity_selected_as_given : forall c,
  c_stop0 c = false -> (forall r, In r (c_rules c) -> estop r = false) ->
  run_prog (hand EExecuteSelectedRulesWithControlAndStopTagAsGivenSortedName) c =
  run_prog (hand EExecuteSelectedRulesWithControlAsGivenSortedName) c.
Proof. exact stoptag_unset_selected_as_given. Qed.
Print Assumptions C14_unset_is_identity_selected_as_given.

(* 21. nothing runs after the tag is set: in a sequential loop that honours the tag (started
       with the tag = s) every executed rule except the last one left the tag unset, and the tag
       was unset at the start; the executed rules are a prefix of the list *)
Theorem C14_nothing_after_tag : forall b l s,
  let p := sort_prefix b true s l in
  (forall x, In x (removelast p) -> estop x = false /\ s = false) /\
  exists rest, l = p ++ rest.
Proof. exact sort_prefix_tag_meaning. Qed.
Print Assumptions C14_nothing_after_tag.

(* ... and ExecuteWithStopTagDirect runs exactly that loop over the sorted rule list *)
Theorem C14_nothing_after_tag_execute : forall c,
  ran EExecuteWithStopTagDirect c = sort_prefix (c_b c) true (c_stop0 c) (c_rules c) /\
  (forall x, In x (removelast (ran EExecuteWithStopTagDirect c)) -> estop x = false /\ c_stop0 c = false) /\
  exists rest, c_rules c = ran EExecuteWithStopTagDirect c ++ rest.
Proof. intro c. split; [apply stoptag_ran_execute | apply stoptag_execute_meaning]. Qed.
Print Assumptions C14_nothing_after_tag_execute.

(* 22. mix model with stop tag: when the first rule succeeds and the tag is set after it, the
       concurrent stage does not run and the call succeeds *)
Theorem C14_mix_first_sets_tag : forall c r0 rest,
  c_rules c = r0 :: rest -> efail r0 = false -> (c_stop0 c || estop r0)%bool = true ->
  ran EExecuteMixModelWithStopTagDirect c = [r0] /\
  call_err EExecuteMixModelWithStopTagDirect c = false.
Proof. exact mix_first_sets_tag. Qed.
Print Assumptions C14_mix_first_sets_tag.

(* 27. THE TAG BELONGS TO THE RULES.  For every program of the IR — whatever T1 generates from engine/gengine.go: a statement
       that writes the tag is no instruction of the IR — and every configuration (rule set, flags, names, layers, initial tag):
       if the caller's tag is set when the call ends, it was set when the call started or a rule that the call RAN sets it.
       The engine never writes the tag itself; "if the tag is never set" is therefore a statement about the rules alone. *)
Theorem C14_the_engine_never_sets_the_tag : forall p c,
  final_stop p c = true -> c_stop0 c = true \/ exists r, In r (executed (o_segs (run_prog p c))) /\ estop r = true.
Proof. exact the_engine_never_sets_the_tag. Qed.
Print Assumptions C14_the_engine_never_sets_the_tag.

(*     for the entry points as they are: no tag-setting rule among the rules that ran, tag unset before => unset after *)
Theorem C14_tag_stays_unset_when_no_rule_that_ran_sets_it : forall e c,
  c_stop0 c = false -> (forall r, In r (ran e c) -> estop r = false) -> final_stop (hand e) c = false.
Proof.
  intros e c H0 Hr. destruct (final_stop (hand e) c) eqn:E; [|reflexivity].
  destruct (the_engine_never_sets_the_tag _ _ E) as [A|[r [Hin Hs]]]; [congruence|].
  unfold ran in Hr. rewrite (Hr r Hin) in Hs. discriminate.
Qed.
Print Assumptions C14_tag_stays_unset_when_no_rule_that_ran_sets_it.

(*     non-vacuity: a rule that sets the tag and runs does leave it set *)
Theorem C14_tag_is_set_by_a_rule_that_sets_it :
  final_stop (hand EExecuteWithStopTagDirect)
             (mkCfg [mkER "a" 9 false true true (Some 1%Z); mkER "b" 5 false true false (Some 2%Z)] true 0 0 [] [] false None) = true.
Proof. vm_compute. reflexivity. Qed.
Print Assumptions C14_tag_is_set_by_a_rule_that_sets_it.
