(* Props/C19.v — the lock discipline of the engine's shared state rules out data races: if every
   access to a piece of shared state follows the discipline of its guard, then no two conflicting
   accesses are unordered by happens-before, in EVERY well-formed interleaving.
   Statements only; the proofs are in Race/HB.v.  That the code follows the discipline is the
   per-run obligation on the regenerated access table (Race/Checker.v, obligations/GenLocksOk.v).

   Vocabulary (Race/HB.v): a [trace] is one sequentially consistent interleaving of events
   [(thread, op)], op among Acq/Rel (Mutex, or RWMutex write side), RAcq/RRel (RWMutex read side),
   Rd/Wr, Fork/Join; [wf_trace] — locks are acquired only when free (mutual exclusion), released
   only by a holder, a forked thread has no earlier event, a joined thread has no later event;
   [hb tr i j] — the transitive closure, on trace positions, of program order, release->acquire,
   fork->child and child->join; [holds_w tr i t m] / [holds_r tr i t m] — thread t holds the
   exclusive / shared side of m just before position i;
   [guarded_by_mutex] ~ Checker.GLock, [guarded_by_rw2] ~ Checker.GRW (and [guarded_by_rw] its
   one-lock case), [confined_or_locked] ~ Checker.GLockInGoroutines. *)
From Coq Require Import List Arith Relations.
From GV Require Import Race.HB.
Import ListNotations.

(* 1. kind GLock: every access holds the mutex *)
Theorem C19_mutex_discipline_sound : forall tr x m,
  wf_trace tr -> guarded_by_mutex tr x m ->
  forall i j, conflicting_on tr x i j -> hb tr i j.
Proof. exact mutex_discipline_sound. Qed.
Print Assumptions C19_mutex_discipline_sound.

(* 2. kind GRW, one RWMutex: writes hold the write side, reads either side *)
Theorem C19_rwmutex_discipline_sound : forall tr x m,
  wf_trace tr -> guarded_by_rw tr x m ->
  forall i j, conflicting_on tr x i j -> hb tr i j.
Proof. exact rwmutex_discipline_sound. Qed.
Print Assumptions C19_rwmutex_discipline_sound.

(* 2'. kind GRW exactly as the checker has it: writes hold the write side of rw AND the mutex m;
       reads hold rw (either side) OR m *)
Theorem C19_rw_plus_mutex_discipline_sound : forall tr x rw m,
  wf_trace tr ->
  ((forall i t, nth_error tr i = Some (t, Wr x) -> holds_w tr i t rw /\ holds_w tr i t m) /\
   (forall i t, nth_error tr i = Some (t, Rd x) ->
      holds_w tr i t rw \/ holds_r tr i t rw \/ holds_w tr i t m)) ->
  forall i j, conflicting_on tr x i j -> hb tr i j.
Proof. exact rw2_discipline_sound. Qed.
Print Assumptions C19_rw_plus_mutex_discipline_sound.

(* 3. kind GLockInGoroutines: every access holds m, except that [owner] may touch x without the
      lock before it forks, or after it has joined, every other thread that accesses x *)
Theorem C19_fork_join_confinement_sound : forall tr x m owner,
  wf_trace tr ->
  (forall i t, accesses tr i t x ->
     holds_w tr i t m \/
     (t = owner /\
      ((forall j c, c <> owner -> accesses tr j c x ->
          exists f, i < f /\ nth_error tr f = Some (owner, Fork c)) \/
       (forall j c, c <> owner -> accesses tr j c x ->
          exists f, f < i /\ nth_error tr f = Some (owner, Join c))))) ->
  forall i j, conflicting_on tr x i j -> hb tr i j.
Proof. exact fork_join_confinement_sound. Qed.
Print Assumptions C19_fork_join_confinement_sound.

(* 4. a trace all of whose variables are guarded has no unordered conflicting accesses *)
Theorem C19_race_free : forall tr (g : var -> lockid),
  wf_trace tr ->
  (forall x, guarded_by_mutex tr x (g x) \/ guarded_by_rw tr x (g x)) ->
  forall i j, conflicting tr i j -> hb tr i j.
Proof. exact race_free. Qed.
Print Assumptions C19_race_free.

(* 4'. the same with all three guard kinds of the checker *)
Theorem C19_race_free_all_kinds : forall tr,
  wf_trace tr ->
  (forall x, (exists m, guarded_by_mutex tr x m) \/
             (exists rw m, guarded_by_rw2 tr x rw m) \/
             (exists m owner, confined_or_locked tr x m owner)) ->
  ~ exists i j, conflicting tr i j /\ ~ hb tr i j.
Proof. exact no_race_all_kinds. Qed.
Print Assumptions C19_race_free_all_kinds.

(* sanity of the model: happens-before agrees with the order of the interleaving *)
Theorem C19_hb_respects_trace_order : forall tr i j, hb tr i j -> i < j.
Proof. exact hb_lt. Qed.
Print Assumptions C19_hb_respects_trace_order.

(* 5a. non-vacuity, Mutex: a parent writes under the lock, hands it over, the child reads *)
Theorem C19_example_mutex :
  let tr := [ (0, Fork 1); (0, Acq 5); (0, Wr 9); (0, Rel 5);
              (1, Acq 5); (1, Rd 9); (1, Rel 5); (0, Join 1) ] in
  wf_trace tr /\ guarded_by_mutex tr 9 5 /\ conflicting_on tr 9 2 5 /\ hb tr 2 5.
Proof. exact ex_mutex_ok. Qed.
Print Assumptions C19_example_mutex.

(* 5b. non-vacuity, RWMutex: two readers inside RLock at the same time, then a writer; each read
       is ordered before the write, the two reads are unordered (and do not conflict) *)
Theorem C19_example_rwmutex :
  let tr := [ (0, Fork 1); (0, Fork 2);
              (1, RAcq 5); (2, RAcq 5); (1, Rd 9); (2, Rd 9); (1, RRel 5); (2, RRel 5);
              (0, Acq 5); (0, Wr 9); (0, Rel 5); (0, Join 1); (0, Join 2) ] in
  wf_trace tr /\ guarded_by_rw tr 9 5 /\
  (holds_r tr 5 1 5 /\ holds_r tr 5 2 5) /\
  ~ guarded_by_mutex tr 9 5 /\
  conflicting_on tr 9 4 9 /\ conflicting_on tr 9 5 9 /\ hb tr 4 9 /\ hb tr 5 9 /\
  ~ hb tr 4 5.
Proof. exact ex_rw_ok. Qed.
Print Assumptions C19_example_rwmutex.

(* 5c. non-vacuity, fork/join confinement: the caller initialises x, two workers update it under
       the lock, the caller reads it after the joins *)
Theorem C19_example_confinement :
  let tr := [ (0, Wr 9); (0, Fork 1); (0, Fork 2);
              (1, Acq 5); (1, Wr 9); (1, Rel 5); (2, Acq 5); (2, Wr 9); (2, Rel 5);
              (0, Join 1); (0, Join 2); (0, Rd 9) ] in
  wf_trace tr /\ confined_or_locked tr 9 5 0 /\ ~ guarded_by_mutex tr 9 5 /\
  hb tr 0 4 /\ hb tr 4 7 /\ hb tr 7 11.
Proof. exact ex_confined_ok. Qed.
Print Assumptions C19_example_confinement.

(* 5d. the hypothesis matters: thread 1 writes without the lock; the trace is well formed, the
       two writes conflict and are NOT ordered by happens-before *)
Theorem C19_example_unguarded_access_races :
  let tr := [ (0, Fork 1); (0, Acq 5); (0, Wr 9); (0, Rel 5); (1, Wr 9); (0, Join 1) ] in
  wf_trace tr /\ conflicting tr 2 4 /\ ~ hb tr 2 4 /\
  (exists i j, conflicting tr i j /\ ~ hb tr i j) /\
  ~ guarded_by_mutex tr 9 5.
Proof. exact ex_racy_ok. Qed.
Print Assumptions C19_example_unguarded_access_races.

(* 5e. well-formedness is not vacuous either: interleavings that break mutual exclusion, release
       a lock they do not hold, run a thread before its fork or after its join are rejected *)
Theorem C19_example_ill_formed :
  ~ wf_trace [ (0, Acq 5); (1, Acq 5) ] /\ ~ wf_trace [ (0, RAcq 5); (1, Acq 5) ] /\
  ~ wf_trace [ (0, Acq 5); (1, RAcq 5) ] /\ ~ wf_trace [ (0, Acq 5); (1, Rel 5) ] /\
  ~ wf_trace [ (1, Rd 9); (0, Fork 1) ] /\ ~ wf_trace [ (0, Fork 1); (0, Join 1); (1, Rd 9) ].
Proof. exact ex_not_wf. Qed.
Print Assumptions C19_example_ill_formed.
