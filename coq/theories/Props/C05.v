(* Props/C05.v — the mixed models: a sequential stage and a concurrent stage (mix, inverse mix,
   N-M). Between two stages there is a barrier: in EVERY interleaving all events of the earlier
   stage precede all events of the later one; inside a concurrent stage every rule is scheduled
   exactly once and its start precedes its end.
   Statements only; the proofs are in Engine/Meaning.v.

   [Interleave (map rule_evs l) t]: t is an interleaving of the start/end pairs of the rules of l.
   [tr e c t]: t is a trace of the call under some goroutine interleaving. *)
From Coq Require Import String List ZArith Bool Permutation.
From GV Require Import Engine.IR Engine.Hand Engine.Spec Engine.Trace Engine.Sound Engine.TraceFacts Engine.Meaning.
Import ListNotations.

(* ---------------- 8. mix model: first rule alone, then the rest concurrently ---------------- *)
Theorem C05_mix : forall c r0 rest t,
  c_rules c = r0 :: rest -> tr EExecuteMixModel c t ->
  exists t2, t = rule_evs r0 ++ t2 /\
    (efail r0 = true -> t2 = [] /\ call_err EExecuteMixModel c = true) /\
    (efail r0 = false ->
     Interleave (map rule_evs rest) t2 /\ call_err EExecuteMixModel c = any_fail rest).
Proof. exact mix_meaning. Qed.
Print Assumptions C05_mix.

(* the same for the selected variant when three or more rules are selected (sorted by priority) *)
Theorem C05_mix_selected : forall c r0 r1 r2 rest' t,
  sort_desc (sel c (c_names c)) = r0 :: r1 :: r2 :: rest' ->
  tr EExecuteSelectedRulesMixModel c t ->
  let rest := r1 :: r2 :: rest' in
  exists t2, t = rule_evs r0 ++ t2 /\
    (efail r0 = true -> t2 = [] /\ call_err EExecuteSelectedRulesMixModel c = true) /\
    (efail r0 = false ->
     Interleave (map rule_evs rest) t2 /\ call_err EExecuteSelectedRulesMixModel c = any_fail rest).
Proof. exact mix_selected_meaning. Qed.
Print Assumptions C05_mix_selected.

(* ---------------- 9. inverse mix: all but the last concurrently, then the last ---------------- *)
Theorem C05_inverse_mix : forall c t,
  (3 <= length (c_rules c))%nat -> tr EExecuteInverseMixModel c t ->
  let init := removelast (c_rules c) in
  let lst := last (c_rules c) (mkER "" 0 false false false None) in
  exists t1 t2, t = t1 ++ t2 /\ Interleave (map rule_evs init) t1 /\
    (any_fail init = true -> t2 = [] /\ call_err EExecuteInverseMixModel c = true) /\
    (any_fail init = false -> t2 = rule_evs lst /\ call_err EExecuteInverseMixModel c = efail lst).
Proof. exact inverse_meaning. Qed.
Print Assumptions C05_inverse_mix.

(* one or two rules: they run one after the other, stopping at the first failure *)
Theorem C05_inverse_mix_small : forall c t,
  (1 <= length (c_rules c) <= 2)%nat -> tr EExecuteInverseMixModel c t ->
  t = flat_map rule_evs (upto_fail (c_rules c)) /\
  call_err EExecuteInverseMixModel c = any_fail (c_rules c).
Proof. exact inverse_small. Qed.
Print Assumptions C05_inverse_mix_small.

Theorem C05_inverse_mix_selected : forall c t,
  let l := sort_desc (sel c (c_names c)) in
  (3 <= length l)%nat -> tr EExecuteSelectedRulesInverseMixModel c t ->
  let init := removelast l in
  let lst := last l (mkER "" 0 false false false None) in
  exists t1 t2, t = t1 ++ t2 /\ Interleave (map rule_evs init) t1 /\
    (any_fail init = true -> t2 = [] /\ call_err EExecuteSelectedRulesInverseMixModel c = true) /\
    (any_fail init = false ->
     t2 = rule_evs lst /\ call_err EExecuteSelectedRulesInverseMixModel c = efail lst).
Proof. exact inverse_selected_meaning. Qed.
Print Assumptions C05_inverse_mix_selected.

Theorem C05_inverse_mix_selected_small : forall c t,
  let l := sort_desc (sel c (c_names c)) in
  (1 <= length l <= 2)%nat -> tr EExecuteSelectedRulesInverseMixModel c t ->
  t = flat_map rule_evs (upto_fail l) /\
  call_err EExecuteSelectedRulesInverseMixModel c = any_fail l.
Proof. exact inverse_selected_small. Qed.
Print Assumptions C05_inverse_mix_selected_small.

(* ---------------- 10. N-M: the first n rules, then the next m ---------------- *)
Theorem C05_nsort_mconc : forall c t,
  nm_valid c = true -> tr EExecuteNSortMConcurrent c t ->
  let l := c_rules c in
  let w1 := firstn (Z.to_nat (c_n c)) l in
  let w2 := firstn (Z.to_nat (c_m c)) (skipn (Z.to_nat (c_n c)) l) in
  exists t1 t2, t = t1 ++ t2 /\
    ((c_b c = true \/ any_fail w1 = false) ->
     t1 = flat_map rule_evs w1 /\ Interleave (map rule_evs w2) t2) /\
    (c_b c = false -> any_fail w1 = true ->
     t1 = flat_map rule_evs (upto_fail w1) /\ t2 = [] /\ call_err EExecuteNSortMConcurrent c = true) /\
    (c_b c = true -> call_err EExecuteNSortMConcurrent c = any_fail (w1 ++ w2)).
Proof. exact nsort_mconc_meaning. Qed.
Print Assumptions C05_nsort_mconc.

Theorem C05_nconc_msort : forall c t,
  nm_valid c = true -> tr EExecuteNConcurrentMSort c t ->
  let l := c_rules c in
  let w1 := firstn (Z.to_nat (c_n c)) l in
  let w2 := firstn (Z.to_nat (c_m c)) (skipn (Z.to_nat (c_n c)) l) in
  exists t1 t2, t = t1 ++ t2 /\ Interleave (map rule_evs w1) t1 /\
    (c_b c = true -> t2 = flat_map rule_evs w2) /\
    (c_b c = false -> any_fail w1 = false -> t2 = flat_map rule_evs (upto_fail w2)) /\
    (c_b c = false -> any_fail w1 = true -> t2 = [] /\ call_err EExecuteNConcurrentMSort c = true) /\
    (c_b c = true -> call_err EExecuteNConcurrentMSort c = any_fail (w1 ++ w2)).
Proof. exact nconc_msort_meaning. Qed.
Print Assumptions C05_nconc_msort.

Theorem C05_nconc_mconc : forall c t,
  nm_valid c = true -> tr EExecuteNConcurrentMConcurrent c t ->
  let l := c_rules c in
  let w1 := firstn (Z.to_nat (c_n c)) l in
  let w2 := firstn (Z.to_nat (c_m c)) (skipn (Z.to_nat (c_n c)) l) in
  exists t1 t2, t = t1 ++ t2 /\ Interleave (map rule_evs w1) t1 /\
    ((c_b c = true \/ any_fail w1 = false) -> Interleave (map rule_evs w2) t2) /\
    (c_b c = false -> any_fail w1 = true ->
     t2 = [] /\ call_err EExecuteNConcurrentMConcurrent c = true) /\
    (c_b c = true -> call_err EExecuteNConcurrentMConcurrent c = any_fail (w1 ++ w2)).
Proof. exact nconc_mconc_meaning. Qed.
Print Assumptions C05_nconc_mconc.

Definition nm_entries : list entry :=
  [EExecuteNSortMConcurrent; EExecuteNConcurrentMSort; EExecuteNConcurrentMConcurrent].

(* the error of a valid N-M call, all cases *)
Theorem C05_nm_err : forall e c, In e nm_entries -> nm_valid c = true ->
  let l := c_rules c in
  let w1 := firstn (Z.to_nat (c_n c)) l in
  let w2 := firstn (Z.to_nat (c_m c)) (skipn (Z.to_nat (c_n c)) l) in
  call_err e c =
  if c_b c then any_fail (w1 ++ w2) else if any_fail w1 then true else any_fail w2.
Proof. exact nm_err. Qed.
Print Assumptions C05_nm_err.

(* invalid n, m (n <= 0, m <= 0, or n + m more than the number of rules): nothing runs, error *)
Theorem C05_nm_invalid : forall e c, In e nm_entries ->
  nm_valid c = false -> ran e c = [] /\ call_err e c = true.
Proof. exact nm_invalid. Qed.
Print Assumptions C05_nm_invalid.

(* rules outside the window of the first n + m rules never run *)
Theorem C05_window_only : forall e c r, In e nm_entries ->
  nm_valid c = true -> In r (ran e c) ->
  In r (firstn (Z.to_nat (c_n c + c_m c)) (c_rules c)).
Proof. exact nm_window_only. Qed.
Print Assumptions C05_window_only.

(* the selected N-M calls are the same three shapes over the selected rules sorted by priority
   (invalid arguments: C12_nm_strict) *)
Theorem C05_nm_selected : forall c,
  nm_sel_valid c = true ->
  let l := sort_desc (sel c (c_names c)) in
  (o_segs (run_prog (hand EExecuteSelectedNSortMConcurrent) c) = fst (nm_stage SortConc c l) /\
   call_err EExecuteSelectedNSortMConcurrent c = snd (nm_stage SortConc c l)) /\
  (o_segs (run_prog (hand EExecuteSelectedNConcurrentMSort) c) = fst (nm_stage ConcSort c l) /\
   call_err EExecuteSelectedNConcurrentMSort c = snd (nm_stage ConcSort c l)) /\
  (o_segs (run_prog (hand EExecuteSelectedNConcurrentMConcurrent) c) = fst (nm_stage ConcConc c l) /\
   call_err EExecuteSelectedNConcurrentMConcurrent c = snd (nm_stage ConcConc c l)).
Proof. exact nm_selected_is_stage. Qed.
Print Assumptions C05_nm_selected.

Theorem C05_nm_selected_invalid : forall e c,
  In e [EExecuteSelectedNSortMConcurrent; EExecuteSelectedNConcurrentMSort;
        EExecuteSelectedNConcurrentMConcurrent] ->
  nm_sel_valid c = false -> ran e c = [] /\ call_err e c = true.
Proof. exact nm_selected_strict. Qed.
Print Assumptions C05_nm_selected_invalid.

(* ... where the three shapes mean, over any list l, what they mean over the rule list above *)
Theorem C05_nm_stage_sortconc : forall c l t,
  traces (fst (nm_stage SortConc c l)) t ->
  let w1 := firstn (Z.to_nat (c_n c)) l in
  let w2 := firstn (Z.to_nat (c_m c)) (skipn (Z.to_nat (c_n c)) l) in
  exists t1 t2, t = t1 ++ t2 /\
    ((c_b c = true \/ any_fail w1 = false) ->
     t1 = flat_map rule_evs w1 /\ Interleave (map rule_evs w2) t2) /\
    (c_b c = false -> any_fail w1 = true ->
     t1 = flat_map rule_evs (upto_fail w1) /\ t2 = [] /\ snd (nm_stage SortConc c l) = true) /\
    (c_b c = true -> snd (nm_stage SortConc c l) = any_fail (w1 ++ w2)).
Proof. exact nm_sortconc_meaning. Qed.
Print Assumptions C05_nm_stage_sortconc.

Theorem C05_nm_stage_concsort : forall c l t,
  traces (fst (nm_stage ConcSort c l)) t ->
  let w1 := firstn (Z.to_nat (c_n c)) l in
  let w2 := firstn (Z.to_nat (c_m c)) (skipn (Z.to_nat (c_n c)) l) in
  exists t1 t2, t = t1 ++ t2 /\ Interleave (map rule_evs w1) t1 /\
    (c_b c = true -> t2 = flat_map rule_evs w2) /\
    (c_b c = false -> any_fail w1 = false -> t2 = flat_map rule_evs (upto_fail w2)) /\
    (c_b c = false -> any_fail w1 = true -> t2 = [] /\ snd (nm_stage ConcSort c l) = true) /\
    (c_b c = true -> snd (nm_stage ConcSort c l) = any_fail (w1 ++ w2)).
Proof. exact nm_concsort_meaning. Qed.
Print Assumptions C05_nm_stage_concsort.

Theorem C05_nm_stage_concconc : forall c l t,
  traces (fst (nm_stage ConcConc c l)) t ->
  let w1 := firstn (Z.to_nat (c_n c)) l in
  let w2 := firstn (Z.to_nat (c_m c)) (skipn (Z.to_nat (c_n c)) l) in
  exists t1 t2, t = t1 ++ t2 /\ Interleave (map rule_evs w1) t1 /\
    ((c_b c = true \/ any_fail w1 = false) -> Interleave (map rule_evs w2) t2) /\
    (c_b c = false -> any_fail w1 = true -> t2 = [] /\ snd (nm_stage ConcConc c l) = true) /\
    (c_b c = true -> snd (nm_stage ConcConc c l) = any_fail (w1 ++ w2)).
Proof. exact nm_concconc_meaning. Qed.
Print Assumptions C05_nm_stage_concconc.

Theorem C05_nm_stage_err : forall k c l,
  let w1 := firstn (Z.to_nat (c_n c)) l in
  let w2 := firstn (Z.to_nat (c_m c)) (skipn (Z.to_nat (c_n c)) l) in
  snd (nm_stage k c l) =
  if c_b c then any_fail (w1 ++ w2) else if any_fail w1 then true else any_fail w2.
Proof. exact nm_stage_err. Qed.
Print Assumptions C05_nm_stage_err.

(* ---------------- 11. every entry point, every interleaving ---------------- *)
(* between any two consecutive groups of stages there is a barrier *)
Theorem C05_every_interleaving_has_barrier : forall e c t, tr e c t ->
  forall s1 s2, o_segs (run_prog (hand e) c) = s1 ++ s2 ->
  exists t1 t2, t = t1 ++ t2 /\ traces s1 t1 /\ traces s2 t2.
Proof. exact stage_barrier. Qed.
Print Assumptions C05_every_interleaving_has_barrier.

(* every executed rule is scheduled exactly once: one start and one end per executed rule *)
Theorem C05_scheduled_once : forall e c t, tr e c t ->
  Permutation t (flat_map rule_evs (ran e c)).
Proof. exact tr_perm. Qed.
Print Assumptions C05_scheduled_once.

(* a rule of a concurrent stage starts before it ends *)
Theorem C05_start_before_end : forall e c t l s1 s2,
  o_segs (run_prog (hand e) c) = s1 ++ Par l :: s2 -> tr e c t ->
  forall r, In r l -> Subseq [St (en r); En (en r)] t.
Proof. exact start_before_end. Qed.
Print Assumptions C05_start_before_end.

(* the set of traces is never empty (the statements above are not vacuous) *)
Theorem C05_some_trace_exists : forall e c, exists t, tr e c t.
Proof. intros e c. apply traces_exists. Qed.
Print Assumptions C05_some_trace_exists.
