(* Props/C07.v — rule updates applied to a pool while executions are running: an execution
   uses exactly one installed rule-set version throughout; an update that has returned is seen
   by every execution that starts afterwards; an execution never sees a version whose update
   started after the execution ended.  Statements only; the proofs are in Pool/Proofs.v.

   Vocabulary (Pool/Model.v): a history [list hev] lists events in the order of their
   linearisation points: [HUpdBegin v]/[HUpdEnd v] — call and return of the update that installs
   version v; [HInstall v] — the atomic installation (one lock held from the first store to the
   last); [HExecBegin q]/[HExecEnd q] — call and return of execution q; [HSnap q] — the single
   point, under the same lock, where q reads its instance's rule container.  [version_at h v0 q]
   — the version q's snapshot reads when v0 was installed initially.  [before a b h] — the first
   occurrence of a precedes that of b.  [installs h] — the versions installed in h, in order.
   [wf_hist v0 h]: no marker twice; versions installed in increasing order, above v0; every
   installation between its update's begin and end; every snapshot between its execution's
   begin and end.  A statement "forall h" covers every interleaving. *)
From Coq Require Import String List ZArith Bool Permutation Sorted.
From GV Require Import Rules.KcModel Pool.Model Pool.Proofs.
Import ListNotations.

(* 0. the vocabulary, restated so that a change of the definitions breaks this file *)
Theorem C07_wf_hist_meaning : forall v0 h,
  wf_hist v0 h <->
  NoDup h /\
  StronglySorted lt (v0 :: installs h) /\
  (forall v, In (HInstall v) h ->
     before (HUpdBegin v) (HInstall v) h /\ before (HInstall v) (HUpdEnd v) h) /\
  (forall q, In (HSnap q) h ->
     before (HExecBegin q) (HSnap q) h /\ before (HSnap q) (HExecEnd q) h).
Proof. intros; reflexivity. Qed.
Print Assumptions C07_wf_hist_meaning.

Theorem C07_installs_meaning : forall v h, In v (installs h) <-> In (HInstall v) h.
Proof. exact installs_in. Qed.
Print Assumptions C07_installs_meaning.

(* 1. an execution observes exactly one version (version_at is a function of the history), and
      it is the initial one or one that was installed: never a mixture *)
Theorem C07_one_version_per_execution : forall v0 h q,
  In (HSnap q) h ->
  exists w, version_at h v0 q = Some w /\ (w = v0 \/ In w (installs h)).
Proof. intros v0 h q. exact (one_version h v0 q). Qed.
Print Assumptions C07_one_version_per_execution.

(* 2. an update that returned before the execution was called is visible to it *)
Theorem C07_updates_visible_afterwards : forall v0 h q v w,
  wf_hist v0 h -> In (HInstall v) h -> before (HUpdEnd v) (HExecBegin q) h ->
  version_at h v0 q = Some w -> v <= w.
Proof. exact updates_visible. Qed.
Print Assumptions C07_updates_visible_afterwards.

(* 3. an execution that returned before the update was called does not see its version *)
Theorem C07_no_future_version : forall v0 h q v w,
  wf_hist v0 h -> In (HInstall v) h -> before (HExecEnd q) (HUpdBegin v) h ->
  version_at h v0 q = Some w -> w < v.
Proof. exact no_future_version. Qed.
Print Assumptions C07_no_future_version.

(* 4. non-vacuity: execution 1 overlaps the update to version 5 and takes its snapshot before
      the installation (sees 3); execution 2 starts after the update returned (sees 5) *)
Theorem C07_example :
  let h := [HExecBegin 1; HUpdBegin 5; HSnap 1; HInstall 5; HUpdEnd 5; HExecBegin 2; HSnap 2;
            HExecEnd 1; HExecEnd 2] in
  wf_hist 3 h /\ version_at h 3 1 = Some 3 /\ version_at h 3 2 = Some 5.
Proof. exact hist_example_ok. Qed.
Print Assumptions C07_example.
