(* Props/C07.v — rule updates applied to a pool while executions are running: an execution
   uses exactly one installed rule-set version throughout; an update that has returned is seen
   by every execution that starts afterwards; an execution never sees a version whose update
   started after the execution ended.  Statements only; the proofs are in Pool/Proofs.v.

   Vocabulary (Pool/Model.v): a history [list hev] lists events in the order of their
   linearisation points: [HUpdBegin v]/[HUpdEnd v] — call and return of the update that installs
   version v; [HInstall v] — the atomic installation (one lock held from the first store to the
   last); [HExecBegin q]/[HExecEnd q] — call and return of execution q; [HSnap q] — the single
   point, under the same lock, where q reads its instance's rule container.  [version_at h v0 q]
   — the version q's snapshot reads when v0 was installed initially.  [before a b h] — the first
   occurrence of a precedes that of b.  [installs h] — the versions installed in h, in order.
   [wf_hist v0 h]: no marker twice; versions installed in increasing order, above v0; every
   installation between its update's begin and end; every snapshot between its execution's
   begin and end.  A statement "forall h" covers every interleaving. *)
From Coq Require Import String List ZArith Bool Permutation Sorted.
From GV Require Import Rules.KcModel Rules.KcCheck Pool.Model Pool.Proofs Engine.IR Engine.Hand Engine.Spec Pool.Compose Pool.ComposeFacts.
Import ListNotations.

(* 0. the vocabulary, restated so that a change of the definitions breaks this file *)
Theorem C07_wf_hist_meaning : forall v0 h,
  wf_hist v0 h <->
  NoDup h /\
  StronglySorted lt (v0 :: installs h) /\
  (forall v, In (HInstall v) h ->
     before (HUpdBegin v) (HInstall v) h /\ before (HInstall v) (HUpdEnd v) h) /\
  (forall q, In (HSnap q) h ->
     before (HExecBegin q) (HSnap q) h /\ before (HSnap q) (HExecEnd q) h).
Proof. intros; reflexivity. Qed.
Print Assumptions C07_wf_hist_meaning.

Theorem C07_installs_meaning : forall v h, In v (installs h) <-> In (HInstall v) h.
Proof. exact installs_in. Qed.
Print Assumptions C07_installs_meaning.

(* 1. an execution observes exactly one version (version_at is a function of the history), and
      it is the initial one or one that was installed: never a mixture *)
Theorem C07_one_version_per_execution : forall v0 h q,
  In (HSnap q) h ->
  exists w, version_at h v0 q = Some w /\ (w = v0 \/ In w (installs h)).
Proof. intros v0 h q. exact (one_version h v0 q). Qed.
Print Assumptions C07_one_version_per_execution.

(* 2. an update that returned before the execution was called is visible to it *)
Theorem C07_updates_visible_afterwards : forall v0 h q v w,
  wf_hist v0 h -> In (HInstall v) h -> before (HUpdEnd v) (HExecBegin q) h ->
  version_at h v0 q = Some w -> v <= w.
Proof. exact updates_visible. Qed.
Print Assumptions C07_updates_visible_afterwards.

(* 3. an execution that returned before the update was called does not see its version *)
Theorem C07_no_future_version : forall v0 h q v w,
  wf_hist v0 h -> In (HInstall v) h -> before (HExecEnd q) (HUpdBegin v) h ->
  version_at h v0 q = Some w -> w < v.
Proof. exact no_future_version. Qed.
Print Assumptions C07_no_future_version.

(* 4. non-vacuity: execution 1 overlaps the update to version 5 and takes its snapshot before
      the installation (sees 3); execution 2 starts after the update returned (sees 5) *)
Theorem C07_example :
  let h := [HExecBegin 1; HUpdBegin 5; HSnap 1; HInstall 5; HUpdEnd 5; HExecBegin 2; HSnap 2;
            HExecEnd 1; HExecEnd 2] in
  wf_hist 3 h /\ version_at h 3 1 = Some 3 /\ version_at h 3 2 = Some 5.
Proof. exact hist_example_ok. Qed.
Print Assumptions C07_example.

(* ---------- 5. the version an execution runs, made observable (Pool/Compose.v; proofs in Pool/ComposeFacts.v) ----------
   The correspondence run evaluates [check_exec_set] on every observed execution: its returned (rule, body tag) entries must be
   the result map that the ENGINE specification (Engine/Spec.v) assigns to its entry point on the rule container of ONE version
   of the POOL model's management history (Pool/Model.v mstep), and that version must be admissible for the execution's
   interval.  These theorems say what the check establishes. *)

(* the check accepts exactly when some version k of the history is admissible and explains the whole returned map *)
Theorem C07_check_means_one_admissible_version : forall s0 ops e,
  runs_one_version s0 ops e = true <->
  exists k, k <= length ops /\ admissible ops e k = true /\
    same_entries (es_got e) (expected_result (es_shape e) (fold_left apply_obs (firstn k ops) s0)) = true.
Proof. exact runs_one_version_spec. Qed.
Print Assumptions C07_check_means_one_admissible_version.

(* admissible = the two visibility inequalities (theorems 2 and 3) read on the observed call intervals: every management call
   up to version k began before the execution ended, every later one had not returned before the execution began *)
Theorem C07_admissible_meaning : forall ops e k,
  admissible ops e k = true <->
  (forall j o, nth_error ops j = Some o ->
     (S j <= k -> oo_begin o < es_end e) /\ (k < S j -> es_begin e < oo_end o)).
Proof. exact admissible_spec. Qed.
Print Assumptions C07_admissible_meaning.

(* "explains the whole map": same entries = same set of (rule, body tag) pairs *)
Theorem C07_same_entries_meaning : forall a b, same_entries a b = true -> NoDup (map fst b) ->
  forall n t, In (n, t) a <-> In (n, t) b.
Proof. exact same_entries_spec. Qed.
Print Assumptions C07_same_entries_meaning.

(* all rules of that version and none of another: in the sort and concurrent models the expected map has one entry per rule of
   the version's container, carrying that rule's body *)
Theorem C07_sort_model_runs_the_whole_version : forall s n m names layers x,
  m_clear s = false -> Inv (m_master s) -> sorted (m_master s) <> [] ->
  (In x (expected_result (mkShape EExecute n m names layers) s) <->
   exists r, In r (sorted (m_master s)) /\ x = (rname r, rbody r)).
Proof. exact sort_model_returns_the_whole_version. Qed.
Print Assumptions C07_sort_model_runs_the_whole_version.

Theorem C07_concurrent_model_runs_the_whole_version : forall s n m names layers x,
  m_clear s = false -> Inv (m_master s) -> sorted (m_master s) <> [] ->
  (In x (expected_result (mkShape EExecuteConcurrent n m names layers) s) <->
   exists r, In r (sorted (m_master s)) /\ x = (rname r, rbody r)).
Proof. exact concurrent_model_returns_the_whole_version. Qed.
Print Assumptions C07_concurrent_model_runs_the_whole_version.

Theorem C07_cleared_pool_runs_nothing : forall sh s, m_clear s = true -> expected_result sh s = [].
Proof. exact cleared_pool_returns_nothing. Qed.
Print Assumptions C07_cleared_pool_runs_nothing.

(* non-vacuity: rules pa(9) pb(6) pc(3) at version 1; "remove pa, pc" is called at 5 and returns at 8 while an execution of the
   DAG model [[pa],[pb,pc]] runs from 2 to 12.  Returning the old version {pa,pb,pc} or the new one {pb} is accepted;
   {pa,pb} — first layer from the old version, second layer from the new one — is rejected. *)
Definition ex_rules := [mkRule "pa" 9 "v1" 1; mkRule "pb" 6 "v1" 1; mkRule "pc" 3 "v1" 1].
Definition ex_ops := [mkOO (MRemove 0 ["pa"%string; "pc"%string]) 5 8 true].
Definition ex_exec (got : list (string * Z)) :=
  mkES 1 1 (mkShape EExecuteDAGModel 1 2 [] [["pa"%string]; ["pb"%string; "pc"%string]]) got 2 12.
Theorem C07_example_torn_execution_rejected :
  let s0 := mgmt_init 2 1 ex_rules idshuffle in
  runs_one_version s0 ex_ops (ex_exec [("pa"%string, 1%Z); ("pb"%string, 1%Z); ("pc"%string, 1%Z)]) = true /\
  runs_one_version s0 ex_ops (ex_exec [("pb"%string, 1%Z)]) = true /\
  runs_one_version s0 ex_ops (ex_exec [("pa"%string, 1%Z); ("pb"%string, 1%Z)]) = false.
Proof. vm_compute. repeat split. Qed.
Print Assumptions C07_example_torn_execution_rejected.
