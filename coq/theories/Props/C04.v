(* Props/C04.v — the sort model: rules run one at a time, in descending priority order,
   each at most once; the error policy decides what happens after the first failure.
   Statements only; the proofs are in Engine/Meaning.v.

   Vocabulary: [tr e c t] — t is a start/end trace of the call of entry e in configuration c
   (for SOME goroutine interleaving; a statement "forall t, tr e c t -> ..." therefore covers
   EVERY interleaving); [call_err e c] — the call returns an error; [ran e c] — the rules the
   call executes; [upto_fail l] — the prefix of l that ends with its first failing rule. *)
From Coq Require Import String List ZArith Bool Permutation.
From GV Require Import Engine.IR Engine.Hand Engine.Spec Engine.Trace Engine.Sound Engine.TraceFacts Engine.Meaning.
Import ListNotations.

(* 1. continue-on-error: every rule runs, in the order of the sorted rule list, and the call
      returns an error exactly when some rule failed *)
Theorem C04_continue_runs_all : forall c t,
  c_rules c <> [] -> c_b c = true -> tr EExecute c t ->
  t = flat_map rule_evs (c_rules c) /\
  (call_err EExecute c = true <-> exists r, In r (c_rules c) /\ efail r = true).
Proof. exact execute_continue. Qed.
Print Assumptions C04_continue_runs_all.

(* 2. stop-on-error: the rules up to and including the first failing one run, nothing after it *)
Theorem C04_stop_at_first_failure : forall c t,
  c_rules c <> [] -> c_b c = false -> tr EExecute c t ->
  t = flat_map rule_evs (upto_fail (c_rules c)) /\
  (call_err EExecute c = true <-> exists r, In r (c_rules c) /\ efail r = true).
Proof. exact execute_stop. Qed.
Print Assumptions C04_stop_at_first_failure.

(* 3. what [upto_fail] is: a prefix of l; no rule before its last one fails; when some rule of l
      fails it is non-empty and its last rule fails; when none fails it is all of l *)
Theorem C04_upto_fail_meaning : forall l,
  (exists rest, l = upto_fail l ++ rest) /\
  (forall r, In r (removelast (upto_fail l)) -> efail r = false) /\
  (any_fail l = true ->
   upto_fail l <> [] /\
   forall d, In (last (upto_fail l) d) (upto_fail l) /\ efail (last (upto_fail l) d) = true) /\
  (any_fail l = false -> upto_fail l = l).
Proof. exact upto_fail_meaning. Qed.
Print Assumptions C04_upto_fail_meaning.

(* 4. the executed rules are in descending priority order when the rule list is *)
Theorem C04_priority_order : forall c, sorted_desc_e (c_rules c) -> sorted_desc_e (ran EExecute c).
Proof. exact execute_priority. Qed.
Print Assumptions C04_priority_order.

(* 5. each executed rule starts and ends exactly once, and the executed rules are a prefix of
      the rule list (no rule is skipped, none runs twice) *)
Theorem C04_each_once : forall c t, tr EExecute c t ->
  Permutation t (flat_map rule_evs (ran EExecute c)) /\
  exists rest, c_rules c = ran EExecute c ++ rest.
Proof. exact execute_each_once. Qed.
Print Assumptions C04_each_once.

(* 6. the selected sorted variants run the selected rules sorted by descending priority *)
Theorem C04_selected_rules : forall c t,
  let l := sort_desc (sel c (c_names c)) in
  l <> [] -> tr EExecuteSelectedRules c t ->
  t = flat_map rule_evs l /\ sorted_desc_e l /\ Permutation l (sel c (c_names c)).
Proof. exact selected_rules_meaning. Qed.
Print Assumptions C04_selected_rules.

Theorem C04_selected_with_control : forall c t,
  let l := sort_desc (sel c (c_names c)) in
  l <> [] -> tr EExecuteSelectedRulesWithControl c t ->
  t = flat_map rule_evs (if c_b c then l else upto_fail l) /\
  sorted_desc_e l /\ Permutation l (sel c (c_names c)).
Proof. exact selected_with_control_meaning. Qed.
Print Assumptions C04_selected_with_control.

(* 7. an empty rule set: nothing runs and the call returns an error *)
Theorem C04_empty_rule_set_fails : forall c,
  c_rules c = [] -> ran EExecute c = [] /\ call_err EExecute c = true.
Proof. exact execute_empty. Qed.
Print Assumptions C04_empty_rule_set_fails.
