(* Props/C18.v — conc blocks: every child runs exactly once whatever the others do, the block
   fails (after all of them) iff one of them failed, it never panics; in every interleaving
   each child has started and ended before the statement after the block starts; the effects
   of commuting children do not depend on the order they run in.
   Statements only; the proofs are in Conc/ConcBlock.v. *)
From Coq Require Import Ascii String List ZArith Bool Permutation.
From GV Require Import Lang.Value Lang.Syntax Lang.Store Lang.Sem Lang.SemFacts.
From GV Require Import Engine.Trace Engine.TraceFacts Conc.ConcBlock.
Import ListNotations.

(* ================= 10. the sequential model of the block ================= *)
(* [conc_fold cs e] = (did any child fail, the children's cites in order, final environment),
   threading the environment through [conc_child] for every child unconditionally *)
Theorem C18_conc_run_spec : forall fo meta real_of cs failed acc e,
  conc_run fo meta real_of cs failed acc e =
  (let '(f, cites, e') := conc_fold fo meta real_of cs e in
   (if failed || f then Failed (acc ++ cites) else Normal, e')).
Proof. exact conc_run_spec. Qed.
Print Assumptions C18_conc_run_spec.

Theorem C18_conc_statement : forall fo meta real_of cs e,
  exec_stmt fo meta real_of (SConc cs) e =
  (let '(f, cites, e') := conc_fold fo meta real_of cs e in (if f then Failed cites else Normal, e')).
Proof. exact conc_stmt_spec. Qed.
Print Assumptions C18_conc_statement.

(* the block fails iff some child, run in the environment its predecessors left, failed *)
Theorem C18_block_fails_iff_a_child_failed : forall fo meta real_of cs e,
  (exists cites, fst (conc_run fo meta real_of cs false [] e) = Failed cites) <->
  exists pre c post, cs = pre ++ c :: post /\
    is_ok (fst (conc_child fo meta real_of c (run_env fo meta real_of pre e))) = false.
Proof. exact block_fails_iff_a_child_failed. Qed.
Print Assumptions C18_block_fails_iff_a_child_failed.

Theorem C18_block_normal_or_failed : forall fo meta real_of cs e,
  fst (conc_run fo meta real_of cs false [] e) = Normal \/
  exists cites, fst (conc_run fo meta real_of cs false [] e) = Failed cites.
Proof. exact block_outcome. Qed.
Print Assumptions C18_block_normal_or_failed.

(* a failing child does not stop the others: the final environment is the fold over ALL children *)
Theorem C18_every_child_runs_once : forall fo meta real_of cs failed acc e,
  snd (conc_run fo meta real_of cs failed acc e) =
  fold_left (fun e c => snd (conc_child fo meta real_of c e)) cs e.
Proof. exact every_child_runs_once. Qed.
Print Assumptions C18_every_child_runs_once.

Theorem C18_conc_never_panics : forall fo meta real_of cs failed acc e,
  fst (conc_run fo meta real_of cs failed acc e) <> Panicked.
Proof. exact conc_never_panics. Qed.
Print Assumptions C18_conc_never_panics.

(* ================= 11. all interleavings ================= *)
(* [conc_traces n t]: t is an interleaving of the n children's [CStart i; CEnd i], then [After] *)
Theorem C18_join_before_next_statement : forall n t,
  conc_traces n t -> forall i, i < n -> Subseq [CStart i; CEnd i; After] t.
Proof. exact conc_join_before_next. Qed.
Print Assumptions C18_join_before_next_statement.

Theorem C18_each_child_exactly_once : forall n t,
  conc_traces n t -> Permutation t (concat (map child_evs (seq 0 n)) ++ [After]).
Proof. exact conc_each_child_once. Qed.
Print Assumptions C18_each_child_exactly_once.

Theorem C18_trace_length : forall n t, conc_traces n t -> length t = 2 * n + 1.
Proof. exact conc_trace_length. Qed.
Print Assumptions C18_trace_length.

Theorem C18_traces_exist : forall n, exists t, conc_traces n t.
Proof. exact conc_traces_exist. Qed.
Print Assumptions C18_traces_exist.

(* ================= 12. order independence for commuting children ================= *)
(* [run1 c e] = [conc_child c e]; [same_state e e'] = same injected table and same locals
   (the trace of received calls may differ) *)
Theorem C18_effects_independent_of_order : forall fo meta real_of cs,
  (forall c, In c cs -> forall e e', same_state fo e e' ->
     is_ok (fst (run1 fo meta real_of c e)) = is_ok (fst (run1 fo meta real_of c e')) /\
     same_state fo (snd (run1 fo meta real_of c e)) (snd (run1 fo meta real_of c e'))) ->
  (forall c1 c2, In c1 cs -> In c2 cs -> forall e,
     same_state fo (snd (run1 fo meta real_of c2 (snd (run1 fo meta real_of c1 e))))
                   (snd (run1 fo meta real_of c1 (snd (run1 fo meta real_of c2 e)))) /\
     is_ok (fst (run1 fo meta real_of c1 e)) = is_ok (fst (run1 fo meta real_of c1 (snd (run1 fo meta real_of c2 e)))) /\
     is_ok (fst (run1 fo meta real_of c2 e)) = is_ok (fst (run1 fo meta real_of c2 (snd (run1 fo meta real_of c1 e))))) ->
  forall cs', Permutation cs cs' -> forall e,
    let '(f, _, e1) := conc_fold fo meta real_of cs e in
    let '(f', _, e2) := conc_fold fo meta real_of cs' e in
    f = f' /\ same_state fo e1 e2.
Proof. exact effects_independent_of_order. Qed.
Print Assumptions C18_effects_independent_of_order.

(* the same for any partial equivalence R on environments (R may carry an invariant): children
   that respect R and pairwise commute up to R give R-related results in every order *)
Theorem C18_effects_independent_of_order_up_to : forall fo meta real_of (R : env fo -> env fo -> Prop),
  (forall a b, R a b -> R b a) -> (forall a b c, R a b -> R b c -> R a c) ->
  forall cs cs', Permutation cs cs' ->
  respects fo meta real_of R cs -> commute fo meta real_of R cs ->
  forall e e', R e e' ->
    any_failed fo meta real_of cs e = any_failed fo meta real_of cs' e' /\
    R (run_env fo meta real_of cs e) (run_env fo meta real_of cs' e').
Proof. exact order_independent_gen. Qed.
Print Assumptions C18_effects_independent_of_order_up_to.

(* non-vacuity: [x = z1] and [y = z2] (integer constants, distinct simple names, neither
   injected) in either order: same outcome, same injected table, same locals AS MAPS ... *)
Theorem C18_two_assignments_commute : forall fo meta real_of p1 p2 x y z1 z2 (e : env fo),
  path_of x = [x] -> path_of y = [y] -> x <> y ->
  alookup x (e_inj e) = None -> alookup y (e_inj e) = None ->
  let '(f, _, e1) := conc_fold fo meta real_of [const_asg p1 x z1; const_asg p2 y z2] e in
  let '(f', _, e2) := conc_fold fo meta real_of [const_asg p2 y z2; const_asg p1 x z1] e in
  f = f' /\ e_inj e1 = e_inj e2 /\ forall n, alookup n (e_loc e1) = alookup n (e_loc e2).
Proof. exact two_assignments_commute. Qed.
Print Assumptions C18_two_assignments_commute.

(* ... while the locals lists differ as lists (first assignments append), which is why the
   example is stated for lookups and not for the syntactic [same_state] *)
Theorem C18_two_assignments_lists_differ : forall fo meta real_of p1 p2 x y z1 z2 inj tr,
  path_of x = [x] -> path_of y = [y] -> x <> y ->
  alookup x inj = None -> alookup y inj = None ->
  e_loc (run_env fo meta real_of [const_asg p1 x z1; const_asg p2 y z2] (mkEnv inj [] tr)) =
    [(x, VInt KI64 z1); (y, VInt KI64 z2)] /\
  e_loc (run_env fo meta real_of [const_asg p2 y z2; const_asg p1 x z1] (mkEnv inj [] tr)) =
    [(y, VInt KI64 z2); (x, VInt KI64 z1)].
Proof. exact two_assignments_lists_differ. Qed.
Print Assumptions C18_two_assignments_lists_differ.

Example C18_x1_y2_primfo : forall n,
  alookup n (e_loc (snd (conc_fold primfo (mkMeta "r" "" 0) prim_of_me
     [const_asg (1, 0) "x" 1; const_asg (2, 0) "y" 2] (mkEnv [] [] [])))) =
  alookup n (e_loc (snd (conc_fold primfo (mkMeta "r" "" 0) prim_of_me
     [const_asg (2, 0) "y" 2; const_asg (1, 0) "x" 1] (mkEnv [] [] [])))).
Proof.
  intros n.
  pose proof (two_assignments_commute primfo (mkMeta "r" "" 0) prim_of_me (1, 0) (2, 0) "x" "y" 1 2
                (mkEnv [] [] []) eq_refl eq_refl ltac:(discriminate) eq_refl eq_refl) as H.
  destruct (conc_fold _ _ _ _ _) as [[f c1] e1], (conc_fold _ _ _ _ _) as [[f' c2] e2]. apply H.
Qed.
