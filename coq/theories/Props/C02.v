(* Props/C02.v — statement semantics: statements run in order and nothing runs after a
   return / break / continue / failure; if / elif / else runs exactly the first branch whose
   condition holds; `for` runs its step after a normal iteration AND after continue, break
   leaves the innermost loop only; forRange visits every key once, in order; return leaves
   every enclosing construct; compound assignment is read-modify-write; locals live in one
   flat scope; and (rule level, C11) the returned-flag comes from a return statement only.
   Statements only; the proofs are in Lang/SemFacts.v.
   Every theorem holds for ALL float_ops records, rule metadata and literal decoders. *)
From Coq Require Import Ascii String List ZArith Bool.
From GV Require Import Lang.Value Lang.Syntax Lang.Store Lang.Sem Lang.OpsFacts Lang.SemFacts.
Import ListNotations.
Local Open Scope Z_scope.

(* ---------- 13. sequencing ---------- *)
Theorem C02_statements_run_in_order : forall fo meta real_of s rest e,
  exec_stmts fo meta real_of (SCons s rest) e =
  match exec_stmt fo meta real_of s e with
  | (Normal, e') => exec_stmts fo meta real_of rest e'
  | other => other
  end.
Proof. exact exec_stmts_cons. Qed.
Print Assumptions C02_statements_run_in_order.

Theorem C02_nothing_after_non_normal : forall fo meta real_of ss more e f e',
  exec_stmts fo meta real_of ss e = (f, e') -> f <> Normal ->
  exec_stmts fo meta real_of (sapp ss more) e = (f, e').
Proof. exact nothing_after_non_normal. Qed.
Print Assumptions C02_nothing_after_non_normal.

Theorem C02_sequence_continues_after_normal : forall fo meta real_of ss more e e',
  exec_stmts fo meta real_of ss e = (Normal, e') ->
  exec_stmts fo meta real_of (sapp ss more) e = exec_stmts fo meta real_of more e'.
Proof. exact exec_stmts_app_normal. Qed.
Print Assumptions C02_sequence_continues_after_normal.

(* ---------- 14. if / elif / else ---------- *)
Theorem C02_if_first_true_branch : forall fo meta real_of c th elifs el e e',
  eval_expr fo meta real_of c e = (Ok (VBool true), e') ->
  exec_stmt fo meta real_of (SIf c th elifs el) e = exec_block fo meta real_of th e'.
Proof. exact if_true. Qed.
Print Assumptions C02_if_first_true_branch.

Theorem C02_if_false_goes_to_elifs : forall fo meta real_of c th elifs el e e',
  eval_expr fo meta real_of c e = (Ok (VBool false), e') ->
  exec_stmt fo meta real_of (SIf c th elifs el) e =
  exec_elifs fo meta real_of elifs
    (match el with Some bl => exec_block fo meta real_of bl | None => fun e => (Normal, e) end) e'.
Proof. exact if_false. Qed.
Print Assumptions C02_if_false_goes_to_elifs.

Theorem C02_elif_true_runs_its_block_only : forall fo meta real_of c b rest otherwise e e',
  eval_expr fo meta real_of c e = (Ok (VBool true), e') ->
  exec_elifs fo meta real_of (ECons c b rest) otherwise e = exec_block fo meta real_of b e'.
Proof. exact elifs_true. Qed.
Print Assumptions C02_elif_true_runs_its_block_only.

Theorem C02_elif_false_tries_the_next : forall fo meta real_of c b rest otherwise e e',
  eval_expr fo meta real_of c e = (Ok (VBool false), e') ->
  exec_elifs fo meta real_of (ECons c b rest) otherwise e = exec_elifs fo meta real_of rest otherwise e'.
Proof. exact elifs_false. Qed.
Print Assumptions C02_elif_false_tries_the_next.

Theorem C02_no_branch_true_runs_else : forall fo meta real_of el e,
  exec_elifs fo meta real_of ENil
    (match el with Some bl => exec_block fo meta real_of bl | None => fun e => (Normal, e) end) e =
  match el with Some bl => exec_block fo meta real_of bl e | None => (Normal, e) end.
Proof. exact elifs_none_true_else. Qed.
Print Assumptions C02_no_branch_true_runs_else.

Theorem C02_if_condition_failure : forall fo meta real_of c th elifs el e cs e',
  eval_expr fo meta real_of c e = (Err cs, e') ->
  exec_stmt fo meta real_of (SIf c th elifs el) e = (Failed cs, e').
Proof. exact if_condition_fails. Qed.
Print Assumptions C02_if_condition_failure.

(* ---------- 15. for ---------- *)
Theorem C02_for_is_init_then_loop : forall fo meta real_of p init c step body e,
  exec_stmt fo meta real_of (SFor p init c step body) e =
  match exec_assign fo meta real_of init e with
  | (Err cs, e1) => (Failed cs, e1)
  | (Panic, e1) => (Panicked, e1)
  | (Ok _, e1) => for_loop fo meta real_of c step (exec_block fo meta real_of body) max_execute_num e1
  end.
Proof. exact exec_stmt_for. Qed.
Print Assumptions C02_for_is_init_then_loop.

Theorem C02_for_iteration_cap : max_execute_num = Z.to_nat 10000 /\
  forall fo meta real_of c step body e,
  for_loop fo meta real_of c step body O e = (Failed [], e).
Proof. split; [reflexivity | exact for_loop_zero]. Qed.
Print Assumptions C02_for_iteration_cap.

Theorem C02_for_condition_false_ends : forall fo meta real_of c step body n e e1,
  eval_expr fo meta real_of c e = (Ok (VBool false), e1) ->
  for_loop fo meta real_of c step body (Datatypes.S n) e = (Normal, e1).
Proof. exact for_cond_false. Qed.
Print Assumptions C02_for_condition_false_ends.

Theorem C02_for_step_after_normal : forall fo meta real_of c step body n e e1 e2,
  eval_expr fo meta real_of c e = (Ok (VBool true), e1) -> body e1 = (Normal, e2) ->
  for_loop fo meta real_of c step body (Datatypes.S n) e =
  match exec_assign fo meta real_of step e2 with
  | (Ok _, e3) => for_loop fo meta real_of c step body n e3
  | (Err cs, e3) => (Failed cs, e3)
  | (Panic, e3) => (Panicked, e3)
  end.
Proof. exact for_body_normal. Qed.
Print Assumptions C02_for_step_after_normal.

Theorem C02_for_step_after_continue : forall fo meta real_of c step body n e e1 e2,
  eval_expr fo meta real_of c e = (Ok (VBool true), e1) -> body e1 = (Cont, e2) ->
  for_loop fo meta real_of c step body (Datatypes.S n) e =
  match exec_assign fo meta real_of step e2 with
  | (Ok _, e3) => for_loop fo meta real_of c step body n e3
  | (Err cs, e3) => (Failed cs, e3)
  | (Panic, e3) => (Panicked, e3)
  end.
Proof. exact for_body_continue. Qed.
Print Assumptions C02_for_step_after_continue.

Theorem C02_break_leaves_innermost_loop_only : forall fo meta real_of c step body n e e1 e2,
  eval_expr fo meta real_of c e = (Ok (VBool true), e1) -> body e1 = (Brk, e2) ->
  for_loop fo meta real_of c step body (Datatypes.S n) e = (Normal, e2).
Proof. exact for_body_break. Qed.
Print Assumptions C02_break_leaves_innermost_loop_only.

Theorem C02_loops_absorb_break_and_continue : forall fo meta real_of,
  (forall c step body n e f e',
     for_loop fo meta real_of c step body n e = (f, e') -> f <> Brk /\ f <> Cont) /\
  (forall key body ks e f e',
     range_loop fo key body ks e = (f, e') -> f <> Brk /\ f <> Cont).
Proof.
  intros; split; [apply for_loop_absorbs_break_continue | apply range_loop_absorbs_break_continue].
Qed.
Print Assumptions C02_loops_absorb_break_and_continue.

Theorem C02_for_body_failure_propagates : forall fo meta real_of c step body n e e1 e2,
  eval_expr fo meta real_of c e = (Ok (VBool true), e1) ->
  (forall cs, body e1 = (Failed cs, e2) ->
     for_loop fo meta real_of c step body (Datatypes.S n) e = (Failed cs, e2)) /\
  (body e1 = (Panicked, e2) -> for_loop fo meta real_of c step body (Datatypes.S n) e = (Panicked, e2)).
Proof. intros; split; intros; [eapply for_body_failed | eapply for_body_panicked]; eauto. Qed.
Print Assumptions C02_for_body_failure_propagates.

(* ---------- 16. forRange ---------- *)
Theorem C02_forrange_is_keys_then_loop : forall fo meta real_of p key coll body e,
  exec_stmt fo meta real_of (SForRange p key coll body) e =
  match wrap p (resolve fo e coll) with
  | Err cs => (Failed cs, e)
  | Panic => (Panicked, e)
  | Ok r =>
    match range_keys fo r with
    | None => (Failed [p], e)
    | Some ks => range_loop fo key (exec_block fo meta real_of body) ks e
    end
  end.
Proof. exact exec_stmt_forrange. Qed.
Print Assumptions C02_forrange_is_keys_then_loop.

Theorem C02_forrange_unfold : forall fo key body k ks e,
  range_loop fo key body [] e = (Normal, e) /\
  range_loop fo key body (k :: ks) e =
  match set_value fo e key k with
  | Err cs => (Failed cs, e)
  | Panic => (Panicked, e)
  | Ok e1 =>
    match body e1 with
    | (Normal, e2) | (Cont, e2) => range_loop fo key body ks e2
    | (Brk, e2) => (Normal, e2)
    | other => other
    end
  end.
Proof. intros; split; reflexivity. Qed.
Print Assumptions C02_forrange_unfold.

Theorem C02_forrange_each_key_once : forall fo key body ks e e',
  visits fo key body ks e e' -> range_loop fo key body ks e = (Normal, e').
Proof. exact forrange_each_key_once. Qed.
Print Assumptions C02_forrange_each_key_once.

Theorem C02_forrange_visits_all_keys : forall fo key body ks e,
  (forall e k, In k ks -> exists e1, set_value fo e key k = Ok e1) ->
  (forall e, fst (body e) = Normal \/ fst (body e) = Cont) ->
  exists e', visits fo key body ks e e' /\ range_loop fo key body ks e = (Normal, e').
Proof. exact forrange_total_visit. Qed.
Print Assumptions C02_forrange_visits_all_keys.

Theorem C02_forrange_break_stops : forall fo key body k ks e e1 e2,
  set_value fo e key k = Ok e1 -> body e1 = (Brk, e2) ->
  range_loop fo key body (k :: ks) e = (Normal, e2).
Proof. exact range_body_break. Qed.
Print Assumptions C02_forrange_break_stops.

Theorem C02_forrange_slice_keys : forall fo isarr et elems,
  let ks := map (fun i => @VInt fo KI (Z.of_nat i)) (seq 0 (length elems)) in
  range_keys fo (RObj (HSeq false isarr et elems)) = Some ks /\
  length ks = length elems /\ NoDup ks /\
  forall i, (i < length elems)%nat -> nth_error ks i = Some (VInt KI (Z.of_nat i)).
Proof.
  intros; repeat split;
    [apply slice_keys_length | apply slice_keys_nodup | intros; apply slice_keys_nth; assumption].
Qed.
Print Assumptions C02_forrange_slice_keys.

Theorem C02_forrange_map_keys : forall fo kt et entries,
  range_keys fo (RObj (HMap false kt et entries)) = Some (map fst entries).
Proof. exact range_keys_map. Qed.
Print Assumptions C02_forrange_map_keys.

(* ---------- 17. return from any depth ---------- *)
Theorem C02_return_leaves_block : forall fo meta real_of ss r e v e',
  exec_stmts fo meta real_of ss e = (Returned v, e') ->
  exec_block fo meta real_of (Block ss r) e = (Returned v, e').
Proof. exact block_returned_in_stmts. Qed.
Print Assumptions C02_return_leaves_block.

Theorem C02_return_leaves_statement_list : forall fo meta real_of s rest e v e',
  exec_stmt fo meta real_of s e = (Returned v, e') ->
  exec_stmts fo meta real_of (SCons s rest) e = (Returned v, e').
Proof. exact stmts_returned_head. Qed.
Print Assumptions C02_return_leaves_statement_list.

Theorem C02_return_leaves_if : forall fo meta real_of c th elifs el e e1 v e',
  eval_expr fo meta real_of c e = (Ok (VBool true), e1) ->
  exec_block fo meta real_of th e1 = (Returned v, e') ->
  exec_stmt fo meta real_of (SIf c th elifs el) e = (Returned v, e').
Proof. exact if_returned_then. Qed.
Print Assumptions C02_return_leaves_if.

Theorem C02_return_leaves_else : forall fo meta real_of c th bl e e1 v e',
  eval_expr fo meta real_of c e = (Ok (VBool false), e1) ->
  exec_block fo meta real_of bl e1 = (Returned v, e') ->
  exec_stmt fo meta real_of (SIf c th ENil (Some bl)) e = (Returned v, e').
Proof. exact if_returned_else. Qed.
Print Assumptions C02_return_leaves_else.

Theorem C02_return_leaves_elif : forall fo meta real_of c b rest otherwise e e1 v e',
  eval_expr fo meta real_of c e = (Ok (VBool true), e1) ->
  exec_block fo meta real_of b e1 = (Returned v, e') ->
  exec_elifs fo meta real_of (ECons c b rest) otherwise e = (Returned v, e').
Proof. exact elifs_returned. Qed.
Print Assumptions C02_return_leaves_elif.

Theorem C02_return_leaves_for : forall fo meta real_of c step body n e e1 e2 v,
  eval_expr fo meta real_of c e = (Ok (VBool true), e1) -> body e1 = (Returned v, e2) ->
  for_loop fo meta real_of c step body (Datatypes.S n) e = (Returned v, e2).
Proof. exact for_body_returned. Qed.
Print Assumptions C02_return_leaves_for.

Theorem C02_return_leaves_forrange : forall fo key body k ks e e1 e2 v,
  set_value fo e key k = Ok e1 -> body e1 = (Returned v, e2) ->
  range_loop fo key body (k :: ks) e = (Returned v, e2).
Proof. exact range_body_returned. Qed.
Print Assumptions C02_return_leaves_forrange.

Theorem C02_return_statement : forall fo meta real_of ss x e e1 v e2,
  exec_stmts fo meta real_of ss e = (Normal, e1) -> eval_expr fo meta real_of x e1 = (Ok v, e2) ->
  exec_block fo meta real_of (Block ss (Some (Some x))) e =
  (Returned (match v with VNil => None | _ => Some v end), e2).
Proof. exact return_stmt_value. Qed.
Print Assumptions C02_return_statement.

Theorem C02_bare_return_statement : forall fo meta real_of ss e e1,
  exec_stmts fo meta real_of ss e = (Normal, e1) ->
  exec_block fo meta real_of (Block ss (Some None)) e = (Returned None, e1).
Proof. exact return_stmt_bare. Qed.
Print Assumptions C02_bare_return_statement.

(* ---------- 18. assignment ---------- *)
Theorem C02_compound_assignment_is_read_modify_write : forall fo meta real_of p n op o m e mv e1 sv v,
  aop_of op = Some o ->
  eval_mexpr fo meta real_of m e = (Ok mv, e1) -> get_value fo e1 n = Ok sv ->
  arith fo o sv mv = Ok v ->
  exec_assign fo meta real_of (mkAsg p (TVar n) op (RMath m)) e =
  match wrap p (set_value fo e1 n v) with
  | Ok e' => (Ok tt, e')
  | Err c => (Err c, e1)
  | Panic => (Err [p], e1)
  end.
Proof. exact compound_assignment_rmw. Qed.
Print Assumptions C02_compound_assignment_is_read_modify_write.

Theorem C02_compound_assignment_all_outcomes : forall fo meta real_of p n op o m e mv e1,
  aop_of op = Some o ->
  eval_mexpr fo meta real_of m e = (Ok mv, e1) ->
  exec_assign fo meta real_of (mkAsg p (TVar n) op (RMath m)) e =
  match get_value fo e1 n with
  | Ok sv =>
    match arith fo o sv mv with
    | Ok v => match set_value fo e1 n v with
              | Ok e' => (Ok tt, e') | Err c => (Err (p :: c), e1) | Panic => (Err [p], e1) end
    | Err c => (Err (p :: c), e1)
    | Panic => (Err [p], e1)
    end
  | Err c => (Err (p :: c), e1)
  | Panic => (Err [p], e1)
  end.
Proof. exact compound_assignment_read_fails. Qed.
Print Assumptions C02_compound_assignment_all_outcomes.

Theorem C02_plain_assignment_stores_the_value : forall fo meta real_of p n op r e mv e1,
  aop_of op = None ->
  eval_rhs fo meta real_of r e = (Ok mv, e1) ->
  exec_assign fo meta real_of (mkAsg p (TVar n) op r) e =
  match wrap p (set_value fo e1 n mv) with
  | Ok e' => (Ok tt, e')
  | Err c => (Err c, e1)
  | Panic => (Err [p], e1)
  end.
Proof. exact plain_assignment_stores. Qed.
Print Assumptions C02_plain_assignment_stores_the_value.

Theorem C02_assignment_operators : aop_of AsSet = None /\ aop_of AsDef = None /\
  aop_of AsAdd = Some OAdd /\ aop_of AsSub = Some OSub /\ aop_of AsMul = Some OMul /\ aop_of AsDiv = Some ODiv.
Proof. repeat split. Qed.
Print Assumptions C02_assignment_operators.

(* ---------- 19. locals live in one flat map, whatever the block nesting ---------- *)
Theorem C02_local_scope_is_flat : forall fo (e : env fo) n v,
  path_of n = [n] -> alookup n (e_inj e) = None ->
  let e' := mkEnv (e_inj e) (aset n v (e_loc e)) (e_trace e) in
  set_value fo e n v = Ok e' /\
  get_value fo e' n = Ok v /\
  (forall n', n' <> n -> alookup n' (e_loc e') = alookup n' (e_loc e)) /\
  (forall n', n' <> n -> path_of n' = [n'] -> get_value fo e' n' = get_value fo e n').
Proof.
  intros; repeat split;
    [ apply set_local | apply get_after_set_local
    | intros; apply alookup_aset_other | intros; apply get_other_after_set_local ]; assumption.
Qed.
Print Assumptions C02_local_scope_is_flat.

(* ---------- 20. rule level (C11): the returned-flag ---------- *)
Theorem C11_flag_only_from_return : forall fo meta real_of b, has_return_block b = false ->
  forall e f e', exec_block fo meta real_of b e = (f, e') -> forall v, f <> Returned v.
Proof. exact flag_only_from_return. Qed.
Print Assumptions C11_flag_only_from_return.

Theorem C11_failed_return_is_not_returned : forall fo meta real_of ss x e e1 c e2,
  exec_stmts fo meta real_of ss e = (Normal, e1) -> eval_expr fo meta real_of x e1 = (Err c, e2) ->
  exec_block fo meta real_of (Block ss (Some (Some x))) e = (Failed c, e2).
Proof. exact failed_return_is_not_returned. Qed.
Print Assumptions C11_failed_return_is_not_returned.

Theorem C11_panicking_return_is_not_returned : forall fo meta real_of ss x e e1 e2,
  exec_stmts fo meta real_of ss e = (Normal, e1) -> eval_expr fo meta real_of x e1 = (Panic, e2) ->
  exec_block fo meta real_of (Block ss (Some (Some x))) e = (Panicked, e2).
Proof. exact panicking_return_is_not_returned. Qed.
Print Assumptions C11_panicking_return_is_not_returned.

Theorem C11_rule_reports_result_iff_returned : forall fo meta real_of contained body inj tr v,
  fst (exec_rule fo meta real_of contained body inj tr) = RRReturn v <->
  fst (exec_block fo meta real_of body (mkEnv inj [] tr)) = Returned v.
Proof. exact rule_return_iff. Qed.
Print Assumptions C11_rule_reports_result_iff_returned.

Theorem C11_rule_without_return_never_reports : forall fo meta real_of contained body inj tr v,
  has_return_block body = false ->
  fst (exec_rule fo meta real_of contained body inj tr) <> RRReturn v.
Proof.
  intros fo meta real_of contained body inj tr v H E. apply rule_return_iff in E.
  destruct (exec_block fo meta real_of body (mkEnv inj [] tr)) as [f e'] eqn:B.
  exact (flag_only_from_return fo meta real_of body H _ _ _ B v E).
Qed.
Print Assumptions C11_rule_without_return_never_reports.
