(* Props/C09.v — rule faults are contained: a panic inside a rule body never leaves the rule
   (it becomes the rule's error), evaluation always terminates (the `for` cap), the engine
   entry points return nil or an error and never crash, later calls are unaffected, and each
   child of a conc block contains its own panic.
   Statements only; proofs in Conc/ConcBlock.v, Lang/SemFacts.v and Engine/Sound.v. *)
From Coq Require Import Ascii String List ZArith Bool.
From GV Require Import Lang.Value Lang.Syntax Lang.Store Lang.Sem Lang.SemFacts Conc.ConcBlock.
From GV Require Import Engine.IR Engine.Hand Engine.Spec Engine.Sound.
Import ListNotations.

(* 6. with the recover at the rule entry point the model never lets a panic out ... *)
Theorem C09_rule_never_panics : forall fo meta real_of body inj tr,
  fst (exec_rule fo meta real_of true body inj tr) <> RRPanic.
Proof. exact rule_never_panics. Qed.
Print Assumptions C09_rule_never_panics.

(* ... and it is that recover which contains it: the body [if 5 { }] panics without it
   (for every float instance, every metadata, every injected table) *)
Theorem C09_uncontained_can_panic : forall fo meta real_of p inj tr,
  fst (exec_rule fo meta real_of false
         (Block (SCons (SIf (EMath p (MAtom p (AConst (KInt 5)))) (Block SNil None) ENil None) SNil) None)
         inj tr) = RRPanic.
Proof. exact uncontained_can_panic. Qed.
Print Assumptions C09_uncontained_can_panic.

Theorem C09_contained_same_body_is_error : forall fo meta real_of p inj tr,
  fst (exec_rule fo meta real_of true
         (Block (SCons (SIf (EMath p (MAtom p (AConst (KInt 5)))) (Block SNil None) ENil None) SNil) None)
         inj tr) = RRError [].
Proof. exact contained_same_body_is_error. Qed.
Print Assumptions C09_contained_same_body_is_error.

(* the same with the primitive-float instance the model is run with *)
Example C09_uncontained_can_panic_primfo :
  fst (exec_rule primfo (mkMeta "r" "" 0) prim_of_me false
         (Block (SCons (SIf (EMath (1, 0)%nat (MAtom (1, 3)%nat (AConst (KInt 5)))) (Block SNil None) ENil None) SNil) None)
         [] []) = RRPanic.
Proof. exact (uncontained_can_panic primfo (mkMeta "r" "" 0) prim_of_me (1, 0)%nat [] []). Qed.

(* 7. every model function is a total function: termination is by construction *)
Theorem C09_evaluation_is_total : forall fo meta real_of c body inj tr,
  exists r e, exec_rule fo meta real_of c body inj tr = (r, e).
Proof. exact evaluation_is_total. Qed.
Print Assumptions C09_evaluation_is_total.

Theorem C09_for_loop_cut_off : forall fo meta real_of c step body e,
  for_loop fo meta real_of c step body 0 e = (Failed [], e).
Proof. exact for_loop_cut_off. Qed.
Print Assumptions C09_for_loop_cut_off.

Theorem C09_max_execute_num : max_execute_num = Z.to_nat 10000.
Proof. reflexivity. Qed.
Print Assumptions C09_max_execute_num.

(* a `for` statement starts its loop with exactly that much fuel *)
Theorem C09_for_statement_fuel : forall fo meta real_of p init c step body e,
  exec_stmt fo meta real_of (SFor p init c step body) e =
  match exec_assign fo meta real_of init e with
  | (Err cs, e1) => (Failed cs, e1)
  | (Panic, e1) => (Panicked, e1)
  | (Ok _, e1) => for_loop fo meta real_of c step (exec_block fo meta real_of body) max_execute_num e1
  end.
Proof. exact exec_stmt_for. Qed.
Print Assumptions C09_for_statement_fuel.

(* one unit of fuel = at most one evaluation of the condition, one execution of the body and
   one of the step; then the loop goes on with one unit less *)
Theorem C09_for_loop_step : forall fo meta real_of c step body fuel e,
  for_loop fo meta real_of c step body (Datatypes.S fuel) e =
  on_cond fo meta real_of c (fun b =>
    if b then
      fun e => match body e with
               | (Normal, e') | (Cont, e') =>
                 (match exec_assign fo meta real_of step e' with
                  | (Ok _, e'') => for_loop fo meta real_of c step body fuel e''
                  | (Err cs, e'') => (Failed cs, e'')
                  | (Panic, e'') => (Panicked, e'')
                  end)
               | (Brk, e') => (Normal, e')
               | other => other
               end
    else fun e => (Normal, e)) e.
Proof. exact for_loop_step. Qed.
Print Assumptions C09_for_loop_step.

(* [for_iters] (Conc/ConcBlock.v) counts the condition evaluations of [for_loop] along the
   same recursion: never more than the fuel, hence never more than 10000 in a statement *)
Theorem C09_for_iterations_bounded : forall fo meta real_of c step body fuel e,
  (for_iters fo meta real_of c step body fuel e <= fuel)%nat.
Proof. exact for_iters_le_fuel. Qed.
Print Assumptions C09_for_iterations_bounded.

Theorem C09_for_statement_bounded : forall fo meta real_of c step body e,
  (Z.of_nat (for_iters fo meta real_of c step body max_execute_num e) <= 10000)%Z.
Proof. exact for_stmt_bounded. Qed.
Print Assumptions C09_for_statement_bounded.

(* 8. engine level *)
Theorem C09_engine_call_never_crashes : forall e c,
  o_stat (run_prog (hand e) c) = RetNil \/ o_stat (run_prog (hand e) c) = RetErr.
Proof. exact hand_never_crashes. Qed.
Print Assumptions C09_engine_call_never_crashes.

(* the other rules run exactly as the model's error policy prescribes *)
Theorem C09_engine_error_iff_policy : forall e c, run_prog (hand e) c = spec_outcome e c.
Proof. exact hand_sound. Qed.
Print Assumptions C09_engine_error_iff_policy.

Theorem C09_later_calls_unaffected : forall e c p,
  run_prog (hand e) (with_prev c p) = run_prog (hand e) c.
Proof. exact hand_prev_irrelevant. Qed.
Print Assumptions C09_later_calls_unaffected.

Theorem C09_later_calls_no_stale_results : forall e c p,
  o_map (run_prog (hand e) (mkCfg (c_rules c) (c_b c) (c_n c) (c_m c) (c_names c) (c_layers c) (c_stop0 c) p)) =
  o_map (run_prog (hand e) c).
Proof. exact hand_no_stale. Qed.
Print Assumptions C09_later_calls_no_stale_results.

(* 9. the children of a conc block: an assignment or a call, both of which recover *)
Theorem C09_conc_children_contained : forall fo meta real_of c e,
  fst (conc_child fo meta real_of c e) <> Panic.
Proof. exact conc_child_no_panic. Qed.
Print Assumptions C09_conc_children_contained.

Theorem C09_assignment_contained : forall fo meta real_of a e,
  fst (exec_assign fo meta real_of a e) <> Panic.
Proof. exact exec_assign_no_panic. Qed.
Print Assumptions C09_assignment_contained.

Theorem C09_call_contained : forall fo meta real_of c e,
  fst (eval_call fo meta real_of c e) <> Panic.
Proof. exact eval_call_no_panic. Qed.
Print Assumptions C09_call_contained.
