(* Props/C06.v — request data injected into a pooled engine instance is visible to that
   request only and is gone before the instance serves another request.
   Statements only; the proofs are in Pool/Proofs.v.

   Vocabulary (Pool/Model.v): [keys s] — the (instance, (key, owner request)) triples present
   in the instances' data contexts; [visible_keys s q] — the request-injected (key, owner)
   pairs a rule execution of request q can resolve (those of the instance q holds). *)
From Coq Require Import String List ZArith Bool Permutation.
From GV Require Import Rules.KcModel Pool.Model Pool.Proofs.
Import ListNotations.
Local Open Scope string_scope.

(* 1. injected data sits in the instance its owner currently holds *)
Theorem C06_keys_belong_to_holder : forall s t k q,
  CapInv s -> In (t, (k, q)) (keys s) -> tag_of q (infl s) = Some t.
Proof. exact keys_belong_to_holder. Qed.
Print Assumptions C06_keys_belong_to_holder.

(* 2. an execution resolves only data injected by its own request *)
Theorem C06_request_sees_only_its_own_data : forall s q k q',
  CapInv s -> In (k, q') (visible_keys s q) -> q' = q.
Proof. exact sees_only_own. Qed.
Print Assumptions C06_request_sees_only_its_own_data.

(* 3. the deferred cleanup removes everything the request injected *)
Theorem C06_nothing_left_after_return : forall s q s',
  CapInv s -> cstep s (ADone q) = Some s' -> forall t k, ~ In (t, (k, q)) (keys s').
Proof. exact nothing_left_after_return. Qed.
Print Assumptions C06_nothing_left_after_return.

(* 4. an instance that is idle or being handed back carries no request data *)
Theorem C06_idle_instances_are_clean : forall s t,
  CapInv s -> In t (free s ++ addl s ++ pend s) -> forall k q, ~ In (t, (k, q)) (keys s).
Proof. exact idle_clean. Qed.
Print Assumptions C06_idle_instances_are_clean.

(* 5. hence the next request served by an instance starts with none of the previous data *)
Theorem C06_fresh_request_sees_nothing : forall s q2 s2,
  CapInv s -> cstep s (AGet q2) = Some s2 -> visible_keys s2 q2 = [].
Proof. exact fresh_get_sees_nothing. Qed.
Print Assumptions C06_fresh_request_sees_nothing.

(* 6. non-vacuity: requests 7 and 8 inject "Req" into instances 0 and 1; 7 returns, instance 0
      is handed back and serves request 9, which sees nothing, while 8 still sees its own key *)
Theorem C06_example :
  exists s, csteps (cap_init 1 2)
              [AGet 7; AInject 7 ["Req"]; AGet 8; AInject 8 ["Req"]; ADone 7; APut 0; AGet 9] = Some s /\
            map fst (infl s) = [9; 8] /\ visible_keys s 9 = [] /\ visible_keys s 8 = [("Req", 8)].
Proof. exact cap_example. Qed.
Print Assumptions C06_example.
