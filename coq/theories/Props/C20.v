(* Props/C20.v — error positions: every position cited by a failed rule body is the position
   of a construct of that body (a call, an arithmetic / expression node, an assignment, a map
   access, a for / forRange statement); and the construct that fails cites its own position.
   Statements only; the proofs are in Lang/SemFacts.v.
   Every theorem holds for ALL float_ops records, rule metadata and literal decoders. *)
From Coq Require Import Ascii String List ZArith Bool.
From GV Require Import Lang.Value Lang.Syntax Lang.Store Lang.Sem Lang.OpsFacts Lang.SemFacts.
Import ListNotations.
Local Open Scope Z_scope.

(* ---------- every cited position is a construct position ---------- *)
Theorem C20_cites_are_construct_positions : forall fo meta real_of b e cs e',
  exec_block fo meta real_of b e = (Failed cs, e') -> forall p, In p cs -> In p (positions_block b).
Proof. exact cites_are_construct_positions. Qed.
Print Assumptions C20_cites_are_construct_positions.

Theorem C20_rule_error_cites_construct_positions : forall fo meta real_of contained body inj tr cs,
  fst (exec_rule fo meta real_of contained body inj tr) = RRError cs ->
  forall p, In p cs -> In p (positions_block body).
Proof. exact rule_error_cites_construct_positions. Qed.
Print Assumptions C20_rule_error_cites_construct_positions.

Theorem C20_expression_errors_cite_their_nodes : forall fo meta real_of,
  (forall x e cs e', eval_expr fo meta real_of x e = (Err cs, e') -> incl cs (positions_expr x)) /\
  (forall m e cs e', eval_mexpr fo meta real_of m e = (Err cs, e') -> incl cs (positions_mexpr m)) /\
  (forall c e cs e', eval_call fo meta real_of c e = (Err cs, e') -> incl cs (positions_call c)) /\
  (forall a e cs e', exec_assign fo meta real_of a e = (Err cs, e') -> incl cs (positions_assign a)).
Proof.
  intros; repeat split; [apply expr_errs | apply mexpr_errs | apply call_errs | apply assign_errs].
Qed.
Print Assumptions C20_expression_errors_cite_their_nodes.

(* the data context itself reports bare errors; only a map access cites (its own position) *)
Theorem C20_store_errors : forall fo (e : env fo),
  (forall n c, get_value fo e n = Err c -> c = []) /\
  (forall n v c, set_value fo e n v = Err c -> c = []) /\
  (forall m v c, mapvar_set fo e m v = Err c -> c = []) /\
  (forall k n vs c, exec_call fo e k n vs = Err c -> c = []) /\
  (forall m c, mapvar_get fo e m = Err c -> c = [mv_pos m]).
Proof.
  intros; repeat split; intros;
    [ eapply get_value_err_nil | eapply set_value_err_nil | eapply mapvar_set_err_nil
    | eapply exec_call_err_nil | eapply mapvar_get_err_cites ]; eauto.
Qed.
Print Assumptions C20_store_errors.

(* ---------- the failing construct cites itself ---------- *)
Theorem C20_arith_fault_cites_itself : forall fo meta real_of p o l r e lv e1 rv e2 c,
  eval_mexpr fo meta real_of l e = (Ok lv, e1) -> eval_mexpr fo meta real_of r e1 = (Ok rv, e2) ->
  arith fo o lv rv = Err c ->
  eval_mexpr fo meta real_of (MBin p o l r) e = (Err (p :: c), e2) /\ c = [].
Proof. exact arith_fault_cites_itself. Qed.
Print Assumptions C20_arith_fault_cites_itself.

Theorem C20_compare_fault_cites_itself : forall fo meta real_of p o l r e lv e1 rv e2,
  eval_expr fo meta real_of l e = (Ok lv, e1) -> eval_expr fo meta real_of r e1 = (Ok rv, e2) ->
  compare fo o lv rv = None ->
  eval_expr fo meta real_of (ECmp p o l r) e = (Err [p], e2).
Proof. exact compare_fault_cites_itself. Qed.
Print Assumptions C20_compare_fault_cites_itself.

Theorem C20_logic_fault_cites_itself : forall fo meta real_of p o l r e lv e1 rv e2,
  eval_expr fo meta real_of l e = (Ok lv, e1) -> eval_expr fo meta real_of r e1 = (Ok rv, e2) ->
  logic fo o lv rv = None ->
  eval_expr fo meta real_of (ELogic p o l r) e = (Err [p], e2).
Proof. exact logic_fault_cites_itself. Qed.
Print Assumptions C20_logic_fault_cites_itself.

Theorem C20_invalid_value_cites_itself : forall fo meta real_of,
  (forall p m e e1, eval_mexpr fo meta real_of m e = (Ok VNil, e1) ->
                    eval_expr fo meta real_of (EMath p m) e = (Err [p], e1)) /\
  (forall p neg a e e1, eval_atom fo meta real_of a e = (Ok VNil, e1) ->
                        eval_expr fo meta real_of (EAtom p neg a) e = (Err [p], e1)) /\
  (forall p neg x e e1, eval_expr fo meta real_of x e = (Ok VNil, e1) ->
                        eval_expr fo meta real_of (EParen p neg x) e = (Err [p], e1)).
Proof. exact invalid_value_cites_itself. Qed.
Print Assumptions C20_invalid_value_cites_itself.

Theorem C20_failing_call_cites_itself : forall fo meta real_of k p name a e vs e1,
  eval_args fo meta real_of a e = (Ok vs, e1) ->
  (forall c, exec_call fo e1 k name vs = Err c ->
             eval_call fo meta real_of (Call k p name a) e = (Err (p :: c), e1) /\ c = []) /\
  (exec_call fo e1 k name vs = Panic ->
   eval_call fo meta real_of (Call k p name a) e = (Err [p], e1)).
Proof. exact failing_call_cites_itself. Qed.
Print Assumptions C20_failing_call_cites_itself.

Theorem C20_panicking_argument_cites_the_call : forall fo meta real_of k p name a e e1,
  eval_args fo meta real_of a e = (Panic, e1) ->
  eval_call fo meta real_of (Call k p name a) e = (Err [p], e1).
Proof. exact panicking_argument_cites_the_call. Qed.
Print Assumptions C20_panicking_argument_cites_the_call.

Theorem C20_failing_assignment_cites_itself : forall fo meta real_of a e mv e1,
  aop_of (as_op a) = None ->
  eval_rhs fo meta real_of (as_rhs a) e = (Ok mv, e1) ->
  let r := match as_target a with
           | TVar n => set_value fo e1 n mv
           | TMap m => mapvar_set fo e1 m mv
           end in
  (forall c, r = Err c -> exec_assign fo meta real_of a e = (Err (as_pos a :: c), e1) /\ c = []) /\
  (r = Panic -> exec_assign fo meta real_of a e = (Err [as_pos a], e1)).
Proof. exact failing_assignment_cites_itself. Qed.
Print Assumptions C20_failing_assignment_cites_itself.

Theorem C20_panicking_assignment_cites_itself : forall fo meta real_of a e e1,
  eval_rhs fo meta real_of (as_rhs a) e = (Panic, e1) ->
  exec_assign fo meta real_of a e = (Err [as_pos a], e1).
Proof. exact panicking_assignment_cites_itself. Qed.
Print Assumptions C20_panicking_assignment_cites_itself.

Theorem C20_compound_assignment_faults_cite_itself : forall fo meta real_of p n op o m e mv e1,
  aop_of op = Some o ->
  eval_mexpr fo meta real_of m e = (Ok mv, e1) ->
  exec_assign fo meta real_of (mkAsg p (TVar n) op (RMath m)) e =
  match get_value fo e1 n with
  | Ok sv =>
    match arith fo o sv mv with
    | Ok v => match set_value fo e1 n v with
              | Ok e' => (Ok tt, e') | Err c => (Err (p :: c), e1) | Panic => (Err [p], e1) end
    | Err c => (Err (p :: c), e1)
    | Panic => (Err [p], e1)
    end
  | Err c => (Err (p :: c), e1)
  | Panic => (Err [p], e1)
  end.
Proof. exact compound_assignment_read_fails. Qed.
Print Assumptions C20_compound_assignment_faults_cite_itself.

(* ---------- from the TEXT to the cited line (Lang/Lexer.v, Lang/Reader.v) ---------- *)
From GV Require Import Lang.Lexer Lang.LexerFacts Lang.Reader Lang.ReaderPos.

(* a token's position is computed from the text before it: 1-based line = 1 + line breaks read, 0-based column =
   characters since the last line break *)
Theorem C20_token_position_is_its_line_and_column : forall (s : string) (t : ptok),
  In t (lx_toks (lex s)) ->
  fst (pt_pos t) = (1 + count_nl (firstn (pt_off t) (list_ascii_of_string s)))%nat /\
  snd (pt_pos t) = length (last_line (firstn (pt_off t) (list_ascii_of_string s))).
Proof. exact lex_token_line. Qed.
Print Assumptions C20_token_position_is_its_line_and_column.

(* every position stored in a tree read from a text is the position of a token of that text *)
Theorem C20_tree_positions_are_token_positions : forall reals s rs,
  read_text reals s = ROk rs ->
  forall r, In r rs -> forall p, In p (positions_block (r_body r)) ->
  exists t, In t (lx_toks (lex s)) /\ pt_pos t = p.
Proof. exact read_text_positions_are_token_positions. Qed.
Print Assumptions C20_tree_positions_are_token_positions.

(* text -> tree -> execution: whatever position the failure of a rule read from the text s cites, it is the line
   (1 + line breaks before it) and column of a token of s — for every multi-rule, multi-line text, every layout *)
Theorem C20_cited_positions_are_lines_of_the_text : forall fo meta real_of contained reals s rs r inj tr cs,
  read_text reals s = ROk rs -> In r rs ->
  fst (exec_rule fo meta real_of contained (r_body r) inj tr) = RRError cs ->
  forall p, In p cs ->
  exists off, (off < String.length s)%nat /\
              fst p = (1 + count_nl (firstn off (list_ascii_of_string s)))%nat /\
              snd p = length (last_line (firstn off (list_ascii_of_string s))).
Proof. exact cited_positions_are_lines_of_the_text. Qed.
Print Assumptions C20_cited_positions_are_lines_of_the_text.
