(* Props/C12.v — the selected calls: only rules that are named AND exist run; the "as given"
   variants keep the order of the names, the others sort by descending priority; when nothing
   is selected the call fails cleanly; the selected N-M calls are strict about their arguments.
   Statements only; the proofs are in Engine/Meaning.v. *)
From Coq Require Import String List ZArith Bool Permutation.
From GV Require Import Engine.IR Engine.Hand Engine.Spec Engine.Trace Engine.Sound Engine.TraceFacts Engine.Meaning.
Import ListNotations.

(* the entry points that take a list of rule names (DAG layers are in C13) *)
Definition selected_non_nm : list entry :=
  [EExecuteSelectedRules; EExecuteSelectedRulesWithControl;
   EExecuteSelectedRulesWithControlAsGivenSortedName; EExecuteSelectedRulesWithControlAndStopTag;
   EExecuteSelectedRulesWithControlAndStopTagAsGivenSortedName; EExecuteSelectedRulesConcurrent;
   EExecuteSelectedRulesMixModel; EExecuteSelectedRulesInverseMixModel].
Definition selected_nm : list entry :=
  [EExecuteSelectedNSortMConcurrent; EExecuteSelectedNConcurrentMSort;
   EExecuteSelectedNConcurrentMConcurrent].
Definition selected_entries : list entry := selected_non_nm ++ selected_nm.

(* 12. only selected rules run ... *)
Theorem C12_only_selected_existing : forall e c r,
  In e selected_entries -> In r (ran e c) -> In r (sel c (c_names c)).
Proof. exact selected_only. Qed.
Print Assumptions C12_only_selected_existing.

(* ... and a selected rule is named in the list and is the rule registered under that name *)
Theorem C12_selected_is_named_and_exists : forall c names r,
  In r (sel c names) -> In (en r) names /\ find_rule (en r) (c_rules c) = Some r.
Proof. exact sel_in. Qed.
Print Assumptions C12_selected_is_named_and_exists.

(* 13. the as-given variant keeps the order of the names (no sorting) *)
Theorem C12_as_given_order : forall c, c_b c = true ->
  ran EExecuteSelectedRulesWithControlAsGivenSortedName c = sel c (c_names c).
Proof. exact as_given_continue. Qed.
Print Assumptions C12_as_given_order.

Theorem C12_as_given_order_stop : forall c, c_b c = false ->
  ran EExecuteSelectedRulesWithControlAsGivenSortedName c = upto_fail (sel c (c_names c)).
Proof. exact as_given_stop. Qed.
Print Assumptions C12_as_given_order_stop.

(* 14. the sorted variants run a descending-priority permutation of the selection *)
Theorem C12_sorted_order : forall c,
  Permutation (sort_desc (sel c (c_names c))) (sel c (c_names c)) /\
  sorted_desc_e (sort_desc (sel c (c_names c))).
Proof. exact sorted_order. Qed.
Print Assumptions C12_sorted_order.

Theorem C12_sorted_order_ran : forall c,
  ran EExecuteSelectedRules c = sort_desc (sel c (c_names c)).
Proof. exact selected_rules_ran. Qed.
Print Assumptions C12_sorted_order_ran.

(* 15. nothing selected (no name given, or none known): nothing runs, the call returns an error *)
Theorem C12_none_selected_fails_clean : forall e c,
  In e selected_non_nm -> sel c (c_names c) = [] -> ran e c = [] /\ call_err e c = true.
Proof. exact none_selected. Qed.
Print Assumptions C12_none_selected_fails_clean.

(* 16. the selected N-M calls are strict: invalid arguments — nothing runs, error *)
Theorem C12_nm_strict : forall e c,
  In e selected_nm -> nm_sel_valid c = false -> ran e c = [] /\ call_err e c = true.
Proof. exact nm_selected_strict. Qed.
Print Assumptions C12_nm_strict.

(* ... and the arguments are invalid when a name is unknown, when the number of names is not
   n + m, or when the window n, m is invalid for the rule set *)
Theorem C12_nm_unknown_name_invalid : forall c,
  all_known c (c_names c) = false -> nm_sel_valid c = false.
Proof. exact nm_sel_invalid_unknown. Qed.
Print Assumptions C12_nm_unknown_name_invalid.

Theorem C12_nm_count_mismatch_invalid : forall c,
  (c_n c + c_m c)%Z <> zlen (c_names c) -> nm_sel_valid c = false.
Proof. exact nm_sel_invalid_count. Qed.
Print Assumptions C12_nm_count_mismatch_invalid.

Theorem C12_nm_window_invalid : forall c, nm_valid c = false -> nm_sel_valid c = false.
Proof. exact nm_sel_invalid_window. Qed.
Print Assumptions C12_nm_window_invalid.
