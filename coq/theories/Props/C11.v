(* Props/C11.v — the result map, engine half: after a call the map holds exactly the names of
   the executed rules that reported a result; nothing of a previous call survives; a call never
   panics or hangs. Statements only; the proofs are in Engine/Sound.v and Engine/Meaning.v. *)
From Coq Require Import String List ZArith Bool Permutation.
From GV Require Import Engine.IR Engine.Hand Engine.Spec Engine.Trace Engine.Sound Engine.TraceFacts Engine.Meaning.
Import ListNotations.

(* 23. the map is non-nil, has no duplicate key, and its keys are exactly the names of the
       executed rules that reported the returned-flag *)
Theorem C11_engine_result_exact : forall e c, exists m,
  o_map (run_prog (hand e) c) = Some m /\
  (forall n, In n m <-> exists r, In r (ran e c) /\ eret r = true /\ en r = n) /\
  NoDup m.
Proof. exact result_exact. Qed.
Print Assumptions C11_engine_result_exact.

(* 24. whatever map the previous call left (or none at all) is irrelevant *)
Theorem C11_engine_no_stale : forall e c p,
  o_map (run_prog (hand e) (mkCfg (c_rules c) (c_b c) (c_n c) (c_m c) (c_names c) (c_layers c) (c_stop0 c) p)) =
  o_map (run_prog (hand e) c).
Proof. exact hand_no_stale. Qed.
Print Assumptions C11_engine_no_stale.

(* 25. every call returns (nil or an error): no panic, no hang, nothing unmodelled *)
Theorem C11_engine_never_crashes : forall e c,
  o_stat (run_prog (hand e) c) = RetNil \/ o_stat (run_prog (hand e) c) = RetErr.
Proof. exact hand_never_crashes. Qed.
Print Assumptions C11_engine_never_crashes.
