(* Props/C11.v — the result map, engine half: after a call the map holds exactly the names of
   the executed rules that reported a result, each bound to the value that rule returned (nil
   for a bare return); nothing of a previous call survives; a call never panics or hangs.
   Statements only; the proofs are in Engine/Sound.v and Engine/Meaning.v. *)
From Coq Require Import String List ZArith Bool Permutation.
From GV Require Import Engine.IR Engine.Hand Engine.Spec Engine.Trace Engine.Sound Engine.TraceFacts Engine.Meaning.
Import ListNotations.

(* 23. the map is non-nil, has no duplicate key, and its keys are exactly the names of the
       executed rules that reported the returned-flag *)
Theorem C11_engine_result_exact : forall e c, exists m,
  o_map (run_prog (hand e) c) = Some m /\
  (forall n, In n (map fst m) <-> exists r, In r (ran e c) /\ eret r = true /\ en r = n) /\
  NoDup (map fst m).
Proof. exact result_exact. Qed.
Print Assumptions C11_engine_result_exact.

(* 24. whatever map the previous call left (or none at all) is irrelevant *)
Theorem C11_engine_no_stale : forall e c p,
  o_map (run_prog (hand e) (mkCfg (c_rules c) (c_b c) (c_n c) (c_m c) (c_names c) (c_layers c) (c_stop0 c) p)) =
  o_map (run_prog (hand e) c).
Proof. exact hand_no_stale. Qed.
Print Assumptions C11_engine_no_stale.

(* 25. every call returns (nil or an error): no panic, no hang, nothing unmodelled *)
Theorem C11_engine_never_crashes : forall e c,
  o_stat (run_prog (hand e) c) = RetNil \/ o_stat (run_prog (hand e) c) = RetErr.
Proof. exact hand_never_crashes. Qed.
Print Assumptions C11_engine_never_crashes.

(* 26. the VALUES: when the configured rule names are pairwise distinct, the map binds exactly the
       rules that ran and returned, each to ITS value (None = nil: the value of a bare return).
       A selection list that names a rule twice runs it twice — the same rule, the same value — so
       distinct names in the rule set are enough for every entry point. *)
Theorem C11_engine_result_values : forall e c, NoDup (map en (c_rules c)) -> exists m,
  o_map (run_prog (hand e) c) = Some m /\
  forall n v, In (n, v) m <-> exists r, In r (ran e c) /\ eret r = true /\ en r = n /\ eval r = v.
Proof. exact result_values. Qed.
Print Assumptions C11_engine_result_values.

(* 26a. the hypothesis that is actually used (and needed): two executed rules that both return and
        share a name return the same value.  Without it the later store wins — rules [A := 1; A := 2]
        leave A -> 2 although "A := 1" ran and returned — so the right-to-left direction fails. *)
Theorem C11_engine_result_values_gen : forall e c, same_name_same_value (ran e c) -> exists m,
  o_map (run_prog (hand e) c) = Some m /\
  forall n v, In (n, v) m <-> exists r, In r (ran e c) /\ eret r = true /\ en r = n /\ eval r = v.
Proof. exact result_values_gen. Qed.
Print Assumptions C11_engine_result_values_gen.

(* 26b. unconditionally, every binding of the map is the value of an executed rule that returned *)
Theorem C11_engine_result_values_from : forall e c m n v,
  o_map (run_prog (hand e) c) = Some m -> In (n, v) m ->
  exists r, In r (ran e c) /\ eret r = true /\ en r = n /\ eval r = v.
Proof. exact result_values_from. Qed.
Print Assumptions C11_engine_result_values_from.

(* 27. a rule that ran and ended in a bare [return] is in the map, bound to nil *)
Corollary C11_bare_return_binds_nil : forall e c m r, NoDup (map en (c_rules c)) ->
  o_map (run_prog (hand e) c) = Some m ->
  In r (ran e c) -> eret r = true -> eval r = None -> In (en r, None) m.
Proof. exact bare_return_binds_nil. Qed.
Print Assumptions C11_bare_return_binds_nil.
