(* Props/C13.v — the DAG model: the layers run one after the other, the rules of one layer
   concurrently; a layer starts only after every rule of the layer before has ended; the first
   layer with a failing rule is the last one that runs.
   Statements only; the proofs are in Engine/Meaning.v. *)
From Coq Require Import String List ZArith Bool Permutation.
From GV Require Import Engine.IR Engine.Hand Engine.Spec Engine.Trace Engine.Sound Engine.TraceFacts Engine.Meaning.
Import ListNotations.

(* 17. no layers: nothing runs, no error *)
Theorem C13_no_layers : forall c,
  c_layers c = [] -> ran EExecuteDAGModel c = [] /\ call_err EExecuteDAGModel c = false.
Proof. exact dag_no_layers. Qed.
Print Assumptions C13_no_layers.

(* 18. the traces and the error of the call are those of [dag_stage] over the layer list ... *)
Theorem C13_dag_is_spec : forall c t,
  tr EExecuteDAGModel c t <-> traces (fst (dag_stage c (c_layers c))) t.
Proof. exact dag_is_spec. Qed.
Print Assumptions C13_dag_is_spec.

Theorem C13_dag_err_is_spec : forall c,
  call_err EExecuteDAGModel c = snd (dag_stage c (c_layers c)).
Proof. exact dag_err_is_spec. Qed.
Print Assumptions C13_dag_err_is_spec.

(* ... and a layer is a barrier: every trace splits into an interleaving of the rules of the first
   layer, followed (only when none of them failed) by a trace of the remaining layers *)
Theorem C13_layers_are_barriers : forall c ly rest t,
  traces (fst (dag_stage c (ly :: rest))) t ->
  exists t1 t2, t = t1 ++ t2 /\ Interleave (map rule_evs (sel c ly)) t1 /\
    (any_fail (sel c ly) = true -> t2 = [] /\ snd (dag_stage c (ly :: rest)) = true) /\
    (any_fail (sel c ly) = false ->
     traces (fst (dag_stage c rest)) t2 /\ snd (dag_stage c (ly :: rest)) = snd (dag_stage c rest)).
Proof. exact dag_layer_barrier. Qed.
Print Assumptions C13_layers_are_barriers.

(* 19. the rules of a layer: the named rules that exist, once per occurrence of the name; unknown
       names are skipped *)
Theorem C13_unknown_skipped_once_per_occurrence : forall c ly,
  sel c ly = flat_map (fun n => match find_rule n (c_rules c) with Some r => [r] | None => [] end) ly.
Proof. exact sel_unfold. Qed.
Print Assumptions C13_unknown_skipped_once_per_occurrence.

(* the call returns an error exactly when an executed rule failed *)
Theorem C13_error_iff_executed_failed : forall c,
  call_err EExecuteDAGModel c = any_fail (ran EExecuteDAGModel c).
Proof. exact dag_err_iff_executed_failed. Qed.
Print Assumptions C13_error_iff_executed_failed.
