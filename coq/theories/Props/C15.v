(* Props/C15.v — rule locals: every rule execution starts with an empty local-variable map, a
   local that was never assigned is undefined, and rules executed one after the other share
   the injected objects (and the trace of calls received by injected functions) only.
   Statements only; the proofs are in Lang/SemFacts.v.
   Every theorem holds for ALL float_ops records, rule metadata and literal decoders. *)
From Coq Require Import Ascii String List ZArith Bool.
From GV Require Import Lang.Value Lang.Syntax Lang.Store Lang.Sem Lang.OpsFacts Lang.SemFacts.
Import ListNotations.
Local Open Scope Z_scope.

Theorem C15_locals_start_empty : forall fo meta real_of contained body inj tr,
  exec_rule fo meta real_of contained body inj tr =
  let e0 := mkEnv inj [] tr in
  match exec_block fo meta real_of body e0 with
  | (Normal, e) => (RRNoReturn, e)
  | (Returned v, e) => (RRReturn v, e)
  | (Brk, e) | (Cont, e) => (RRError [], e)
  | (Failed cs, e) => (RRError cs, e)
  | (Panicked, e) => (if contained then RRError [] else RRPanic, e)
  end.
Proof. exact exec_rule_eq. Qed.
Print Assumptions C15_locals_start_empty.

Theorem C15_unassigned_local_is_undefined : forall fo n (inj : list (string * hobj fo)) tr,
  path_of n = [n] -> alookup n inj = None -> get_value fo (mkEnv inj [] tr) n = Err [].
Proof. exact unassigned_local_is_undefined. Qed.
Print Assumptions C15_unassigned_local_is_undefined.

(* a local is defined exactly after an assignment to it (one flat map) *)
Theorem C15_local_defined_by_assignment : forall fo (e : env fo) n v,
  path_of n = [n] -> alookup n (e_inj e) = None ->
  set_value fo e n v = Ok (mkEnv (e_inj e) (aset n v (e_loc e)) (e_trace e)) /\
  get_value fo (mkEnv (e_inj e) (aset n v (e_loc e)) (e_trace e)) n = Ok v.
Proof. intros; split; [apply set_local | apply get_after_set_local]; assumption. Qed.
Print Assumptions C15_local_defined_by_assignment.

(* run_rules (Lang/SemFacts.v) executes the rules of a list in order; what one rule hands to
   the next is (e_inj, e_trace) of its final environment: the local map is dropped *)
Theorem C15_rules_share_only_injected_data : forall fo real_of contained r rest inj tr,
  run_rules fo real_of contained (r :: rest) inj tr =
  let out := exec_rule fo (r_meta r) real_of contained (r_body r) inj tr in
  let nxt := run_rules fo real_of contained rest (e_inj (snd out)) (e_trace (snd out)) in
  (fst out :: fst nxt, snd nxt).
Proof. exact run_rules_cons. Qed.
Print Assumptions C15_rules_share_only_injected_data.

Theorem C15_every_rule_starts_from_predecessors_injected_data : forall fo real_of contained rs1 r rs2 inj tr,
  let a := run_rules fo real_of contained rs1 inj tr in
  nth_error (fst (run_rules fo real_of contained (rs1 ++ r :: rs2) inj tr)) (length rs1) =
  Some (fst (exec_rule fo (r_meta r) real_of contained (r_body r) (fst (snd a)) (snd (snd a)))).
Proof. exact run_rules_nth. Qed.
Print Assumptions C15_every_rule_starts_from_predecessors_injected_data.

Theorem C15_rule_lists_compose : forall fo real_of contained rs1 rs2 inj tr,
  run_rules fo real_of contained (rs1 ++ rs2) inj tr =
  let a := run_rules fo real_of contained rs1 inj tr in
  let b := run_rules fo real_of contained rs2 (fst (snd a)) (snd (snd a)) in
  (fst a ++ fst b, snd b).
Proof. exact run_rules_app. Qed.
Print Assumptions C15_rule_lists_compose.

(* locals that only bind names which are injected too cannot be observed: the body behaves as
   on an empty local map, and the final environments agree on everything visible
   (same injected objects, same trace, same value for every non-injected local) *)
Theorem C15_result_independent_of_foreign_locals : forall fo meta real_of b inj loc tr,
  (forall n, alookup n inj = None -> alookup n loc = None) ->
  fst (exec_block fo meta real_of b (mkEnv inj loc tr)) =
  fst (exec_block fo meta real_of b (mkEnv inj [] tr)) /\
  same_visible fo (snd (exec_block fo meta real_of b (mkEnv inj loc tr)))
                  (snd (exec_block fo meta real_of b (mkEnv inj [] tr))).
Proof. exact result_independent_of_foreign_locals. Qed.
Print Assumptions C15_result_independent_of_foreign_locals.

(* more generally: two environments that differ only in locals shadowed by injected names are
   indistinguishable by any block *)
Theorem C15_shadowed_locals_are_invisible : forall fo meta real_of b e e',
  same_visible fo e e' ->
  fst (exec_block fo meta real_of b e) = fst (exec_block fo meta real_of b e') /\
  same_visible fo (snd (exec_block fo meta real_of b e)) (snd (exec_block fo meta real_of b e')).
Proof. intros fo meta real_of b. exact (proj1 (proj2 (sim_stmt_mut fo meta real_of)) b). Qed.
Print Assumptions C15_shadowed_locals_are_invisible.
