(* Lang/Check.v — correspondence checker for rule-level campaigns (C01 C02 C03 C09 C11 C15
   C18 C20): the observation of one real rule execution is compared inside Coq with the
   model's prediction [exec_rule] instantiated with Coq's primitive binary64 floats. *)
From Coq Require Import Ascii String List ZArith Bool Floats.
From GV Require Import Lang.Value Lang.Syntax Lang.Store Lang.Sem.
Import ListNotations.

Notation pvalue := (value primfo).
Notation phobj := (hobj primfo).

(* monomorphic constructors used by the generated case files *)
Definition vint (k : ikind) (z : Z) : pvalue := VInt k z.
Definition vuint (k : ukind) (z : Z) : pvalue := VUint k z.
Definition vfloat (k : fkind) (f : float) : pvalue := @VFloat primfo k f.
Definition vstr (s : string) : pvalue := VStr s.
Definition vbool (b : bool) : pvalue := VBool b.
Definition vnil : pvalue := VNil.
Definition vother (k : string) : pvalue := VOther k.
Definition hval (v : pvalue) : phobj := HVal v.
Definition hptr (t : sty) (v : pvalue) : phobj := HPtr t v.
Definition hstruct (p : bool) (f : hfields primfo) (m : list (fdesc primfo)) : phobj := HStruct p f m.
Definition hmap (p : bool) (kt et : sty) (es : list (pvalue * pvalue)) : phobj := HMap p kt et es.
Definition hseq (p a : bool) (et : sty) (es : list pvalue) : phobj := HSeq p a et es.
Definition hfunc (f : fdesc primfo) : phobj := HFunc f.
Definition fnil : hfields primfo := FNil.
Definition fcons (n : string) (o : phobj) (r : hfields primfo) : hfields primfo := FCons n o r.
Definition mkf (id : string) (ps : list sty) (b : fbeh primfo) : fdesc primfo := mkF id ps b.
Definition bnone : fbeh primfo := BNone.
Definition becho (i : nat) : fbeh primfo := BEcho i.
Definition bpanic : fbeh primfo := BPanic.
Definition bconst (v : pvalue) : fbeh primfo := BConst v.

Definition sf_eqb (a b : spec_float) : bool :=
  match a, b with
  | S754_zero x, S754_zero y | S754_infinity x, S754_infinity y => Bool.eqb x y
  | S754_nan, S754_nan => true
  | S754_finite s1 m1 e1, S754_finite s2 m2 e2 => Bool.eqb s1 s2 && Pos.eqb m1 m2 && Z.eqb e1 e2
  | _, _ => false
  end.
Definition float_same (a b : float) : bool := sf_eqb (Prim2SF a) (Prim2SF b).

(* exact (bit-level) equality of values *)
Definition same_value (a b : pvalue) : bool :=
  match a, b with
  | VFloat k1 x, VFloat k2 y => sty_eqb (TF k1) (TF k2) && float_same x y
  | _, _ => value_eqb primfo a b
  end.

Fixpoint list_eqb {A} (eqb : A -> A -> bool) (a b : list A) : bool :=
  match a, b with
  | [], [] => true
  | x :: a', y :: b' => eqb x y && list_eqb eqb a' b'
  | _, _ => false
  end.

Definition pos_eqb (a b : pos) : bool := Nat.eqb (fst a) (fst b) && Nat.eqb (snd a) (snd b).

Fixpoint hobj_eqb (a b : phobj) {struct a} : bool :=
  let fix fields_eqb (x y : hfields primfo) {struct x} : bool :=
    match x, y with
    | FNil, FNil => true
    | FCons n o r, FCons n' o' r' => String.eqb n n' && hobj_eqb o o' && fields_eqb r r'
    | _, _ => false
    end in
  match a, b with
  | HVal x, HVal y => same_value x y
  | HPtr t x, HPtr t' y => sty_eqb t t' && same_value x y
  | HStruct p f _, HStruct p' f' _ => Bool.eqb p p' && fields_eqb f f'
  | HMap p kt et es, HMap p' kt' et' es' =>
    Bool.eqb p p' && sty_eqb kt kt' && sty_eqb et et' &&
    Nat.eqb (length es) (length es') &&
    forallb (fun kv => match map_get primfo (fst kv) es' with Some v => same_value v (snd kv) | None => false end) es
  | HSeq p a1 et es, HSeq p' a2 et' es' =>
    Bool.eqb p p' && Bool.eqb a1 a2 && sty_eqb et et' && list_eqb same_value es es'
  | HFunc _, HFunc _ => true
  | _, _ => false
  end.

Inductive oclass := OOk | OError | OPanic.
Definition oclass_eqb (a b : oclass) : bool :=
  match a, b with OOk, OOk | OError, OError | OPanic, OPanic => true | _, _ => false end.

Record lcase := mkLC {
  lc_id    : nat;
  lc_meta  : rule_meta;
  lc_body  : block;
  lc_inj   : list (string * phobj);
  lc_class : oclass;
  lc_ret   : option (option pvalue);      (* None: no entry; Some None: entry nil; Some (Some v) *)
  lc_cites : list pos;
  lc_calls : list (string * list pvalue);
  lc_store : list (string * phobj)
}.

Definition flag (b : bool) (code : nat) : list nat := if b then [] else [code].

Definition model_run (contained : bool) (k : lcase) :=
  exec_rule primfo (lc_meta k) prim_of_me contained (lc_body k) (lc_inj k) [].

Definition check_case (contained : bool) (k : lcase) : list (nat * nat) :=
  let '(r, e) := model_run contained k in
  let cls := match r with RRNoReturn _ | RRReturn _ _ => OOk | RRError _ _ => OError | RRPanic _ => OPanic end in
  let ret := match r with RRReturn _ v => Some v | _ => None end in
  let cites := match r with RRError _ c => c | _ => [] end in
  map (fun c => (lc_id k, c))
    (flag (oclass_eqb cls (lc_class k)) 1 ++
     (if oclass_eqb cls (lc_class k) then
        flag (match ret, lc_ret k with
              | None, None => true
              | Some None, Some None => true
              | Some (Some a), Some (Some b) => same_value a b
              | _, _ => false end) 2 ++
        flag (list_eqb pos_eqb cites (lc_cites k)) 3 ++
        flag (list_eqb (fun a b => String.eqb (fst a) (fst b) && list_eqb same_value (snd a) (snd b))
                       (e_trace e) (lc_calls k)) 4 ++
        flag (forallb (fun nb => match alookup (fst nb) (e_inj e) with
                                 | Some o => hobj_eqb o (snd nb) | None => false end) (lc_store k)) 5
      else [])).

Definition mismatches (contained : bool) (ks : list lcase) : list (nat * nat) :=
  flat_map (check_case contained) ks.

(* ---------- several rules of one call, executed in sort-model order (C15) ---------- *)
Record mcase := mkMC2 {
  mc_id    : nat;
  mc_rules : list (rule_meta * block);          (* in execution order (salience descending) *)
  mc_inj   : list (string * phobj);
  mc_class : oclass;
  mc_rets  : list (string * option pvalue);     (* result map: name -> value (None = nil) *)
  mc_cites : list pos;
  mc_calls : list (string * list pvalue);
  mc_store : list (string * phobj)
}.

Fixpoint run_rules_model (rs : list (rule_meta * block)) (inj : list (string * phobj)) (tr : list (string * list pvalue))
  : list (string * rule_result primfo) * env primfo :=
  match rs with
  | [] => ([], mkEnv inj [] tr)
  | (m, b) :: rest =>
    let '(r, e) := exec_rule primfo m prim_of_me true b inj tr in
    let '(rs', e') := run_rules_model rest (e_inj e) (e_trace e) in
    ((m_name m, r) :: rs', e')
  end.

Definition check_mcase (k : mcase) : list (nat * nat) :=
  let '(rs, e) := run_rules_model (mc_rules k) (mc_inj k) [] in
  let failed := existsb (fun nr => match snd nr with RRError _ _ | RRPanic _ => true | _ => false end) rs in
  let rets := flat_map (fun nr => match snd nr with RRReturn _ v => [(fst nr, v)] | _ => [] end) rs in
  let cites := flat_map (fun nr => match snd nr with RRError _ c => c | _ => [] end) rs in
  map (fun c => (mc_id k, c))
    (flag (oclass_eqb (if failed then OError else OOk) (mc_class k)) 1 ++
     flag (Nat.eqb (length rets) (length (mc_rets k)) &&
           forallb (fun nv => match alookup (fst nv) (mc_rets k) with
                              | Some ov => match snd nv, ov with
                                           | None, None => true
                                           | Some a, Some b => same_value a b
                                           | _, _ => false end
                              | None => false end) rets) 2 ++
     flag (list_eqb pos_eqb cites (mc_cites k)) 3 ++
     flag (list_eqb (fun a b => String.eqb (fst a) (fst b) && list_eqb same_value (snd a) (snd b)) (e_trace e) (mc_calls k)) 4 ++
     flag (forallb (fun nb => match alookup (fst nb) (e_inj e) with Some o => hobj_eqb o (snd nb) | None => false end) (mc_store k)) 5).

Definition mmismatches (ks : list mcase) : list (nat * nat) := flat_map check_mcase ks.
