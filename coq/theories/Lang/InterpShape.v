(* Lang/InterpShape.v — the structural premises of the interpreter model, as reported by T4 (`xlate interp`,
   gen/Gen_Interp.v) from internal/base/*.go, and which property relies on which.

   The interpreter model (Lang/Sem.v, Conc/ConcBlock.v) is hand-written and tied to the code by the correspondence
   runs.  These facts are what the model ENCODES about the code's structure; a refactoring can break one of them on a
   path that a campaign reaches only rarely, so every Lang check also discharges "all my facts hold in the source now":

   rule_execute_recovers             exec_rule's [contained] flag: a panic inside a rule becomes (nil, error, not returned)
   rule_locals_fresh_map             exec_rule starts from the empty local map (C15_rule_starts_without_locals)
   statements_protocol               exec_stmts / exec_block: first error or first returned statement ends the list
   return_protocol                   the returned-flag only comes from a return whose expression evaluated (C11 rule half)
   call_recover_covers_arguments_*   a panic while evaluating a call's arguments or in the callee is that call's error, with its position
   conc_counts_every_child           conc_run folds over ALL children
   conc_one_goroutine_per_child      each child is evaluated once, by its own goroutine, on its own copy of the loop variable
   conc_joins_then_reports           the block's error is decided after every child has ended
   for_cap_counts_every_condition    for_loop's fuel: every evaluation of the condition counts against maxExecuteNum = 10000
   for_step_after_continue           the step runs after `continue` (C02_for_step_after_continue)
   engine_state_is_the_result_map    Engine/Spec.v: an engine carries ONE piece of state from call to call, the result map, reset when a call starts
   no_package_level_state            a call's outcome is a function of its own inputs: nothing — no buffer pool, cache or table — survives a call
                                     (a failed one in particular) in a package-level variable of the interpreter, the engine, the data context
   tree_read_only_at_run_time        evaluation is a function of (tree, data context, locals): Sem.v's evaluators take the tree as a value and
                                     return no new tree — no Evaluate*/Execute* method stores into its own node, so executions that share a
                                     compiled tree (pool instances; a rule named twice) share nothing through it *)
From Coq Require Import String List Bool.
Import ListNotations.
Local Open Scope string_scope.

Definition fact := (string * bool * string)%type.

Definition holds (facts : list fact) (n : string) : bool :=
  existsb (fun f => String.eqb (fst (fst f)) n && snd (fst f)) facts.

(* the facts of [names] that do not hold (or are not reported at all) *)
Definition missing (facts : list fact) (names : list string) : list string :=
  filter (fun n => negb (holds facts n)) names.

Definition facts_C02 := ["statements_protocol"; "return_protocol"; "for_cap_counts_every_condition"; "for_step_after_continue"].
Definition facts_C09 := ["no_package_level_state"; "rule_execute_recovers"; "call_recover_covers_arguments_FunctionCall"; "call_recover_covers_arguments_MethodCall";
                         "call_recover_covers_arguments_ThreeLevelCall"; "for_cap_counts_every_condition";
                         "conc_counts_every_child"; "conc_one_goroutine_per_child"; "conc_joins_then_reports"].
Definition facts_C11 := ["statements_protocol"; "return_protocol"; "no_package_level_state"; "engine_state_is_the_result_map"].
Definition facts_C15 := ["no_package_level_state"; "rule_locals_fresh_map"; "rule_execute_recovers"; "tree_read_only_at_run_time"].
Definition facts_C18 := ["conc_counts_every_child"; "conc_one_goroutine_per_child"; "conc_joins_then_reports"; "tree_read_only_at_run_time"].
Definition facts_C03 := ["no_package_level_state"].
Definition facts_C20 := ["no_package_level_state"; "call_recover_covers_arguments_FunctionCall"; "call_recover_covers_arguments_MethodCall";
                         "call_recover_covers_arguments_ThreeLevelCall"].

(* the engine-level properties: every call starts from the rule set and its arguments alone *)
Definition facts_engine := ["engine_state_is_the_result_map"; "no_package_level_state"].

Definition facts_of (pid : string) : list string :=
  if String.eqb pid "C04" || String.eqb pid "C05" || String.eqb pid "C12" || String.eqb pid "C13" || String.eqb pid "C14" then facts_engine else
  if String.eqb pid "C02" then facts_C02 else if String.eqb pid "C03" then facts_C03 else if String.eqb pid "C09" then facts_C09 else
  if String.eqb pid "C11" then facts_C11 else if String.eqb pid "C15" then facts_C15 else
  if String.eqb pid "C18" then facts_C18 else if String.eqb pid "C20" then facts_C20 else [].

Definition all_fact_names : list string :=
  ["call_recover_covers_arguments_FunctionCall"; "call_recover_covers_arguments_MethodCall"; "call_recover_covers_arguments_ThreeLevelCall";
   "conc_counts_every_child"; "conc_joins_then_reports"; "conc_one_goroutine_per_child"; "engine_state_is_the_result_map"; "for_cap_counts_every_condition";
   "for_step_after_continue"; "no_package_level_state"; "return_protocol"; "rule_execute_recovers"; "rule_locals_fresh_map"; "statements_protocol"; "tree_read_only_at_run_time"].
