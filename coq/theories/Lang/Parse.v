(* Lang/Parse.v — how the grammar (internal/iantlr/gengine.g4) READS an expression.

   The two left-recursive rules

     expression     : mathExpression | expression cmpOp expression | expression logicOp expression
                    | '!'? expressionAtom | '!'? '(' expression ')'
     mathExpression : mathExpression ('*'|'/') mathExpression | mathExpression ('+'|'-') mathExpression
                    | expressionAtom | '(' mathExpression ')'

   are compiled by ANTLR 4 into precedence climbing: within one rule an earlier alternative binds
   tighter, every binary alternative associates to the left, and a mathExpression operand is read
   greedily before a comparison or logical operator is considered.  The model below reads a token
   list — atoms, the twelve binary operators, parentheses and '!' — into the SHAPE of the tree the
   listener builds (internal/base/expression.go, math_expression.go): which node is the root, what
   its children are, where explicit parentheses sit and which operands are negated.

   It is an operator-precedence reader with an explicit stack (the pending left operands, innermost
   first, with strictly increasing levels) plus the grammar's two SORTS: an operand of an arithmetic
   operator must be a mathExpression — a negated operand or a parenthesised comparison is not one —
   so `(a < b) + 1` and `!a * 2` are syntax errors, exactly as for the generated parser.

   Domain: token lists in which no atom is directly followed by '(' (that is a function call in the
   real lexer; calls are atoms here).  The tie to the real parser is the correspondence check of C01:
   generated token strings (well-formed and malformed) are compiled by the implementation, the shape
   of the resulting tree is dumped by reflection, and `parse` must return exactly that shape (None
   when the implementation reports a syntax error).  Theorems are in Lang/ParseFacts.v. *)
From Coq Require Import Ascii String List Arith Bool.
From GV Require Import Lang.Syntax.
Import ListNotations.

Inductive bop := BA (o : aop) | BC (o : cop) | BL (o : lop).

(* 4: * /   3: + -   2: comparisons   1: && ||  (one level, as in the grammar) *)
Definition level (b : bop) : nat :=
  match b with
  | BA OMul | BA ODiv => 4
  | BA OAdd | BA OSub => 3
  | BC _ => 2
  | BL _ => 1
  end.

Inductive shape :=
| SLeaf (neg : bool) (n : nat)                 (* '!'? atom *)
| SParen (neg : bool) (t : shape)              (* '!'? '(' ... ')' *)
| SNode (o : bop) (l r : shape).

Inductive tok := TAtom (n : nat) | TOp (o : bop) | TL | TR | TNot.

(* the grammar's sort of a subtree: can it stand where a mathExpression is required? *)
Fixpoint is_math (t : shape) : bool :=
  match t with
  | SLeaf neg _ => negb neg
  | SParen neg t => negb neg && is_math t
  | SNode (BA _) _ _ => true
  | SNode _ _ _ => false
  end.

Fixpoint sorted (t : shape) : bool :=
  match t with
  | SLeaf _ _ => true
  | SParen _ t => sorted t
  | SNode (BA _) l r => is_math l && is_math r && sorted l && sorted r
  | SNode _ l r => sorted l && sorted r
  end.

(* pop every pending operator whose level is >= lv (equal level pops: left associativity) *)
Fixpoint reduce (st : list (shape * bop)) (t : shape) (lv : nat) : list (shape * bop) * shape :=
  match st with
  | (l, o) :: rest => if lv <=? level o then reduce rest (SNode o l t) lv else (st, t)
  | [] => ([], t)
  end.

Fixpoint pexpr (fuel : nat) (ts : list tok) {struct fuel} : option (shape * list tok) :=
  match fuel with
  | 0 => None
  | S f =>
    match poperand f ts with
    | Some (t0, rest) => ploop f [] t0 rest
    | None => None
    end
  end
with poperand (fuel : nat) (ts : list tok) {struct fuel} : option (shape * list tok) :=
  match fuel with
  | 0 => None
  | S f =>
    match ts with
    | TAtom n :: r => Some (SLeaf false n, r)
    | TNot :: TAtom n :: r => Some (SLeaf true n, r)
    | TL :: r => match pexpr f r with Some (t, TR :: r') => Some (SParen false t, r') | _ => None end
    | TNot :: TL :: r => match pexpr f r with Some (t, TR :: r') => Some (SParen true t, r') | _ => None end
    | _ => None
    end
  end
with ploop (fuel : nat) (st : list (shape * bop)) (t : shape) (ts : list tok) {struct fuel} : option (shape * list tok) :=
  match fuel with
  | 0 => None
  | S f =>
    match ts with
    | TOp o :: r =>
      match poperand f r with
      | Some (a, r') => let (st', t') := reduce st t (level o) in ploop f ((t', o) :: st') a r'
      | None => None
      end
    | _ => Some (snd (reduce st t 0), ts)
    end
  end.

Definition parse_fuel (ts : list tok) : nat := 2 * List.length ts + 2.

Definition parse (ts : list tok) : option shape :=
  match pexpr (parse_fuel ts) ts with
  | Some (t, []) => if sorted t then Some t else None
  | _ => None
  end.

(* ---- the specification side: printing a shape, and the canonical (precedence / left-assoc) form ---- *)
Definition notp (neg : bool) : list tok := if neg then [TNot] else [].

Fixpoint print (t : shape) : list tok :=
  match t with
  | SLeaf neg n => notp neg ++ [TAtom n]
  | SParen neg t => notp neg ++ TL :: print t ++ [TR]
  | SNode o l r => print l ++ TOp o :: print r
  end.

Definition top_level (t : shape) : nat := match t with SNode o _ _ => level o | _ => 5 end.

(* a left child may have the same level as its parent (left associativity), a right child must bind
   strictly tighter; what is inside parentheses is free *)
Fixpoint canon (t : shape) : Prop :=
  match t with
  | SLeaf _ _ => True
  | SParen _ t => canon t
  | SNode o l r => level o <= top_level l /\ level o < top_level r /\ canon l /\ canon r
  end.

Fixpoint canonb (t : shape) : bool :=
  match t with
  | SLeaf _ _ => true
  | SParen _ t => canonb t
  | SNode o l r => (level o <=? top_level l) && (level o <? top_level r) && canonb l && canonb r
  end.

(* ---- the listener's tree for a shape (positions are not part of the shape) ---- *)
Definition nopos : pos := (0, 0).
Definition atom_name (n : nat) : string :=
  String "a"%char (String (ascii_of_nat (48 + n)) EmptyString).

Fixpoint to_mexpr (t : shape) : mexpr :=
  match t with
  | SLeaf _ n => MAtom nopos (AVar (atom_name n))
  | SParen _ t => MParen nopos (to_mexpr t)
  | SNode (BA o) l r => MBin nopos o (to_mexpr l) (to_mexpr r)
  | SNode _ l _ => to_mexpr l           (* not a mathExpression: excluded by [sorted] *)
  end.

Fixpoint to_expr (t : shape) : expr :=
  if is_math t then EMath nopos (to_mexpr t) else
  match t with
  | SLeaf neg n => EAtom nopos neg (AVar (atom_name n))
  | SParen neg t => EParen nopos neg (to_expr t)
  | SNode (BC o) l r => ECmp nopos o (to_expr l) (to_expr r)
  | SNode (BL o) l r => ELogic nopos o (to_expr l) (to_expr r)
  | SNode (BA _) _ _ => EMath nopos (to_mexpr t)
  end.

(* ---- checker for the correspondence: (tokens, observed shape or None) ---- *)
Definition shape_eq_dec : forall a b : shape, {a = b} + {a <> b}.
Proof. repeat decide equality. Defined.

Definition oshape_eqb (a b : option shape) : bool :=
  match a, b with
  | Some x, Some y => if shape_eq_dec x y then true else false
  | None, None => true
  | _, _ => false
  end.

Definition parse_mismatches (cases : list (nat * list tok * option shape)) : list nat :=
  flat_map (fun c => match c with (id, ts, obs) => if oshape_eqb (parse ts) obs then [] else [id] end) cases.
