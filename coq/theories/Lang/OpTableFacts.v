(* Lang/OpTableFacts.v — T5, static part: the four tables as read from the repaired pinned tree agree with the operator
   model of Lang/Sem.v on every pair of operands (the same statement the per-run obligation proves for the tables generated
   from the CURRENT source), and what any agreeing table therefore does.  No axioms. *)
From Coq Require Import Ascii String List ZArith Bool Lia.
From GV Require Import Lang.Value Lang.Syntax Lang.Store Lang.Sem Lang.OpTable.
Import ListNotations.
Local Open Scope Z_scope.

Lemma hand_add_ok fo : table_agrees fo hand_Add OAdd.
Proof. unfold table_agrees, hand_Add, hand_num_cases. table_tac. Qed.
Lemma hand_sub_ok fo : table_agrees fo hand_Sub OSub.
Proof. unfold table_agrees, hand_Sub, hand_num_cases. table_tac. Qed.
Lemma hand_mul_ok fo : table_agrees fo hand_Mul OMul.
Proof. unfold table_agrees, hand_Mul, hand_num_cases. table_tac. Qed.
Lemma hand_div_ok fo : table_agrees fo hand_Div ODiv.
Proof. unfold table_agrees, hand_Div, hand_num_cases. table_tac. Qed.

Definition hand_table (o : aop) : gfun :=
  match o with OAdd => hand_Add | OSub => hand_Sub | OMul => hand_Mul | ODiv => hand_Div end.

Lemma hand_tables_ok fo o : table_agrees fo (hand_table o) o.
Proof. destruct o; [apply hand_add_ok | apply hand_sub_ok | apply hand_mul_ok | apply hand_div_ok]. Qed.

(* ---- consequences for ANY table that agrees (in particular the generated ones, by the obligation) ---- *)
Section Consequences.
  Variable fo : float_ops.
  Notation value := (value fo).

  Lemma operand_int k z : in_irange k z = true -> operand fo (VInt k z).
  Proof. intros H; split; [reflexivity | exact H]. Qed.
  Lemma operand_uint k z : in_urange k z = true -> operand fo (VUint k z).
  Proof. intros H; split; [reflexivity | exact H]. Qed.
  Lemma operand_float k f : operand fo (VFloat k f).
  Proof. split; reflexivity. Qed.
  Lemma operand_str s : operand fo (VStr s).
  Proof. split; reflexivity. Qed.
  Lemma operand_bool b : operand fo (VBool b).
  Proof. split; reflexivity. Qed.
  Lemma operand_nil : operand fo VNil.
  Proof. split; reflexivity. Qed.

  (* the zero guards of core.Div come first: whatever the left operand is, an integer or float zero divisor is an error
     and never a panic (a.Int() / 0 would be a run-time panic in Go) *)
  Lemma agreeing_div_by_int_zero g a k :
    table_agrees fo g ODiv -> operand fo a -> run_gfun fo g a (VInt k 0) = Err [].
  Proof.
    intros Hg Ha. rewrite Hg; [| exact Ha | apply operand_int; destruct k; reflexivity ]. reflexivity.
  Qed.
  Lemma agreeing_div_by_uint_zero g a k :
    table_agrees fo g ODiv -> operand fo a -> run_gfun fo g a (VUint k 0) = Err [].
  Proof.
    intros Hg Ha. rewrite Hg; [| exact Ha | apply operand_uint; destruct k; reflexivity ]. reflexivity.
  Qed.
  Lemma agreeing_div_by_float_zero g a k f :
    table_agrees fo g ODiv -> operand fo a -> f_is_zero fo f = true -> run_gfun fo g a (VFloat k f) = Err [].
  Proof.
    intros Hg Ha Hz. rewrite Hg; [| exact Ha | apply operand_float ]. cbn [arith]. rewrite Hz. reflexivity.
  Qed.

  (* an agreeing table never panics on operands of the modelled domain *)
  Lemma arith_never_panics o (a b : value) : arith fo o a b <> Panic.
  Proof.
    destruct o, a, b; cbn [arith arith_pm class_of to_float];
      repeat match goal with
             | |- context [if ?c then _ else _] => destruct c
             end; discriminate.
  Qed.
  Lemma agreeing_never_panics g o a b :
    table_agrees fo g o -> operand fo a -> operand fo b -> run_gfun fo g a b <> Panic.
  Proof. intros Hg Ha Hb. rewrite Hg by assumption. apply arith_never_panics. Qed.

  (* two tables that agree with the model agree with each other: a harmless rewrite of math.go (cases reordered, tests
     written differently) that still discharges the obligation denotes the same function *)
  Lemma agreeing_tables_equal g1 g2 o a b :
    table_agrees fo g1 o -> table_agrees fo g2 o -> operand fo a -> operand fo b -> run_gfun fo g1 a b = run_gfun fo g2 a b.
  Proof. intros H1 H2 Ha Hb. rewrite H1, H2 by assumption. reflexivity. Qed.
End Consequences.

(* the hypotheses are satisfiable, and the statement is not about error cases only *)
Example table_agrees_nonvacuous :
  run_gfun primfo hand_Add (VInt KI8 (-128)) (VUint KU8 255) = Ok (VInt KI64 127) /\
  run_gfun primfo hand_Sub (VUint KU64 0) (VUint KU8 1) = Ok (VUint KU64 18446744073709551615) /\
  run_gfun primfo hand_Div (VInt KI64 (-7)) (VInt KI 2) = Ok (VInt KI64 (-3)) /\
  run_gfun primfo hand_Div (VStr "x") (VInt KI 0) = Err [] /\
  run_gfun primfo hand_Add (VStr "ab") (VStr "c") = Ok (VStr "abc") /\
  run_gfun primfo hand_Mul (VBool true) (VInt KI 2) = Err [] /\
  (* outside the domain the hypothesis `operand` excludes, the source table and the model DO differ: "interface" starts with "int" *)
  run_gfun primfo hand_Add (VOther "interface") (VInt KI 1) = Panic /\ arith primfo OAdd (VOther "interface") (VInt KI 1) = Err [].
Proof. vm_compute. repeat split. Qed.
