(* Lang/Value.v — run-time values of the rule DSL (what a reflect.Value can hold in the
   declared model domain), integer wrap-around, float operations record. Definitions only. *)
From Coq Require Import String List ZArith Bool Floats Uint63.
Import ListNotations.
Local Open Scope Z_scope.

Inductive ikind := KI | KI8 | KI16 | KI32 | KI64.
Inductive ukind := KU | KU8 | KU16 | KU32 | KU64.
Inductive fkind := KF32 | KF64.

Definition ibits (k : ikind) : Z := match k with KI | KI64 => 64 | KI8 => 8 | KI16 => 16 | KI32 => 32 end.
Definition ubits (k : ukind) : Z := match k with KU | KU64 => 64 | KU8 => 8 | KU16 => 16 | KU32 => 32 end.

(* two's complement wrap to n bits, signed / unsigned *)
Definition uwrap (n z : Z) : Z := z mod 2 ^ n.
Definition swrap (n z : Z) : Z := (z + 2 ^ (n - 1)) mod 2 ^ n - 2 ^ (n - 1).
Definition wrap64 (z : Z) : Z := swrap 64 z.
Definition uwrap64 (z : Z) : Z := uwrap 64 z.

Definition in_irange (k : ikind) (z : Z) : bool := (- 2 ^ (ibits k - 1) <=? z) && (z <? 2 ^ (ibits k - 1)).
Definition in_urange (k : ukind) (z : Z) : bool := (0 <=? z) && (z <? 2 ^ ubits k).

(* ---- binary64 operations: the theorems quantify over ANY such record; the instance
   used to run the model is Coq's primitive floats (IEEE 754 binary64) ---- *)
Record float_ops := mkFO {
  fl     : Type;
  fadd   : fl -> fl -> fl;
  fsub   : fl -> fl -> fl;
  fmul   : fl -> fl -> fl;
  fdiv   : fl -> fl -> fl;
  feqb   : fl -> fl -> bool;      (* IEEE == (NaN <> NaN, -0 == +0) *)
  fltb   : fl -> fl -> bool;
  fleb   : fl -> fl -> bool;
  f_of_Z : Z -> fl;               (* float64(int64/uint64), round to nearest even *)
  f_trunc : fl -> option Z;       (* truncation toward zero; None for NaN / infinities *)
  f_is_zero : fl -> bool          (* == 0.0 *)
}.

Definition prim_of_Z (z : Z) : float :=
  let a := Z.abs z in
  let r :=
    if a <? 2 ^ 53 then PrimFloat.of_uint63 (Uint63.of_Z a)
    else
      let e := Z.log2 a - 52 in
      let m := Z.shiftr a e in
      let rem := a - Z.shiftl m e in
      let half := Z.shiftl 1 (e - 1) in
      let m' := if ((rem >? half) || ((rem =? half) && Z.odd m))%bool then m + 1 else m in
      Z.ldexp (PrimFloat.of_uint63 (Uint63.of_Z m')) e in
  if z <? 0 then PrimFloat.opp r else r.

Definition prim_trunc (f : float) : option Z :=
  match Prim2SF f with
  | S754_zero _ => Some 0
  | S754_finite s m e =>
    let v := if 0 <=? e then Z.shiftl (Zpos m) e else Z.shiftr (Zpos m) (- e) in
    Some (if s then - v else v)
  | _ => None
  end.

(* exact dyadic m * 2^e : how the case files write float constants *)
Definition prim_of_me (m e : Z) : float :=
  let r := Z.ldexp (PrimFloat.of_uint63 (Uint63.of_Z (Z.abs m))) e in
  if m <? 0 then PrimFloat.opp r else r.

Definition primfo : float_ops :=
  mkFO float PrimFloat.add PrimFloat.sub PrimFloat.mul PrimFloat.div
       PrimFloat.eqb PrimFloat.ltb PrimFloat.leb prim_of_Z prim_trunc
       (fun f => PrimFloat.eqb f 0%float).

Section Values.
  Variable fo : float_ops.

  Inductive value :=
  | VInt (k : ikind) (z : Z)
  | VUint (k : ukind) (z : Z)
  | VFloat (k : fkind) (f : fl fo)
  | VStr (s : string)
  | VBool (b : bool)
  | VNil                      (* the invalid reflect.Value (e.g. result of a call without results) *)
  | VOther (kind : string).   (* any other Go kind: ptr, struct, map, slice, func, ... (opaque here) *)

  Inductive class := CInt | CUint | CFloat | CStr | CBool | CNil | COther.
  Definition class_of (v : value) : class :=
    match v with
    | VInt _ _ => CInt | VUint _ _ => CUint | VFloat _ _ => CFloat | VStr _ => CStr
    | VBool _ => CBool | VNil => CNil | VOther _ => COther
    end.

  Definition well_ranged (v : value) : bool :=
    match v with
    | VInt k z => in_irange k z
    | VUint k z => in_urange k z
    | _ => true
    end.
End Values.
Arguments VInt {fo}. Arguments VUint {fo}. Arguments VFloat {fo}. Arguments VStr {fo}.
Arguments VBool {fo}. Arguments VNil {fo}. Arguments VOther {fo}.
Arguments class_of {fo}. Arguments well_ranged {fo}.
