(* Lang/ReaderTotal.v — the reader model never runs out of fuel: for every text it answers accept (ROk), reject (RErr) or
   outside-the-domain (RUnsup).  All proofs complete. *)
From Coq Require Import Ascii String List Arith Bool ZArith Lia.
From GV Require Import Lang.Syntax Lang.Parse Lang.Lexer Lang.Reader.
From GV Require Import Lang.ReaderFacts Lang.ReaderPos.   (* break_in, bindr_ok, the unfolding lemmas *_S *)
Import ListNotations.

(* ---- functions without fuel never answer RFuel ---- *)
Lemma read_int_nf neg s : read_int neg s <> RFuel.
Proof. unfold read_int. cbv zeta. destruct (in_i64 _); discriminate. Qed.

Lemma read_real_nf reals neg s : read_real reals neg s <> RFuel.
Proof. unfold read_real. destruct (lookup_real _ _) as [[m e]|]; discriminate. Qed.

Ltac nf_basic0 :=
  match goal with
  | X : read_int _ _ = RFuel |- _ => exact (read_int_nf _ _ X)
  | X : read_real _ _ _ = RFuel |- _ => exact (read_real_nf _ _ _ X)
  end.

Lemma read_const_nf reals ts : read_const reals ts <> Some RFuel.
Proof.
  intros H. unfold read_const in H. unfold bindr in H. break_in H. all: nf_basic0.
Qed.

Lemma read_key_nf ts : read_key ts <> RFuel.
Proof.
  intros H. unfold read_key in H. unfold bindr in H. break_in H. all: nf_basic0.
Qed.

Lemma raw_expr_nf x : raw_expr x <> RFuel.
Proof. unfold raw_expr. destruct (conv_e _ _ _) as [[e r]|]; discriminate. Qed.
Lemma raw_mexpr_nf x : raw_mexpr x <> RFuel.
Proof. unfold raw_mexpr. destruct (conv_m _ _ _) as [[e r]|]; discriminate. Qed.
Lemma raw_arg_nf x : raw_arg x <> RFuel.
Proof.
  intros H. unfold raw_arg in H. unfold bindr in H. break_in H.
  all: match goal with X : raw_expr _ = RFuel |- _ => exact (raw_expr_nf _ X) end.
Qed.

Lemma read_target_nf ts : read_target ts <> RFuel.
Proof.
  intros H. unfold read_target in H. unfold bindr in H. break_in H.
  all: match goal with X : read_key _ = RFuel |- _ => exact (read_key_nf _ X) end.
Qed.

Lemma expect_nf y ts : expect y ts <> RFuel.
Proof.
  intros H. unfold expect in H. destruct ts as [|t ts']; [discriminate H|].
  destruct (tk t); try discriminate H. destruct (Nat.eqb _ _); discriminate H.
Qed.

Ltac nf_basic :=
  match goal with
  | X : read_int _ _ = RFuel |- _ => exact (read_int_nf _ _ X)
  | X : read_real _ _ _ = RFuel |- _ => exact (read_real_nf _ _ _ X)
  | X : read_const _ _ = Some RFuel |- _ => exact (read_const_nf _ _ X)
  | X : read_key _ = RFuel |- _ => exact (read_key_nf _ X)
  | X : raw_expr _ = RFuel |- _ => exact (raw_expr_nf _ X)
  | X : raw_mexpr _ = RFuel |- _ => exact (raw_mexpr_nf _ X)
  | X : raw_arg _ = RFuel |- _ => exact (raw_arg_nf _ X)
  | X : read_target _ = RFuel |- _ => exact (read_target_nf _ X)
  | X : expect _ _ = RFuel |- _ => exact (expect_nf _ _ X)
  end.

(* ---- progress: what is left is shorter than what was given ---- *)
Lemma read_const_len reals ts c p rest : read_const reals ts = Some (ROk (c, p, rest)) -> length rest < length ts.
Proof.
  intros H. unfold read_const in H. unfold bindr in H. break_in H.
  all: subst; injection H; clear H; intros; subst; cbn [length]; lia.
Qed.

Lemma read_key_len ts k rest : read_key ts = ROk (k, rest) -> length rest < length ts.
Proof.
  intros H. unfold read_key in H. unfold bindr in H. break_in H.
  all: subst; injection H; clear H; intros; subst; cbn [length]; lia.
Qed.

Lemma read_target_len ts tg p rest : read_target ts = ROk (tg, p, rest) -> length rest < length ts.
Proof.
  intros H. unfold read_target in H. unfold bindr in H. break_in H.
  all: subst; injection H; clear H; intros; subst;
    repeat match goal with X : read_key _ = ROk _ |- _ => apply read_key_len in X end;
    cbn [length] in *; lia.
Qed.

Lemma expect_len y ts r : expect y ts = ROk r -> length r < length ts.
Proof.
  intros H. unfold expect in H. destruct ts as [|t ts']; [discriminate H|].
  destruct (tk t); try discriminate H.
  destruct (Nat.eqb _ _); [|discriminate H]. injection H as H. subst. cbn [length]. lia.
Qed.

Section ExprLen.
  Variable reals : reals_t.

  Definition atom_len (f : nat) : Prop := forall ts a p rest,
    read_atom reals f ts = ROk (a, p, rest) -> length rest < length ts.
  Definition args_len (f : nat) : Prop := forall ts a rest,
    read_args reals f ts = ROk (a, rest) -> length rest < length ts.
  Definition arglist_len (f : nat) : Prop := forall ts a rest,
    read_arglist reals f ts = ROk (a, rest) -> length rest < length ts.
  Definition scan_len (f : nat) : Prop := forall ts depth acc atoms x rest,
    scan reals f ts depth acc atoms = ROk (x, rest) -> length rest < length ts.
  Definition after_len (f : nat) : Prop := forall ts depth acc atoms x rest,
    after reals f ts depth acc atoms = ROk (x, rest) -> length rest <= length ts.

  Section Step.
    Variable f : nat.
    Hypothesis IHA : atom_len f.
    Hypothesis IHB : args_len f.
    Hypothesis IHC : arglist_len f.
    Hypothesis IHD : scan_len f.
    Hypothesis IHE : after_len f.

    Ltac lfwd :=
      repeat match goal with
             | H : read_const reals _ = Some (ROk _) |- _ => apply read_const_len in H
             | H : read_key _ = ROk _ |- _ => apply read_key_len in H
             | H : read_atom reals f _ = ROk _ |- _ => pose proof (IHA _ _ _ _ H); clear H
             | H : read_args reals f _ = ROk _ |- _ => pose proof (IHB _ _ _ H); clear H
             | H : read_arglist reals f _ = ROk _ |- _ => pose proof (IHC _ _ _ H); clear H
             | H : scan reals f _ _ _ _ = ROk _ |- _ => pose proof (IHD _ _ _ _ _ _ H); clear H
             | H : after reals f _ _ _ _ = ROk _ |- _ => pose proof (IHE _ _ _ _ _ _ H); clear H
             end.
    Ltac lleaf H := subst; try (injection H; clear H; intros; subst); lfwd; cbn [length] in *; lia.

    Lemma atom_len_step : atom_len (S f).
    Proof. intros ts a p rest H. rewrite read_atom_S in H. unfold bindr in H. break_in H. all: lleaf H. Qed.
    Lemma args_len_step : args_len (S f).
    Proof. intros ts a rest H. rewrite read_args_S in H. break_in H. all: lleaf H. Qed.
    Lemma arglist_len_step : arglist_len (S f).
    Proof. intros ts a rest H. rewrite read_arglist_S in H. unfold bindr in H. break_in H. all: lleaf H. Qed.
    Lemma scan_len_step : scan_len (S f).
    Proof. intros ts d acc atoms x rest H. rewrite scan_S in H. unfold bindr in H. break_in H. all: lleaf H. Qed.
    Lemma after_len_step : after_len (S f).
    Proof. intros ts d acc atoms x rest H. rewrite after_S in H. cbv zeta in H. break_in H. all: lleaf H. Qed.
  End Step.

  Lemma expr_block_len : forall f, atom_len f /\ args_len f /\ arglist_len f /\ scan_len f /\ after_len f.
  Proof.
    induction f as [|f (IHA & IHB & IHC & IHD & IHE)].
    - unfold atom_len, args_len, arglist_len, scan_len, after_len.
      split; [|split; [|split; [|split]]]; intros;
        match goal with H : _ = ROk _ |- _ => discriminate H end.
    - split; [|split; [|split; [|split]]].
      + exact (atom_len_step f IHB).
      + exact (args_len_step f IHC).
      + exact (arglist_len_step f IHC IHD).
      + exact (scan_len_step f IHA IHD IHE).
      + exact (after_len_step f IHD IHE).
  Qed.

  Lemma read_atom_len f ts a p rest : read_atom reals f ts = ROk (a, p, rest) -> length rest < length ts.
  Proof. exact (proj1 (expr_block_len f) ts a p rest). Qed.
  Lemma scan_len_all f ts d acc atoms x rest : scan reals f ts d acc atoms = ROk (x, rest) -> length rest < length ts.
  Proof. exact (proj1 (proj2 (proj2 (proj2 (expr_block_len f)))) ts d acc atoms x rest). Qed.

  (* ---- sufficiency of the fuel: depth needed is linear in the number of tokens ---- *)
  Definition atom_nf (f : nat) : Prop := forall ts, 4 * length ts + 1 <= f -> read_atom reals f ts <> RFuel.
  Definition args_nf (f : nat) : Prop := forall ts, 4 * length ts + 4 <= f -> read_args reals f ts <> RFuel.
  Definition arglist_nf (f : nat) : Prop := forall ts, 4 * length ts + 3 <= f -> read_arglist reals f ts <> RFuel.
  Definition scan_nf (f : nat) : Prop := forall ts depth acc atoms,
    4 * length ts + 2 <= f -> scan reals f ts depth acc atoms <> RFuel.
  Definition after_nf (f : nat) : Prop := forall ts depth acc atoms,
    4 * length ts + 3 <= f -> after reals f ts depth acc atoms <> RFuel.

  Section StepNF.
    Variable f : nat.
    Hypothesis IHA : atom_nf f.
    Hypothesis IHB : args_nf f.
    Hypothesis IHC : arglist_nf f.
    Hypothesis IHD : scan_nf f.
    Hypothesis IHE : after_nf f.

    Ltac pfwd :=
      repeat match goal with
             | H : read_atom reals _ _ = ROk _ |- _ => apply read_atom_len in H
             | H : scan reals _ _ _ _ _ = ROk _ |- _ => apply scan_len_all in H
             end.
    Ltac nleaf :=
      subst; pfwd; cbn [length] in *;
      first [ nf_basic
            | match goal with
              | X : read_atom reals f ?ts = RFuel |- _ => exact (IHA ts ltac:(cbn [length]; lia) X)
              | X : read_args reals f ?ts = RFuel |- _ => exact (IHB ts ltac:(cbn [length]; lia) X)
              | X : read_arglist reals f ?ts = RFuel |- _ => exact (IHC ts ltac:(cbn [length]; lia) X)
              | X : scan reals f ?ts ?d ?acc ?atoms = RFuel |- _ => exact (IHD ts d acc atoms ltac:(cbn [length]; lia) X)
              | X : after reals f ?ts ?d ?acc ?atoms = RFuel |- _ => exact (IHE ts d acc atoms ltac:(cbn [length]; lia) X)
              end ].

    Lemma atom_nf_step : atom_nf (S f).
    Proof. intros ts Hb H. rewrite read_atom_S in H. unfold bindr in H. break_in H. all: nleaf. Qed.
    Lemma args_nf_step : args_nf (S f).
    Proof. intros ts Hb H. rewrite read_args_S in H. break_in H. all: nleaf. Qed.
    Lemma arglist_nf_step : arglist_nf (S f).
    Proof. intros ts Hb H. rewrite read_arglist_S in H. unfold bindr in H. break_in H. all: nleaf. Qed.
    Lemma scan_nf_step : scan_nf (S f).
    Proof. intros ts d acc atoms Hb H. rewrite scan_S in H. unfold bindr in H. break_in H. all: nleaf. Qed.
    Lemma after_nf_step : after_nf (S f).
    Proof. intros ts d acc atoms Hb H. rewrite after_S in H. cbv zeta in H. break_in H. all: nleaf. Qed.
  End StepNF.

  Lemma expr_block_nf : forall f, atom_nf f /\ args_nf f /\ arglist_nf f /\ scan_nf f /\ after_nf f.
  Proof.
    induction f as [|f (IHA & IHB & IHC & IHD & IHE)].
    - unfold atom_nf, args_nf, arglist_nf, scan_nf, after_nf.
      split; [|split; [|split; [|split]]]; intros; lia.
    - split; [|split; [|split; [|split]]].
      + exact (atom_nf_step f IHB).
      + exact (args_nf_step f IHC).
      + exact (arglist_nf_step f IHC IHD).
      + exact (scan_nf_step f IHA IHD IHE).
      + exact (after_nf_step f IHD IHE).
  Qed.
End ExprLen.

(* ---- statements ---- *)
Section StmtLen.
  Variable reals : reals_t.

  Lemma read_raw_nf ts : read_raw reals ts <> RFuel.
  Proof.
    unfold read_raw.
    apply (proj1 (proj2 (proj2 (proj2 (expr_block_nf reals (efuel ts)))))). unfold efuel. lia.
  Qed.
  Lemma read_raw_len ts x rest : read_raw reals ts = ROk (x, rest) -> length rest < length ts.
  Proof. unfold read_raw. apply scan_len_all. Qed.

  Ltac nf1 :=
    first [ nf_basic
          | match goal with
            | X : read_raw reals _ = RFuel |- _ => exact (read_raw_nf _ X)
            | X : read_atom reals (efuel ?ts) ?ts = RFuel |- _ =>
              exact (proj1 (expr_block_nf reals (efuel ts)) ts ltac:(unfold efuel; lia) X)
            end ].
  Ltac lfwd1 :=
    repeat match goal with
           | H : read_raw reals _ = ROk _ |- _ => apply read_raw_len in H
           | H : read_atom reals _ _ = ROk _ |- _ => apply read_atom_len in H
           | H : read_target _ = ROk _ |- _ => apply read_target_len in H
           | H : read_key _ = ROk _ |- _ => apply read_key_len in H
           | H : expect _ _ = ROk _ |- _ => apply expect_len in H
           end.
  Ltac lleaf1 H := subst; try (injection H; clear H; intros; subst); lfwd1; cbn [length] in *; lia.

  Lemma read_expr_nf ts : read_expr reals ts <> RFuel.
  Proof. intros H. unfold read_expr in H. unfold bindr in H. break_in H. all: nf1. Qed.
  Lemma read_expr_len ts e rest : read_expr reals ts = ROk (e, rest) -> length rest < length ts.
  Proof. intros H. unfold read_expr in H. unfold bindr in H. break_in H. all: lleaf1 H. Qed.

  Lemma read_call_nf ts : read_call reals ts <> RFuel.
  Proof. intros H. unfold read_call in H. unfold bindr in H. break_in H. all: nf1. Qed.
  Lemma read_call_len ts c rest : read_call reals ts = ROk (c, rest) -> length rest < length ts.
  Proof. intros H. unfold read_call in H. unfold bindr in H. break_in H. all: lleaf1 H. Qed.

  Lemma read_assign_nf ts : read_assign reals ts <> RFuel.
  Proof. intros H. unfold read_assign in H. unfold bindr in H. break_in H. all: nf1. Qed.
  Lemma read_assign_len ts a rest : read_assign reals ts = ROk (a, rest) -> length rest < length ts.
  Proof. intros H. unfold read_assign in H. unfold bindr in H. break_in H. all: lleaf1 H. Qed.

  Ltac nf2 :=
    first [ nf1
          | match goal with
            | X : read_expr reals _ = RFuel |- _ => exact (read_expr_nf _ X)
            | X : read_call reals _ = RFuel |- _ => exact (read_call_nf _ X)
            | X : read_assign reals _ = RFuel |- _ => exact (read_assign_nf _ X)
            end ].
  Ltac lfwd2 :=
    lfwd1;
    repeat match goal with
           | H : read_expr reals _ = ROk _ |- _ => apply read_expr_len in H
           | H : read_call reals _ = ROk _ |- _ => apply read_call_len in H
           | H : read_assign reals _ = ROk _ |- _ => apply read_assign_len in H
           end.

  (* conc blocks: one token at least per child *)
  Lemma read_conc_len : forall f ts a b c d cs rest,
    read_conc reals f ts a b c d = ROk (cs, rest) -> length rest < length ts.
  Proof.
    induction f as [|f IH]; intros ts a b c d cs rest H; [discriminate H|].
    rewrite read_conc_S in H. unfold bindr in H. break_in H.
    all: subst; try (injection H; clear H; intros; subst); lfwd2;
      try match goal with X : read_conc reals _ _ _ _ _ _ = ROk _ |- _ => apply IH in X end;
      cbn [length] in *; lia.
  Qed.

  Lemma read_conc_nf : forall f ts a b c d, length ts < f -> read_conc reals f ts a b c d <> RFuel.
  Proof.
    induction f as [|f IH]; intros ts a b c d Hb H; [lia|].
    rewrite read_conc_S in H. unfold bindr in H. break_in H.
    all: subst; lfwd2; cbn [length] in *;
      first [ nf2
            | match goal with
              | X : read_conc reals _ ?ts ?a ?b ?c ?d = RFuel |- _ => exact (IH ts a b c d ltac:(cbn [length]; lia) X)
              end ].
  Qed.

  Definition block_len (f : nat) : Prop := forall ts b rest,
    read_block reals f ts = ROk (b, rest) -> length rest <= length ts.
  Definition stmts_len (f : nat) : Prop := forall ts ss rest,
    read_stmts reals f ts = ROk (ss, rest) -> length rest <= length ts.
  Definition stmt_len (f : nat) : Prop := forall ts s rest,
    read_stmt reals f ts = ROk (Some (s, rest)) -> length rest < length ts.
  Definition braced_len (f : nat) : Prop := forall ts b rest,
    read_braced reals f ts = ROk (b, rest) -> length rest < length ts.
  Definition elifs_len (f : nat) : Prop := forall ts els el rest,
    read_elifs reals f ts = ROk (els, el, rest) -> length rest <= length ts.

  Section BlockLenStep.
    Variable f : nat.
    Hypothesis IH1 : block_len f.
    Hypothesis IH2 : stmts_len f.
    Hypothesis IH3 : stmt_len f.
    Hypothesis IH4 : braced_len f.
    Hypothesis IH5 : elifs_len f.

    Ltac lfwd3 :=
      lfwd2;
      repeat match goal with
             | H : read_conc reals _ _ _ _ _ _ = ROk _ |- _ => apply read_conc_len in H
             | H : read_block reals f _ = ROk _ |- _ => pose proof (IH1 _ _ _ H); clear H
             | H : read_stmts reals f _ = ROk _ |- _ => pose proof (IH2 _ _ _ H); clear H
             | H : read_stmt reals f _ = ROk (Some _) |- _ => pose proof (IH3 _ _ _ H); clear H
             | H : read_braced reals f _ = ROk _ |- _ => pose proof (IH4 _ _ _ H); clear H
             | H : read_elifs reals f _ = ROk _ |- _ => pose proof (IH5 _ _ _ _ H); clear H
             end.
    Ltac lleaf3 H := subst; try (injection H; clear H; intros; subst); lfwd3; cbn [length] in *; lia.

    Lemma block_len_step : block_len (S f).
    Proof. intros ts b rest H. rewrite read_block_S in H. unfold bindr in H. break_in H. all: lleaf3 H. Qed.
    Lemma stmts_len_step : stmts_len (S f).
    Proof. intros ts ss rest H. rewrite read_stmts_S in H. unfold bindr in H. break_in H. all: lleaf3 H. Qed.
    Lemma stmt_len_step : stmt_len (S f).
    Proof. intros ts s rest H. rewrite read_stmt_S in H. unfold bindr in H. break_in H. all: lleaf3 H. Qed.
    Lemma braced_len_step : braced_len (S f).
    Proof. intros ts b rest H. rewrite read_braced_S in H. unfold bindr in H. break_in H. all: lleaf3 H. Qed.
    Lemma elifs_len_step : elifs_len (S f).
    Proof. intros ts els el rest H. rewrite read_elifs_S in H. unfold bindr in H. break_in H. all: lleaf3 H. Qed.
  End BlockLenStep.

  Lemma stmt_block_len : forall f, block_len f /\ stmts_len f /\ stmt_len f /\ braced_len f /\ elifs_len f.
  Proof.
    induction f as [|f (IH1 & IH2 & IH3 & IH4 & IH5)].
    - unfold block_len, stmts_len, stmt_len, braced_len, elifs_len.
      split; [|split; [|split; [|split]]]; intros;
        match goal with H : _ = ROk _ |- _ => discriminate H end.
    - split; [|split; [|split; [|split]]].
      + exact (block_len_step f IH2).
      + exact (stmts_len_step f IH2 IH3).
      + exact (stmt_len_step f IH4 IH5).
      + exact (braced_len_step f IH1).
      + exact (elifs_len_step f IH4 IH5).
  Qed.

  Lemma read_block_len f ts b rest : read_block reals f ts = ROk (b, rest) -> length rest <= length ts.
  Proof. exact (proj1 (stmt_block_len f) ts b rest). Qed.
  Lemma read_stmt_len f ts s rest : read_stmt reals f ts = ROk (Some (s, rest)) -> length rest < length ts.
  Proof. exact (proj1 (proj2 (proj2 (stmt_block_len f))) ts s rest). Qed.
  Lemma read_braced_len f ts b rest : read_braced reals f ts = ROk (b, rest) -> length rest < length ts.
  Proof. exact (proj1 (proj2 (proj2 (proj2 (stmt_block_len f)))) ts b rest). Qed.

  Definition block_nf (f : nat) : Prop := forall ts, 4 * length ts + 6 <= f -> read_block reals f ts <> RFuel.
  Definition stmts_nf (f : nat) : Prop := forall ts, 4 * length ts + 5 <= f -> read_stmts reals f ts <> RFuel.
  Definition stmt_nf (f : nat) : Prop := forall ts, 4 * length ts + 4 <= f -> read_stmt reals f ts <> RFuel.
  Definition braced_nf (f : nat) : Prop := forall ts, 4 * length ts + 3 <= f -> read_braced reals f ts <> RFuel.
  Definition elifs_nf (f : nat) : Prop := forall ts, 4 * length ts + 4 <= f -> read_elifs reals f ts <> RFuel.

  Section BlockNFStep.
    Variable f : nat.
    Hypothesis IH1 : block_nf f.
    Hypothesis IH2 : stmts_nf f.
    Hypothesis IH3 : stmt_nf f.
    Hypothesis IH4 : braced_nf f.
    Hypothesis IH5 : elifs_nf f.

    Ltac pfwd3 :=
      lfwd2;
      repeat match goal with
             | H : read_stmt reals _ _ = ROk (Some _) |- _ => apply read_stmt_len in H
             | H : read_braced reals _ _ = ROk _ |- _ => apply read_braced_len in H
             | H : read_block reals _ _ = ROk _ |- _ => apply read_block_len in H
             end.
    Ltac nleaf3 :=
      subst; pfwd3; cbn [length] in *;
      first [ nf2
            | match goal with
              | X : read_conc reals ?g ?ts ?a ?b ?c ?d = RFuel |- _ =>
                exact (read_conc_nf g ts a b c d ltac:(cbn [length]; lia) X)
              | X : read_block reals f ?ts = RFuel |- _ => exact (IH1 ts ltac:(cbn [length]; lia) X)
              | X : read_stmts reals f ?ts = RFuel |- _ => exact (IH2 ts ltac:(cbn [length]; lia) X)
              | X : read_stmt reals f ?ts = RFuel |- _ => exact (IH3 ts ltac:(cbn [length]; lia) X)
              | X : read_braced reals f ?ts = RFuel |- _ => exact (IH4 ts ltac:(cbn [length]; lia) X)
              | X : read_elifs reals f ?ts = RFuel |- _ => exact (IH5 ts ltac:(cbn [length]; lia) X)
              end ].

    Lemma block_nf_step : block_nf (S f).
    Proof. intros ts Hb H. rewrite read_block_S in H. unfold bindr in H. break_in H. all: nleaf3. Qed.
    Lemma stmts_nf_step : stmts_nf (S f).
    Proof. intros ts Hb H. rewrite read_stmts_S in H. unfold bindr in H. break_in H. all: nleaf3. Qed.
    Lemma stmt_nf_step : stmt_nf (S f).
    Proof. intros ts Hb H. rewrite read_stmt_S in H. unfold bindr in H. break_in H. all: nleaf3. Qed.
    Lemma braced_nf_step : braced_nf (S f).
    Proof. intros ts Hb H. rewrite read_braced_S in H. unfold bindr in H. break_in H. all: nleaf3. Qed.
    Lemma elifs_nf_step : elifs_nf (S f).
    Proof. intros ts Hb H. rewrite read_elifs_S in H. unfold bindr in H. break_in H. all: nleaf3. Qed.
  End BlockNFStep.

  Lemma stmt_block_nf : forall f, block_nf f /\ stmts_nf f /\ stmt_nf f /\ braced_nf f /\ elifs_nf f.
  Proof.
    induction f as [|f (IH1 & IH2 & IH3 & IH4 & IH5)].
    - unfold block_nf, stmts_nf, stmt_nf, braced_nf, elifs_nf.
      split; [|split; [|split; [|split]]]; intros; lia.
    - split; [|split; [|split; [|split]]].
      + exact (block_nf_step f IH2).
      + exact (stmts_nf_step f IH2 IH3).
      + exact (stmt_nf_step f IH4 IH5).
      + exact (braced_nf_step f IH1).
      + exact (elifs_nf_step f IH4 IH5).
  Qed.

  (* ---- rules: read_rule in three parts (description, salience, body) ---- *)
  Definition desc_part (r : toks) : string * toks :=
    match r with
    | d :: r' => match tk d with LxStr s => (trimq s, r') | _ => (EmptyString, r) end
    | [] => (EmptyString, r)
    end.

  Definition sal_part (r1 : toks) : rres (Z * toks) :=
    match r1 with
    | s :: r' =>
      match tk s with
      | LxKw Kw_salience =>
        match r' with
        | i :: r'' =>
          match tk i, r'' with
          | LxInt digits, _ => dor z <- read_int false digits ;; ROk (z, r'')
          | LxSym Y_minus, j :: r3 => match tk j with LxInt digits => dor z <- read_int true digits ;; ROk (z, r3) | _ => RErr end
          | _, _ => RErr
          end
        | [] => RErr
        end
      | _ => ROk (0%Z, r1)
      end
    | [] => ROk (0%Z, r1)
    end.

  Definition rule_tail (name desc : string) (x : Z * toks) : rres (rule * toks) :=
    let '(sal, r2) := x in
    match r2 with
    | bg :: r3 =>
      match tk bg with
      | LxKw Kw_begin =>
        dor y <- read_block reals (sfuel r3) r3 ;;
        let '(body, r4) := y in
        match r4 with
        | e :: r5 => match tk e with LxKw Kw_end => ROk (mkRule (mkMeta name desc sal) body, r5) | _ => RErr end
        | [] => RErr
        end
      | _ => RErr
      end
    | [] => RErr
    end.

  Lemma read_rule_eq ts :
    read_rule reals ts =
    match ts with
    | a :: b :: r =>
      match tk a, tk b with
      | LxKw Kw_rule, LxStr rawname =>
        let name := trimq rawname in
        if String.eqb name "" then RErr else
        let '(desc, r1) := desc_part r in
        bindr (sal_part r1) (rule_tail name desc)
      | _, _ => RErr
      end
    | _ => RErr
    end.
  Proof. reflexivity. Qed.

  Lemma desc_part_len r d r1 : desc_part r = (d, r1) -> length r1 <= length r.
  Proof.
    unfold desc_part. intros H. break_in H.
    all: subst; injection H; clear H; intros; subst; cbn [length]; lia.
  Qed.

  Lemma sal_part_nf r1 : sal_part r1 <> RFuel.
  Proof. intros H. unfold sal_part in H. unfold bindr in H. break_in H. all: nf_basic. Qed.

  Lemma sal_part_len r1 x : sal_part r1 = ROk x -> length (snd x) <= length r1.
  Proof.
    intros H. unfold sal_part in H. unfold bindr in H. break_in H.
    all: subst; injection H; clear H; intros; subst; cbn [length snd]; lia.
  Qed.

  Lemma rule_tail_nf name desc x : rule_tail name desc x <> RFuel.
  Proof.
    intros H. unfold rule_tail in H. unfold bindr in H. break_in H.
    all: match goal with
         | X : read_block reals (sfuel ?ts) ?ts = RFuel |- _ =>
           exact (proj1 (stmt_block_nf (sfuel ts)) ts ltac:(unfold sfuel; lia) X)
         end.
  Qed.

  Lemma rule_tail_len name desc x r rest : rule_tail name desc x = ROk (r, rest) -> length rest < length (snd x).
  Proof.
    intros H. unfold rule_tail in H. unfold bindr in H. break_in H.
    all: subst; injection H; clear H; intros; subst;
      repeat match goal with X : read_block reals _ _ = ROk _ |- _ => apply read_block_len in X end;
      cbn [length snd] in *; lia.
  Qed.

  Lemma read_rule_nf ts : read_rule reals ts <> RFuel.
  Proof.
    intros H. rewrite read_rule_eq in H. cbv zeta in H. unfold bindr in H. break_in H.
    all: first [ match goal with X : sal_part _ = RFuel |- _ => exact (sal_part_nf _ X) end
               | exact (rule_tail_nf _ _ _ H) ].
  Qed.

  Lemma read_rule_len ts r rest : read_rule reals ts = ROk (r, rest) -> length rest < length ts.
  Proof.
    intros H. rewrite read_rule_eq in H. cbv zeta in H. unfold bindr in H. break_in H.
    all: subst; apply rule_tail_len in H;
      repeat match goal with
             | X : sal_part _ = ROk _ |- _ => apply sal_part_len in X
             | X : desc_part _ = (_, _) |- _ => apply desc_part_len in X
             end;
      cbn [length snd] in *; lia.
  Qed.

  Lemma read_rules_nf : forall f ts acc, length ts < f -> read_rules reals f ts acc <> RFuel.
  Proof.
    induction f as [|f IH]; intros ts acc Hb H; [lia|].
    rewrite read_rules_S in H. unfold bindr in H.
    destruct (read_rule reals ts) as [[r rest']| | |] eqn:Er; try discriminate H.
    - apply read_rule_len in Er.
      destruct (name_in (m_name (r_meta r)) acc); [discriminate H|].
      destruct rest' as [|t0 rest'']; [discriminate H|].
      destruct (tk t0) as [k|dots nm|si|sr|ss|a|b sb|y]; try discriminate H.
      destruct k; try discriminate H.
      refine (IH (t0 :: rest'') _ _ H). lia.
    - exact (read_rule_nf _ Er).
  Qed.
End StmtLen.

(* expressions: the fuel the entry point supplies suffices for every token list *)
Theorem read_raw_total reals ts : read_raw reals ts <> RFuel.
Proof. exact (read_raw_nf reals ts). Qed.

Theorem read_expr_total reals ts : read_expr reals ts <> RFuel.
Proof. exact (read_expr_nf reals ts). Qed.

(* statements *)
Theorem read_rule_total reals ts : read_rule reals ts <> RFuel.
Proof. exact (read_rule_nf reals ts). Qed.

(* whole texts *)
Theorem read_text_total reals s : read_text reals s <> RFuel.
Proof.
  intros H. unfold read_text in H. cbv zeta in H.
  destruct (read_rules reals (S (length (lx_toks (lex s)))) (lx_toks (lex s)) []) as [[rs rest]| | |] eqn:E.
  - destruct rest; destruct (lx_bad (lex s)); destruct (lx_unsup (lex s)); discriminate H.
  - destruct (lx_unsup (lex s)); discriminate H.
  - discriminate H.
  - refine (read_rules_nf reals _ _ _ _ E). lia.
Qed.

Corollary accepts_total reals s : exists b, accepts reals s = ROk b \/ accepts reals s = RUnsup.
Proof.
  unfold accepts. destruct (read_text reals s) as [rs| | |] eqn:E.
  - exists true. left. reflexivity.
  - exists false. left. reflexivity.
  - exists true. right. reflexivity.
  - exfalso. exact (read_text_total reals s E).
Qed.

Print Assumptions read_raw_total.
Print Assumptions read_expr_total.
Print Assumptions read_rule_total.
Print Assumptions read_text_total.
Print Assumptions accepts_total.
