(* Lang/Sem.v — the evaluator of rule bodies, organised as internal/base/*.go organises it:
   operators (internal/core/math.go, Expression.Evaluate), expression nodes, statements with
   the (value, error, returned-flag) protocol, the break/continue sentinels, the recover
   points of Assignment and the three call nodes, the 10,000-iteration cap of `for`.
   Every function is total and structurally recursive (loops on an explicit counter).
   Definitions only. *)
From Coq Require Import Ascii String List ZArith Bool.
From GV Require Import Lang.Value Lang.Syntax Lang.Store.
Import ListNotations.
Local Open Scope Z_scope.

Section Sem.
  Variable fo : float_ops.
  Notation value := (value fo).
  Notation env := (env fo).

  (* ================= operators ================= *)

  Definition to_float (v : value) : option (fl fo) :=
    match v with
    | VInt _ z | VUint _ z => Some (f_of_Z fo z)
    | VFloat _ f => Some f
    | _ => None
    end.

  (* core.Add / Sub / Mul: result kinds int64 / uint64 / float64 *)
  Definition arith_pm (o : aop) (a b : value) : res value :=
    let zop := match o with OAdd => Z.add | OSub => Z.sub | _ => Z.mul end in
    let fop := match o with OAdd => fadd fo | OSub => fsub fo | _ => fmul fo end in
    match a, b with
    | VInt _ x, VInt _ y => Ok (VInt KI64 (wrap64 (zop x y)))
    | VInt _ x, VUint _ y => Ok (VInt KI64 (wrap64 (zop x (wrap64 y))))
    | VUint _ x, VInt _ y => Ok (VInt KI64 (wrap64 (zop (wrap64 x) y)))
    | VUint _ x, VUint _ y => Ok (VUint KU64 (uwrap64 (zop x y)))
    | _, _ =>
      match class_of a, class_of b with
      | (CInt | CUint | CFloat), (CInt | CUint | CFloat) =>
        match to_float a, to_float b with
        | Some x, Some y => Ok (VFloat KF64 (fop x y))
        | _, _ => Err []
        end
      | _, _ => Err []
      end
    end.

  Definition arith (o : aop) (a b : value) : res value :=
    match o with
    | OAdd => match a, b with VStr x, VStr y => Ok (VStr (x ++ y)) | _, _ => arith_pm OAdd a b end
    | OSub | OMul => arith_pm o a b
    | ODiv =>
      let zero :=
        match b with
        | VInt _ y | VUint _ y => y =? 0
        | VFloat _ f => f_is_zero fo f
        | _ => false
        end in
      if zero then Err []
      else match a, b with
           | VInt _ x, VInt _ y => Ok (VInt KI64 (wrap64 (Z.quot x y)))
           | VInt _ x, VUint _ y => Ok (VInt KI64 (wrap64 (Z.quot x (wrap64 y))))
           | VUint _ x, VInt _ y => Ok (VInt KI64 (wrap64 (Z.quot (wrap64 x) y)))
           | VUint _ x, VUint _ y => Ok (VUint KU64 (Z.div x y))
           | _, _ =>
             match class_of a, class_of b with
             | (CInt | CUint | CFloat), (CInt | CUint | CFloat) =>
               match to_float a, to_float b with
               | Some x, Some y => Ok (VFloat KF64 (fdiv fo x y))
               | _, _ => Err []
               end
             | _, _ => Err []
             end
           end
    end.

  Definition cmp_of {A} (eqb ltb leb : A -> A -> bool) (o : cop) (x y : A) : bool :=
    match o with
    | CEq => eqb x y | CNe => negb (eqb x y)
    | CLt => ltb x y | CLe => leb x y
    | CGt => ltb y x | CGe => leb y x
    end.

  (* Expression.Evaluate, comparison part: None = no operand class matched (b stays invalid) *)
  Definition compare (o : cop) (a b : value) : option bool :=
    match a, b with
    | VStr x, VStr y => Some (cmp_of String.eqb String.ltb String.leb o x y)
    | (VInt _ x | VUint _ x), (VInt _ y | VUint _ y) => Some (cmp_of Z.eqb Z.ltb Z.leb o x y)   (* exact *)
    | VBool x, VBool y => match o with CEq => Some (Bool.eqb x y) | CNe => Some (negb (Bool.eqb x y)) | _ => None end
    | _, _ =>
      match class_of a, class_of b with
      | (CInt | CUint | CFloat), (CInt | CUint | CFloat) =>
        match to_float a, to_float b with
        | Some x, Some y => Some (cmp_of (feqb fo) (fltb fo) (fleb fo) o x y)
        | _, _ => None
        end
      | _, _ => None
      end
    end.

  Definition logic (o : lop) (a b : value) : option bool :=
    match a, b with
    | VBool x, VBool y => Some (match o with LAnd => x && y | LOr => x || y end)
    | _, _ => None
    end.

  (* the LAST: block of Expression.Evaluate *)
  Definition finish (p : pos) (neg : bool) (v : value) : res value :=
    match v with
    | VNil => Err [p]                                  (* nothing valid: "evaluate Expression err!" *)
    | _ => if neg then match v with VBool b => Ok (VBool (negb b)) | _ => Panic end   (* reflect .Bool() *)
           else Ok v
    end.

  (* ================= metadata constants ================= *)
  Definition digit_of (c : ascii) : option Z :=
    let n := Z.of_nat (nat_of_ascii c) in if (48 <=? n) && (n <=? 57) then Some (n - 48) else None.
  Fixpoint parse_digits (s : string) (acc : Z) : option Z :=
    match s with
    | EmptyString => Some acc
    | String c s' => match digit_of c with Some d => parse_digits s' (acc * 10 + d) | None => None end
    end.
  Fixpoint trim_left (s : string) : string :=
    match s with String c s' => if Ascii.eqb c " "%char then trim_left s' else s | _ => s end.
  Fixpoint rev_string (s : string) (acc : string) : string :=
    match s with EmptyString => acc | String c s' => rev_string s' (String c acc) end.
  Definition trim_spaces (s : string) : string := rev_string (trim_left (rev_string (trim_left s) "")) "".
  (* strconv.ParseInt(s, 10, 64): optional sign, at least one digit, in int64 range *)
  Definition parse_int64 (s : string) : option Z :=
    let body sgn t := match t with
                      | EmptyString => None
                      | _ => match parse_digits t 0 with
                             | Some z => let v := sgn * z in if (- 2 ^ 63 <=? v) && (v <? 2 ^ 63) then Some v else None
                             | None => None end
                      end in
    match s with
    | String "-"%char t => body (-1) t
    | String "+"%char t => body 1 t
    | _ => body 1 s
    end.

  Definition eval_const (meta : rule_meta) (c : const) : value :=
    match c with
    | KInt z => VInt KI64 z
    | KReal m e => VFloat KF64 (fmul fo (f_of_Z fo m) (f_of_Z fo 1))   (* placeholder, overridden below *)
    | KStr s => VStr s
    | KBool b => VBool b
    | KAtName => VStr (m_name meta)
    | KAtId => VInt KI64 (match parse_int64 (trim_spaces (m_name meta)) with Some z => z | None => 0 end)
    | KAtDesc => VStr (m_desc meta)
    | KAtSal => VInt KI64 (m_sal meta)
    end.

  (* ================= the state monad over env ================= *)
  Definition M (A : Type) : Type := env -> res A * env.
  Definition ret {A} (a : A) : M A := fun e => (Ok a, e).
  Definition lift {A} (r : res A) : M A := fun e => (r, e).
  Definition mbind {A B} (m : M A) (f : A -> M B) : M B :=
    fun e => match m e with
             | (Ok a, e') => f a e'
             | (Err c, e') => (Err c, e')
             | (Panic, e') => (Panic, e')
             end.
  Definition mwrap {A} (p : pos) (m : M A) : M A := fun e => let '(r, e') := m e in (wrap p r, e').
  Definition mrecover {A} (p : pos) (m : M A) : M A := fun e => let '(r, e') := m e in (recover p r, e').
  Definition reads {A} (f : env -> res A) : M A := fun e => (f e, e).

  Variable meta : rule_meta.
  (* float literal m * 2^e, supplied by the instance *)
  Variable real_of : Z -> Z -> fl fo.

  Definition konst (c : const) : value :=
    match c with KReal m e => VFloat KF64 (real_of m e) | _ => eval_const meta c end.

  (* ================= expressions ================= *)
  Fixpoint eval_atom (a : atom) : M value :=
    match a with
    | AVar n => reads (fun e => get_value fo e n)
    | AConst c => ret (konst c)
    | ACall c => eval_call c
    | AMapVar m => reads (fun e => mapvar_get fo e m)
    end
  with eval_call (c : call) : M value :=
    match c with
    | Call k p name a =>
      mrecover p
        (mbind (eval_args a) (fun vs =>
           fun e => match wrap p (exec_call fo e k name vs) with
                    | Ok (v, e') => (Ok v, e')
                    | Err cs => (Err cs, e)
                    | Panic => (Panic, e)
                    end))
    end
  with eval_args (a : args) : M (list value) :=
    match a with
    | ANil => ret []
    | ACons x rest => mbind (eval_arg x) (fun v => mbind (eval_args rest) (fun vs => ret (v :: vs)))
    end
  with eval_arg (x : arg) : M value :=
    match x with
    | GConst c => ret (konst c)
    | GVar n => reads (fun e => get_value fo e n)
    | GCall c => eval_call c
    | GMapVar m => reads (fun e => mapvar_get fo e m)
    | GExpr e => eval_expr e
    end
  with eval_mexpr (m : mexpr) : M value :=
    match m with
    | MAtom _ a => eval_atom a
    | MParen _ m' => eval_mexpr m'
    | MBin p o l r =>
      mbind (eval_mexpr l) (fun lv => mbind (eval_mexpr r) (fun rv => lift (wrap p (arith o lv rv))))
    end
  with eval_expr (x : expr) : M value :=
    match x with
    | EMath p m => mbind (eval_mexpr m) (fun v => lift (finish p false v))
    | EAtom p neg a => mbind (eval_atom a) (fun v => lift (finish p neg v))
    | EParen p neg e => mbind (eval_expr e) (fun v => lift (finish p neg v))
    | ELogic p o l r =>
      mbind (eval_expr l) (fun lv => mbind (eval_expr r) (fun rv =>
        lift (match logic o lv rv with Some b => Ok (VBool b) | None => Err [p] end)))
    | ECmp p o l r =>
      mbind (eval_expr l) (fun lv => mbind (eval_expr r) (fun rv =>
        lift (match compare o lv rv with Some b => Ok (VBool b) | None => Err [p] end)))
    end.

  (* reflect.Value.Bool() on the value of a condition *)
  Definition as_bool (v : value) : res bool := match v with VBool b => Ok b | _ => Panic end.

  (* ================= statements ================= *)
  Definition eval_rhs (r : rhs) : M value :=
    match r with RMath m => eval_mexpr m | RExpr e => eval_expr e end.

  Definition aop_of (o : asg) : option aop :=
    match o with AsAdd => Some OAdd | AsSub => Some OSub | AsMul => Some OMul | AsDiv => Some ODiv | _ => None end.

  (* Assignment.Evaluate, with its deferred recover *)
  Definition exec_assign (a : assignment) : M unit :=
    let p := as_pos a in
    mrecover p
      (mbind (eval_rhs (as_rhs a)) (fun mv =>
         let store (v : value) : M unit :=
           fun e => match as_target a with
                    | TVar n => match wrap p (set_value fo e n v) with
                                | Ok e' => (Ok tt, e') | Err c => (Err c, e) | Panic => (Panic, e) end
                    | TMap m => match wrap p (mapvar_set fo e m v) with
                                | Ok e' => (Ok tt, e') | Err c => (Err c, e) | Panic => (Panic, e) end
                    end in
         match aop_of (as_op a) with
         | None => store mv
         | Some o =>
           mbind (mwrap p (match as_target a with
                           | TVar n => reads (fun e => get_value fo e n)
                           | TMap m => reads (fun e => mapvar_get fo e m)
                           end)) (fun sv =>
             mbind (lift (wrap p (arith o sv mv))) store)
         end)).

  (* outcome of a statement: the (value, err, flag) triple of the Go code *)
  Inductive flow :=
  | Normal
  | Returned (v : option value)     (* flag = true, err = nil *)
  | Brk | Cont                      (* the two sentinel errors *)
  | Failed (cites : list pos)
  | Panicked.

  Definition S : Type := env -> flow * env.
  Definition of_unit (m : M unit) : S :=
    fun e => match m e with (Ok _, e') => (Normal, e') | (Err c, e') => (Failed c, e') | (Panic, e') => (Panicked, e') end.
  (* evaluate a condition, then continue *)
  Definition on_cond (c : expr) (k : bool -> S) : S :=
    fun e => match mbind (eval_expr c) (fun v => lift (as_bool v)) e with
             | (Ok b, e') => k b e'
             | (Err cs, e') => (Failed cs, e')
             | (Panic, e') => (Panicked, e')
             end.

  Definition max_execute_num : nat := Z.to_nat 10000.

  Definition conc_child (c : cchild) : M unit :=
    match c with
    | CCAsg a => exec_assign a
    | CCCall cl => mbind (eval_call cl) (fun _ => ret tt)
    end.
  (* ConcStatement.Evaluate: every child runs (each has its own recover); the block fails,
     after all of them, iff some child failed.  The children are run here in listed order;
     Conc/ (C18) treats the interleavings. *)
  Fixpoint conc_run (cs : list cchild) (failed : bool) (acc : list pos) : S :=
    match cs with
    | [] => fun e => (if failed then Failed acc else Normal, e)
    | c :: rest => fun e => match conc_child c e with
                            | (Ok _, e') => conc_run rest failed acc e'
                            | (Err cs', e') => conc_run rest true (acc ++ cs') e'   (* the block's message joins the children's *)
                            | (Panic, e') => conc_run rest true acc e'
                            end
    end.

  (* ForStmt.Evaluate's loop, given the already-initialised environment: [fuel] conditions may
     still be evaluated (maxExecuteNum); the step runs after a normal iteration AND after continue *)
  Fixpoint for_loop (c : expr) (step : assignment) (body : S) (fuel : nat) (e : env) {struct fuel} : flow * env :=
    match fuel with
    | O => (Failed [], e)                      (* execute for bigger than maxExecuteNum *)
    | Datatypes.S fuel' =>
      on_cond c (fun b =>
        if b then
          fun e => match body e with
                   | (Normal, e') | (Cont, e') =>
                     (match exec_assign step e' with
                      | (Ok _, e'') => for_loop c step body fuel' e''
                      | (Err cs, e'') => (Failed cs, e'')
                      | (Panic, e'') => (Panicked, e'')
                      end)
                   | (Brk, e') => (Normal, e')
                   | other => other
                   end
        else fun e => (Normal, e)) e
    end.

  (* ForRangeStmt.Evaluate's loop over the keys taken when the loop started *)
  Fixpoint range_loop (key : string) (body : S) (ks : list value) (e : env) {struct ks} : flow * env :=
    match ks with
    | [] => (Normal, e)
    | k :: ks' =>
      match set_value fo e key k with
      | Err cs => (Failed cs, e)
      | Panic => (Panicked, e)
      | Ok e1 =>
        match body e1 with
        | (Normal, e2) | (Cont, e2) => range_loop key body ks' e2
        | (Brk, e2) => (Normal, e2)
        | other => other
        end
      end
    end.

  (* the keys a forRange visits: indexes 0..len-1 of a slice/array, the keys of a map *)
  Definition range_keys (r : resolved fo) : option (list value) :=
    match r with
    | RObj (HSeq false _ _ elems) => Some (map (fun i => VInt KI (Z.of_nat i)) (seq 0 (length elems)))
    | RObj (HMap false _ _ entries) => Some (map fst entries)
    | _ => None
    end.

  Fixpoint exec_stmt (s : stmt) : S :=
    match s with
    | SAssign a => of_unit (exec_assign a)
    | SCall c => of_unit (mbind (eval_call c) (fun _ => ret tt))
    | SIf c th elifs el =>
      on_cond c (fun b =>
        if b then exec_block th
        else exec_elifs elifs (match el with Some bl => exec_block bl | None => fun e => (Normal, e) end))
    | SFor p init c step body =>
      fun e =>
        match exec_assign init e with
        | (Err cs, e1) => (Failed cs, e1)
        | (Panic, e1) => (Panicked, e1)
        | (Ok _, e1) => for_loop c step (exec_block body) max_execute_num e1
        end
    | SForRange p key coll body =>
      fun e =>
        match wrap p (resolve fo e coll) with
        | Err cs => (Failed cs, e)
        | Panic => (Panicked, e)
        | Ok r =>
          match range_keys r with
          | None => (Failed [p], e)                     (* not iterable *)
          | Some ks => range_loop key (exec_block body) ks e
          end
        end
    | SBreak => fun e => (Brk, e)
    | SContinue => fun e => (Cont, e)
    | SConc cs => conc_run cs false []
    end
  with exec_block (b : block) : S :=
    match b with
    | Block ss r =>
      fun e =>
        match exec_stmts ss e with
        | (Normal, e') =>
          match r with
          | None => (Normal, e')
          | Some None => (Returned None, e')
          | Some (Some x) =>
            match eval_expr x e' with
            | (Ok v, e'') => (Returned (match v with VNil => None | _ => Some v end), e'')
            | (Err cs, e'') => (Failed cs, e'')
            | (Panic, e'') => (Panicked, e'')
            end
          end
        | other => other
        end
    end
  with exec_stmts (ss : stmts) : S :=
    match ss with
    | SNil => fun e => (Normal, e)
    | SCons s rest => fun e => match exec_stmt s e with
                               | (Normal, e') => exec_stmts rest e'
                               | other => other
                               end
    end
  with exec_elifs (l : eliflist) (otherwise : S) : S :=
    match l with
    | ENil => otherwise
    | ECons c b rest => on_cond c (fun t => if t then exec_block b else exec_elifs rest otherwise)
    end.

  (* ================= one rule execution ================= *)
  Inductive rule_result :=
  | RRNoReturn                       (* (nil, nil, false) *)
  | RRReturn (v : option value)      (* (v, nil, true) *)
  | RRError (cites : list pos)       (* (nil, err, false) *)
  | RRPanic.                         (* a panic escaping RuleEntity.Execute *)

  (* RuleEntity.Execute: a fresh, empty local-variable map for every execution.
     [contained] = a deferred recover at the rule entry point turns a panic into an error *)
  Definition exec_rule (contained : bool) (body : block) (inj : list (string * hobj fo))
             (trace : list (string * list value)) : rule_result * env :=
    let e0 := mkEnv inj [] trace in
    match exec_block body e0 with
    | (Normal, e) => (RRNoReturn, e)
    | (Returned v, e) => (RRReturn v, e)
    | (Brk, e) | (Cont, e) => (RRError [], e)
    | (Failed cs, e) => (RRError cs, e)
    | (Panicked, e) => (if contained then RRError [] else RRPanic, e)
    end.
End Sem.
