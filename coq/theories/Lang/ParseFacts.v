(* Lang/ParseFacts.v — the reader of Lang/Parse.v returns exactly the canonical (precedence,
   left-associative) well-sorted tree whose printing is the token list, and nothing else. *)
From Coq Require Import Ascii String List Arith Bool Lia.
From GV Require Import Lang.Syntax Lang.Parse.
Import ListNotations.

(* ------------------------------------------------------------------------------------------ *)
(* canonb                                                                                      *)
Lemma canonb_spec : forall t, canonb t = true <-> canon t.
Proof.
  induction t as [neg n|neg t IH|o l IHl r IHr]; simpl.
  - split; auto.
  - exact IH.
  - rewrite !andb_true_iff, Nat.leb_le, Nat.ltb_lt, IHl, IHr. tauto.
Qed.

(* ------------------------------------------------------------------------------------------ *)
(* one-step unfoldings of the mutual fixpoint                                                  *)
Definition start (f : nat) (st : list (shape * bop)) (ts : list tok) : option (shape * list tok) :=
  match poperand f ts with
  | Some (a, r) => ploop f st a r
  | None => None
  end.

Lemma pexpr_S : forall f ts, pexpr (S f) ts = start f [] ts.
Proof. reflexivity. Qed.

Lemma poperand_S : forall f ts,
  poperand (S f) ts =
    match ts with
    | TAtom n :: r => Some (SLeaf false n, r)
    | TNot :: TAtom n :: r => Some (SLeaf true n, r)
    | TL :: r => match pexpr f r with Some (t, TR :: r') => Some (SParen false t, r') | _ => None end
    | TNot :: TL :: r => match pexpr f r with Some (t, TR :: r') => Some (SParen true t, r') | _ => None end
    | _ => None
    end.
Proof. reflexivity. Qed.

Lemma ploop_S : forall f st t ts,
  ploop (S f) st t ts =
    match ts with
    | TOp o :: r =>
      match poperand f r with
      | Some (a, r') => let (st', t') := reduce st t (level o) in ploop f ((t', o) :: st') a r'
      | None => None
      end
    | _ => Some (snd (reduce st t 0), ts)
    end.
Proof. reflexivity. Qed.

Lemma ploop_op : forall f st t o r,
  ploop (S f) st t (TOp o :: r) =
  start f ((snd (reduce st t (level o)), o) :: fst (reduce st t (level o))) r.
Proof.
  intros. rewrite ploop_S. unfold start.
  destruct (poperand f r) as [[a r']|]; [|reflexivity].
  destruct (reduce st t (level o)); reflexivity.
Qed.

Lemma level_lt_5 : forall o, level o < 5.
Proof. intros o; destruct o as [[]|?|?]; simpl; lia. Qed.

(* ------------------------------------------------------------------------------------------ *)
(* soundness                                                                                   *)
Fixpoint plug (st : list (shape * bop)) (t : shape) : shape :=
  match st with
  | [] => t
  | (l, o) :: rest => plug rest (SNode o l t)
  end.

Fixpoint print_stack (st : list (shape * bop)) : list tok :=
  match st with
  | [] => []
  | (l, o) :: rest => print_stack rest ++ print l ++ [TOp o]
  end.

Lemma print_plug : forall st t, print (plug st t) = print_stack st ++ print t.
Proof.
  induction st as [|[l o] st IH]; intros t; simpl.
  - reflexivity.
  - rewrite IH. simpl. rewrite <- !app_assoc. reflexivity.
Qed.

(* head level < bound, levels strictly decrease away from the head, stacked operands canonical *)
Fixpoint stk_ok (st : list (shape * bop)) (bound : nat) : Prop :=
  match st with
  | [] => True
  | (l, o) :: rest => level o < bound /\ level o <= top_level l /\ canon l /\ stk_ok rest (level o)
  end.

Lemma reduce_spec : forall st t lv st' t',
  reduce st t lv = (st', t') -> canon t -> stk_ok st (top_level t) ->
  canon t' /\ stk_ok st' (top_level t') /\ stk_ok st' lv /\ plug st' t' = plug st t /\
  (lv <= top_level t -> lv <= top_level t').
Proof.
  induction st as [|[l o] st IH]; intros t lv st' t' R C S; simpl in R.
  - inversion R; subst. simpl. refine (conj _ (conj _ (conj _ (conj _ _)))); auto.
  - destruct (lv <=? level o) eqn:E.
    + apply Nat.leb_le in E. simpl in S. destruct S as (S1 & S2 & S3 & S4).
      apply IH in R; [| simpl; auto | simpl; auto].
      destruct R as (a & b & c & d & e).
      refine (conj _ (conj _ (conj _ (conj _ _)))); auto.
    + apply Nat.leb_gt in E. inversion R; subst.
      pose proof S as S'. simpl in S'. destruct S' as (S1 & S2 & S3 & S4).
      refine (conj _ (conj _ (conj _ (conj _ _)))); auto.
      simpl. auto.
Qed.

Lemma reduce_zero : forall st t, canon t -> stk_ok st (top_level t) ->
  snd (reduce st t 0) = plug st t /\ canon (plug st t).
Proof.
  intros st t C S. destruct (reduce st t 0) as [st' t'] eqn:R.
  destruct (reduce_spec _ _ _ _ _ R C S) as (a & b & c & d & e).
  destruct st' as [|[l o] st'].
  - simpl in d. simpl. subst t'. auto.
  - simpl in c. lia.
Qed.

Lemma stk_ok_weaken : forall st b b', stk_ok st b -> b <= b' -> stk_ok st b'.
Proof.
  intros [|[l o] st] b b' H L; simpl in *; auto.
  destruct H as (H1 & H2 & H3 & H4). repeat split; auto. lia.
Qed.

Lemma sound_all : forall f,
  (forall ts t rest, pexpr f ts = Some (t, rest) -> print t ++ rest = ts /\ canon t) /\
  (forall ts t rest, poperand f ts = Some (t, rest) ->
     print t ++ rest = ts /\ canon t /\ top_level t = 5) /\
  (forall st t ts t' rest, canon t -> top_level t = 5 -> stk_ok st 5 ->
     ploop f st t ts = Some (t', rest) ->
     print t' ++ rest = print_stack st ++ print t ++ ts /\ canon t').
Proof.
  induction f as [|f [IHe [IHo IHl]]].
  - split; [|split]; intros; simpl in *; discriminate.
  - split; [|split].
    + intros ts t rest H. rewrite pexpr_S in H. unfold start in H.
      destruct (poperand f ts) as [[a r0]|] eqn:E; [|discriminate].
      destruct (IHo _ _ _ E) as (P1 & C1 & T1).
      destruct (IHl [] a r0 t rest C1 T1 I H) as (P2 & C2).
      split; auto. rewrite P2. simpl. exact P1.
    + intros ts t rest H. rewrite poperand_S in H.
      destruct ts as [|[n|o| | |] r]; try discriminate.
      * inversion H; subst. simpl. auto.
      * destruct (pexpr f r) as [[t1 [|[n|o| | |] r2]]|] eqn:E; try discriminate.
        inversion H; subst. destruct (IHe _ _ _ E) as (P & C).
        simpl. split; [|auto]. rewrite <- app_assoc. simpl. rewrite P. reflexivity.
      * destruct r as [|[n|o| | |] r]; try discriminate.
        -- inversion H; subst. simpl. auto.
        -- destruct (pexpr f r) as [[t1 [|[n|o| | |] r2]]|] eqn:E; try discriminate.
           inversion H; subst. destruct (IHe _ _ _ E) as (P & C).
           simpl. split; [|auto]. rewrite <- app_assoc. simpl. rewrite P. reflexivity.
    + intros st t ts t' rest C T S H.
      assert (S' : stk_ok st (top_level t)) by (rewrite T; exact S).
      destruct (reduce_zero st t C S') as (Z1 & Z2).
      rewrite ploop_S in H.
      destruct ts as [|[n|o| | |] r];
        try (inversion H; subst; rewrite Z1; split; [|exact Z2];
             rewrite print_plug, <- app_assoc; reflexivity).
      destruct (poperand f r) as [[a r']|] eqn:E; [|discriminate].
      destruct (IHo _ _ _ E) as (P1 & C1 & T1).
      destruct (reduce st t (level o)) as [st' t1] eqn:R.
      destruct (reduce_spec _ _ _ _ _ R C S') as (Ra & Rb & Rc & Rd & Re).
      assert (L5 := level_lt_5 o).
      assert (K : stk_ok ((t1, o) :: st') 5).
      { simpl. refine (conj _ (conj _ (conj _ _))); auto. apply Re. lia. }
      destruct (IHl _ _ _ _ _ C1 T1 K H) as (P2 & C2).
      split; auto. rewrite P2. simpl print_stack.
      assert (Hp : print_stack st' ++ print t1 = print_stack st ++ print t).
      { rewrite <- !print_plug. rewrite Rd. reflexivity. }
      subst r. rewrite <- !app_assoc. simpl.
      rewrite (app_assoc (print_stack st') (print t1)).
      rewrite (app_assoc (print_stack st) (print t)).
      rewrite Hp. reflexivity.
Qed.

Theorem parse_sound : forall ts t, parse ts = Some t -> print t = ts /\ canon t /\ sorted t = true.
Proof.
  intros ts t H. unfold parse in H.
  destruct (pexpr (parse_fuel ts) ts) as [[t0 [|x r]]|] eqn:E; try discriminate.
  destruct (sorted t0) eqn:So; [|discriminate].
  inversion H; subst.
  destruct (proj1 (sound_all _) _ _ _ E) as (P & C).
  rewrite app_nil_r in P. auto.
Qed.

(* ------------------------------------------------------------------------------------------ *)
(* fuel monotonicity                                                                           *)
Lemma fuel_mono : forall f,
  (forall ts r, pexpr f ts = Some r -> forall f', f <= f' -> pexpr f' ts = Some r) /\
  (forall ts r, poperand f ts = Some r -> forall f', f <= f' -> poperand f' ts = Some r) /\
  (forall st t ts r, ploop f st t ts = Some r -> forall f', f <= f' -> ploop f' st t ts = Some r).
Proof.
  induction f as [|f [IHe [IHo IHl]]].
  - split; [|split]; intros; simpl in *; discriminate.
  - split; [|split].
    + intros ts r H f' L. destruct f' as [|f']; [lia|].
      rewrite pexpr_S in H. rewrite pexpr_S. unfold start in *.
      destruct (poperand f ts) as [[a r0]|] eqn:E; [|discriminate].
      rewrite (IHo _ _ E f') by lia.
      apply (IHl _ _ _ _ H). lia.
    + intros ts r H f' L. destruct f' as [|f']; [lia|].
      rewrite poperand_S in H. rewrite poperand_S.
      destruct ts as [|[n|o| | |] r1]; try discriminate; try exact H.
      * destruct (pexpr f r1) as [[t1 [|[n|o| | |] r2]]|] eqn:E; try discriminate.
        rewrite (IHe _ _ E f') by lia. exact H.
      * destruct r1 as [|[n|o| | |] r1]; try discriminate; try exact H.
        destruct (pexpr f r1) as [[t1 [|[n|o| | |] r2]]|] eqn:E; try discriminate.
        rewrite (IHe _ _ E f') by lia. exact H.
    + intros st t ts r H f' L. destruct f' as [|f']; [lia|].
      rewrite ploop_S in H. rewrite ploop_S.
      destruct ts as [|[n|o| | |] r1]; try exact H.
      destruct (poperand f r1) as [[a r']|] eqn:E; [|discriminate].
      rewrite (IHo _ _ E f') by lia.
      destruct (reduce st t (level o)).
      apply (IHl _ _ _ _ H). lia.
Qed.

Lemma pexpr_mono : forall f f' ts r, pexpr f ts = Some r -> f <= f' -> pexpr f' ts = Some r.
Proof. intros f f' ts r H L. exact (proj1 (fuel_mono f) ts r H f' L). Qed.

Lemma ploop_mono : forall f f' st t ts r,
  ploop f st t ts = Some r -> f <= f' -> ploop f' st t ts = Some r.
Proof. intros f f' st t ts r H L. exact (proj2 (proj2 (fuel_mono f)) st t ts r H f' L). Qed.

(* ------------------------------------------------------------------------------------------ *)
(* completeness: reading [print x] pushes the right spine of x and stops at its last operand   *)
Fixpoint rsp (x : shape) : list (shape * bop) :=
  match x with
  | SNode o l r => rsp r ++ [(l, o)]
  | _ => []
  end.

Fixpoint lastop (x : shape) : shape :=
  match x with
  | SNode _ _ r => lastop r
  | _ => x
  end.

Fixpoint size (x : shape) : nat :=
  match x with
  | SLeaf _ _ => 1
  | SParen _ t => size t + 3
  | SNode _ l r => size l + size r + 1
  end.

Definition below (lv : nat) (st : list (shape * bop)) : Prop :=
  Forall (fun e => level (snd e) < lv) st.

Lemma reduce_below : forall st x lv, below lv st -> reduce st x lv = (st, x).
Proof.
  intros [|[l o] st] x lv B; simpl; auto.
  inversion B as [|? ? B1 B2]; subst. simpl in B1.
  destruct (lv <=? level o) eqn:E; auto.
  apply Nat.leb_le in E. lia.
Qed.

Lemma reduce_rsp : forall x st lv, canon x -> lv <= top_level x ->
  reduce (rsp x ++ st) (lastop x) lv = reduce st x lv.
Proof.
  induction x as [neg n|neg x IH|o l IHl r IHr]; intros st lv C L; simpl; auto.
  simpl in C, L. destruct C as (C1 & C2 & C3 & C4).
  rewrite <- app_assoc. simpl.
  rewrite IHr by (auto; lia).
  simpl. destruct (lv <=? level o) eqn:E; auto.
  apply Nat.leb_gt in E. lia.
Qed.

Lemma poperand_leaf : forall f neg n rest,
  poperand (S f) (notp neg ++ TAtom n :: rest) = Some (SLeaf neg n, rest).
Proof. intros f [] n rest; reflexivity. Qed.

Lemma poperand_paren : forall f neg x ts rest,
  pexpr f ts = Some (x, TR :: rest) ->
  poperand (S f) (notp neg ++ TL :: ts) = Some (SParen neg x, rest).
Proof.
  intros f [] x ts rest H; cbn [notp app]; rewrite poperand_S; rewrite H; reflexivity.
Qed.

Lemma print_leaf_app : forall neg n rest,
  print (SLeaf neg n) ++ rest = notp neg ++ TAtom n :: rest.
Proof. intros [] n rest; reflexivity. Qed.

Lemma print_paren_app : forall neg x rest,
  print (SParen neg x) ++ rest = notp neg ++ TL :: print x ++ TR :: rest.
Proof. intros [] x rest; simpl; rewrite <- app_assoc; reflexivity. Qed.

Lemma start_complete : forall x, canon x -> forall st rest k res,
  below (top_level x) st ->
  ploop k (rsp x ++ st) (lastop x) rest = Some res ->
  start (k + size x) st (print x ++ rest) = Some res.
Proof.
  induction x as [neg n|neg x IH|o l IHl r IHr]; intros C st rest k res B H.
  - rewrite print_leaf_app. unfold size. replace (k + 1) with (S k) by lia.
    unfold start. rewrite poperand_leaf.
    simpl in H. apply (ploop_mono _ _ _ _ _ _ H). lia.
  - rewrite print_paren_app. simpl in C.
    assert (E : pexpr (S (1 + size x)) (print x ++ TR :: rest) = Some (x, TR :: rest)).
    { rewrite pexpr_S. apply IH; auto.
      - constructor.
      - rewrite ploop_S. rewrite reduce_rsp by (auto; lia). reflexivity. }
    assert (E' : pexpr (k + size x + 2) (print x ++ TR :: rest) = Some (x, TR :: rest)).
    { apply (pexpr_mono _ _ _ _ E). lia. }
    simpl size. replace (k + (size x + 3)) with (S (k + size x + 2)) by lia.
    unfold start. rewrite (poperand_paren _ neg _ _ _ E').
    simpl in H. apply (ploop_mono _ _ _ _ _ _ H). lia.
  - simpl in C. destruct C as (C1 & C2 & C3 & C4). simpl in B.
    simpl print. rewrite <- app_assoc. rewrite <- app_comm_cons.
    simpl size. replace (k + (size l + size r + 1)) with ((k + size r + 1) + size l) by lia.
    apply IHl; auto.
    + unfold below in *. eapply Forall_impl; [|exact B]. simpl. intros; lia.
    + replace (k + size r + 1) with (S (k + size r)) by lia.
      rewrite ploop_op. rewrite reduce_rsp by auto.
      rewrite reduce_below by exact B. simpl fst. simpl snd.
      apply IHr; auto.
      * unfold below in *. constructor; [simpl; lia|].
        eapply Forall_impl; [|exact B]. simpl. intros; lia.
      * simpl in H. rewrite <- app_assoc in H. exact H.
Qed.

Lemma size_le : forall t, size t <= 2 * List.length (print t).
Proof.
  induction t as [neg n|neg t IH|o l IHl r IHr]; simpl.
  - rewrite app_length. simpl. lia.
  - rewrite app_length. simpl. rewrite app_length. simpl. lia.
  - rewrite app_length. simpl. lia.
Qed.

Theorem parse_complete : forall t, canon t -> sorted t = true -> parse (print t) = Some t.
Proof.
  intros t C So. unfold parse.
  assert (E : pexpr (S (1 + size t)) (print t) = Some (t, [])).
  { rewrite pexpr_S. rewrite <- (app_nil_r (print t)) at 1.
    apply start_complete; auto.
    - constructor.
    - rewrite ploop_S. rewrite reduce_rsp by (auto; lia). reflexivity. }
  assert (E' : pexpr (parse_fuel (print t)) (print t) = Some (t, [])).
  { apply (pexpr_mono _ _ _ _ E). unfold parse_fuel. pose proof (size_le t). lia. }
  rewrite E'. rewrite So. reflexivity.
Qed.

Corollary parse_iff : forall ts t, parse ts = Some t <-> (print t = ts /\ canon t /\ sorted t = true).
Proof.
  intros ts t. split.
  - apply parse_sound.
  - intros (P & C & So). subst ts. apply parse_complete; auto.
Qed.

Corollary reading_unique : forall t1 t2, canon t1 -> canon t2 -> sorted t1 = true -> sorted t2 = true -> print t1 = print t2 -> t1 = t2.
Proof.
  intros t1 t2 C1 C2 S1 S2 P.
  pose proof (parse_complete t1 C1 S1) as H1.
  pose proof (parse_complete t2 C2 S2) as H2.
  rewrite P in H1. rewrite H1 in H2. inversion H2; reflexivity.
Qed.

(* precedence and associativity, for every operand (atoms or parenthesised groups, i.e. any shapes x y z with top_level = 5) *)
Theorem tighter_binds_first : forall o1 o2 x y z, top_level x = 5 -> top_level y = 5 -> top_level z = 5 ->
    canon x -> canon y -> canon z -> level o1 < level o2 ->
    sorted (SNode o1 x (SNode o2 y z)) = true ->
    parse (print x ++ TOp o1 :: print y ++ TOp o2 :: print z) = Some (SNode o1 x (SNode o2 y z)).
Proof.
  intros o1 o2 x y z Tx Ty Tz Cx Cy Cz L So.
  change (print x ++ TOp o1 :: print y ++ TOp o2 :: print z) with (print (SNode o1 x (SNode o2 y z))).
  apply parse_complete; auto.
  pose proof (level_lt_5 o1). pose proof (level_lt_5 o2).
  simpl. rewrite Tx, Ty, Tz. repeat split; auto; lia.
Qed.

Theorem same_or_looser_associates_left : forall o1 o2 x y z, top_level x = 5 -> top_level y = 5 -> top_level z = 5 ->
    canon x -> canon y -> canon z -> level o2 <= level o1 ->
    sorted (SNode o2 (SNode o1 x y) z) = true ->
    parse (print x ++ TOp o1 :: print y ++ TOp o2 :: print z) = Some (SNode o2 (SNode o1 x y) z).
Proof.
  intros o1 o2 x y z Tx Ty Tz Cx Cy Cz L So.
  replace (print x ++ TOp o1 :: print y ++ TOp o2 :: print z) with (print (SNode o2 (SNode o1 x y) z))
    by (simpl; rewrite <- app_assoc; reflexivity).
  apply parse_complete; auto.
  pose proof (level_lt_5 o1). pose proof (level_lt_5 o2).
  simpl. rewrite Tx, Ty, Tz. repeat split; auto; lia.
Qed.

Theorem parentheses_override : forall o1 o2 x y z, canon x -> canon y -> canon z ->
    top_level x = 5 -> level o1 <= top_level y -> level o1 < top_level z -> (* any operator pair, whatever their levels *)
    sorted (SNode o2 x (SParen false (SNode o1 y z))) = true ->
    parse (print x ++ TOp o2 :: TL :: print y ++ TOp o1 :: print z ++ [TR]) = Some (SNode o2 x (SParen false (SNode o1 y z))).
Proof.
  intros o1 o2 x y z Cx Cy Cz Tx Ly Lz So.
  replace (print x ++ TOp o2 :: TL :: print y ++ TOp o1 :: print z ++ [TR])
    with (print (SNode o2 x (SParen false (SNode o1 y z))))
    by (simpl; rewrite <- app_assoc; reflexivity).
  apply parse_complete; auto.
  pose proof (level_lt_5 o2).
  simpl. rewrite Tx. repeat split; auto; lia.
Qed.

Print Assumptions parse_sound.
Print Assumptions parse_complete.
Print Assumptions tighter_binds_first.
Print Assumptions same_or_looser_associates_left.
Print Assumptions parentheses_override.
