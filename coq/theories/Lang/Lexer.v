(* Lang/Lexer.v — the token rules of internal/iantlr/gengine.g4 as an executable function.

   ANTLR lexers take, at every position, the LONGEST match among all token rules and, between rules
   matching the same length, the one written first; white space and `// ... \n` comments are skipped.
   The function below is a hand transcription of that discipline for the grammar's rules:

     keywords (case-insensitive; they precede SIMPLENAME, so they win on equal length)
     SIMPLENAME  [A-Za-z_][A-Za-z0-9_]*        DOTTEDNAME  a.b        DOUBLEDOTTEDNAME  a.b.c
     INT  [0-9]+       REAL_LITERAL  D*.D+ | D+.EXP | D*.D+EXP | D+EXP      EXP = [eE] -? D+
     DQUOTA_STRING  QUOTE ( BACKSLASH any | QUOTE QUOTE | neither )* QUOTE
     operators and punctuation, the implicit literals `,` `@name` `@id` `@desc` `@sal`

   Every token carries the 1-based line and 0-based column of its first character — what the ANTLR
   runtime stores in the token and the listener copies into the tree — and its character offset.
   Both are computed incrementally (`advance`); Lang/LexerFacts.v proves that they equal the closed
   forms over the consumed prefix (line = 1 + number of '\n' before the token, column = number of
   characters since the last '\n').

   A character no rule accepts ends the token list with `lx_bad = true`: the real lexer reports a
   token recognition error there, and whether that matters depends on whether the PARSER ever asks
   for a token at or beyond that point (it reads lazily) — Lang/Reader.v decides.

   Model domain: ASCII texts.  A string token keeps the raw text between its outer quotes: the listener does not
   unescape anything, it only trims quote characters from both ends (Lang/Reader.v `trimq`). *)
From Coq Require Import Ascii String List Arith Bool ZArith.
From GV Require Import Lang.Syntax.
Import ListNotations.

Inductive kw := Kw_rule | Kw_begin | Kw_end | Kw_salience | Kw_if | Kw_else | Kw_for | Kw_forrange | Kw_break
              | Kw_continue | Kw_return | Kw_conc | Kw_true | Kw_false | Kw_nil | Kw_null.

Inductive sym := Y_plus | Y_minus | Y_div | Y_mul | Y_eq | Y_gt | Y_lt | Y_ge | Y_le | Y_ne | Y_not
               | Y_assign (* := *) | Y_set (* = *) | Y_pluseq | Y_minuseq | Y_muleq | Y_diveq
               | Y_lsq | Y_rsq | Y_semi | Y_lbrace | Y_rbrace | Y_lpar | Y_rpar | Y_dot | Y_and | Y_or | Y_comma.

Inductive atk := At_name | At_id | At_desc | At_sal.

Inductive token :=
| LxKw (k : kw)
| LxName (dots : nat) (s : string)      (* SIMPLENAME (0) | DOTTEDNAME (1) | DOUBLEDOTTEDNAME (2): the whole text *)
| LxInt (s : string)
| LxReal (s : string)
| LxStr (s : string)                    (* the text between the outer quotes *)
| LxAt (a : atk)
| LxBool (b : bool) (s : string)        (* TRUE / FALSE, with the spelling: the listener hands it to strconv.ParseBool *)
| LxSym (y : sym).

Record ptok := mkPT { pt_tok : token; pt_pos : pos; pt_off : nat }.

Definition code (c : ascii) : nat := nat_of_ascii c.
Definition is_digit (c : ascii) : bool := (48 <=? code c) && (code c <=? 57).
Definition is_upper (c : ascii) : bool := (65 <=? code c) && (code c <=? 90).
Definition is_alpha (c : ascii) : bool := is_upper c || ((97 <=? code c) && (code c <=? 122)) || (code c =? 95).
Definition is_alnum (c : ascii) : bool := is_alpha c || is_digit c.
Definition is_ws (c : ascii) : bool := (code c =? 32) || (code c =? 9) || (code c =? 10) || (code c =? 13).
Definition is_nl (c : ascii) : bool := code c =? 10.
Definition lower (c : ascii) : ascii := if is_upper c then ascii_of_nat (code c + 32) else c.
Definition ceq (c : ascii) (n : nat) : bool := code c =? n.

(* (line, column) after reading the characters cs from (line, column) *)
Fixpoint advance (cs : list ascii) (p : pos) : pos :=
  match cs with
  | [] => p
  | c :: r => advance r (if is_nl c then (S (fst p), 0) else (fst p, S (snd p)))
  end.

Fixpoint span (p : ascii -> bool) (cs : list ascii) : nat :=
  match cs with
  | c :: r => if p c then S (span p r) else 0
  | [] => 0
  end.

Definition str_of (cs : list ascii) : string := string_of_list_ascii cs.

Definition keyword_of (s : string) : option kw :=
  let l := str_of (map lower (list_ascii_of_string s)) in
  if String.eqb l "rule" then Some Kw_rule else if String.eqb l "begin" then Some Kw_begin
  else if String.eqb l "end" then Some Kw_end else if String.eqb l "salience" then Some Kw_salience
  else if String.eqb l "if" then Some Kw_if else if String.eqb l "else" then Some Kw_else
  else if String.eqb l "for" then Some Kw_for else if String.eqb l "forrange" then Some Kw_forrange
  else if String.eqb l "break" then Some Kw_break else if String.eqb l "continue" then Some Kw_continue
  else if String.eqb l "return" then Some Kw_return else if String.eqb l "conc" then Some Kw_conc
  else if String.eqb l "true" then Some Kw_true else if String.eqb l "false" then Some Kw_false
  else if String.eqb l "nil" then Some Kw_nil else if String.eqb l "null" then Some Kw_null
  else None.

(* length of a SIMPLENAME at the head of cs (0 if none) *)
Definition name_len (cs : list ascii) : nat :=
  match cs with
  | c :: r => if is_alpha c then S (span is_alnum r) else 0
  | [] => 0
  end.

(* `.` SIMPLENAME at the head of cs: its length including the dot (0 if none) *)
Definition dot_name_len (cs : list ascii) : nat :=
  match cs with
  | c :: r => if ceq c 46 then (match name_len r with 0 => 0 | n => S n end) else 0
  | [] => 0
  end.

(* EXPONENT_NUM_PART at the head of cs: its length (0 if none) *)
Definition exp_len (cs : list ascii) : nat :=
  match cs with
  | c :: r =>
    if ceq c 69 || ceq c 101 then
      match r with
      | d :: r' => if ceq d 45 then (match span is_digit r' with 0 => 0 | n => S (S n) end)
                   else (match span is_digit r with 0 => 0 | n => S n end)
      | [] => 0
      end
    else 0
  | [] => 0
  end.

Inductive step :=
| StSkip (n : nat)                    (* white space / comment *)
| StTok (t : token) (n : nat) (unsup : bool)
| StBad.                              (* token recognition error *)

(* a number starting at cs (cs starts with a digit or with '.'): INT, REAL_LITERAL, or the DOT token *)
Definition number_step (cs : list ascii) : step :=
  let n1 := span is_digit cs in
  let r1 := skipn n1 cs in
  match r1 with
  | c :: r2 =>
    if ceq c 46 then
      let n2 := span is_digit r2 in
      match n2 with
      | S _ => let n := n1 + 1 + n2 + exp_len (skipn n2 r2) in StTok (LxReal (str_of (firstn n cs))) n false
      | 0 => match n1, exp_len r2 with
             | S _, S e => let n := n1 + 1 + S e in StTok (LxReal (str_of (firstn n cs))) n false
             | S _, 0 => StTok (LxInt (str_of (firstn n1 cs))) n1 false
             | 0, _ => StTok (LxSym Y_dot) 1 false
             end
      end
    else match n1, exp_len r1 with
         | S _, S e => let n := n1 + S e in StTok (LxReal (str_of (firstn n cs))) n false
         | S _, 0 => StTok (LxInt (str_of (firstn n1 cs))) n1 false
         | 0, _ => StBad
         end
  | [] => match n1 with 0 => StBad | _ => StTok (LxInt (str_of (firstn n1 cs))) n1 false end
  end.

(* the body of a string after the opening quote: Some (length up to and including the closing quote, has an escape) *)
Fixpoint string_body (fuel : nat) (cs : list ascii) : option (nat * bool) :=
  match fuel with
  | 0 => None
  | S f =>
    match cs with
    | [] => None
    | c :: r =>
      if ceq c 34 then
        (* a quote: a doubled quote continues the string when a closing quote follows later (longest match), otherwise it ends here *)
        match r with
        | d :: r' => if ceq d 34 then (match string_body f r' with Some (n, _) => Some (S (S n), true) | None => Some (1, false) end)
                     else Some (1, false)
        | [] => Some (1, false)
        end
      else if ceq c 92 then
        match r with
        | _ :: r' => match string_body f r' with Some (n, _) => Some (S (S n), true) | None => None end
        | [] => None
        end
      else match string_body f r with Some (n, e) => Some (S n, e) | None => None end
    end
  end.

Definition two (cs : list ascii) (a b : nat) : bool :=
  match cs with c :: d :: _ => ceq c a && ceq d b | _ => false end.

Fixpoint has_nl (cs : list ascii) : option nat :=      (* offset just after the first '\n' *)
  match cs with
  | [] => None
  | c :: r => if is_nl c then Some 1 else match has_nl r with Some n => Some (S n) | None => None end
  end.

Definition starts (cs : list ascii) (s : string) : bool :=
  let l := list_ascii_of_string s in
  String.eqb (str_of (firstn (length l) cs)) s.

Definition next_step (cs : list ascii) : step :=
  match cs with
  | [] => StBad
  | c :: r =>
    if is_ws c then StSkip (S (span is_ws r))
    else if is_alpha c then
      let n1 := name_len cs in
      let d1 := dot_name_len (skipn n1 cs) in
      match d1 with
      | 0 => let s := str_of (firstn n1 cs) in
             match keyword_of s with
             | Some Kw_true => StTok (LxBool true s) n1 false
             | Some Kw_false => StTok (LxBool false s) n1 false
             | Some k => StTok (LxKw k) n1 false
             | None => StTok (LxName 0 s) n1 false
             end
      | _ => let d2 := dot_name_len (skipn (n1 + d1) cs) in
             match d2 with
             | 0 => StTok (LxName 1 (str_of (firstn (n1 + d1) cs))) (n1 + d1) false
             | _ => StTok (LxName 2 (str_of (firstn (n1 + d1 + d2) cs))) (n1 + d1 + d2) false
             end
      end
    else if is_digit c || ceq c 46 then number_step cs
    else if ceq c 34 then
      match string_body (S (length r)) r with
      | Some (n, _) => StTok (LxStr (str_of (firstn (n - 1) r))) (S n) false
      | None => StBad
      end
    else if ceq c 64 then
      if starts cs "@name" then StTok (LxAt At_name) 5 false
      else if starts cs "@desc" then StTok (LxAt At_desc) 5 false
      else if starts cs "@sal" then StTok (LxAt At_sal) 4 false
      else if starts cs "@id" then StTok (LxAt At_id) 3 false
      else StBad
    else if two cs 47 47 then
      match has_nl cs with Some n => StSkip n | None => StTok (LxSym Y_div) 1 false end
    else if two cs 38 38 then StTok (LxSym Y_and) 2 false
    else if two cs 124 124 then StTok (LxSym Y_or) 2 false
    else if two cs 61 61 then StTok (LxSym Y_eq) 2 false
    else if two cs 62 61 then StTok (LxSym Y_ge) 2 false
    else if two cs 60 61 then StTok (LxSym Y_le) 2 false
    else if two cs 33 61 then StTok (LxSym Y_ne) 2 false
    else if two cs 58 61 then StTok (LxSym Y_assign) 2 false
    else if two cs 43 61 then StTok (LxSym Y_pluseq) 2 false
    else if two cs 45 61 then StTok (LxSym Y_minuseq) 2 false
    else if two cs 42 61 then StTok (LxSym Y_muleq) 2 false
    else if two cs 47 61 then StTok (LxSym Y_diveq) 2 false
    else if ceq c 43 then StTok (LxSym Y_plus) 1 false
    else if ceq c 45 then StTok (LxSym Y_minus) 1 false
    else if ceq c 47 then StTok (LxSym Y_div) 1 false
    else if ceq c 42 then StTok (LxSym Y_mul) 1 false
    else if ceq c 62 then StTok (LxSym Y_gt) 1 false
    else if ceq c 60 then StTok (LxSym Y_lt) 1 false
    else if ceq c 33 then StTok (LxSym Y_not) 1 false
    else if ceq c 61 then StTok (LxSym Y_set) 1 false
    else if ceq c 91 then StTok (LxSym Y_lsq) 1 false
    else if ceq c 93 then StTok (LxSym Y_rsq) 1 false
    else if ceq c 59 then StTok (LxSym Y_semi) 1 false
    else if ceq c 123 then StTok (LxSym Y_lbrace) 1 false
    else if ceq c 125 then StTok (LxSym Y_rbrace) 1 false
    else if ceq c 40 then StTok (LxSym Y_lpar) 1 false
    else if ceq c 41 then StTok (LxSym Y_rpar) 1 false
    else if ceq c 44 then StTok (LxSym Y_comma) 1 false
    else StBad
  end.

Record lexed := mkLexed { lx_toks : list ptok; lx_bad : bool; lx_unsup : bool }.

Fixpoint lex_loop (fuel : nat) (cs : list ascii) (off : nat) (p : pos) (acc : list ptok) (unsup : bool) : lexed :=
  match fuel with
  | 0 => mkLexed (rev acc) true unsup
  | S f =>
    match cs with
    | [] => mkLexed (rev acc) false unsup
    | _ =>
      match next_step cs with
      | StBad => mkLexed (rev acc) true unsup
      | StSkip 0 | StTok _ 0 _ => mkLexed (rev acc) true unsup
      | StSkip n => lex_loop f (skipn n cs) (off + n) (advance (firstn n cs) p) acc unsup
      | StTok t n u => lex_loop f (skipn n cs) (off + n) (advance (firstn n cs) p) (mkPT t p off :: acc) (unsup || u)
      end
    end
  end.

Definition lex (s : string) : lexed :=
  let cs := list_ascii_of_string s in
  lex_loop (S (length cs)) cs 0 (1, 0) [] false.
