(* Lang/LexerFacts.v — facts about the lexer model (Lang/Lexer.v).  All proofs complete. *)
From Coq Require Import Ascii String List Arith Bool ZArith Lia Sorted.
From GV Require Import Lang.Syntax Lang.Lexer.
Import ListNotations.

Definition count_nl (cs : list ascii) : nat := length (filter is_nl cs).

(* the characters after the last line break of cs (all of cs when it has none) *)
Fixpoint last_line (cs : list ascii) : list ascii :=
  match cs with
  | [] => []
  | c :: r => if existsb is_nl (c :: r) then (if is_nl c && negb (existsb is_nl r) then r else last_line r) else c :: r
  end.

Lemma advance_app (a b : list ascii) (p : pos) : advance (a ++ b) p = advance b (advance a p).
Proof.
  revert p. induction a as [|c a IH]; intros p; simpl; [reflexivity|apply IH].
Qed.

Lemma last_line_no_nl (cs : list ascii) : existsb is_nl cs = false -> last_line cs = cs.
Proof.
  destruct cs as [|c r]; intros H; [reflexivity|].
  cbn [last_line]. rewrite H. reflexivity.
Qed.

Lemma advance_gen (cs : list ascii) : forall p,
  advance cs p = (fst p + count_nl cs, if existsb is_nl cs then length (last_line cs) else snd p + length cs).
Proof.
  induction cs as [|c r IH]; intros [l k].
  - unfold count_nl. cbn. f_equal; lia.
  - cbn [advance]. rewrite IH. unfold count_nl.
    cbn [filter existsb last_line fst snd].
    destruct (is_nl c) eqn:E; cbn [fst snd length orb andb].
    + destruct (existsb is_nl r); cbn [negb length]; f_equal; lia.
    + destruct (existsb is_nl r); cbn [negb length]; f_equal; lia.
Qed.

(* closed form of the incremental position: line = 1 + number of line breaks read, column = characters since the last one *)
Theorem advance_closed (cs : list ascii) :
  advance cs (1, 0) = (1 + count_nl cs, length (last_line cs)).
Proof.
  rewrite advance_gen. cbn [fst snd]. f_equal.
  destruct (existsb is_nl cs) eqn:E; [reflexivity|].
  rewrite (last_line_no_nl cs E). reflexivity.
Qed.

(* ---- the loop: unfolding, and the invariant "cs = skipn off text, p = advance (firstn off text) (1,0)" ---- *)
Lemma nil_or_not {A} (l : list A) : l = [] \/ l <> [].
Proof. destruct l; [left; reflexivity|right; discriminate]. Qed.

Lemma lex_loop_S_ne f cs off p acc unsup : cs <> [] ->
  lex_loop (S f) cs off p acc unsup =
  match next_step cs with
  | StBad => mkLexed (rev acc) true unsup
  | StSkip 0 | StTok _ 0 _ => mkLexed (rev acc) true unsup
  | StSkip n => lex_loop f (skipn n cs) (off + n) (advance (firstn n cs) p) acc unsup
  | StTok t n u => lex_loop f (skipn n cs) (off + n) (advance (firstn n cs) p) (mkPT t p off :: acc) (unsup || u)
  end.
Proof. destruct cs; [congruence|reflexivity]. Qed.

Lemma skipn_add {A} (n : nat) : forall (off : nat) (l : list A), skipn n (skipn off l) = skipn (off + n) l.
Proof.
  induction off as [|off IH]; intros l; [reflexivity|].
  destruct l as [|x l]; cbn [skipn Nat.add].
  - destruct n; reflexivity.
  - apply IH.
Qed.

Lemma firstn_add {A} (n : nat) : forall (off : nat) (l : list A), firstn (off + n) l = firstn off l ++ firstn n (skipn off l).
Proof.
  induction off as [|off IH]; intros l; [reflexivity|].
  destruct l as [|x l]; cbn [skipn firstn Nat.add app].
  - destruct n; reflexivity.
  - f_equal. apply IH.
Qed.

Lemma advance_step (text : list ascii) (off n : nat) (p : pos) :
  advance (firstn n (skipn off text)) (advance (firstn off text) p) = advance (firstn (off + n) text) p.
Proof. rewrite firstn_add, advance_app. reflexivity. Qed.

Section LoopInv.
  Variable text : list ascii.
  Variable Q : ptok -> Prop.
  Hypothesis Qstep : forall off t n u,
    skipn off text <> [] -> next_step (skipn off text) = StTok t n u -> n <> 0 ->
    Q (mkPT t (advance (firstn off text) (1, 0)) off).

  Lemma lex_loop_inv : forall fuel off acc unsup,
    (forall t, In t acc -> Q t) ->
    forall t, In t (lx_toks (lex_loop fuel (skipn off text) off (advance (firstn off text) (1, 0)) acc unsup)) -> Q t.
  Proof.
    induction fuel as [|f IH]; intros off acc unsup Hacc t Hin.
    - cbn [lex_loop lx_toks] in Hin. apply Hacc, in_rev. exact Hin.
    - destruct (nil_or_not (skipn off text)) as [E|E].
      + rewrite E in Hin. cbn [lex_loop lx_toks] in Hin. apply Hacc, in_rev. exact Hin.
      + rewrite (lex_loop_S_ne f _ off _ acc unsup E) in Hin.
        destruct (next_step (skipn off text)) as [n|k n u|] eqn:En.
        * destruct n as [|n].
          -- cbn [lx_toks] in Hin. apply Hacc, in_rev. exact Hin.
          -- rewrite skipn_add, advance_step in Hin. exact (IH _ _ _ Hacc t Hin).
        * destruct n as [|n].
          -- cbn [lx_toks] in Hin. apply Hacc, in_rev. exact Hin.
          -- rewrite skipn_add, advance_step in Hin.
             refine (IH _ _ _ _ t Hin).
             intros t0 [H0|H0]; [|exact (Hacc t0 H0)].
             subst t0. apply (Qstep off k (S n) u E En). discriminate.
        * cbn [lx_toks] in Hin. apply Hacc, in_rev. exact Hin.
  Qed.
End LoopInv.

(* every token of the output carries the position of its first character, computed from the text before it *)
Theorem lex_positions (s : string) (t : ptok) :
  In t (lx_toks (lex s)) ->
  pt_pos t = advance (firstn (pt_off t) (list_ascii_of_string s)) (1, 0).
Proof.
  unfold lex. cbv zeta. intros Hin.
  set (text := list_ascii_of_string s) in *.
  refine (lex_loop_inv text (fun t => pt_pos t = advance (firstn (pt_off t) text) (1, 0)) _
            (S (length text)) 0 [] false _ t Hin).
  - intros off tk n u _ _ _. reflexivity.
  - intros t0 [].
Qed.

Corollary lex_token_line (s : string) (t : ptok) :
  In t (lx_toks (lex s)) ->
  fst (pt_pos t) = 1 + count_nl (firstn (pt_off t) (list_ascii_of_string s)) /\
  snd (pt_pos t) = length (last_line (firstn (pt_off t) (list_ascii_of_string s))).
Proof.
  intros Hin. rewrite (lex_positions s t Hin), advance_closed. cbn [fst snd]. split; reflexivity.
Qed.

Lemma SS_snoc (l : list nat) (a : nat) :
  StronglySorted lt l -> Forall (fun y => y < a) l -> StronglySorted lt (l ++ [a]).
Proof.
  induction l as [|x l IH]; intros Hs Hf; cbn [app].
  - constructor; constructor.
  - inversion Hs as [|x' l' Hs' Hx]; subst. inversion Hf as [|x' l' Hxa Hf']; subst.
    constructor; [apply IH; assumption|].
    apply Forall_app. split; [assumption|]. constructor; [assumption|constructor].
Qed.

Lemma lex_loop_sorted : forall fuel cs off p acc unsup,
  StronglySorted lt (map pt_off (rev acc)) -> Forall (fun t => pt_off t < off) acc ->
  StronglySorted lt (map pt_off (lx_toks (lex_loop fuel cs off p acc unsup))).
Proof.
  induction fuel as [|f IH]; intros cs off p acc unsup Hs Hf.
  - cbn [lex_loop lx_toks]. exact Hs.
  - destruct (nil_or_not cs) as [E|E].
    + subst cs. cbn [lex_loop lx_toks]. exact Hs.
    + rewrite (lex_loop_S_ne f cs off p acc unsup E).
      destruct (next_step cs) as [n|k n u|].
      * destruct n as [|n]; [cbn [lx_toks]; exact Hs|].
        apply IH; [exact Hs|]. eapply Forall_impl; [|exact Hf]. cbn beta. intros a Ha. lia.
      * destruct n as [|n]; [cbn [lx_toks]; exact Hs|].
        apply IH.
        -- cbn [rev]. rewrite map_app. cbn [map pt_off]. apply SS_snoc; [exact Hs|].
           apply Forall_forall. intros x Hx. apply in_map_iff in Hx. destruct Hx as [t0 [Ht0 Hin0]].
           apply in_rev in Hin0. rewrite Forall_forall in Hf. subst x. apply Hf. exact Hin0.
        -- constructor; [cbn [pt_off]; lia|].
           eapply Forall_impl; [|exact Hf]. cbn beta. intros a Ha. lia.
      * cbn [lx_toks]. exact Hs.
Qed.

(* tokens come out in text order, at strictly increasing offsets inside the text *)
Theorem lex_offsets_increasing (s : string) :
  StronglySorted lt (map pt_off (lx_toks (lex s))).
Proof.
  unfold lex. cbv zeta. apply lex_loop_sorted.
  - cbn. constructor.
  - constructor.
Qed.

Lemma string_length_list (s : string) : String.length s = length (list_ascii_of_string s).
Proof. induction s as [|c s IH]; cbn; [reflexivity|f_equal; exact IH]. Qed.

Theorem lex_offsets_in_text (s : string) (t : ptok) :
  In t (lx_toks (lex s)) -> pt_off t < String.length s.
Proof.
  unfold lex. cbv zeta. intros Hin. rewrite string_length_list.
  set (text := list_ascii_of_string s) in *.
  refine (lex_loop_inv text (fun t => pt_off t < length text) _ (S (length text)) 0 [] false _ t Hin).
  - intros off tk n u Hne _ _. cbn [pt_off].
    destruct (Nat.lt_ge_cases off (length text)) as [Hlt|Hge]; [exact Hlt|].
    exfalso. apply Hne. apply skipn_all2. exact Hge.
  - intros t0 [].
Qed.

Lemma str_of_length (l : list ascii) : String.length (str_of l) = length l.
Proof. unfold str_of. induction l as [|c l IH]; cbn; [reflexivity|f_equal; exact IH]. Qed.

Lemma firstn_length_firstn {A} : forall (k : nat) (l : list A), firstn (length (firstn k l)) l = firstn k l.
Proof.
  induction k as [|k IH]; intros l; [reflexivity|].
  destruct l as [|x l]; [reflexivity|]. cbn [firstn length]. f_equal. apply IH.
Qed.

Ltac break_step H :=
  repeat match type of H with
         | context [match ?x with _ => _ end] => destruct x; try discriminate H
         end.

Lemma number_step_name cs d n k u : number_step cs <> StTok (LxName d n) k u.
Proof.
  intros H. unfold number_step in H. cbv zeta in H. break_step H.
Qed.

(* a name token is a prefix of the remaining text *)
Lemma next_step_name cs d n k u : next_step cs = StTok (LxName d n) k u -> exists j, n = str_of (firstn j cs).
Proof.
  intros H. unfold next_step in H. destruct cs as [|c r]; [discriminate H|]. cbv zeta in H.
  destruct (is_ws c); [discriminate H|].
  destruct (is_alpha c).
  - break_step H; injection H as _ Hn _ _; subst n; eexists; reflexivity.
  - destruct (is_digit c || ceq c 46); [exfalso; exact (number_step_name _ _ _ _ _ H)|].
    break_step H.
Qed.

(* a name token is the text found at its offset *)
Theorem lex_name_lexeme (s : string) (t : ptok) (d : nat) (n : string) :
  In t (lx_toks (lex s)) -> pt_tok t = LxName d n ->
  str_of (firstn (String.length n) (skipn (pt_off t) (list_ascii_of_string s))) = n.
Proof.
  unfold lex. cbv zeta. intros Hin. revert d n.
  set (text := list_ascii_of_string s) in *.
  refine (lex_loop_inv text
            (fun t => forall d n, pt_tok t = LxName d n ->
                                  str_of (firstn (String.length n) (skipn (pt_off t) text)) = n)
            _ (S (length text)) 0 [] false _ t Hin).
  - intros off tk n u _ Hstep _ d nm Htk. cbn [pt_tok pt_off] in *. subst tk.
    destruct (next_step_name _ _ _ _ _ Hstep) as [k Hk]. subst nm.
    rewrite str_of_length, firstn_length_firstn. reflexivity.
  - intros t0 [].
Qed.

Print Assumptions lex_positions.
Print Assumptions lex_token_line.
Print Assumptions lex_offsets_increasing.
Print Assumptions lex_offsets_in_text.
Print Assumptions lex_name_lexeme.
